#!/bin/bash
# seeddemo.sh <worktree> <k> <package dir relative to worktree> <go test -run pattern>
# Confirms a seeded change's demonstration: fails with the patch, passes without.
WT=$1; K=$2; PKG=$3; PAT=$4
git -C $WT checkout -q -- . ; git -C $WT clean -qfd -e out
cp $WT/out/$K/demo/*_test.go $WT/$PKG/ 2>/dev/null
(cd $WT/$PKG && GOPROXY=off GOSUMDB=off go test -vet=off -count=1 -run "$PAT" . >/tmp/seeddemo.clean 2>&1) && clean=PASS || clean=FAIL
git -C $WT apply $WT/out/$K/patch.diff
(cd $WT/$PKG && GOPROXY=off GOSUMDB=off go test -vet=off -count=1 -run "$PAT" . >/tmp/seeddemo.mut 2>&1) && mut=PASS || mut=FAIL
echo "demo on clean tree: $clean; demo with patch: $mut"
[ "$clean" = PASS ] && [ "$mut" = FAIL ] && echo "DEMO CONFIRMED" || { echo "DEMO NOT CONFIRMED"; tail -5 /tmp/seeddemo.clean /tmp/seeddemo.mut; }
git -C $WT checkout -q -- . ; git -C $WT clean -qfd -e out
