#!/bin/bash
# seeddemo.sh <worktree> <k> <package dir relative to worktree | main> <go test -run pattern>
# Confirms a seeded change's demonstration: fails with the patch, passes without.
# With "main" the demonstration is out/<k>/demo/main.go, run from the ociregistry module.
WT=$1; K=$2; PKG=$3; PAT=$4
git -C $WT checkout -q -- . ; git -C $WT clean -qfd -e out
run() {
  if [ "$PKG" = main ]; then (cd $WT/ociregistry && GOPROXY=off GOSUMDB=off timeout 600 go run ../out/$K/demo/main.go >$1 2>&1)
  else (cd $WT/$PKG && GOPROXY=off GOSUMDB=off timeout 600 go test $SEEDDEMO_FLAGS -vet=off -count=1 -run "$PAT" . >$1 2>&1); fi
}
[ "$PKG" = main ] || cp $WT/out/$K/demo/*_test.go $WT/$PKG/ 2>/dev/null
run /tmp/seeddemo.clean && clean=PASS || clean=FAIL
git -C $WT apply $WT/out/$K/patch.diff
run /tmp/seeddemo.mut && mut=PASS || mut=FAIL
echo "demo on clean tree: $clean; demo with patch: $mut"
[ "$clean" = PASS ] && [ "$mut" = FAIL ] && echo "DEMO CONFIRMED" || { echo "DEMO NOT CONFIRMED"; tail -5 /tmp/seeddemo.clean /tmp/seeddemo.mut; }
git -C $WT checkout -q -- . ; git -C $WT clean -qfd -e out
