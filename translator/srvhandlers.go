package main

import (
	"fmt"
	"go/ast"
	"go/parser"
	"go/token"
	"os"
	"path/filepath"
	"sort"
	"strconv"
	"strings"
)

// genSrvHandlers abstracts the request handlers of package ociserver into the IR of
// lean/OciModel/SrvIR.lean:
//
//   - the dispatch table (request kind -> handler), from the `handlers` array of registry.go,
//     the list of request kinds from internal/ocirequest, and whether ServeHTTP/v2 have the
//     expected shape (classify, then call handlers[rreq.Kind]);
//   - one `Prog` per handler and per method of *registry that a handler hands the
//     http.ResponseWriter to (setLocationHeader, a delegated handler): backend calls with the
//     provenance of every argument, acquisition / defer Close / Close of the readers and writers
//     the backend returns, the nil-ness of `err`, headers set, status written, control flow.
//
// What is accepted, precisely (everything else becomes Prog.unknownShape, which fails every
// obligation):
//
//   - a reader/writer is acquired only by `v, err := r.backend.M(…)` or `v, err = r.backend.M(…)`
//     with v and err plain identifiers; v is then a *resource variable* of the function;
//   - a resource variable may appear only as the receiver of a method call (`v.Descriptor()`,
//     `v.Commit(d)`, …), as a direct argument of io.Copy/CopyN/CopyBuffer/ReadAll/ReadFull or of
//     fmt.Errorf/Sprintf/Sprint, in `var v T` without
//     a value, in `defer v.Close()`, in the statement
//     `v.Close()` and in `err := v.Close()` / `err = v.Close()` (also as the init of an if);
//     any other mention (assignment, argument of another function, closure capture, return value)
//     is an escape and is rejected;
//   - the response writer may appear only in `resp.Header().Set("literal", …)`,
//     `resp.WriteHeader(status)`, `resp.Write(…)`, `io.Copy(resp, …)`, `http.Redirect(resp, req, …, status)`
//     and as an argument of a method of *registry, called as `err := r.m(…)`, `if err := r.m(…); …`
//     or `return r.m(…)`, whose request argument (if any) is the caller's own;
//   - `r.backend` may appear only as the receiver of a method call; a backend call inside a function
//     literal is rejected; every function of the package that mentions the backend field is listed
//     (backendUsers) so that Lean can demand that each one was translated;
//   - control flow: if/else (with init), expression switch without init, return; loops, type
//     switches, selects, labels, goto/break/continue/fallthrough and non-Close defers are accepted
//     only when they mention none of the tracked objects and contain no return;
//   - `err` is the identifier err. An assignment the model does not interpret havocs it; leaving a
//     block (or an if with init) that declared its own err havocs it as well.
func genSrvHandlers(repo string) (string, error) {
	dir := filepath.Join(repo, "ociregistry/ociserver")
	fset := token.NewFileSet()
	entries, err := os.ReadDir(dir)
	if err != nil {
		return "", err
	}
	var files []*ast.File
	for _, e := range entries {
		n := e.Name()
		if !strings.HasSuffix(n, ".go") || strings.HasSuffix(n, "_test.go") {
			continue
		}
		f, err := parser.ParseFile(fset, filepath.Join(dir, n), nil, 0)
		normalizeFile(f)
		if err != nil {
			return "", err
		}
		files = append(files, f)
	}
	x := &srvExtract{
		closer:     map[string]string{},
		canFail:    map[string]bool{},
		resMethods: map[string]srvResMethod{},
		regMethods: map[string]*ast.FuncDecl{},
		consts:     map[string]string{},
	}
	if err := x.readInterface(repo); err != nil {
		return "", err
	}
	kinds, err := srvKinds(repo)
	if err != nil {
		return "", err
	}

	var dispatch [][2]string
	dispatchFound := false
	var backendUsers []string
	rreqImmutable := true
	for _, f := range files {
		for _, d := range f.Decls {
			switch d := d.(type) {
			case *ast.FuncDecl:
				if d.Body == nil {
					continue
				}
				if d.Recv != nil && len(d.Recv.List) == 1 && isStarIdent(d.Recv.List[0].Type, "registry") {
					x.regMethods[d.Name.Name] = d
				}
				if srvMentionsBackend(d.Body) {
					backendUsers = append(backendUsers, d.Name.Name)
				}
				if !srvRequestImmutable(d) {
					rreqImmutable = false
				}
			case *ast.GenDecl:
				if d.Tok == token.CONST {
					for _, sp := range d.Specs {
						vs := sp.(*ast.ValueSpec)
						for i, nm := range vs.Names {
							if i < len(vs.Values) {
								if lit, ok := vs.Values[i].(*ast.BasicLit); ok && lit.Kind == token.STRING {
									if sv, err := strconv.Unquote(lit.Value); err == nil {
										x.consts[nm.Name] = sv
									}
								}
							}
						}
					}
				}
				if d.Tok != token.VAR {
					continue
				}
				for _, s := range d.Specs {
					vs := s.(*ast.ValueSpec)
					if len(vs.Names) != 1 || vs.Names[0].Name != "handlers" || len(vs.Values) != 1 {
						continue
					}
					cl, ok := vs.Values[0].(*ast.CompositeLit)
					if !ok {
						return "", fmt.Errorf("registry.go: handlers is not a composite literal")
					}
					dispatchFound = true
					for _, el := range cl.Elts {
						kv, ok := el.(*ast.KeyValueExpr)
						if !ok {
							return "", fmt.Errorf("registry.go: handlers has an element without a key")
						}
						k, ok1 := kv.Key.(*ast.SelectorExpr)
						v := normNode(kv.Value)
						if !ok1 || !isIdent(k.X, "ocirequest") || !strings.HasPrefix(v, "(*registry).") {
							return "", fmt.Errorf("registry.go: handlers entry %s: %s not of the form ocirequest.ReqX: (*registry).handleY", normNode(kv.Key), v)
						}
						dispatch = append(dispatch, [2]string{k.Sel.Name, strings.TrimPrefix(v, "(*registry).")})
					}
				}
			}
		}
	}
	if !dispatchFound {
		return "", fmt.Errorf("registry.go: var handlers not found")
	}
	sort.Strings(backendUsers)

	// translate the handlers and, transitively, what they hand the response writer to
	progs := map[string]string{}
	var todo []string
	for _, d := range dispatch {
		todo = append(todo, d[1])
	}
	for len(todo) > 0 {
		name := todo[0]
		todo = todo[1:]
		if _, done := progs[name]; done {
			continue
		}
		fd := x.regMethods[name]
		if fd == nil {
			progs[name] = ".unknownShape " + leanStr("no method "+name+" on *registry")
			continue
		}
		fn := x.newFn(fd)
		progs[name] = fn.translate()
		todo = append(todo, fn.invoked...)
	}
	var names []string
	for n := range progs {
		names = append(names, n)
	}
	sort.Strings(names)

	var b strings.Builder
	b.WriteString("-- GENERATED by /verif/translator from ociregistry/ociserver/*.go, ociregistry/interface.go and\n-- ociregistry/internal/ocirequest/request.go. Do not edit.\n")
	b.WriteString("import OciModel.SrvIR\nnamespace OciModel.Generated.SrvHandlers\nopen OciModel.SrvIR\n\n")
	b.WriteString("/-- the request kinds declared by internal/ocirequest, in order -/\n")
	b.WriteString("def kinds : List String := " + leanStrList(kinds) + "\n\n")
	b.WriteString("/-- `var handlers = […]{ ocirequest.ReqX: (*registry).handleY, … }` -/\n")
	b.WriteString("def dispatch : List (String × String) := [\n")
	for i, d := range dispatch {
		sep := ","
		if i == len(dispatch)-1 {
			sep = ""
		}
		fmt.Fprintf(&b, "  (%s, %s)%s\n", leanStr(d[0]), leanStr(d[1]), sep)
	}
	b.WriteString("]\n\n")
	b.WriteString("/-- ServeHTTP is `if rerr := r.v2(resp, req); rerr != nil { r.opts.WriteError(resp, req, rerr); return }` and v2 ends in\n`rreq, err := ocirequest.Parse(req.Method, req.URL); if err != nil { …; return … }; handle := handlers[rreq.Kind]; return handle(r, req.Context(), resp, req, rreq)` -/\n")
	b.WriteString("def dispatchShapeOk : Bool := " + leanBool(srvDispatchShape(x.regMethods)) + "\n\n")
	b.WriteString("/-- no function of the package assigns through, or takes the address of a field of, its *ocirequest.Request parameter -/\n")
	b.WriteString("def rreqImmutable : Bool := " + leanBool(rreqImmutable) + "\n\n")
	b.WriteString("/-- every function of the package whose body mentions the `backend` field -/\n")
	b.WriteString("def backendUsers : List String := " + leanStrList(backendUsers) + "\n\n")
	b.WriteString("/-- methods of BlobReader / BlobWriter (other than the embedded io interfaces): (name, parameters (name, type), last result is an error) -/\n")
	b.WriteString("def resourceMethods : List (String × List (String × String) × Bool) := [\n")
	var rms []string
	for n := range x.resMethods {
		rms = append(rms, n)
	}
	sort.Strings(rms)
	for i, n := range rms {
		m := x.resMethods[n]
		var ps []string
		for _, p := range m.params {
			ps = append(ps, "("+leanStr(p[0])+", "+leanStr(p[1])+")")
		}
		sep := ","
		if i == len(rms)-1 {
			sep = ""
		}
		fmt.Fprintf(&b, "  (%s, [%s], %s)%s\n", leanStr(n), strings.Join(ps, ", "), leanBool(m.canFail), sep)
	}
	b.WriteString("]\n\n")
	for _, n := range names {
		fmt.Fprintf(&b, "def %s : Prog :=\n%s\n\n", n, indentLines(progs[n], "  "))
	}
	b.WriteString("/-- every translated function: the handlers of the dispatch table and the methods of *registry they pass the response writer to -/\n")
	b.WriteString("def handlers : List (String × Prog) := [\n")
	for i, n := range names {
		sep := ","
		if i == len(names)-1 {
			sep = ""
		}
		fmt.Fprintf(&b, "  (%s, %s)%s\n", leanStr(n), n, sep)
	}
	b.WriteString("]\n\nend OciModel.Generated.SrvHandlers\n")
	return b.String(), nil
}

func indentLines(s, ind string) string {
	ls := strings.Split(s, "\n")
	for i := range ls {
		ls[i] = ind + ls[i]
	}
	return strings.Join(ls, "\n")
}

// ---- facts about the interfaces ----

type srvResMethod struct {
	params  [][2]string
	canFail bool
}

// stringConst: a string literal, or an identifier declared `const name = "literal"` at package level.
func (x *srvExtract) stringConst(e ast.Expr) (string, bool) {
	switch v := e.(type) {
	case *ast.BasicLit:
		if v.Kind == token.STRING {
			s, err := strconv.Unquote(v.Value)
			return s, err == nil
		}
	case *ast.Ident:
		s, ok := x.consts[v.Name]
		return s, ok
	}
	return "", false
}

type srvExtract struct {
	consts     map[string]string // package-level string constants
	closer     map[string]string // Interface method -> "BlobReader" | "BlobWriter" when that is its first result
	canFail    map[string]bool   // Interface method -> last result is error
	resMethods map[string]srvResMethod
	regMethods map[string]*ast.FuncDecl
}

func (x *srvExtract) readInterface(repo string) error {
	fset := token.NewFileSet()
	g, err := parser.ParseFile(fset, filepath.Join(repo, "ociregistry/interface.go"), nil, 0)
	normalizeFile(g)
	if err != nil {
		return err
	}
	ifaces := map[string]*ast.InterfaceType{}
	ast.Inspect(g, func(n ast.Node) bool {
		if ts, ok := n.(*ast.TypeSpec); ok {
			if it, ok := ts.Type.(*ast.InterfaceType); ok {
				ifaces[ts.Name.Name] = it
			}
		}
		return true
	})
	top := ifaces["Interface"]
	if top == nil {
		return fmt.Errorf("interface.go: type Interface not found")
	}
	for _, m := range top.Methods.List {
		id, ok := m.Type.(*ast.Ident)
		if len(m.Names) != 0 || !ok || ifaces[id.Name] == nil {
			continue
		}
		for _, mm := range ifaces[id.Name].Methods.List {
			ft, ok := mm.Type.(*ast.FuncType)
			if !ok || len(mm.Names) != 1 {
				return fmt.Errorf("interface.go: %s embeds another interface; not supported", id.Name)
			}
			name := mm.Names[0].Name
			x.canFail[name] = false
			if ft.Results != nil && len(ft.Results.List) > 0 {
				rs := ft.Results.List
				if isIdent(rs[len(rs)-1].Type, "error") {
					x.canFail[name] = true
				}
				if t, ok := rs[0].Type.(*ast.Ident); ok && (t.Name == "BlobReader" || t.Name == "BlobWriter") {
					x.closer[name] = t.Name
				}
			}
		}
	}
	for _, tn := range []string{"BlobReader", "BlobWriter"} {
		it := ifaces[tn]
		if it == nil {
			return fmt.Errorf("interface.go: type %s not found", tn)
		}
		for _, mm := range it.Methods.List {
			ft, ok := mm.Type.(*ast.FuncType)
			if !ok || len(mm.Names) != 1 {
				continue // io.Writer, io.Closer, io.ReadCloser
			}
			var m srvResMethod
			for _, p := range ft.Params.List {
				for _, n := range p.Names {
					m.params = append(m.params, [2]string{n.Name, exprString(p.Type)})
				}
				if len(p.Names) == 0 {
					m.params = append(m.params, [2]string{"_", exprString(p.Type)})
				}
			}
			if ft.Results != nil && len(ft.Results.List) > 0 && isIdent(ft.Results.List[len(ft.Results.List)-1].Type, "error") {
				m.canFail = true
			}
			x.resMethods[tn+"."+mm.Names[0].Name] = m
		}
	}
	return nil
}

// srvKinds lists the Kind constants of internal/ocirequest (the const block that starts with `= Kind(iota)`).
func srvKinds(repo string) ([]string, error) {
	fset := token.NewFileSet()
	f, err := parser.ParseFile(fset, filepath.Join(repo, "ociregistry/internal/ocirequest/request.go"), nil, 0)
	normalizeFile(f)
	if err != nil {
		return nil, err
	}
	for _, d := range f.Decls {
		gd, ok := d.(*ast.GenDecl)
		if !ok || gd.Tok != token.CONST || len(gd.Specs) == 0 {
			continue
		}
		first := gd.Specs[0].(*ast.ValueSpec)
		if len(first.Values) != 1 || normNode(first.Values[0]) != "Kind(iota)" {
			continue
		}
		var out []string
		for i, s := range gd.Specs {
			vs := s.(*ast.ValueSpec)
			if len(vs.Names) != 1 || (i > 0 && len(vs.Values) != 0) {
				return nil, fmt.Errorf("request.go: the Kind constants are not a plain iota block")
			}
			out = append(out, vs.Names[0].Name)
		}
		return out, nil
	}
	return nil, fmt.Errorf("request.go: no `= Kind(iota)` const block")
}

func srvMentionsBackend(body *ast.BlockStmt) bool {
	found := false
	ast.Inspect(body, func(n ast.Node) bool {
		if s, ok := n.(*ast.SelectorExpr); ok && s.Sel.Name == "backend" {
			found = true
		}
		return !found
	})
	return found
}

// srvRequestParams returns the names of the parameters of type *ocirequest.Request.
func srvParamsOfType(ft *ast.FuncType, typ string) []string {
	var out []string
	for _, p := range ft.Params.List {
		if normNode(p.Type) == typ {
			for _, n := range p.Names {
				out = append(out, n.Name)
			}
		}
	}
	return out
}

// srvRequestImmutable: the function never assigns to, increments, or takes the address of
// (a field of) a *ocirequest.Request parameter.
func srvRequestImmutable(fd *ast.FuncDecl) bool {
	names := map[string]bool{}
	for _, n := range srvParamsOfType(fd.Type, "*ocirequest.Request") {
		names[n] = true
	}
	if len(names) == 0 {
		return true
	}
	var root func(e ast.Expr) string
	root = func(e ast.Expr) string {
		switch v := e.(type) {
		case *ast.Ident:
			return v.Name
		case *ast.SelectorExpr:
			return root(v.X)
		case *ast.StarExpr:
			return root(v.X)
		case *ast.ParenExpr:
			return root(v.X)
		case *ast.IndexExpr:
			return root(v.X)
		}
		return ""
	}
	ok := true
	ast.Inspect(fd.Body, func(n ast.Node) bool {
		switch v := n.(type) {
		case *ast.AssignStmt:
			for _, l := range v.Lhs {
				if _, isId := l.(*ast.Ident); !isId && names[root(l)] {
					ok = false
				}
				if id, isId := l.(*ast.Ident); isId && names[id.Name] {
					ok = false // the parameter itself is re-bound
				}
			}
		case *ast.IncDecStmt:
			if names[root(v.X)] {
				ok = false
			}
		case *ast.UnaryExpr:
			if v.Op == token.AND && names[root(v.X)] {
				ok = false
			}
		}
		return ok
	})
	return ok
}

// srvDispatchShape recognises ServeHTTP and the tail of v2.
func srvDispatchShape(reg map[string]*ast.FuncDecl) bool {
	serve, v2 := reg["ServeHTTP"], reg["v2"]
	if serve == nil || v2 == nil || len(serve.Body.List) != 1 {
		return false
	}
	if normNode(serve.Body.List[0]) != "if rerr := r.v2(resp, req); rerr != nil { r.opts.WriteError(resp, req, rerr) return }" {
		return false
	}
	l := v2.Body.List
	if len(l) < 4 {
		return false
	}
	l = l[len(l)-4:]
	if normNode(l[0]) != "rreq, err := ocirequest.Parse(req.Method, req.URL)" {
		return false
	}
	ifs, ok := l[1].(*ast.IfStmt)
	if !ok || ifs.Init != nil || ifs.Else != nil || normNode(ifs.Cond) != "err != nil" || len(ifs.Body.List) == 0 {
		return false
	}
	if _, ok := ifs.Body.List[len(ifs.Body.List)-1].(*ast.ReturnStmt); !ok {
		return false
	}
	// nothing before the classification may call a handler or return early
	early := false
	for _, s := range v2.Body.List[:len(v2.Body.List)-4] {
		ast.Inspect(s, func(n ast.Node) bool {
			switch v := n.(type) {
			case *ast.FuncLit:
				return false
			case *ast.ReturnStmt:
				early = true
			case *ast.Ident:
				if v.Name == "handlers" {
					early = true
				}
			}
			return true
		})
	}
	return !early && normNode(l[2]) == "handle := handlers[rreq.Kind]" &&
		normNode(l[3]) == "return handle(r, req.Context(), resp, req, rreq)"
}

// ---- one function ----

type srvNode struct {
	kind string // "atom" | "ret" | "alt" | "unknown"
	text string // atom: the Lean Atom; ret: the Ret constructor; alt: the Lean Cond; unknown: why
	p, q []srvNode
}

type srvFn struct {
	x         *srvExtract
	fd        *ast.FuncDecl
	recv      string
	resp      string
	rreq      string
	resources map[string]string // resource variable -> "BlobReader" | "BlobWriter"
	invoked   []string
	provBusy  map[string]bool // local variables whose provenance is being computed (cycle guard)
	nonNil    string          // identifier known to be non-nil at the first statement of the if body being translated
}

func (x *srvExtract) newFn(fd *ast.FuncDecl) *srvFn {
	f := &srvFn{x: x, fd: fd, recv: recvName(fd), resources: map[string]string{}}
	if ns := srvParamsOfType(fd.Type, "http.ResponseWriter"); len(ns) == 1 {
		f.resp = ns[0]
	}
	if ns := srvParamsOfType(fd.Type, "*ocirequest.Request"); len(ns) == 1 {
		f.rreq = ns[0]
	}
	return f
}

var srvStatusByName = map[string]int{
	"StatusOK": 200, "StatusCreated": 201, "StatusAccepted": 202, "StatusNonAuthoritativeInfo": 203, "StatusNoContent": 204,
	"StatusResetContent": 205, "StatusPartialContent": 206,
	"StatusMultipleChoices": 300, "StatusMovedPermanently": 301, "StatusFound": 302, "StatusSeeOther": 303, "StatusNotModified": 304,
	"StatusTemporaryRedirect": 307, "StatusPermanentRedirect": 308,
}

func srvStatus(e ast.Expr) (int, bool) {
	if s, ok := e.(*ast.SelectorExpr); ok && isIdent(s.X, "http") {
		if n, ok := srvStatusByName[s.Sel.Name]; ok {
			return n, true
		}
		n, ok := httpStatusByName[s.Sel.Name]
		return n, ok
	}
	if l, ok := e.(*ast.BasicLit); ok && l.Kind == token.INT {
		n, err := strconv.Atoi(l.Value)
		return n, err == nil
	}
	return 0, false
}

func (f *srvFn) unknown(why string, n ast.Node) []srvNode {
	t := normNode(n)
	if len(t) > 80 {
		t = t[:80] + "…"
	}
	return []srvNode{{kind: "unknown", text: f.fd.Name.Name + ": " + why + ": " + t}}
}

func atomNode(text string) srvNode { return srvNode{kind: "atom", text: text} }

func (f *srvFn) translate() string {
	fd := f.fd
	if len(fd.Recv.List[0].Names) != 1 || f.recv == "" {
		return renderProg(f.unknown("receiver has no name", fd.Type))
	}
	if f.resp == "" {
		return renderProg(f.unknown("not exactly one http.ResponseWriter parameter", fd.Type))
	}
	if len(srvParamsOfType(fd.Type, "*ocirequest.Request")) > 1 {
		return renderProg(f.unknown("more than one request parameter", fd.Type))
	}
	if fd.Type.Results == nil || len(fd.Type.Results.List) != 1 || len(fd.Type.Results.List[0].Names) > 1 || !isIdent(fd.Type.Results.List[0].Type, "error") {
		return renderProg(f.unknown("result is not a single error", fd.Type))
	}
	// resource variables: the first left-hand side of an assignment from a reader/writer-returning backend call
	ast.Inspect(fd.Body, func(n ast.Node) bool {
		as, ok := n.(*ast.AssignStmt)
		if !ok || len(as.Rhs) != 1 || len(as.Lhs) == 0 {
			return true
		}
		if m, _, ok := f.backendCall(as.Rhs[0]); ok && f.x.closer[m] != "" {
			if id, ok := as.Lhs[0].(*ast.Ident); ok && id.Name != "_" {
				if old, seen := f.resources[id.Name]; seen && old != f.x.closer[m] {
					f.resources[id.Name] = "?"
				} else {
					f.resources[id.Name] = f.x.closer[m]
				}
			}
		}
		return true
	})
	nodes := f.block(fd.Body.List, true)
	return renderProg(nodes)
}

// backendCall recognises `recv.backend.M(args…)`.
func (f *srvFn) backendCall(e ast.Expr) (method string, call *ast.CallExpr, ok bool) {
	c, isCall := e.(*ast.CallExpr)
	if !isCall {
		return "", nil, false
	}
	sel, isSel := c.Fun.(*ast.SelectorExpr)
	if !isSel {
		return "", nil, false
	}
	inner, isSel2 := sel.X.(*ast.SelectorExpr)
	if !isSel2 || !isIdent(inner.X, f.recv) || inner.Sel.Name != "backend" {
		return "", nil, false
	}
	return sel.Sel.Name, c, true
}

// resourceCall recognises `v.M(args…)` on a resource variable.
func (f *srvFn) resourceCall(e ast.Expr) (v, method string, call *ast.CallExpr, ok bool) {
	c, isCall := e.(*ast.CallExpr)
	if !isCall {
		return "", "", nil, false
	}
	sel, isSel := c.Fun.(*ast.SelectorExpr)
	if !isSel {
		return "", "", nil, false
	}
	id, isId := sel.X.(*ast.Ident)
	if !isId || f.resources[id.Name] == "" {
		return "", "", nil, false
	}
	return id.Name, sel.Sel.Name, c, true
}

// invokeCall recognises `recv.m(…)` where m is a method of *registry with an http.ResponseWriter
// parameter, called with this function's response writer (and, if m takes a request, this
// function's request).
func (f *srvFn) invokeCall(e ast.Expr) (name string, ok bool, why string) {
	c, isCall := e.(*ast.CallExpr)
	if !isCall {
		return "", false, ""
	}
	sel, isSel := c.Fun.(*ast.SelectorExpr)
	if !isSel || !isIdent(sel.X, f.recv) {
		return "", false, ""
	}
	callee := f.x.regMethods[sel.Sel.Name]
	if callee == nil || len(srvParamsOfType(callee.Type, "http.ResponseWriter")) == 0 {
		return "", false, ""
	}
	// positional check of the response writer and request arguments
	i := 0
	for _, p := range callee.Type.Params.List {
		n := len(p.Names)
		if n == 0 {
			n = 1
		}
		for j := 0; j < n; j++ {
			if i >= len(c.Args) {
				return "", false, "too few arguments"
			}
			switch normNode(p.Type) {
			case "http.ResponseWriter":
				if !isIdent(c.Args[i], f.resp) {
					return "", false, "a different response writer is passed"
				}
			case "*ocirequest.Request":
				if f.rreq == "" || !isIdent(c.Args[i], f.rreq) {
					return "", false, "a different request is passed"
				}
			default:
				if viol := f.scanViolation(c.Args[i]); viol != "" {
					return "", false, viol
				}
			}
			i++
		}
	}
	if i != len(c.Args) {
		return "", false, "too many arguments"
	}
	return sel.Sel.Name, true, ""
}

// qual qualifies a resource variable with its function, so that a callee's variable of the same
// name is a different resource.
func (f *srvFn) qual(v string) string { return f.fd.Name.Name + "." + v }

// ---- provenance of arguments ----

func (f *srvFn) prov(e ast.Expr) string {
	switch v := e.(type) {
	case *ast.ParenExpr:
		return f.prov(v.X)
	case *ast.CallExpr:
		if len(v.Args) == 1 && (normNode(v.Fun) == "ociregistry.Digest" || normNode(v.Fun) == "string" || normNode(v.Fun) == "digest.Digest") {
			return f.prov(v.Args[0])
		}
	case *ast.SelectorExpr:
		if f.rreq != "" && isIdent(v.X, f.rreq) {
			return ".field " + leanStr(v.Sel.Name)
		}
	case *ast.BasicLit:
		if v.Kind == token.STRING {
			if s, err := strconv.Unquote(v.Value); err == nil {
				return ".lit " + leanStr(s)
			}
		}
	case *ast.CompositeLit:
		if normNode(v.Type) == "ociregistry.Descriptor" {
			for _, el := range v.Elts {
				if kv, ok := el.(*ast.KeyValueExpr); ok && isIdent(kv.Key, "Digest") {
					return ".desc (" + f.prov(kv.Value) + ")"
				}
			}
			return ".desc (.lit \"\")"
		}
	case *ast.Ident:
		if p, ok := f.localProv(v.Name); ok {
			return p
		}
	}
	t := normNode(e)
	if len(t) > 60 {
		t = t[:60] + "…"
	}
	return ".other " + leanStr(t)
}

// localProv: a local string variable all of whose assignments are `x = rreq.F` (one F), `x = ""`
// or a declaration without value, that is never assigned inside a function literal, whose address
// is never taken, and that is not a parameter.
func (f *srvFn) localProv(name string) (string, bool) {
	if f.provBusy == nil {
		f.provBusy = map[string]bool{}
	}
	if f.provBusy[name] {
		return "", false
	}
	f.provBusy[name] = true
	defer delete(f.provBusy, name)
	for _, p := range f.fd.Type.Params.List {
		for _, n := range p.Names {
			if n.Name == name {
				return "", false
			}
		}
	}
	if f.fd.Type.Results != nil {
		for _, p := range f.fd.Type.Results.List {
			for _, n := range p.Names {
				if n.Name == name {
					return "", false
				}
			}
		}
	}
	field, zero, decls, bad := "", false, 0, false
	value := func(e ast.Expr) {
		p := f.prov(e)
		switch {
		case p == `.lit ""`:
			zero = true
		case strings.HasPrefix(p, ".field "):
			if field != "" && field != p {
				bad = true
			}
			field = p
		default:
			bad = true
		}
	}
	var walk func(n ast.Node, inLit bool)
	walk = func(n ast.Node, inLit bool) {
		ast.Inspect(n, func(n ast.Node) bool {
			switch v := n.(type) {
			case *ast.FuncLit:
				if !inLit {
					walk(v.Body, true)
					return false
				}
			case *ast.AssignStmt:
				for i, l := range v.Lhs {
					if !isIdent(l, name) {
						continue
					}
					if inLit || len(v.Lhs) != len(v.Rhs) || (v.Tok != token.ASSIGN && v.Tok != token.DEFINE) {
						bad = true
						continue
					}
					if v.Tok == token.DEFINE {
						decls++
					}
					value(v.Rhs[i])
				}
			case *ast.ValueSpec:
				for i, n := range v.Names {
					if n.Name != name {
						continue
					}
					decls++
					if inLit || !(v.Type == nil || isIdent(v.Type, "string")) {
						bad = true
					} else if len(v.Values) == 0 {
						zero = true
					} else if i < len(v.Values) {
						value(v.Values[i])
					} else {
						bad = true
					}
				}
			case *ast.IncDecStmt:
				if isIdent(v.X, name) {
					bad = true
				}
			case *ast.UnaryExpr:
				if v.Op == token.AND && isIdent(v.X, name) {
					bad = true
				}
			case *ast.RangeStmt:
				if isIdent(v.Key, name) || isIdent(v.Value, name) {
					bad = true
				}
			}
			return true
		})
	}
	walk(f.fd.Body, false)
	if bad || decls != 1 || field == "" {
		return "", false
	}
	if zero {
		return ".fieldOrEmpty " + strings.TrimPrefix(field, ".field "), true
	}
	return field, true
}

func (f *srvFn) callTerm(method string, args []ast.Expr, canFail bool) string {
	ps := make([]string, len(args))
	for i, a := range args {
		ps[i] = f.prov(a)
	}
	return "⟨" + leanStr(method) + ", [" + strings.Join(ps, ", ") + "], " + leanBool(canFail) + "⟩"
}

// backendCallTerm drops the leading context argument.
func (f *srvFn) backendCallTerm(method string, c *ast.CallExpr) string {
	args := c.Args
	if len(args) > 0 {
		args = args[1:]
	}
	return f.callTerm(method, args, f.x.canFail[method])
}

// ---- scanning of uninterpreted code ----

// scan walks code the translator does not interpret. It returns the call atoms of the backend
// calls (and reader/writer method calls with arguments or an error result) nested in it, in
// evaluation order of nesting, and the first violation of the accepted shape, if any.
func (f *srvFn) scan(n ast.Node) (atoms []srvNode, viol string, funcLit bool) {
	if n == nil {
		return nil, "", false
	}
	var visit func(n ast.Node, inLit bool)
	note := func(v string) {
		if viol == "" {
			viol = v
		}
	}
	visit = func(n ast.Node, inLit bool) {
		ast.Inspect(n, func(n ast.Node) bool {
			switch v := n.(type) {
			case *ast.FuncLit:
				funcLit = true
				if !inLit {
					visit(v.Body, true)
					return false
				}
			case *ast.ReturnStmt:
				if !inLit {
					note("a return inside a statement that is not interpreted")
				}
			case *ast.AssignStmt:
				if v.Tok == token.DEFINE {
					for _, l := range v.Lhs {
						if id, ok := l.(*ast.Ident); ok && f.tracked(id.Name) {
							note("a tracked parameter is shadowed")
						}
					}
				}
			case *ast.ValueSpec:
				for _, nm := range v.Names {
					if f.tracked(nm.Name) {
						note("a tracked parameter is shadowed")
					}
				}
			case *ast.RangeStmt:
				for _, e := range []ast.Expr{v.Key, v.Value} {
					if id, ok := e.(*ast.Ident); ok && f.tracked(id.Name) {
						note("a tracked parameter is shadowed")
					}
				}
			case *ast.FuncType:
				if v.Params != nil {
					for _, p := range v.Params.List {
						for _, nm := range p.Names {
							if f.tracked(nm.Name) {
								note("a tracked parameter is shadowed")
							}
						}
					}
				}
			case *ast.CallExpr:
				if isIdent(v.Fun, "panic") && !inLit {
					note("a panic (a path that ends without a return)")
				}
				if m, c, ok := f.backendCall(v); ok {
					for _, a := range c.Args {
						visit(a, inLit)
					}
					if inLit {
						note("a backend call inside a function literal")
					}
					if f.x.closer[m] != "" {
						note("a reader/writer is acquired in an unrecognised position")
					}
					if _, known := f.x.canFail[m]; !known {
						note("unknown backend method " + m)
					}
					atoms = append(atoms, atomNode(".call "+f.backendCallTerm(m, c)+" false"))
					return false
				}
				if rv, m, c, ok := f.resourceCall(v); ok {
					for _, a := range c.Args {
						visit(a, inLit)
					}
					if inLit {
						note("a reader/writer is used inside a function literal")
					}
					if m == "Close" {
						note("Close in an unrecognised position")
					}
					if rm, ok := f.x.resMethods[f.resources[rv]+"."+m]; ok && (len(rm.params) > 0 || rm.canFail) {
						atoms = append(atoms, atomNode(".call "+f.callTerm(f.resources[rv]+"."+m, c.Args, rm.canFail)+" false"))
					}
					return false
				}
				if fn := normNode(v.Fun); srvHarmlessCallee[fn] && !inLit {
					for _, a := range v.Args {
						if id, ok := a.(*ast.Ident); ok && f.resources[id.Name] != "" {
							continue // a reader/writer as a direct argument of io.Copy or of a fmt formatter
						}
						visit(a, inLit)
					}
					return false
				}
			case *ast.SelectorExpr:
				if isIdent(v.X, f.recv) && v.Sel.Name == "backend" {
					note("the backend is used other than as the receiver of a call")
				}
			case *ast.Ident:
				if v.Name == f.resp {
					note("the response writer is used in an unrecognised way")
				}
				if f.resources[v.Name] != "" {
					note("a reader/writer escapes")
				}
			}
			return true
		})
	}
	visit(n, false)
	return atoms, viol, funcLit
}

// srvHarmlessCallee: functions a reader/writer may be passed to directly; none of them closes
// its argument or retains it.
var srvHarmlessCallee = map[string]bool{"io.Copy": true, "io.CopyN": true, "io.CopyBuffer": true, "io.ReadAll": true, "io.ReadFull": true,
	"fmt.Errorf": true, "fmt.Sprintf": true, "fmt.Sprint": true}

// tracked: the response writer and the classified request (shadowing the receiver is harmless:
// only *registry has a backend field).
func (f *srvFn) tracked(name string) bool {
	return name != "" && name != "_" && (name == f.resp || name == f.rreq)
}

func (f *srvFn) scanViolation(n ast.Node) string {
	_, v, _ := f.scan(n)
	return v
}

// assignsErr: the statement (outside function literals) assigns the identifier err.
func assignsErr(n ast.Node) bool {
	found := false
	ast.Inspect(n, func(n ast.Node) bool {
		switch v := n.(type) {
		case *ast.FuncLit:
			return false
		case *ast.AssignStmt:
			for _, l := range v.Lhs {
				if isIdent(l, "err") {
					found = true
				}
			}
		case *ast.ValueSpec:
			for _, nm := range v.Names {
				if nm.Name == "err" {
					found = true
				}
			}
		case *ast.RangeStmt:
			if isIdent(v.Key, "err") || isIdent(v.Value, "err") {
				found = true
			}
		}
		return true
	})
	return found
}

// declaresErr: the statement itself declares a new err in the enclosing block.
func declaresErr(s ast.Stmt) bool {
	switch v := s.(type) {
	case *ast.AssignStmt:
		if v.Tok == token.DEFINE {
			for _, l := range v.Lhs {
				if isIdent(l, "err") {
					return true
				}
			}
		}
	case *ast.DeclStmt:
		if gd, ok := v.Decl.(*ast.GenDecl); ok {
			for _, sp := range gd.Specs {
				if vs, ok := sp.(*ast.ValueSpec); ok {
					for _, nm := range vs.Names {
						if nm.Name == "err" {
							return true
						}
					}
				}
			}
		}
	}
	return false
}

// opaque handles a statement the model does not interpret: the backend calls nested in it, then
// a havoc of err if it may assign it.
func (f *srvFn) opaque(s ast.Node) []srvNode {
	atoms, viol, lit := f.scan(s)
	if viol != "" {
		return f.unknown(viol, s)
	}
	if assignsErr(s) || lit {
		atoms = append(atoms, atomNode(".havocErr"))
	}
	return atoms
}

// ---- conditions ----

func (f *srvFn) optField(e ast.Expr) (string, bool) {
	s, ok := e.(*ast.SelectorExpr)
	if !ok {
		return "", false
	}
	in, ok := s.X.(*ast.SelectorExpr)
	if !ok || !isIdent(in.X, f.recv) || in.Sel.Name != "opts" {
		return "", false
	}
	return s.Sel.Name, true
}

func (f *srvFn) cond(e ast.Expr) string {
	switch v := e.(type) {
	case *ast.ParenExpr:
		return f.cond(v.X)
	case *ast.UnaryExpr:
		if v.Op == token.NOT {
			return ".not (" + f.cond(v.X) + ")"
		}
	case *ast.SelectorExpr:
		if n, ok := f.optField(v); ok {
			return ".opt " + leanStr(n)
		}
	case *ast.BinaryExpr:
		switch v.Op {
		case token.LOR:
			return ".or (" + f.cond(v.X) + ") (" + f.cond(v.Y) + ")"
		case token.LAND:
			return ".and (" + f.cond(v.X) + ") (" + f.cond(v.Y) + ")"
		case token.NEQ, token.EQL:
			pos := ""
			switch {
			case isIdent(v.X, "err") && isIdent(v.Y, "nil"):
				pos = ".errSet"
			case f.rreq != "" && normNode(v.X) == f.rreq+".Tag" && normNode(v.Y) == `""`:
				pos = ".tagSet"
			default:
				if n, ok := f.optField(v.X); ok && isIdent(v.Y, "nil") {
					pos = ".opt " + leanStr(n)
				}
			}
			if pos != "" {
				if v.Op == token.NEQ {
					return pos
				}
				return ".not (" + pos + ")"
			}
		case token.GTR:
			if n, ok := f.optField(v.X); ok && normNode(v.Y) == "0" {
				return ".opt " + leanStr(n)
			}
		}
	}
	t := normNode(e)
	if len(t) > 60 {
		t = t[:60] + "…"
	}
	return ".unknown " + leanStr(t)
}

// ---- statements ----

func (f *srvFn) block(stmts []ast.Stmt, funcBody bool) []srvNode {
	var out []srvNode
	ownErr := false
	for _, s := range stmts {
		if declaresErr(s) {
			ownErr = true
		}
		out = append(out, f.stmt(s)...)
	}
	if ownErr && !funcBody {
		out = append(out, atomNode(".havocErr"))
	}
	return out
}

func (f *srvFn) stmt(s ast.Stmt) []srvNode {
	defer func() { f.nonNil = "" }()
	switch v := s.(type) {
	case *ast.EmptyStmt:
		return nil
	case *ast.BlockStmt:
		return f.block(v.List, false)
	case *ast.ReturnStmt:
		return f.ret(v)
	case *ast.IfStmt:
		return f.ifStmt(v)
	case *ast.SwitchStmt:
		return f.switchStmt(v)
	case *ast.DeferStmt:
		if rv, m, c, ok := f.resourceCall(v.Call); ok && m == "Close" && len(c.Args) == 0 {
			return []srvNode{atomNode(".deferClose " + leanStr(f.qual(rv)))}
		}
		return f.unknown("a defer other than `defer v.Close()` on a reader/writer", s)
	case *ast.ExprStmt:
		return f.exprStmt(v)
	case *ast.AssignStmt:
		return f.assign(v)
	case *ast.DeclStmt:
		// `var v T` may declare a reader/writer variable, but only without a value
		gd, ok := v.Decl.(*ast.GenDecl)
		if !ok || gd.Tok != token.VAR {
			return f.opaque(s)
		}
		var out []srvNode
		for _, sp := range gd.Specs {
			vs := sp.(*ast.ValueSpec)
			for _, nm := range vs.Names {
				if f.resources[nm.Name] != "" && len(vs.Values) > 0 {
					return f.unknown("a reader/writer variable is declared with a value", s)
				}
				if nm.Name == f.resp || (f.rreq != "" && nm.Name == f.rreq) || nm.Name == f.recv {
					return f.unknown("a tracked parameter is shadowed", s)
				}
			}
			lit := false
			for _, e := range vs.Values {
				as, viol, l := f.scan(e)
				if viol != "" {
					return f.unknown(viol, s)
				}
				out = append(out, as...)
				lit = lit || l
			}
			if assignsErr(s) || lit {
				out = append(out, atomNode(".havocErr"))
			}
		}
		return out
	case *ast.BranchStmt, *ast.LabeledStmt, *ast.GoStmt, *ast.SelectStmt:
		return f.unknown("statement kind not accepted in a handler", s)
	}
	// declarations, inc/dec, loops, type switches, sends: uninterpreted
	return f.opaque(s)
}

func (f *srvFn) ret(v *ast.ReturnStmt) []srvNode {
	if len(v.Results) != 1 {
		return f.unknown("return without exactly one value", v)
	}
	e := v.Results[0]
	if name, ok, why := f.invokeCall(e); ok {
		f.invoked = append(f.invoked, name)
		return []srvNode{atomNode(".invoke " + leanStr(name)), {kind: "ret", text: ".errVar"}}
	} else if why != "" {
		return f.unknown(why, v)
	}
	atoms, viol, _ := f.scan(e)
	if viol != "" {
		return f.unknown(viol, v)
	}
	kind := ".unknown"
	switch x := e.(type) {
	case *ast.Ident:
		switch x.Name {
		case "nil":
			kind = ".ok"
		case "err":
			kind = ".errVar"
		case f.nonNil:
			kind = ".fail"
		}
	case *ast.CallExpr:
		switch normNode(x.Fun) {
		case "fmt.Errorf", "errors.New", "withHTTPCode", "badAPIUseError", "ociregistry.NewError", "ociregistry.NewHTTPError":
			kind = ".fail"
		}
	case *ast.SelectorExpr:
		if isIdent(x.X, "ociregistry") && strings.HasPrefix(x.Sel.Name, "Err") {
			kind = ".fail"
		}
	}
	return append(atoms, srvNode{kind: "ret", text: kind})
}

func (f *srvFn) ifStmt(v *ast.IfStmt) []srvNode {
	var out []srvNode
	ownErr := false
	if v.Init != nil {
		out = append(out, f.stmt(v.Init)...)
		ownErr = declaresErr(v.Init)
	}
	atoms, viol, lit := f.scan(v.Cond)
	if viol != "" {
		return append(out, f.unknown(viol, v.Cond)...)
	}
	out = append(out, atoms...)
	if lit {
		out = append(out, atomNode(".havocErr"))
	}
	n := srvNode{kind: "alt", text: f.cond(v.Cond)}
	// `if x != nil { return x … }`: the first statement of the body returns a value just tested non-nil
	if be, ok := v.Cond.(*ast.BinaryExpr); ok && be.Op == token.NEQ && isIdent(be.Y, "nil") && len(v.Body.List) > 0 {
		if id, ok := be.X.(*ast.Ident); ok {
			if r, ok := v.Body.List[0].(*ast.ReturnStmt); ok && len(r.Results) == 1 && isIdent(r.Results[0], id.Name) && id.Name != "err" {
				f.nonNil = id.Name
			}
		}
	}
	n.p = f.block(v.Body.List, false)
	f.nonNil = ""
	switch e := v.Else.(type) {
	case nil:
	case *ast.BlockStmt:
		n.q = f.block(e.List, false)
	case *ast.IfStmt:
		n.q = f.ifStmt(e)
	default:
		n.q = f.unknown("else branch", v)
	}
	out = append(out, n)
	if ownErr {
		out = append(out, atomNode(".havocErr"))
	}
	return out
}

func (f *srvFn) switchStmt(v *ast.SwitchStmt) []srvNode {
	if v.Init != nil {
		return f.unknown("switch with an init statement", v)
	}
	var out []srvNode
	tag := "true"
	if v.Tag != nil {
		atoms, viol, lit := f.scan(v.Tag)
		if viol != "" {
			return f.unknown(viol, v.Tag)
		}
		out = append(out, atoms...)
		if lit {
			out = append(out, atomNode(".havocErr"))
		}
		tag = normNode(v.Tag)
	}
	type clause struct {
		cond string
		body []srvNode
	}
	var cases []clause
	var deflt []srvNode
	for _, c := range v.Body.List {
		cc := c.(*ast.CaseClause)
		for _, e := range cc.List {
			if viol := f.scanViolation(e); viol != "" {
				return f.unknown(viol, e)
			}
			if as, _, _ := f.scan(e); len(as) > 0 {
				return f.unknown("a backend call in a case expression", e)
			}
		}
		body := f.block(cc.Body, false)
		if cc.List == nil {
			deflt = body
			continue
		}
		var es []string
		for _, e := range cc.List {
			es = append(es, normNode(e))
		}
		t := "switch " + tag + " case " + strings.Join(es, ", ")
		if len(t) > 70 {
			t = t[:70] + "…"
		}
		cases = append(cases, clause{".unknown " + leanStr(t), body})
	}
	rest := deflt
	for i := len(cases) - 1; i >= 0; i-- {
		rest = []srvNode{{kind: "alt", text: cases[i].cond, p: cases[i].body, q: rest}}
	}
	return append(out, rest...)
}

func (f *srvFn) exprStmt(v *ast.ExprStmt) []srvNode {
	call, ok := v.X.(*ast.CallExpr)
	if !ok {
		return f.opaque(v)
	}
	if rv, m, c, ok := f.resourceCall(call); ok && m == "Close" && len(c.Args) == 0 {
		return []srvNode{atomNode(".close " + leanStr(f.qual(rv)) + " false")}
	}
	fun := normNode(call.Fun)
	argsClean := func(args []ast.Expr) ([]srvNode, string) {
		var atoms []srvNode
		for _, a := range args {
			if id, ok := a.(*ast.Ident); ok && f.resources[id.Name] != "" && (fun == "io.Copy") {
				continue
			}
			as, viol, _ := f.scan(a)
			if viol != "" {
				return nil, viol
			}
			atoms = append(atoms, as...)
		}
		return atoms, ""
	}
	switch {
	case fun == f.resp+".Header().Set" && len(call.Args) == 2:
		name, ok := f.x.stringConst(call.Args[0])
		if !ok {
			return f.unknown("header name is not a string literal or a package-level string constant", v)
		}
		atoms, viol := argsClean(call.Args[1:])
		if viol != "" {
			return f.unknown(viol, v)
		}
		return append(atoms, atomNode(".header "+leanStr(name)))
	case fun == f.resp+".WriteHeader" && len(call.Args) == 1:
		code, ok := srvStatus(call.Args[0])
		if !ok {
			return f.unknown("status is not a net/http constant or an integer literal", v)
		}
		return []srvNode{atomNode(fmt.Sprintf(".status %d", code))}
	case fun == f.resp+".Write" && len(call.Args) == 1:
		atoms, viol := argsClean(call.Args)
		if viol != "" {
			return f.unknown(viol, v)
		}
		return append(atoms, atomNode(".body"))
	case fun == "io.Copy" && len(call.Args) == 2 && isIdent(call.Args[0], f.resp):
		atoms, viol := argsClean(call.Args[1:])
		if viol != "" {
			return f.unknown(viol, v)
		}
		return append(atoms, atomNode(".body"))
	case fun == "http.Redirect" && len(call.Args) == 4 && isIdent(call.Args[0], f.resp):
		code, ok := srvStatus(call.Args[3])
		if !ok {
			return f.unknown("redirect status is not a net/http constant or an integer literal", v)
		}
		atoms, viol := argsClean(call.Args[1:3])
		if viol != "" {
			return f.unknown(viol, v)
		}
		return append(atoms,
			atomNode(`.header "Location"`),
			srvNode{kind: "alt", text: `.unknown "http.Redirect: the method is GET or HEAD and no Content-Type is set"`, p: []srvNode{atomNode(`.header "Content-Type"`)}},
			atomNode(fmt.Sprintf(".status %d", code)),
			atomNode(".body"))
	}
	if m, c, ok := f.backendCall(call); ok && f.x.closer[m] == "" {
		// results discarded
		var atoms []srvNode
		for _, a := range c.Args {
			as, viol, _ := f.scan(a)
			if viol != "" {
				return f.unknown(viol, v)
			}
			atoms = append(atoms, as...)
		}
		if _, known := f.x.canFail[m]; !known {
			return f.unknown("unknown backend method "+m, v)
		}
		return append(atoms, atomNode(".call "+f.backendCallTerm(m, c)+" false"))
	}
	if _, ok, _ := f.invokeCall(call); ok {
		return f.unknown("the result of a method that receives the response writer is discarded", v)
	}
	return f.opaque(v)
}

func (f *srvFn) assign(v *ast.AssignStmt) []srvNode {
	for _, l := range v.Lhs {
		if id, ok := l.(*ast.Ident); ok && (id.Name == f.resp || id.Name == f.rreq || id.Name == f.recv) && id.Name != "" {
			return f.unknown("a tracked parameter is re-bound", v)
		}
	}
	lastIsErr := len(v.Lhs) > 0 && isIdent(v.Lhs[len(v.Lhs)-1], "err")
	plain := v.Tok == token.ASSIGN || v.Tok == token.DEFINE
	if len(v.Rhs) == 1 && plain {
		rhs := v.Rhs[0]
		if m, c, ok := f.backendCall(rhs); ok {
			var atoms []srvNode
			for _, a := range c.Args {
				as, viol, _ := f.scan(a)
				if viol != "" {
					return f.unknown(viol, v)
				}
				atoms = append(atoms, as...)
			}
			if _, known := f.x.canFail[m]; !known {
				return f.unknown("unknown backend method "+m, v)
			}
			for _, l := range v.Lhs[1:] {
				if id, ok := l.(*ast.Ident); ok && f.resources[id.Name] != "" {
					return f.unknown("a reader/writer variable is assigned something else", v)
				}
			}
			if kind := f.x.closer[m]; kind != "" {
				id, ok := v.Lhs[0].(*ast.Ident)
				if !ok || len(v.Lhs) != 2 || !lastIsErr || f.resources[id.Name] != kind {
					return f.unknown("acquisition is not `v, err := r.backend.M(…)`", v)
				}
				return append(atoms, atomNode(".acquire "+leanStr(f.qual(id.Name))+" "+f.backendCallTerm(m, c)))
			}
			if id, ok := v.Lhs[0].(*ast.Ident); ok && f.resources[id.Name] != "" {
				return f.unknown("a reader/writer variable is assigned something else", v)
			}
			binds := lastIsErr && f.x.canFail[m]
			if !binds && assignsErr(v) {
				return f.unknown("err is assigned a non-error result of a backend call", v)
			}
			return append(atoms, atomNode(".call "+f.backendCallTerm(m, c)+" "+leanBool(binds)))
		}
		if rv, m, c, ok := f.resourceCall(rhs); ok {
			for _, l := range v.Lhs {
				if id, ok := l.(*ast.Ident); ok && f.resources[id.Name] != "" {
					return f.unknown("a reader/writer variable is assigned something else", v)
				}
			}
			if m == "Close" {
				if len(v.Lhs) != 1 || !lastIsErr || len(c.Args) != 0 {
					return f.unknown("Close in an unrecognised position", v)
				}
				return []srvNode{atomNode(".close " + leanStr(f.qual(rv)) + " true")}
			}
			if rm, ok := f.x.resMethods[f.resources[rv]+"."+m]; ok && (len(rm.params) > 0 || rm.canFail) {
				var atoms []srvNode
				for _, a := range c.Args {
					as, viol, _ := f.scan(a)
					if viol != "" {
						return f.unknown(viol, v)
					}
					atoms = append(atoms, as...)
				}
				binds := lastIsErr && rm.canFail
				if !binds && assignsErr(v) {
					return f.unknown("err is assigned a non-error result", v)
				}
				return append(atoms, atomNode(".call "+f.callTerm(f.resources[rv]+"."+m, c.Args, rm.canFail)+" "+leanBool(binds)))
			}
		}
		if name, ok, why := f.invokeCall(rhs); ok {
			if len(v.Lhs) != 1 || !lastIsErr {
				return f.unknown("the result of a method that receives the response writer is not assigned to err", v)
			}
			f.invoked = append(f.invoked, name)
			return []srvNode{atomNode(".invoke " + leanStr(name))}
		} else if why != "" {
			return f.unknown(why, v)
		}
	}
	for _, l := range v.Lhs {
		if id, ok := l.(*ast.Ident); ok && f.resources[id.Name] != "" {
			return f.unknown("a reader/writer variable is assigned something else", v)
		}
	}
	// uninterpreted: scan only the right-hand sides and non-identifier left-hand sides
	var atoms []srvNode
	lit := false
	for _, e := range append(append([]ast.Expr{}, v.Rhs...), v.Lhs...) {
		if _, isId := e.(*ast.Ident); isId {
			if id := e.(*ast.Ident); id.Name == f.resp {
				return f.unknown("the response writer is used in an unrecognised way", v)
			}
			continue
		}
		as, viol, l := f.scan(e)
		if viol != "" {
			return f.unknown(viol, v)
		}
		atoms = append(atoms, as...)
		lit = lit || l
	}
	if assignsErr(v) || lit {
		atoms = append(atoms, atomNode(".havocErr"))
	}
	return atoms
}

// ---- rendering ----

func renderProg(ns []srvNode) string {
	var lines []string
	for i, n := range ns {
		switch n.kind {
		case "atom":
			lines = append(lines, ".atom ("+n.text+") <|")
		case "alt":
			lines = append(lines, ".alt ("+n.text+") (")
			lines = append(lines, indentLines(renderProg(n.p), "    "))
			lines = append(lines, "  ) (")
			lines = append(lines, indentLines(renderProg(n.q), "    "))
			lines = append(lines, "  ) <|")
		case "ret":
			lines = append(lines, ".ret "+n.text)
			return strings.Join(lines, "\n") // what follows a return is unreachable
		case "unknown":
			lines = append(lines, ".unknownShape "+leanStr(n.text))
			return strings.Join(lines, "\n")
		}
		_ = i
	}
	lines = append(lines, ".nil")
	return strings.Join(lines, "\n")
}
