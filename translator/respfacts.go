package main

import (
	"fmt"
	"go/ast"
	"go/parser"
	"go/token"
	"path/filepath"
	"sort"
	"strconv"
	"strings"
)

// genRespFacts extracts the structural facts of the response codec (C03R):
//
//   - for every ociserver handler (and setLocationHeader): the header names it sets with
//     resp.Header().Set(<literal>, …) in source order, the statuses it passes to resp.WriteHeader,
//     and how many times it calls setLocationHeader;
//   - for every ociclient function that sends a request: the lists of expected statuses it passes to
//     do / doRequest (in source order), the `require` argument of every descriptorFromResponse call,
//     and the statuses assigned to a variable that is passed as the expected status (flush's `expect`);
//   - the constants inMemThreshold, defaultChunkSize, maxPageSize.
//
// Anything that does not have the expected shape (a non-literal header name, a status that is not an
// http.StatusXxx constant, …) clears shapeKnown, which fails the Lean obligation.
func genRespFacts(repo string) (string, error) {
	fset := token.NewFileSet()
	known := true
	parse := func(rel string) (*ast.File, error) {
		return parser.ParseFile(fset, filepath.Join(repo, rel), nil, 0)
	}

	// ---- server ----
	type srvRow struct {
		name     string
		headers  []string
		statuses []int
		setLoc   int
	}
	var srv []srvRow
	for _, rel := range []string{"ociregistry/ociserver/reader.go", "ociregistry/ociserver/writer.go", "ociregistry/ociserver/lister.go",
		"ociregistry/ociserver/deleter.go", "ociregistry/ociserver/registry.go"} {
		f, err := parse(rel)
		if err != nil {
			return "", err
		}
		for _, d := range f.Decls {
			fd, ok := d.(*ast.FuncDecl)
			if !ok || fd.Recv == nil || fd.Body == nil {
				continue
			}
			if !strings.HasPrefix(fd.Name.Name, "handle") && fd.Name.Name != "setLocationHeader" {
				continue
			}
			row := srvRow{name: fd.Name.Name}
			ast.Inspect(fd.Body, func(n ast.Node) bool {
				call, ok := n.(*ast.CallExpr)
				if !ok {
					return true
				}
				sel, ok := call.Fun.(*ast.SelectorExpr)
				if !ok {
					return true
				}
				switch {
				case sel.Sel.Name == "Set" && exprString(sel.X) == "resp.Header()":
					if len(call.Args) != 2 {
						known = false
						return true
					}
					lit, ok := call.Args[0].(*ast.BasicLit)
					if !ok || lit.Kind != token.STRING {
						known = false
						return true
					}
					name, _ := strconv.Unquote(lit.Value)
					row.headers = append(row.headers, name)
				case sel.Sel.Name == "WriteHeader" && exprString(sel.X) == "resp":
					if len(call.Args) != 1 {
						known = false
						return true
					}
					st, ok := httpStatusExpr(call.Args[0])
					if !ok {
						known = false
					}
					row.statuses = append(row.statuses, st)
				case sel.Sel.Name == "setLocationHeader":
					row.setLoc++
				case sel.Sel.Name == "Redirect" && exprString(sel.X) == "http":
					// the redirect of handleBlobGet under LocationsForDescriptor (outside the model: the option is nil)
				}
				return true
			})
			srv = append(srv, row)
		}
	}
	sort.Slice(srv, func(i, j int) bool { return srv[i].name < srv[j].name })

	// ---- client ----
	type cliRow struct {
		name     string
		oks      [][]string // per do/doRequest call: the status arguments (numbers, or an identifier)
		requires []string
		assigned map[string][]int
	}
	var cli []cliRow
	consts := map[string]string{}
	evalConst := func(e ast.Expr) (int64, bool) {
		var ev func(e ast.Expr) (int64, bool)
		ev = func(e ast.Expr) (int64, bool) {
			switch v := e.(type) {
			case *ast.BasicLit:
				if v.Kind == token.INT {
					n, err := strconv.ParseInt(v.Value, 0, 64)
					return n, err == nil
				}
			case *ast.BinaryExpr:
				a, ok1 := ev(v.X)
				b, ok2 := ev(v.Y)
				if ok1 && ok2 && v.Op == token.MUL {
					return a * b, true
				}
			case *ast.ParenExpr:
				return ev(v.X)
			}
			return 0, false
		}
		return ev(e)
	}
	for _, rel := range []string{"ociregistry/ociclient/reader.go", "ociregistry/ociclient/writer.go", "ociregistry/ociclient/deleter.go",
		"ociregistry/ociclient/lister.go", "ociregistry/ociclient/client.go", "ociregistry/ociserver/lister.go"} {
		f, err := parse(rel)
		if err != nil {
			return "", err
		}
		for _, d := range f.Decls {
			if gd, ok := d.(*ast.GenDecl); ok && gd.Tok == token.CONST {
				for _, sp := range gd.Specs {
					vs := sp.(*ast.ValueSpec)
					for i, n := range vs.Names {
						switch n.Name {
						case "inMemThreshold", "defaultChunkSize", "maxPageSize", "DefaultListPageSize":
							if i < len(vs.Values) {
								if v, ok := evalConst(vs.Values[i]); ok {
									consts[n.Name] = strconv.FormatInt(v, 10)
								} else {
									known = false
								}
							}
						}
					}
				}
				continue
			}
			fd, ok := d.(*ast.FuncDecl)
			if !ok || fd.Body == nil || strings.Contains(rel, "ociserver") {
				continue
			}
			row := cliRow{name: fd.Name.Name, assigned: map[string][]int{}}
			ast.Inspect(fd.Body, func(n ast.Node) bool {
				switch v := n.(type) {
				case *ast.AssignStmt:
					if len(v.Lhs) == 1 && len(v.Rhs) == 1 {
						if id, ok := v.Lhs[0].(*ast.Ident); ok {
							if st, ok := httpStatusExpr(v.Rhs[0]); ok {
								row.assigned[id.Name] = append(row.assigned[id.Name], st)
							}
						}
					}
				case *ast.CallExpr:
					name := ""
					switch fn := v.Fun.(type) {
					case *ast.SelectorExpr:
						name = fn.Sel.Name
					case *ast.Ident:
						name = fn.Name
					}
					switch name {
					case "do", "doRequest":
						skip := 1
						if name == "doRequest" {
							skip = 2
						}
						if len(v.Args) < skip {
							known = false
							return true
						}
						oks := []string{}
						for _, a := range v.Args[skip:] {
							if st, ok := httpStatusExpr(a); ok {
								oks = append(oks, strconv.Itoa(st))
							} else if id, ok := a.(*ast.Ident); ok {
								oks = append(oks, id.Name)
							} else if v.Ellipsis.IsValid() {
								oks = append(oks, "...")
							} else {
								known = false
							}
						}
						row.oks = append(row.oks, oks)
					case "descriptorFromResponse":
						if len(v.Args) != 3 {
							known = false
							return true
						}
						row.requires = append(row.requires, exprString(v.Args[2]))
					}
				}
				return true
			})
			if len(row.oks) > 0 || len(row.requires) > 0 {
				cli = append(cli, row)
			}
		}
	}
	sort.Slice(cli, func(i, j int) bool { return cli[i].name < cli[j].name })

	var b strings.Builder
	b.WriteString("-- GENERATED by /verif/translator from ociregistry/ociserver/*.go and ociregistry/ociclient/*.go. Do not edit.\n")
	b.WriteString("namespace OciModel.Generated.RespFacts\n\n")
	b.WriteString("/-- (handler, header names passed to `resp.Header().Set` in source order, statuses passed to `resp.WriteHeader`,\nnumber of `setLocationHeader` calls) -/\n")
	b.WriteString("def serverHandlers : List (String × List String × List Nat × Nat) := [\n")
	for i, r := range srv {
		sts := make([]string, len(r.statuses))
		for j, s := range r.statuses {
			sts[j] = strconv.Itoa(s)
		}
		sep := ","
		if i == len(srv)-1 {
			sep = ""
		}
		fmt.Fprintf(&b, "  (%s, %s, [%s], %d)%s\n", leanStr(r.name), leanStrList(r.headers), strings.Join(sts, ", "), r.setLoc, sep)
	}
	b.WriteString("]\n\n/-- (client function, the expected-status arguments of each `do` / `doRequest` call in source order,\nthe `require` argument of each `descriptorFromResponse` call in source order) -/\n")
	b.WriteString("def clientCalls : List (String × List (List String) × List String) := [\n")
	for i, r := range cli {
		var oks []string
		for _, o := range r.oks {
			oks = append(oks, leanStrList(o))
		}
		sep := ","
		if i == len(cli)-1 {
			sep = ""
		}
		fmt.Fprintf(&b, "  (%s, [%s], %s)%s\n", leanStr(r.name), strings.Join(oks, ", "), leanStrList(r.requires), sep)
	}
	b.WriteString("]\n\n/-- statuses assigned to local variables of client functions (flush's `expect`) -/\n")
	b.WriteString("def clientAssignedStatuses : List (String × String × List Nat) := [")
	var as []string
	for _, r := range cli {
		var names []string
		for n := range r.assigned {
			names = append(names, n)
		}
		sort.Strings(names)
		for _, n := range names {
			sts := make([]string, len(r.assigned[n]))
			for j, s := range r.assigned[n] {
				sts[j] = strconv.Itoa(s)
			}
			as = append(as, fmt.Sprintf("(%s, %s, [%s])", leanStr(r.name), leanStr(n), strings.Join(sts, ", ")))
		}
	}
	b.WriteString(strings.Join(as, ", ") + "]\n\n")
	for _, n := range []string{"inMemThreshold", "defaultChunkSize", "maxPageSize", "DefaultListPageSize"} {
		v, ok := consts[n]
		if !ok {
			known = false
			v = "0"
		}
		fmt.Fprintf(&b, "def %s : Int := %s\n", strings.ToLower(n[:1])+n[1:], v)
	}
	b.WriteString("\ndef shapeKnown : Bool := " + leanBool(known) + "\n\n")
	b.WriteString("end OciModel.Generated.RespFacts\n")
	return b.String(), nil
}
