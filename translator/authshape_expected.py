#!/usr/bin/env python3
"""Writes lean/OciModel/AuthShape.lean: the source fingerprints (guards, calls, returns,
state assignments per function of ociauth/auth.go and challenge.go) that the auth
transport model was audited against. Run BY HAND, only after re-auditing
lean/OciModel/AuthTransport.lean and Challenge.lean against a changed source:

    python3 translator/authshape_expected.py

It copies the current lean/OciModel/Generated/AuthFacts.lean (which `check`
regenerates from the working tree on every run) into constants; Props/C10.lean and
Props/C11.lean compare the regenerated facts with these constants by `decide`.
"""
import re, os
here = os.path.dirname(os.path.abspath(__file__))
gen = open(os.path.join(here, "..", "lean", "OciModel", "Generated", "AuthFacts.lean")).read()

def section(name):
    m = re.search(r"def %s : List \(String × List String\) := \[\n(.*?)\n\]\n" % name, gen, re.S)
    rows = {}
    for line in m.group(1).split("\n"):
        line = line.strip().rstrip(",")
        mm = re.match(r'\("((?:[^"\\]|\\.)*)", (\[.*\])\)$', line)
        rows[mm.group(1)] = mm.group(2)
    return rows

conds, calls, rets, assigns = (section(n) for n in ("conds", "calls", "returns", "assigns"))
skip = {"NewStdTransport", "emptyConfig.EntryForRegistry"}
out = ["/-", "The source fingerprints the auth transport model was audited against",
       "(written by translator/authshape_expected.py; see there). `fingerprint f` looks a",
       "function up in the facts regenerated from the working tree.", "-/",
       "import OciModel.Generated.AuthFacts", "namespace OciModel.AuthShape", "open OciModel.Generated.AuthFacts", "",
       "/-- guards, mirrored calls, returns and state assignments of one function, in source order -/",
       "structure Shape where", "  conds : List String", "  calls : List String", "  returns : List String", "  assigns : List String",
       "  deriving DecidableEq, Repr", "",
       "def fingerprint (f : String) : Option Shape := do",
       "  let c ← conds.lookup f", "  let k ← calls.lookup f", "  let r ← returns.lookup f", "  let a ← assigns.lookup f",
       "  pure ⟨c, k, r, a⟩", ""]
for f in sorted(conds):
    if f in skip: continue
    ident = re.sub(r"[^A-Za-z0-9]", "_", f)
    out += ["def %s : Shape :=" % ident, "  { conds := %s" % conds[f], "    calls := %s" % calls[f],
            "    returns := %s" % rets[f], "    assigns := %s }" % assigns[f], ""]
out += ["end OciModel.AuthShape", ""]
open(os.path.join(here, "..", "lean", "OciModel", "AuthShape.lean"), "w").write("\n".join(out))
