package main

import (
	"fmt"
	"go/ast"
	"go/parser"
	"go/token"
	"os"
	"path/filepath"
	"sort"
	"strings"
)

// genLocks extracts the lock discipline of package ocimem:
//   - for every method of *Registry and *Buffer: whether the whole body is one critical
//     section (`X.mu.Lock(); defer X.mu.Unlock()` as the first two statements), and which
//     other methods of the same receiver types it calls (a method that calls two locking
//     methods in sequence is more than one critical section);
//   - every access to a field of Buffer or Registry/repository state with the set of
//     mutexes held at that point (function-entry critical sections only; a function literal
//     is its own scope).
func genLocks(repo string) (string, error) {
	dir := filepath.Join(repo, "ociregistry/ocimem")
	fset := token.NewFileSet()
	entries, err := os.ReadDir(dir)
	if err != nil {
		return "", err
	}
	var files []*ast.File
	var names []string
	for _, e := range entries {
		n := e.Name()
		if !strings.HasSuffix(n, ".go") || strings.HasSuffix(n, "_test.go") {
			continue
		}
		f, err := parser.ParseFile(fset, filepath.Join(dir, n), nil, 0)
		normalizeFile(f)
		if err != nil {
			return "", err
		}
		files = append(files, f)
		names = append(names, n)
	}
	bufferFields := map[string]bool{}
	for _, f := range files {
		ast.Inspect(f, func(n ast.Node) bool {
			ts, ok := n.(*ast.TypeSpec)
			if !ok || ts.Name.Name != "Buffer" {
				return true
			}
			if st, ok := ts.Type.(*ast.StructType); ok {
				for _, fl := range st.Fields.List {
					for _, nm := range fl.Names {
						if nm.Name != "mu" && nm.Name != "commit" && nm.Name != "uuid" { // commit and uuid are set once at construction
							bufferFields[nm.Name] = true
						}
					}
				}
			}
			return false
		})
	}
	// map-typed fields of the registry's own state (Registry, repository)
	stateMaps := map[string]bool{}
	for _, f := range files {
		ast.Inspect(f, func(n ast.Node) bool {
			ts, ok := n.(*ast.TypeSpec)
			if !ok || (ts.Name.Name != "Registry" && ts.Name.Name != "repository") {
				return true
			}
			if st, ok := ts.Type.(*ast.StructType); ok {
				for _, fl := range st.Fields.List {
					if _, isMap := fl.Type.(*ast.MapType); isMap {
						for _, nm := range fl.Names {
							stateMaps[nm.Name] = true
						}
					}
				}
			}
			return false
		})
	}
	type access struct {
		fn, field, kind string
		locks           []string
	}
	var accesses []access
	// closureAccesses: inside a function literal (code that may run after the enclosing method has
	// returned and released its lock), every use of a state map or of a map-typed parameter of the
	// enclosing function, with the mutexes held there
	var closureAccesses []access
	var mapParams map[string]bool
	// readsUnderLock: calls that consume a caller-supplied io.Reader parameter (io.ReadAll(r), io.Copy(_, r),
	// r.Read(…)) made with a mutex held: the caller's reader may block, or call back into the registry
	var readsUnderLock []access
	var readerParams map[string]bool
	returnsLit := map[string]bool{}      // "file:func" returns a function literal
	returnedCalls := map[string][]string{} // exported method "file:func" -> names of functions whose result it returns
	funcKey := map[string]string{}         // bare function name -> "file:func"
	type method struct {
		recv, name string
		oneSection bool
		calls      []string
	}
	var methods []method
	// wholeBody: for every method of *Buffer / *Registry (exported or not), the mutex fields of the
	// receiver that the body locks in its leading `x.M.Lock(); defer x.M.Unlock()` pairs, i.e. the
	// mutexes held from the first statement to the return: (receiver type, method, mutex field)
	type bodyLock struct{ recv, name, mutex string }
	var wholeBody []bodyLock
	leadingLocks := func(body *ast.BlockStmt, recvName string) []string {
		var out []string
		if body == nil || recvName == "" {
			return nil
		}
		for i := 0; i+1 < len(body.List); i += 2 {
			lock := exprString(body.List[i])
			unlock := exprString(body.List[i+1])
			if !strings.HasPrefix(lock, recvName+".") || !strings.HasSuffix(lock, ".Lock()") {
				break
			}
			field := strings.TrimSuffix(strings.TrimPrefix(lock, recvName+"."), ".Lock()")
			if field == "" || strings.ContainsAny(field, ".()[] ") || unlock != "defer "+recvName+"."+field+".Unlock()" {
				break
			}
			out = append(out, field)
		}
		return out
	}

	// locksAtEntry reports the mutexes a body holds from its first statement to its end.
	locksAtEntry := func(body *ast.BlockStmt) []string {
		if body == nil || len(body.List) < 2 {
			return nil
		}
		lock := exprString(body.List[0])
		unlock := exprString(body.List[1])
		if strings.HasSuffix(lock, ".mu.Lock()") && unlock == "defer "+strings.TrimSuffix(lock, "Lock()")+"Unlock()" {
			return []string{lockName(strings.TrimSuffix(lock, ".mu.Lock()"))}
		}
		return nil
	}

	// walk visits a block with the given mutexes held. A nested block that itself starts
	// with `X.mu.Lock(); defer X.mu.Unlock()` holds X.mu as well; a deferred function literal
	// runs before the enclosing function's deferred Unlock and so inherits the locks; any
	// other function literal is its own scope.
	var walk func(fn string, body *ast.BlockStmt, held []string)
	walk = func(fn string, body *ast.BlockStmt, held0 []string) {
		held := append([]string{}, held0...)
		record := func(sel *ast.SelectorExpr, kind string) {
			id, ok := sel.X.(*ast.Ident)
			if !ok || id.Name != "b" || !bufferFields[sel.Sel.Name] {
				return
			}
			accesses = append(accesses, access{fn, sel.Sel.Name, kind, append([]string{}, held...)})
		}
		inClosure := strings.Contains(fn, ".func")
		var visit func(n ast.Node) bool
		visit = func(n ast.Node) bool {
			if inClosure {
				switch x := n.(type) {
				case *ast.SelectorExpr:
					if stateMaps[x.Sel.Name] {
						closureAccesses = append(closureAccesses, access{fn, x.Sel.Name, "r", append([]string{}, held...)})
					}
				case *ast.Ident:
					if mapParams[x.Name] {
						closureAccesses = append(closureAccesses, access{fn, "param:" + x.Name, "r", append([]string{}, held...)})
					}
				}
			}
			if c, ok := n.(*ast.CallExpr); ok && len(held) > 0 {
				uses := false
				for _, a := range c.Args {
					if id, ok := a.(*ast.Ident); ok && readerParams[id.Name] {
						uses = true
					}
				}
				if sel, ok := c.Fun.(*ast.SelectorExpr); ok {
					if id, ok := sel.X.(*ast.Ident); ok && readerParams[id.Name] {
						uses = true
					}
				}
				if uses {
					readsUnderLock = append(readsUnderLock, access{fn, exprString(c.Fun), "r", append([]string{}, held...)})
				}
			}
			switch x := n.(type) {
			case *ast.DeferStmt:
				if fl, ok := x.Call.Fun.(*ast.FuncLit); ok {
					walk(fn+".defer", fl.Body, held)
					return false
				}
			case *ast.FuncLit:
				walk(fn+".func", x.Body, nil)
				return false
			case *ast.BlockStmt:
				walk(fn, x, held)
				return false
			case *ast.AssignStmt:
				for _, l := range x.Lhs {
					if sel, ok := l.(*ast.SelectorExpr); ok {
						record(sel, "w")
					} else {
						ast.Inspect(l, visit)
					}
				}
				for _, r := range x.Rhs {
					ast.Inspect(r, visit)
				}
				return false
			case *ast.SelectorExpr:
				record(x, "r")
			}
			return true
		}
		// statements in order: `X.mu.Lock()` immediately followed by `defer X.mu.Unlock()` holds
		// X.mu for the rest of the block
		for i, st := range body.List {
			if i+1 < len(body.List) {
				lock, unlock := exprString(st), exprString(body.List[i+1])
				if strings.HasSuffix(lock, ".mu.Lock()") && unlock == "defer "+strings.TrimSuffix(lock, "Lock()")+"Unlock()" {
					held = dedupStrings(append(held, lockName(strings.TrimSuffix(lock, ".mu.Lock()"))))
				}
			}
			ast.Inspect(st, visit)
		}
	}

	for i, f := range files {
		for _, d := range f.Decls {
			fd, ok := d.(*ast.FuncDecl)
			if !ok || fd.Body == nil {
				continue
			}
			recv := ""
			if fd.Recv != nil && len(fd.Recv.List) == 1 {
				if isStarIdent(fd.Recv.List[0].Type, "Registry") {
					recv = "Registry"
				} else if isStarIdent(fd.Recv.List[0].Type, "Buffer") {
					recv = "Buffer"
				}
			}
			held := locksAtEntry(fd.Body)
			fn := strings.TrimSuffix(names[i], ".go") + ":" + fd.Name.Name
			mapParams = map[string]bool{}
			readerParams = map[string]bool{}
			if fd.Type.Params != nil {
				for _, fl := range fd.Type.Params.List {
					if exprString(fl.Type) == "io.Reader" {
						for _, nm := range fl.Names {
							readerParams[nm.Name] = true
						}
					}
					if _, isMap := fl.Type.(*ast.MapType); isMap {
						for _, nm := range fl.Names {
							mapParams[nm.Name] = true
						}
					}
				}
			}
			walk(fn, fd.Body, nil)
			funcKey[fd.Name.Name] = fn
			ast.Inspect(fd.Body, func(n ast.Node) bool {
				if _, ok := n.(*ast.FuncLit); ok {
					return false // returns of nested literals are not returns of fd
				}
				rs, ok := n.(*ast.ReturnStmt)
				if !ok {
					return true
				}
				for _, res := range rs.Results {
					switch x := res.(type) {
					case *ast.FuncLit:
						returnsLit[fn] = true
					case *ast.CallExpr:
						switch f := x.Fun.(type) {
						case *ast.Ident:
							returnedCalls[fn] = append(returnedCalls[fn], f.Name)
						case *ast.SelectorExpr:
							returnedCalls[fn] = append(returnedCalls[fn], f.Sel.Name)
						case *ast.IndexExpr: // generic instantiation f[T](…)
							if id, ok := f.X.(*ast.Ident); ok {
								returnedCalls[fn] = append(returnedCalls[fn], id.Name)
							}
						}
					}
				}
				return true
			})
			if recv != "" && len(fd.Recv.List[0].Names) == 1 {
				for _, mu := range leadingLocks(fd.Body, fd.Recv.List[0].Names[0].Name) {
					wholeBody = append(wholeBody, bodyLock{recv, fd.Name.Name, mu})
				}
			}
			if recv == "" || !ast.IsExported(fd.Name.Name) {
				continue
			}
			m := method{recv: recv, name: fd.Name.Name, oneSection: len(held) > 0}
			// calls to exported methods of the receiver itself (r.X(...)) made outside a critical section
			if len(held) == 0 {
				ast.Inspect(fd.Body, func(n ast.Node) bool {
					if _, ok := n.(*ast.FuncLit); ok {
						return false
					}
					c, ok := n.(*ast.CallExpr)
					if !ok {
						return true
					}
					if sel, ok := c.Fun.(*ast.SelectorExpr); ok {
						if id, ok := sel.X.(*ast.Ident); ok && len(fd.Recv.List[0].Names) == 1 && id.Name == fd.Recv.List[0].Names[0].Name {
							m.calls = append(m.calls, sel.Sel.Name)
						}
					}
					return true
				})
			}
			methods = append(methods, m)
		}
	}
	sort.Slice(methods, func(i, j int) bool {
		if methods[i].recv != methods[j].recv {
			return methods[i].recv < methods[j].recv
		}
		return methods[i].name < methods[j].name
	})
	var b strings.Builder
	b.WriteString("-- GENERATED by /verif/translator from ociregistry/ocimem/*.go. Do not edit.\n")
	b.WriteString("namespace OciModel.Generated.Locks\n\n")
	b.WriteString("/-- (receiver type, method, whole body is one critical section of the receiver's mutex, methods of the receiver it calls when it is not) -/\n")
	b.WriteString("def methods : List (String × String × Bool × List String) := [\n")
	for i, m := range methods {
		sep := ","
		if i == len(methods)-1 {
			sep = ""
		}
		fmt.Fprintf(&b, "  (%s, %s, %s, %s)%s\n", leanStr(m.recv), leanStr(m.name), leanBool(m.oneSection), leanStrList(m.calls), sep)
	}
	b.WriteString("]\n\n/-- every access to a mutable field of Buffer: (function, field, \"r\"|\"w\", mutexes held) -/\n")
	b.WriteString("def bufferAccesses : List (String × String × String × List String) := [\n")
	for i, a := range accesses {
		sep := ","
		if i == len(accesses)-1 {
			sep = ""
		}
		fmt.Fprintf(&b, "  (%s, %s, %s, %s)%s\n", leanStr(a.fn), leanStr(a.field), leanStr(a.kind), leanStrList(a.locks), sep)
	}
	b.WriteString("]\n\n/-- every use, inside a function literal, of a map of the registry's state or of a map-typed parameter of the enclosing function: (function, what, \"r\", mutexes held there) -/\n")
	b.WriteString("def closureStateAccesses : List (String × String × String × List String) := [\n")
	for i, a := range closureAccesses {
		sep := ","
		if i == len(closureAccesses)-1 {
			sep = ""
		}
		fmt.Fprintf(&b, "  (%s, %s, %s, %s)%s\n", leanStr(a.fn), leanStr(a.field), leanStr(a.kind), leanStrList(a.locks), sep)
	}
	b.WriteString("]\n\n")
	// A function "hands out lazy state" when it returns a function literal that touches a state map or
	// one of its own map parameters without the registry mutex held inside the literal; an exported
	// method leaks it when it returns such a function's result (or such a literal) to its caller.
	unlockedLit := map[string]bool{}
	for _, a := range closureAccesses {
		has := false
		for _, l := range a.locks {
			if l == "Registry.mu" {
				has = true
			}
		}
		if !has {
			unlockedLit[strings.TrimSuffix(strings.TrimSuffix(a.fn, ".defer"), ".func")] = true
		}
	}
	lazy := map[string]bool{}
	for fn := range returnsLit {
		if unlockedLit[fn] {
			lazy[fn] = true
		}
	}
	for changed := true; changed; { // a function returning a lazy function's result is lazy too
		changed = false
		for fn, callees := range returnedCalls {
			if lazy[fn] {
				continue
			}
			for _, c := range callees {
				if k, ok := funcKey[c]; ok && lazy[k] {
					lazy[fn] = true
					changed = true
				}
			}
		}
	}
	var leaks []string
	for _, m := range methods {
		for fn := range lazy {
			if strings.HasSuffix(fn, ":"+m.name) {
				leaks = append(leaks, m.recv+"."+m.name)
			}
		}
	}
	sort.Strings(leaks)
	b.WriteString("/-- calls that consume a caller-supplied io.Reader with a mutex held: (function, callee, \"r\", mutexes held) -/\n")
	b.WriteString("def readsCallerReaderUnderLock : List (String × String × String × List String) := [\n")
	for i, a := range readsUnderLock {
		sep := ","
		if i == len(readsUnderLock)-1 {
			sep = ""
		}
		fmt.Fprintf(&b, "  (%s, %s, %s, %s)%s\n", leanStr(a.fn), leanStr(a.field), leanStr(a.kind), leanStrList(a.locks), sep)
	}
	b.WriteString("]\n\n")
	b.WriteString("/-- exported methods that return to their caller a function that reads the registry's maps lazily, outside the registry mutex -/\n")
	fmt.Fprintf(&b, "def lazyStateLeaks : List String := %s\n", leanStrList(dedupStrings(leaks)))
	// sorted by receiver and method; the mutexes of one method stay in acquisition order
	sort.SliceStable(wholeBody, func(i, j int) bool {
		if wholeBody[i].recv != wholeBody[j].recv {
			return wholeBody[i].recv < wholeBody[j].recv
		}
		return wholeBody[i].name < wholeBody[j].name
	})
	b.WriteString("\n/-- mutexes of the receiver held for the WHOLE body of a method of Buffer / Registry (locked by the leading `x.M.Lock(); defer x.M.Unlock()` pairs, in acquisition order): (receiver type, method, mutex field) -/\n")
	b.WriteString("def wholeBodyLocks : List (String × String × String) := [\n")
	for i, w := range wholeBody {
		sep := ","
		if i == len(wholeBody)-1 {
			sep = ""
		}
		fmt.Fprintf(&b, "  (%s, %s, %s)%s\n", leanStr(w.recv), leanStr(w.name), leanStr(w.mutex), sep)
	}
	b.WriteString("]\n")
	b.WriteString("\nend OciModel.Generated.Locks\n")
	return b.String(), nil
}

func dedupStrings(xs []string) []string {
	seen := map[string]bool{}
	var out []string
	for _, x := range xs {
		if !seen[x] {
			seen[x] = true
			out = append(out, x)
		}
	}
	return out
}

func lockName(v string) string {
	switch v {
	case "r":
		return "Registry.mu"
	case "b":
		return "Buffer.mu"
	}
	return v + ".mu"
}
