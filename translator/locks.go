package main

import (
	"fmt"
	"go/ast"
	"go/parser"
	"go/token"
	"os"
	"path/filepath"
	"sort"
	"strings"
)

// genLocks extracts the lock discipline of package ocimem:
//   - for every method of *Registry and *Buffer: whether the whole body is one critical
//     section (`X.mu.Lock(); defer X.mu.Unlock()` as the first two statements), and which
//     other methods of the same receiver types it calls (a method that calls two locking
//     methods in sequence is more than one critical section);
//   - every access to a field of Buffer or Registry/repository state with the set of
//     mutexes held at that point (function-entry critical sections only; a function literal
//     is its own scope).
func genLocks(repo string) (string, error) {
	dir := filepath.Join(repo, "ociregistry/ocimem")
	fset := token.NewFileSet()
	entries, err := os.ReadDir(dir)
	if err != nil {
		return "", err
	}
	var files []*ast.File
	var names []string
	for _, e := range entries {
		n := e.Name()
		if !strings.HasSuffix(n, ".go") || strings.HasSuffix(n, "_test.go") {
			continue
		}
		f, err := parser.ParseFile(fset, filepath.Join(dir, n), nil, 0)
		if err != nil {
			return "", err
		}
		files = append(files, f)
		names = append(names, n)
	}
	bufferFields := map[string]bool{}
	for _, f := range files {
		ast.Inspect(f, func(n ast.Node) bool {
			ts, ok := n.(*ast.TypeSpec)
			if !ok || ts.Name.Name != "Buffer" {
				return true
			}
			if st, ok := ts.Type.(*ast.StructType); ok {
				for _, fl := range st.Fields.List {
					for _, nm := range fl.Names {
						if nm.Name != "mu" && nm.Name != "commit" && nm.Name != "uuid" { // commit and uuid are set once at construction
							bufferFields[nm.Name] = true
						}
					}
				}
			}
			return false
		})
	}
	type access struct {
		fn, field, kind string
		locks           []string
	}
	var accesses []access
	type method struct {
		recv, name string
		oneSection bool
		calls      []string
	}
	var methods []method

	// locksAtEntry reports the mutexes a body holds from its first statement to its end.
	locksAtEntry := func(body *ast.BlockStmt) []string {
		if body == nil || len(body.List) < 2 {
			return nil
		}
		lock := exprString(body.List[0])
		unlock := exprString(body.List[1])
		if strings.HasSuffix(lock, ".mu.Lock()") && unlock == "defer "+strings.TrimSuffix(lock, "Lock()")+"Unlock()" {
			return []string{lockName(strings.TrimSuffix(lock, ".mu.Lock()"))}
		}
		return nil
	}

	// walk visits a block with the given mutexes held. A nested block that itself starts
	// with `X.mu.Lock(); defer X.mu.Unlock()` holds X.mu as well; a deferred function literal
	// runs before the enclosing function's deferred Unlock and so inherits the locks; any
	// other function literal is its own scope.
	var walk func(fn string, body *ast.BlockStmt, held []string)
	walk = func(fn string, body *ast.BlockStmt, held0 []string) {
		held := append([]string{}, held0...)
		record := func(sel *ast.SelectorExpr, kind string) {
			id, ok := sel.X.(*ast.Ident)
			if !ok || id.Name != "b" || !bufferFields[sel.Sel.Name] {
				return
			}
			accesses = append(accesses, access{fn, sel.Sel.Name, kind, append([]string{}, held...)})
		}
		var visit func(n ast.Node) bool
		visit = func(n ast.Node) bool {
			switch x := n.(type) {
			case *ast.DeferStmt:
				if fl, ok := x.Call.Fun.(*ast.FuncLit); ok {
					walk(fn+".defer", fl.Body, held)
					return false
				}
			case *ast.FuncLit:
				walk(fn+".func", x.Body, nil)
				return false
			case *ast.BlockStmt:
				walk(fn, x, held)
				return false
			case *ast.AssignStmt:
				for _, l := range x.Lhs {
					if sel, ok := l.(*ast.SelectorExpr); ok {
						record(sel, "w")
					} else {
						ast.Inspect(l, visit)
					}
				}
				for _, r := range x.Rhs {
					ast.Inspect(r, visit)
				}
				return false
			case *ast.SelectorExpr:
				record(x, "r")
			}
			return true
		}
		// statements in order: `X.mu.Lock()` immediately followed by `defer X.mu.Unlock()` holds
		// X.mu for the rest of the block
		for i, st := range body.List {
			if i+1 < len(body.List) {
				lock, unlock := exprString(st), exprString(body.List[i+1])
				if strings.HasSuffix(lock, ".mu.Lock()") && unlock == "defer "+strings.TrimSuffix(lock, "Lock()")+"Unlock()" {
					held = dedupStrings(append(held, lockName(strings.TrimSuffix(lock, ".mu.Lock()"))))
				}
			}
			ast.Inspect(st, visit)
		}
	}

	for i, f := range files {
		for _, d := range f.Decls {
			fd, ok := d.(*ast.FuncDecl)
			if !ok || fd.Body == nil {
				continue
			}
			recv := ""
			if fd.Recv != nil && len(fd.Recv.List) == 1 {
				if isStarIdent(fd.Recv.List[0].Type, "Registry") {
					recv = "Registry"
				} else if isStarIdent(fd.Recv.List[0].Type, "Buffer") {
					recv = "Buffer"
				}
			}
			held := locksAtEntry(fd.Body)
			fn := strings.TrimSuffix(names[i], ".go") + ":" + fd.Name.Name
			walk(fn, fd.Body, nil)
			if recv == "" || !ast.IsExported(fd.Name.Name) {
				continue
			}
			m := method{recv: recv, name: fd.Name.Name, oneSection: len(held) > 0}
			// calls to exported methods of the receiver itself (r.X(...)) made outside a critical section
			if len(held) == 0 {
				ast.Inspect(fd.Body, func(n ast.Node) bool {
					if _, ok := n.(*ast.FuncLit); ok {
						return false
					}
					c, ok := n.(*ast.CallExpr)
					if !ok {
						return true
					}
					if sel, ok := c.Fun.(*ast.SelectorExpr); ok {
						if id, ok := sel.X.(*ast.Ident); ok && len(fd.Recv.List[0].Names) == 1 && id.Name == fd.Recv.List[0].Names[0].Name {
							m.calls = append(m.calls, sel.Sel.Name)
						}
					}
					return true
				})
			}
			methods = append(methods, m)
		}
	}
	sort.Slice(methods, func(i, j int) bool {
		if methods[i].recv != methods[j].recv {
			return methods[i].recv < methods[j].recv
		}
		return methods[i].name < methods[j].name
	})
	var b strings.Builder
	b.WriteString("-- GENERATED by /verif/translator from ociregistry/ocimem/*.go. Do not edit.\n")
	b.WriteString("namespace OciModel.Generated.Locks\n\n")
	b.WriteString("/-- (receiver type, method, whole body is one critical section of the receiver's mutex, methods of the receiver it calls when it is not) -/\n")
	b.WriteString("def methods : List (String × String × Bool × List String) := [\n")
	for i, m := range methods {
		sep := ","
		if i == len(methods)-1 {
			sep = ""
		}
		fmt.Fprintf(&b, "  (%s, %s, %s, %s)%s\n", leanStr(m.recv), leanStr(m.name), leanBool(m.oneSection), leanStrList(m.calls), sep)
	}
	b.WriteString("]\n\n/-- every access to a mutable field of Buffer: (function, field, \"r\"|\"w\", mutexes held) -/\n")
	b.WriteString("def bufferAccesses : List (String × String × String × List String) := [\n")
	for i, a := range accesses {
		sep := ","
		if i == len(accesses)-1 {
			sep = ""
		}
		fmt.Fprintf(&b, "  (%s, %s, %s, %s)%s\n", leanStr(a.fn), leanStr(a.field), leanStr(a.kind), leanStrList(a.locks), sep)
	}
	b.WriteString("]\n\nend OciModel.Generated.Locks\n")
	return b.String(), nil
}

func dedupStrings(xs []string) []string {
	seen := map[string]bool{}
	var out []string
	for _, x := range xs {
		if !seen[x] {
			seen[x] = true
			out = append(out, x)
		}
	}
	return out
}

func lockName(v string) string {
	switch v {
	case "r":
		return "Registry.mu"
	case "b":
		return "Buffer.mu"
	}
	return v + ".mu"
}
