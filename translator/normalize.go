package main

import (
	"go/ast"
	"go/parser"
	"go/token"
)

// normalizeFile rewrites a parsed file into a canonical form for statements that Go programmers rewrite freely
// without changing behaviour, so that the fact extractors see one shape:
//
//	N1  a tagless switch without init statement, fallthrough or break becomes an if / else-if chain
//	    (its default clause, wherever it stands, the final else);
//	N2  `else { if c { … } [else …] }` becomes `else if c { … } [else …]`;
//	N3  when the LAST statement of a function body or of a block is `if c { …; return … } else { X }` (no init statement),
//	    the else branch is spliced after the if: `if c { …; return … }; X` ("early return" form). Being last, X's
//	    declarations cannot leak into later statements.
//
// (A fourth rule - `if x != y { return A }; return B` rewritten positive-condition-first - was tried and dropped: it changes
// what five extractors see on the unchanged tree, and their shape vocabularies would all have to be restated.)
//
// Both are purely syntactic and semantics-preserving. Nothing else is touched.
func normalizeFile(f *ast.File) {
	if f == nil {
		return
	}
	ast.Inspect(f, func(n ast.Node) bool {
		switch x := n.(type) {
		case *ast.BlockStmt:
			normalizeList(x.List)
			x.List = earlyReturn(x.List)
		case *ast.CaseClause:
			normalizeList(x.Body)
		case *ast.CommClause:
			normalizeList(x.Body)
		case *ast.IfStmt:
			flattenElse(x)
		}
		return true
	})
}

func normalizeList(list []ast.Stmt) {
	for i, st := range list {
		if sw, ok := st.(*ast.SwitchStmt); ok {
			if ifs := switchToIf(sw); ifs != nil {
				list[i] = ifs
			}
		}
		if ls, ok := st.(*ast.LabeledStmt); ok {
			_ = ls // a labelled switch may be the target of a break: left alone
		}
	}
}

func flattenElse(x *ast.IfStmt) {
	for {
		blk, ok := x.Else.(*ast.BlockStmt)
		if !ok || len(blk.List) != 1 {
			return
		}
		inner, ok := blk.List[0].(*ast.IfStmt)
		if !ok {
			return
		}
		x.Else = inner
	}
}

// switchToIf returns the if-chain for a tagless switch, or nil when the switch is left as it is.
func switchToIf(sw *ast.SwitchStmt) ast.Stmt {
	if sw.Tag != nil || sw.Init != nil || sw.Body == nil {
		return nil
	}
	var def *ast.CaseClause
	var cases []*ast.CaseClause
	for _, st := range sw.Body.List {
		cc := st.(*ast.CaseClause)
		if usesBreakOrFallthrough(cc.Body) {
			return nil
		}
		if cc.List == nil {
			def = cc
			continue
		}
		cases = append(cases, cc)
	}
	if len(cases) == 0 {
		return nil
	}
	var head, cur *ast.IfStmt
	for _, cc := range cases {
		cond := cc.List[0]
		for _, e := range cc.List[1:] {
			cond = &ast.BinaryExpr{X: cond, Op: token.LOR, Y: e}
		}
		ifs := &ast.IfStmt{If: cc.Pos(), Cond: cond, Body: &ast.BlockStmt{Lbrace: cc.Colon, List: cc.Body, Rbrace: cc.End()}}
		if head == nil {
			head = ifs
		} else {
			cur.Else = ifs
		}
		cur = ifs
	}
	if def != nil {
		cur.Else = &ast.BlockStmt{Lbrace: def.Colon, List: def.Body, Rbrace: def.End()}
	}
	return head
}

// a break (unlabelled) or fallthrough that belongs to this switch: directly in the clause or nested in ifs/blocks,
// but not inside an inner for / switch / select (which capture break themselves) or a function literal
func usesBreakOrFallthrough(body []ast.Stmt) bool {
	found := false
	var walk func(n ast.Node) bool
	walk = func(n ast.Node) bool {
		switch x := n.(type) {
		case *ast.ForStmt, *ast.RangeStmt, *ast.SwitchStmt, *ast.TypeSwitchStmt, *ast.SelectStmt, *ast.FuncLit:
			return false
		case *ast.BranchStmt:
			if x.Label == nil && (x.Tok.String() == "break" || x.Tok.String() == "fallthrough") {
				found = true
			}
		}
		return !found
	}
	for _, st := range body {
		ast.Inspect(st, walk)
	}
	return found
}

// normSkel puts a function-body template (as the extractors keep them, in source form) through the same
// normalisation as the parsed sources, so that templates may be written the way the code is written.
func normSkel(body string) string {
	fset := token.NewFileSet()
	f, err := parser.ParseFile(fset, "skel.go", "package p\nfunc _() "+body, 0)
	if err != nil {
		return body
	}
	normalizeFile(f)
	return exprString(f.Decls[0].(*ast.FuncDecl).Body)
}

// earlyReturn applies N3 to the last statement of a statement list, repeatedly (else-if chains unfold one by one).
func earlyReturn(list []ast.Stmt) []ast.Stmt {
	for len(list) > 0 {
		ifs, ok := list[len(list)-1].(*ast.IfStmt)
		if !ok || ifs.Init != nil || ifs.Else == nil || !terminates(ifs.Body) {
			return list
		}
		els := ifs.Else
		ifs.Else = nil
		switch e := els.(type) {
		case *ast.BlockStmt:
			normalizeList(e.List)
			list = append(list, e.List...)
		case *ast.IfStmt:
			list = append(list, e)
		default:
			ifs.Else = els
			return list
		}
	}
	return list
}

// terminates: the block's last statement is a return or a call of panic.
func terminates(b *ast.BlockStmt) bool {
	if b == nil || len(b.List) == 0 {
		return false
	}
	switch x := b.List[len(b.List)-1].(type) {
	case *ast.ReturnStmt:
		return true
	case *ast.ExprStmt:
		if c, ok := x.X.(*ast.CallExpr); ok {
			if id, ok := c.Fun.(*ast.Ident); ok && id.Name == "panic" {
				return true
			}
		}
	}
	return false
}
