module verif/translator

go 1.22
