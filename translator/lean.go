package main

import (
	"fmt"
	"strings"
)

// leanStr renders s as a Lean string literal.
func leanStr(s string) string {
	var b strings.Builder
	b.WriteByte('"')
	for i := 0; i < len(s); i++ {
		c := s[i]
		switch {
		case c == '"':
			b.WriteString("\\\"")
		case c == '\\':
			b.WriteString("\\\\")
		case c == '\n':
			b.WriteString("\\n")
		case c == '\t':
			b.WriteString("\\t")
		case c < 0x20 || c >= 0x7f:
			fmt.Fprintf(&b, "\\x%02x", c)
		default:
			b.WriteByte(c)
		}
	}
	b.WriteByte('"')
	return b.String()
}

func leanStrList(xs []string) string {
	ys := make([]string, len(xs))
	for i, x := range xs {
		ys[i] = leanStr(x)
	}
	return "[" + strings.Join(ys, ", ") + "]"
}

func leanBool(b bool) string {
	if b {
		return "true"
	}
	return "false"
}
