package main

import (
	"fmt"
	"go/ast"
	"go/parser"
	"go/token"
	"path/filepath"
	"strconv"
	"strings"
)

// normNode prints a node in gofmt form with all white space collapsed.
func normNode(n ast.Node) string {
	return strings.Join(strings.Fields(exprString(n)), " ")
}

// methodsOf returns the methods declared on *recvType in f, in source order.
func methodsOf(f *ast.File, recvType string, star bool) []*ast.FuncDecl {
	var out []*ast.FuncDecl
	for _, d := range f.Decls {
		fd, ok := d.(*ast.FuncDecl)
		if !ok || fd.Recv == nil || len(fd.Recv.List) != 1 {
			continue
		}
		t := fd.Recv.List[0].Type
		if star && isStarIdent(t, recvType) || !star && isIdent(t, recvType) {
			out = append(out, fd)
		}
	}
	return out
}

func recvName(fd *ast.FuncDecl) string {
	if len(fd.Recv.List[0].Names) == 1 {
		return fd.Recv.List[0].Names[0].Name
	}
	return ""
}

func paramNames(fd *ast.FuncDecl) []string {
	var ps []string
	for _, p := range fd.Type.Params.List {
		for _, n := range p.Names {
			if n.Name != "ctx" {
				ps = append(ps, n.Name)
			}
		}
	}
	return ps
}

// delegation recognises `recv.r.M(ctx, a, b, …)` where every argument is printed
// in canonical form; it returns M and the printed arguments after ctx.
func delegation(e ast.Expr, recv string) (method string, args []string, ok bool) {
	call, isCall := e.(*ast.CallExpr)
	if !isCall {
		return "", nil, false
	}
	sel, isSel := call.Fun.(*ast.SelectorExpr)
	if !isSel {
		return "", nil, false
	}
	inner, isSel2 := sel.X.(*ast.SelectorExpr)
	if !isSel2 || !isIdent(inner.X, recv) || (inner.Sel.Name != "r" && inner.Sel.Name != "Interface") {
		return "", nil, false
	}
	if len(call.Args) == 0 || !isIdent(call.Args[0], "ctx") {
		return "", nil, false
	}
	for _, a := range call.Args[1:] {
		args = append(args, normNode(a))
	}
	return sel.Sel.Name, args, true
}

type selGuard struct {
	arg   string
	lit   bool
	kind  string
	retOk bool
}

// selGuardOf recognises
//
//	if err := recv.check(X, K); err != nil { return [zero,] err }        or
//	if err := recv.check(X, K); err != nil { return ociregistry.ErrorSeq[T](err) }
func selGuardOf(s ast.Stmt, recv string) (selGuard, bool) {
	var g selGuard
	ifs, ok := s.(*ast.IfStmt)
	if !ok || ifs.Else != nil || ifs.Init == nil || normNode(ifs.Cond) != "err != nil" || len(ifs.Body.List) != 1 {
		return g, false
	}
	as, ok := ifs.Init.(*ast.AssignStmt)
	if !ok || as.Tok != token.DEFINE || len(as.Lhs) != 1 || len(as.Rhs) != 1 || !isIdent(as.Lhs[0], "err") {
		return g, false
	}
	call, ok := as.Rhs[0].(*ast.CallExpr)
	if !ok || len(call.Args) != 2 || normNode(call.Fun) != recv+".check" {
		return g, false
	}
	switch a := call.Args[0].(type) {
	case *ast.Ident:
		g.arg = a.Name
	case *ast.BasicLit:
		if a.Kind != token.STRING {
			return g, false
		}
		g.arg, _ = strconv.Unquote(a.Value)
		g.lit = true
	default:
		return g, false
	}
	k, ok := call.Args[1].(*ast.Ident)
	if !ok {
		return g, false
	}
	g.kind = k.Name
	ret, ok := ifs.Body.List[0].(*ast.ReturnStmt)
	if !ok || len(ret.Results) == 0 {
		return g, false
	}
	last := ret.Results[len(ret.Results)-1]
	g.retOk = true
	switch len(ret.Results) {
	case 1:
		if !isIdent(last, "err") {
			c, ok := last.(*ast.CallExpr)
			if !ok || len(c.Args) != 1 || !isIdent(c.Args[0], "err") {
				g.retOk = false
				break
			}
			ix, ok := c.Fun.(*ast.IndexExpr)
			if !ok || normNode(ix.X) != "ociregistry.ErrorSeq" {
				g.retOk = false
			}
		}
	case 2:
		zero := isIdent(ret.Results[0], "nil")
		if cl, ok := ret.Results[0].(*ast.CompositeLit); ok && len(cl.Elts) == 0 {
			zero = true
		}
		g.retOk = zero && isIdent(last, "err")
	default:
		g.retOk = false
	}
	return g, true
}

// filterClosure recognises the iterator returned by Repositories:
//
//	func(yield func(string, error) bool) {
//		recv.r.Repositories(ctx, START)(func(repo string, err error) bool {
//			if err != nil { yield("", err); return false }
//			<item statements>
//		})
//	}
//
// and returns the delegation and the printed item statements.
func filterClosure(e ast.Expr, recv string) (method string, args []string, item []string, ok bool) {
	fl, isFn := e.(*ast.FuncLit)
	if !isFn || normNode(fl.Type) != "func(yield func(string, error) bool)" || len(fl.Body.List) != 1 {
		return
	}
	es, isExpr := fl.Body.List[0].(*ast.ExprStmt)
	if !isExpr {
		return
	}
	outer, isCall := es.X.(*ast.CallExpr)
	if !isCall || len(outer.Args) != 1 {
		return
	}
	method, args, ok = delegation(outer.Fun, recv)
	if !ok {
		return
	}
	ok = false
	cb, isFn := outer.Args[0].(*ast.FuncLit)
	if !isFn || normNode(cb.Type) != "func(repo string, err error) bool" || len(cb.Body.List) < 2 {
		return
	}
	if normNode(cb.Body.List[0]) != `if err != nil { yield("", err) return false }` {
		return
	}
	for _, s := range cb.Body.List[1:] {
		item = append(item, normNode(s))
	}
	return method, args, item, true
}

// genSelect extracts the guard table of *accessCheckerRegistry and the decision
// list of the policy built by Select from ocifilter/select.go.
func genSelect(repo string) (string, error) {
	fset := token.NewFileSet()
	f, err := parser.ParseFile(fset, filepath.Join(repo, "ociregistry/ocifilter/select.go"), nil, 0)
	normalizeFile(f)
	if err != nil {
		return "", err
	}
	var b strings.Builder
	b.WriteString("-- GENERATED by /verif/translator from ociregistry/ocifilter/select.go. Do not edit.\n")
	b.WriteString("namespace OciModel.Generated.Select\n\n")
	b.WriteString(`structure Guard where
  arg   : String       -- parameter name, or the literal text when lit
  lit   : Bool
  kind  : String       -- AccessRead | AccessWrite | AccessDelete | AccessList
  retOk : Bool         -- the guarded return is (zero, err) / err / ErrorSeq[T](err)
  deriving Repr, DecidableEq

structure Row where
  method     : String
  params     : List String
  guards     : List Guard      -- in source order, all before the delegation
  callee     : String          -- method called on the wrapped registry
  callArgs   : List String     -- its arguments after ctx, printed
  shape      : String          -- "direct" | "filter" | "?"
  filterKind : String          -- "filter": access kind of the per-item check
  shapeKnown : Bool
  deriving Repr, DecidableEq

`)
	var rows []string
	for _, fd := range methodsOf(f, "accessCheckerRegistry", true) {
		recv := recvName(fd)
		row := struct {
			guards       []selGuard
			callee       string
			args         []string
			shape, fkind string
			known        bool
		}{shape: "?"}
		row.known = func() bool {
			if fd.Body == nil || len(fd.Body.List) == 0 {
				return false
			}
			n := len(fd.Body.List)
			for _, s := range fd.Body.List[:n-1] {
				g, ok := selGuardOf(s, recv)
				if !ok {
					return false
				}
				row.guards = append(row.guards, g)
			}
			ret, ok := fd.Body.List[n-1].(*ast.ReturnStmt)
			if !ok || len(ret.Results) != 1 {
				return false
			}
			if m, args, ok := delegation(ret.Results[0], recv); ok {
				row.callee, row.args, row.shape = m, args, "direct"
				return true
			}
			m, args, item, ok := filterClosure(ret.Results[0], recv)
			if !ok {
				return false
			}
			row.callee, row.args = m, args
			// item statements: skip rejected items, yield the others.
			if len(item) != 2 || item[1] != "return yield(repo, nil)" {
				return false
			}
			const pre, post = "if " + "RECV" + ".check(repo, ", ") != nil { return true }"
			p := strings.Replace(pre, "RECV", recv, 1)
			if !strings.HasPrefix(item[0], p) || !strings.HasSuffix(item[0], post) {
				return false
			}
			row.fkind = strings.TrimSuffix(strings.TrimPrefix(item[0], p), post)
			row.shape = "filter"
			return true
		}()
		var gs []string
		for _, g := range row.guards {
			gs = append(gs, fmt.Sprintf("{ arg := %s, lit := %s, kind := %s, retOk := %s }", leanStr(g.arg), leanBool(g.lit), leanStr(g.kind), leanBool(g.retOk)))
		}
		rows = append(rows, fmt.Sprintf("{ method := %s, params := %s, guards := [%s], callee := %s, callArgs := %s, shape := %s, filterKind := %s, shapeKnown := %s }",
			leanStr(fd.Name.Name), leanStrList(paramNames(fd)), strings.Join(gs, ", "), leanStr(row.callee), leanStrList(row.args),
			leanStr(row.shape), leanStr(row.fkind), leanBool(row.known)))
	}
	b.WriteString("def table : List Row := [\n  " + strings.Join(rows, ",\n  ") + "\n]\n\n")

	// AccessKind constants, in iota order.
	var kinds []string
	for _, d := range f.Decls {
		gd, ok := d.(*ast.GenDecl)
		if !ok || gd.Tok != token.CONST {
			continue
		}
		for _, s := range gd.Specs {
			vs := s.(*ast.ValueSpec)
			for _, n := range vs.Names {
				if strings.HasPrefix(n.Name, "Access") {
					kinds = append(kinds, n.Name)
				}
			}
		}
	}
	b.WriteString("def accessKinds : List String := " + leanStrList(kinds) + "\n\n")

	// Constructors.
	ctorOK := false
	var rules [][2]string
	rulesKnown := false
	for _, d := range f.Decls {
		fd, ok := d.(*ast.FuncDecl)
		if !ok || fd.Recv != nil || fd.Body == nil {
			continue
		}
		switch fd.Name.Name {
		case "AccessChecker":
			ctorOK = len(fd.Body.List) == 1 &&
				normNode(fd.Type) == "func(r ociregistry.Interface, check func(repoName string, access AccessKind) error) ociregistry.Interface" &&
				normNode(fd.Body.List[0]) == "return &accessCheckerRegistry{check: check, r: r}"
		case "Select":
			rules, rulesKnown = selectRules(fd)
		}
	}
	b.WriteString("/-- `AccessChecker(r, check)` is `&accessCheckerRegistry{check: check, r: r}` -/\n")
	b.WriteString("def constructorKnown : Bool := " + leanBool(ctorOK) + "\n\n")
	b.WriteString("/-- the policy `Select(r, allow)` hands to `AccessChecker`, as a decision list:\n(condition, result); conditions are Go expressions over `allow`, `repoName`, `access` -/\n")
	var rs []string
	for _, r := range rules {
		rs = append(rs, "("+leanStr(r[0])+", "+leanStr(r[1])+")")
	}
	b.WriteString("def selectRules : List (String × String) := [" + strings.Join(rs, ", ") + "]\n")
	b.WriteString("def selectRulesKnown : Bool := " + leanBool(rulesKnown) + "\n\n")
	b.WriteString("end OciModel.Generated.Select\n")
	return b.String(), nil
}

// selectRules recognises
//
//	return AccessChecker(r, func(repoName string, access AccessKind) error {
//		if C1 { return R1 } … return Rn
//	})
func selectRules(fd *ast.FuncDecl) (rules [][2]string, ok bool) {
	if normNode(fd.Type) != "func(r ociregistry.Interface, allow func(repoName string) bool) ociregistry.Interface" || len(fd.Body.List) != 1 {
		return nil, false
	}
	ret, isRet := fd.Body.List[0].(*ast.ReturnStmt)
	if !isRet || len(ret.Results) != 1 {
		return nil, false
	}
	call, isCall := ret.Results[0].(*ast.CallExpr)
	if !isCall || !isIdent(call.Fun, "AccessChecker") || len(call.Args) != 2 || !isIdent(call.Args[0], "r") {
		return nil, false
	}
	fl, isFn := call.Args[1].(*ast.FuncLit)
	if !isFn || normNode(fl.Type) != "func(repoName string, access AccessKind) error" {
		return nil, false
	}
	for i, s := range fl.Body.List {
		if i == len(fl.Body.List)-1 {
			r, isRet := s.(*ast.ReturnStmt)
			if !isRet || len(r.Results) != 1 {
				return nil, false
			}
			rules = append(rules, [2]string{"true", normNode(r.Results[0])})
			break
		}
		ifs, isIf := s.(*ast.IfStmt)
		if !isIf || ifs.Init != nil || ifs.Else != nil || len(ifs.Body.List) != 1 {
			return nil, false
		}
		r, isRet := ifs.Body.List[0].(*ast.ReturnStmt)
		if !isRet || len(r.Results) != 1 {
			return nil, false
		}
		rules = append(rules, [2]string{normNode(ifs.Cond), normNode(r.Results[0])})
	}
	return rules, len(rules) > 0
}
