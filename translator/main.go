// Command translator regenerates /verif/lean/OciModel/Generated/*.lean from the
// working tree of cue-labs/oci. It extracts facts of fixed shape (tables,
// guards, constants); it never translates Go statements in general. When a
// function does not have the expected shape it emits a shapeUnknown marker, which
// makes the Lean obligation that mentions the table fail.
package main

import (
	"bytes"
	"flag"
	"fmt"
	"os"
	"path/filepath"
)

type extractor struct {
	name string // Lean module name under OciModel.Generated
	fn   func(repo string) (string, error)
}

var extractors = []extractor{
	{"Funcs", genFuncs},
	{"ErrorTable", genErrorTable},
	{"Iface", genIface},
	{"Select", genSelect},
	{"Sub", genSub},
	{"WrapRO", genWrapRO},
	{"AuthFile", genAuthFile},
	{"Locks", genLocks},
	{"RefPat", genRefPat},
	{"RefRe", genRefRe},
	{"Unify", genUnify},
	{"AuthFacts", genAuthFacts},
	{"Debug", genDebug},
	{"SrvHandlers", genSrvHandlers},
	{"RespFacts", genRespFacts},
	{"WriterFacts", genWriterFacts},
	{"ClientCfg", genClientCfg},
	{"DescIter", genDescIter},
	{"UnifyID", genUnifyID},
	{"WireFacts", genWireFacts},
	{"ClientReq", genClientReq},
	{"WireToken", genWireToken},
}

func main() {
	repo := flag.String("repo", "/repo", "repository root")
	out := flag.String("out", "", "output directory (…/OciModel/Generated)")
	flag.Parse()
	if *out == "" {
		fmt.Fprintln(os.Stderr, "translator: -out required")
		os.Exit(2)
	}
	failed := false
	for _, e := range extractors {
		src, err := e.fn(*repo)
		if err != nil {
			// An extractor that cannot even read its input still writes a module,
			// so that the obligation fails in Lean rather than silently passing.
			src = fmt.Sprintf("namespace OciModel.Generated.%s\n/-- extractor failed: %s -/\ndef extractorFailed : Bool := true\nend OciModel.Generated.%s\n", e.name, sanitize(err.Error()), e.name)
			fmt.Fprintf(os.Stderr, "translator: %s: %v\n", e.name, err)
			failed = true
		}
		path := filepath.Join(*out, e.name+".lean")
		old, _ := os.ReadFile(path)
		if !bytes.Equal(old, []byte(src)) {
			if err := os.WriteFile(path, []byte(src), 0o644); err != nil {
				fmt.Fprintln(os.Stderr, "translator:", err)
				os.Exit(2)
			}
			fmt.Printf("changed %s\n", e.name)
		}
	}
	if failed {
		os.Exit(3)
	}
}

func sanitize(s string) string {
	b := []byte(s)
	for i, c := range b {
		if c == '-' && i+1 < len(b) && b[i+1] == '/' {
			b[i] = '_'
		}
	}
	return string(b)
}
