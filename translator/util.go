package main

import (
	"bytes"
	"go/ast"
	"go/printer"
	"go/token"
)

// exprString prints an expression in canonical gofmt form.
func exprString(e ast.Node) string {
	var b bytes.Buffer
	printer.Fprint(&b, token.NewFileSet(), e)
	return b.String()
}
