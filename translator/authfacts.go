package main

import (
	"fmt"
	"go/ast"
	"go/parser"
	"go/token"
	"path/filepath"
	"sort"
	"strconv"
	"strings"
)

// genAuthFacts extracts, from ociregistry/ociauth/auth.go and challenge.go, the
// structural facts the auth transport model (lean/OciModel/AuthTransport.lean,
// Challenge.lean) relies on:
//   - the character classes of the Www-Authenticate tokenizer (string literals and
//     conditions of challenge.go's init);
//   - for every function of the two files: the conditions of its if statements,
//     switch tags and case clauses, in source order (the guards and their order);
//   - for every function: its calls to a fixed set of callees with their
//     arguments, in source order (what is compared with what, what is unioned
//     with what, which margin is added to the clock, …);
//   - for every function: its return statements, in source order.
//
// It never translates statements in general: Props/C10.lean and Props/C11.lean
// compare these lists with the ones the model was written against (`decide`).
func genAuthFacts(repo string) (string, error) {
	fset := token.NewFileSet()
	dir := filepath.Join(repo, "ociregistry/ociauth")
	type fn struct {
		name   string
		conds  []string
		calls  []string
		rets   []string
		assign []string
	}
	var fns []fn
	var lits = map[string]string{}
	shape := true
	interesting := map[string]bool{
		"deleteExpiredTokens": true, "accessTokenForScope": true, "acquireAccessToken": true, "acquireToken": true,
		"doTokenRequest": true, "setAuthorization": true, "setAuthorizationFromChallenge": true, "challengeFromResponse": true,
		"Union": true, "Add": true, "Clone": true, "SetBasicAuth": true, "Set": true, "Contains": true, "After": true,
		"RoundTrip": true, "Close": true, "ParseScope": true, "init": true, "GetBody": true, "DeleteFunc": true,
		"parseWWWAuthenticate": true, "expectToken": true, "expectTokenOrQuoted": true, "skipSpace": true,
		"ContainsRune": true, "ToLower": true, "HasPrefix": true, "NewRequestWithContext": true, "Parse": true,
		"UnlimitedScope": true, "EntryForRegistry": true, "String": true, "make": true, "copy": true,
	}
	for _, file := range []string{"auth.go", "challenge.go"} {
		f, err := parser.ParseFile(fset, filepath.Join(dir, file), nil, 0)
		normalizeFile(f)
		if err != nil {
			return "", err
		}
		for _, d := range f.Decls {
			fd, ok := d.(*ast.FuncDecl)
			if !ok || fd.Body == nil {
				continue
			}
			name := fd.Name.Name
			if fd.Recv != nil && len(fd.Recv.List) == 1 {
				name = strings.TrimPrefix(exprString(fd.Recv.List[0].Type), "*") + "." + name
			}
			if file == "challenge.go" && name == "init" {
				name = "challenge.init"
			}
			cur := fn{name: name}
			ast.Inspect(fd.Body, func(n ast.Node) bool {
				switch v := n.(type) {
				case *ast.IfStmt:
					cur.conds = append(cur.conds, "if "+exprString(v.Cond))
				case *ast.SwitchStmt:
					tag := ""
					if v.Tag != nil {
						tag = exprString(v.Tag)
					}
					cur.conds = append(cur.conds, "switch "+tag)
				case *ast.CaseClause:
					var es []string
					for _, e := range v.List {
						es = append(es, exprString(e))
					}
					if v.List == nil {
						cur.conds = append(cur.conds, "default")
					} else {
						cur.conds = append(cur.conds, "case "+strings.Join(es, ", "))
					}
				case *ast.ForStmt:
					c := ""
					if v.Cond != nil {
						c = exprString(v.Cond)
					}
					cur.conds = append(cur.conds, "for "+c)
				case *ast.CallExpr:
					callee := ""
					switch fx := v.Fun.(type) {
					case *ast.SelectorExpr:
						callee = fx.Sel.Name
					case *ast.Ident:
						callee = fx.Name
					}
					if interesting[callee] {
						cur.calls = append(cur.calls, exprString(v))
					}
				case *ast.ReturnStmt:
					var es []string
					for _, e := range v.Results {
						es = append(es, exprString(e))
					}
					cur.rets = append(cur.rets, strings.Join(es, ", "))
				case *ast.AssignStmt:
					// assignments to fields of the receiver and to the request: state updates
					for i, l := range v.Lhs {
						ls := exprString(l)
						if strings.HasPrefix(ls, "r.") || strings.HasPrefix(ls, "req.") || strings.HasPrefix(ls, "resp.") || strings.HasPrefix(ls, "a.") || ls == "req" || ls == "scope" || ls == "h" || ls == "r" || ls == "needBodyClose" {
							r := ""
							if i < len(v.Rhs) {
								r = exprString(v.Rhs[i])
							} else if len(v.Rhs) == 1 {
								r = exprString(v.Rhs[0])
							}
							cur.assign = append(cur.assign, ls+" "+v.Tok.String()+" "+r)
						}
					}
				case *ast.BasicLit:
					if name == "challenge.init" && v.Kind == token.STRING {
						s, err := strconv.Unquote(v.Value)
						if err == nil {
							lits[fmt.Sprintf("lit%d", len(lits))] = s
						}
					}
				}
				return true
			})
			fns = append(fns, cur)
		}
	}
	sort.SliceStable(fns, func(i, j int) bool { return fns[i].name < fns[j].name })
	// the two character-class literals of challenge.go's init, in source order
	sep, spc := lits["lit0"], lits["lit1"]
	if len(lits) != 2 {
		shape = false
	}
	var b strings.Builder
	b.WriteString("-- GENERATED by /verif/translator from ociregistry/ociauth/auth.go and challenge.go. Do not edit.\n")
	b.WriteString("namespace OciModel.Generated.AuthFacts\n\n")
	fmt.Fprintf(&b, "/-- the separator characters of challenge.go's init -/\ndef separatorChars : String := %s\n\n", leanStr(sep))
	fmt.Fprintf(&b, "/-- the white-space characters of challenge.go's init -/\ndef spaceChars : String := %s\n\n", leanStr(spc))
	section := func(title, doc string, get func(fn) []string) {
		fmt.Fprintf(&b, "/-- %s -/\ndef %s : List (String × List String) := [\n", doc, title)
		for i, f := range fns {
			sepc := ","
			if i == len(fns)-1 {
				sepc = ""
			}
			fmt.Fprintf(&b, "  (%s, %s)%s\n", leanStr(f.name), leanStrList(get(f)), sepc)
		}
		b.WriteString("]\n\n")
	}
	section("conds", "per function: conditions of if/for/switch/case, in source order", func(f fn) []string { return f.conds })
	section("calls", "per function: calls to the callees the model mirrors, with arguments, in source order", func(f fn) []string { return f.calls })
	section("returns", "per function: return statements, in source order", func(f fn) []string { return f.rets })
	section("assigns", "per function: assignments to the registry state, the request and the response, in source order", func(f fn) []string { return f.assign })
	fmt.Fprintf(&b, "def shapeKnown : Bool := %s\n\nend OciModel.Generated.AuthFacts\n", leanBool(shape))
	return b.String(), nil
}
