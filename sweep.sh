#!/bin/bash
# sweep.sh <tier> <seeds...>: run every claimed check with the given seeds on the unchanged tree;
# prints one line per (property, seed). Development aid (unchanged-tree false-alarm hunt).
tier=$1; shift
cd "$(dirname "$0")"
[ -x .build/translator ] || ./setup.sh >/dev/null 2>&1
for seed in "$@"; do
  for p in $(python3 -c "import json; print(' '.join(c['property_id'] for c in json.load(open('MANIFEST.json'))['checks']))"); do
    out=$(VERIF_SEED=$seed timeout 3600 ./check $p --tier $tier 2>&1 | grep -E "^(OK|VIOLATION|broken)" | tr '\n' ' ')
    echo "seed=$seed $p: $out"
  done
done
