#!/bin/bash
# Runs the repository's pinned test suite (guard off) and prints pass/fail counts.
cd /repo || exit 2
fail=0
for m in ./cmd/ocisrv ./internal/ci ./ociregistry ./ociregistry/internal/conformance; do
  (cd /repo/$m && GOPROXY=off GOSUMDB=off go test -vet=off -count=1 -timeout 25m ./... 2>&1) | grep -v '^ok\|no test files' && fail=1
done
[ $fail = 0 ] && echo "BASELINE PASS" || echo "BASELINE: see above"
