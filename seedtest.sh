#!/bin/bash
# seedtest.sh <worktree> <k> <checks...>: confirm a seeded change (suite passes with it), run the
# given checks against it (applied to /repo, reverted afterwards), print a summary.
# Development aid for the kill matrix in DESIGN.md §10; not a registered command.
WT=$1; K=$2; shift 2
P=$WT/out/$K/patch.diff
[ -f "$P" ] || { echo "no patch $P"; exit 2; }
git -C $WT checkout -q -- . ; git -C $WT clean -qfd -e out
git -C $WT apply "$P" || { echo "PATCH DOES NOT APPLY to worktree"; exit 2; }
suite=PASS
for m in cmd/ocisrv ociregistry ociregistry/internal/conformance; do
  (cd $WT/$m && GOPROXY=off GOSUMDB=off go test -vet=off -count=1 ./... >/tmp/seedtest.log 2>&1) || { suite=FAIL; tail -5 /tmp/seedtest.log; }
done
echo "suite-with-patch: $suite"
git -C $WT checkout -q -- . ; git -C $WT clean -qfd -e out
[ -n "$(git -C /repo status --porcelain --untracked-files=no)" ] && { echo "/repo not clean"; exit 2; }
# /repo may have moved on (a fix: commit) since the sub-agent's worktree was cut: a hand-rebased copy wins
[ -f "${P%.diff}.rebased.diff" ] && P="${P%.diff}.rebased.diff"
git -C /repo apply "$P" || { echo "PATCH DOES NOT APPLY to /repo"; exit 2; }
for c in "$@"; do
  out=$(cd /verif && timeout 900 ./check $c 2>&1 | grep -E "^(VIOLATION|OK|KNOWN|broken)" | head -6)
  echo "--- check $c:"; echo "$out"
done
git -C /repo checkout -q -- .
git -C /verif checkout -q -- evidence 2>/dev/null
