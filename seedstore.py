#!/usr/bin/env python3
"""seedstore.py <prop> <k> <caught-by (comma list or 'none')> <note> [<dst-k>]: archive a confirmed seeded change
(/tmp/mut/<prop>/out/<k>) under /verif/seeded/<prop>-<dst-k or k>/"""
import sys, os, json, shutil
prop, k, caught, note = sys.argv[1], sys.argv[2], sys.argv[3], sys.argv[4]
src = "/tmp/mut/%s/out/%s" % (prop, k)
dst = "/verif/seeded/%s-%s" % (prop, sys.argv[5] if len(sys.argv) > 5 else k)
if os.path.exists(dst): shutil.rmtree(dst)
os.makedirs(dst)
if os.path.exists(os.path.join(src, "patch.rebased.diff")):
    # /repo moved on after the sub-agent's worktree was cut: patch.diff is the hand-rebased change (applies to /repo now)
    shutil.copy(os.path.join(src, "patch.rebased.diff"), os.path.join(dst, "patch.diff"))
    shutil.copy(os.path.join(src, "patch.diff"), os.path.join(dst, "patch.as-delivered.diff"))
else:
    shutil.copy(os.path.join(src, "patch.diff"), dst)
shutil.copytree(os.path.join(src, "demo"), os.path.join(dst, "demo"))
meta = json.load(open(os.path.join(src, "meta.json")))
meta["property"] = prop
meta["confirmed_by_me"] = {
    "suite_with_patch": "all three modules pass (seedtest.sh)",
    "demo": "fails with the patch, passes without (seeddemo.sh)",
    "checks_run": "git -C /repo apply patch.diff; ./check <id>; git -C /repo checkout -- .",
}
meta["caught_by"] = [] if caught == "none" else caught.split(",")
meta["note"] = note
json.dump(meta, open(os.path.join(dst, "meta.json"), "w"), indent=1)
print("stored", dst)
