package main

import (
	"net/http/httptest"
	"strings"

	"cuelabs.dev/go/oci/ociregistry"
	"cuelabs.dev/go/oci/ociregistry/ociclient"
	"cuelabs.dev/go/oci/ociregistry/ociserver"
)

// chain is backend <- server1 <- client1 <- server2 <- client2 …: regs[0] is the
// backend, regs[i] is the client i hops away from it.
type chain struct {
	servers []*httptest.Server
	regs    []ociregistry.Interface
}

func newChain(backend ociregistry.Interface, hops int, sopts *ociserver.Options, copts *ociclient.Options) *chain {
	c := &chain{regs: []ociregistry.Interface{backend}}
	cur := backend
	for i := 0; i < hops; i++ {
		srv := httptest.NewServer(ociserver.New(cur, sopts))
		c.servers = append(c.servers, srv)
		co := ociclient.Options{Insecure: true}
		if copts != nil {
			co = *copts
			co.Insecure = true
		}
		cl, err := ociclient.New(strings.TrimPrefix(srv.URL, "http://"), &co)
		if err != nil {
			panic(err)
		}
		c.regs = append(c.regs, cl)
		cur = cl
	}
	return c
}

func (c *chain) Close() {
	for i := len(c.servers) - 1; i >= 0; i-- {
		c.servers[i].Close()
	}
}
