package main

import (
	"fmt"
	"sort"
	"strconv"
	"strings"

	"cuelabs.dev/go/oci/ociregistry"
	"cuelabs.dev/go/oci/ociregistry/ocimem"
	"cuelabs.dev/go/oci/ociregistry/ociref"
	ocispec "github.com/opencontainers/image-spec/specs-go/v1"
)

// C02: the in-memory registry follows the reference semantics.
// Cases are histories of "mem …" lines, starting with "mem init <immutable>".

func init() {
	engines["C02"] = func() Engine { return &memEngine{prop: "C02"} }
	engines["C01"] = func() Engine { return &memEngine{prop: "C01"} }
}

type memEngine struct{ prop string }

func (*memEngine) UsesModel() bool { return true }

func (e *memEngine) Impl(c Case) []string {
	out := make([]string, len(c.Lines))
	var ri *regInterp
	for i, l := range c.Lines {
		if strings.HasPrefix(l, "mem init ") {
			ri = newRegInterp(newMem(strings.HasSuffix(l, " 1")))
			out[i] = "ok"
			continue
		}
		if ri == nil {
			ri = newRegInterp(ocimem.New())
		}
		out[i] = guard(func() string { return ri.do(l) })
	}
	return out
}

// ---- universe ----

type memUniverse struct {
	repos     []string
	blobs     [][]byte
	manifests []memManifest // in dependency order
	tags      []string
	ids       []string
}

type memManifest struct {
	name string
	mt   string
	data []byte
}

const mtOpaque = "application/x-verif"

func newMemUniverse(rng *RNG, large bool) *memUniverse {
	u := &memUniverse{
		repos: []string{"a", "b/c", "blobs/uploads", "a"},
		blobs: [][]byte{[]byte(""), []byte("x"), []byte("hello"), []byte("\x00\xffé"), []byte("{}"), []byte("layer-3")},
		tags:  []string{"latest", "v1", "tags", "_"},
		ids:   []string{"myid", "other-id"},
	}
	if large {
		for i := 0; i < 6; i++ {
			u.repos = append(u.repos, genRepo(rng))
		}
		for i := 0; i < 8; i++ {
			u.blobs = append(u.blobs, rng.Bytes(rng.Intn(40)))
		}
		for i := 0; i < 4; i++ {
			u.tags = append(u.tags, genTag(rng))
		}
	}
	bd := func(i int) ocispec.Descriptor {
		return descJSON("application/octet-stream", sha256Digest(u.blobs[i]), int64(len(u.blobs[i])))
	}
	md := func(m memManifest) ocispec.Descriptor {
		return descJSON(m.mt, sha256Digest(m.data), int64(len(m.data)))
	}
	add := func(name, mt string, v any) memManifest {
		var data []byte
		if b, ok := v.([]byte); ok {
			data = b
		} else {
			data = mustJSON(v)
		}
		m := memManifest{name, mt, data}
		u.manifests = append(u.manifests, m)
		return m
	}
	img := ocispec.MediaTypeImageManifest
	idx := ocispec.MediaTypeImageIndex
	m1 := add("m1", img, ocispec.Manifest{MediaType: img, Config: bd(4), Layers: []ocispec.Descriptor{bd(1), bd(2)}})
	m2desc := md(m1)
	m2 := add("m2", img, ocispec.Manifest{MediaType: img, Config: bd(1), Subject: &m2desc})
	i1 := add("i1", idx, ocispec.Index{MediaType: idx, Manifests: []ocispec.Descriptor{md(m1)}})
	dangling := descJSON(img, sha256Digest([]byte("nowhere")), 7)
	add("i2", idx, ocispec.Index{MediaType: idx, Manifests: []ocispec.Descriptor{md(i1), md(m2)}, Subject: &dangling})
	add("opaque", mtOpaque, []byte("not json at all"))
	add("opaque-subjectless-json", mtOpaque, mustJSON(ocispec.Manifest{Config: bd(5), Subject: &m2desc}))
	add("malformed", img, []byte("{"))
	add("noconfig", img, []byte(`{"layers":[]}`))
	zl := bd(1)
	zl.Size = 0
	add("zerosize-layer", img, ocispec.Manifest{MediaType: img, Config: bd(4), Layers: []ocispec.Descriptor{zl}})
	el := bd(0)
	add("empty-layer", img, ocispec.Manifest{MediaType: img, Config: bd(4), Layers: []ocispec.Descriptor{el}})
	wrong := md(m1)
	wrong.MediaType = idx // an image manifest listed under the index media type
	add("i3-wrongtype", idx, ocispec.Index{MediaType: idx, Manifests: []ocispec.Descriptor{wrong}})
	nomt := bd(2)
	nomt.MediaType = ""
	add("nomediatype-layer", img, ocispec.Manifest{MediaType: img, Config: bd(4), Layers: []ocispec.Descriptor{nomt}})
	add("m3-layer3", img, ocispec.Manifest{MediaType: img, Config: bd(4), Layers: []ocispec.Descriptor{bd(5)}})
	add("emptymt", "", []byte("x"))
	// an index whose children are of media types the registry cannot look inside (a Docker schema 2
	// manifest, an artifact of unknown type): they are referenced all the same
	docker := add("docker-child", "application/vnd.docker.distribution.manifest.v2+json", []byte(`{"schemaVersion":2,"mediaType":"application/vnd.docker.distribution.manifest.v2+json"}`))
	opq := memManifest{"opaque", mtOpaque, []byte("not json at all")}
	add("i-foreign", idx, ocispec.Index{MediaType: idx, Manifests: []ocispec.Descriptor{md(docker), md(m1), md(opq)}})
	// an image with layers AND a subject that is present; bytes that are stored both as a blob and as a
	// manifest (an artifact carries an image manifest's bytes as a layer) next to that image in one index
	m1d := md(m1)
	add("m4-layers-subject", img, ocispec.Manifest{MediaType: img, Config: bd(4), Layers: []ocispec.Descriptor{bd(1), bd(5)}, Subject: &m1d})
	u.blobs = append(u.blobs, m1.data)
	asLayer := descJSON("application/octet-stream", sha256Digest(m1.data), int64(len(m1.data)))
	art := add("art-carrying-m1", img, ocispec.Manifest{MediaType: img, Config: bd(4), Layers: []ocispec.Descriptor{asLayer}})
	add("i-shared-bytes", idx, ocispec.Index{MediaType: idx, Manifests: []ocispec.Descriptor{md(art), md(m1)}})
	// media types with a parameter, or with upper-case letters: carried verbatim
	add("opaque-param", "application/vnd.example.thing.v1+json; version=2", []byte(`{"thing":1}`))
	add("opaque-upper", "application/vnd.Example.Thing.v1+json", []byte(`{"thing":2}`))
	add("img-param", img+";x=y", m1.data) // not the OCI image manifest type: opaque to the registry
	// a valid document followed by something else is not a valid document
	add("m1-trailing", img, append(append([]byte{}, m1.data...), []byte("}garbage")...))
	add("m1-twice", img, append(append([]byte{}, m1.data...), m1.data...))
	add("i1-trailing", idx, append(append([]byte{}, i1.data...), []byte(" {}")...))
	add("m1-trailing-space", img, append(append([]byte{}, m1.data...), []byte(" \n\t")...)) // this one is valid
	// an artifact in the style of image-spec 1.1: config and a layer are the well-known empty descriptor
	// (application/vnd.oci.empty.v1+json, the two bytes "{}", blob 4) - a reference like any other (seed C14-12)
	emptyDesc := descJSON("application/vnd.oci.empty.v1+json", sha256Digest(u.blobs[4]), int64(len(u.blobs[4])))
	add("artifact-empty-config", img, ocispec.Manifest{MediaType: img, ArtifactType: "application/vnd.example.sbom", Config: emptyDesc, Layers: []ocispec.Descriptor{emptyDesc}})
	add("artifact-empty-config-only", img, ocispec.Manifest{MediaType: img, ArtifactType: "application/vnd.example.sig", Config: emptyDesc})
	return u
}

func (u *memUniverse) digests() []string {
	var ds []string
	for _, b := range u.blobs {
		ds = append(ds, sha256Digest(b))
	}
	for _, m := range u.manifests {
		ds = append(ds, sha256Digest(m.data))
	}
	ds = append(ds, "sha256:"+strings.Repeat("0", 64), "sha512:"+strings.Repeat("a", 128), "bogus", "")
	return ds
}

func (u *memUniverse) genOp(rng *RNG, writers *[]string) string {
	repo := pick(rng, u.repos)
	if rng.Chance(1, 25) {
		repo = pick(rng, []string{"BAD", "", "a//b", "nonexistent"})
	}
	ds := u.digests()
	d := pick(rng, ds)
	tag := pick(rng, u.tags)
	switch rng.Intn(100) {
	case 0, 1, 2, 3, 4, 5, 6, 7, 8, 9, 10, 11, 12, 13: // push blob, mostly valid
		b := pick(rng, u.blobs)
		dig, size, mt := sha256Digest(b), int64(len(b)), "application/octet-stream"
		switch rng.Intn(12) {
		case 0:
			dig = pick(rng, ds)
		case 1:
			size += int64(rng.Intn(3)) - 1
		case 2, 3:
			mt = pick(rng, []string{"", "text/plain", "text/plain", "application/x-other"})
		}
		return linePushBlob(repo, mt, dig, size, b)
	case 14, 15, 16, 17, 18, 19, 20, 21, 22, 23, 24, 25, 26, 27, 28: // push manifest
		m := pick(rng, u.manifests)
		t := ""
		if rng.Chance(2, 3) {
			t = tag
		}
		if rng.Chance(1, 20) {
			t = pick(rng, []string{"-bad", "a:b", strings.Repeat("t", 129)})
		}
		return linePushManifest(repo, t, m.data, m.mt)
	case 29, 30, 31, 32:
		return fmt.Sprintf("mem mount %s %s %s", tok(pick(rng, u.repos)), tok(repo), tok(d))
	case 33, 34, 35, 36, 37, 38:
		return fmt.Sprintf("mem getblob %s %s", tok(repo), tok(d))
	case 39, 40, 41, 42:
		o0 := int64(rng.Intn(8)) - 1
		o1 := int64(rng.Intn(9)) - 1
		if rng.Chance(1, 2) {
			// offsets around the END of one of the universe's blobs (or manifests stored as blobs), whichever digest is
			// asked for: len-1, len, len+1 and far beyond, on both sides
			n := int64(len(pick(rng, u.blobs)))
			around := []int64{n - 1, n, n + 1, n + 7, 1 << 40, -1, 0}
			o0, o1 = pick(rng, around), pick(rng, around)
		}
		return fmt.Sprintf("mem getblobrange %s %s %d %d", tok(repo), tok(d), o0, o1)
	case 43, 44, 45, 46, 47:
		return fmt.Sprintf("mem getmanifest %s %s", tok(repo), tok(d))
	case 48, 49, 50, 51, 52:
		return fmt.Sprintf("mem gettag %s %s", tok(repo), tok(tag))
	case 53, 54:
		return fmt.Sprintf("mem resolveblob %s %s", tok(repo), tok(d))
	case 55, 56:
		return fmt.Sprintf("mem resolvemanifest %s %s", tok(repo), tok(d))
	case 57, 58, 59:
		return fmt.Sprintf("mem resolvetag %s %s", tok(repo), tok(tag))
	case 60, 61, 62, 63:
		return fmt.Sprintf("mem deleteblob %s %s", tok(repo), tok(d))
	case 64, 65, 66, 67:
		return fmt.Sprintf("mem deletemanifest %s %s", tok(repo), tok(d))
	case 68, 69, 70:
		return fmt.Sprintf("mem deletetag %s %s", tok(repo), tok(tag))
	case 71, 72, 73:
		return fmt.Sprintf("mem repositories %s", tok(pick(rng, append([]string{"", "a", "b", "zzz"}, u.repos...))))
	case 74, 75, 76:
		return fmt.Sprintf("mem tags %s %s", tok(repo), tok(pick(rng, append([]string{"", "m", "zzz"}, u.tags...))))
	case 77, 78, 79, 80:
		return fmt.Sprintf("mem referrers %s %s", tok(repo), tok(d))
	case 81, 82, 83:
		if ociref.IsValidRepository(repo) {
			// the registry names its sessions itself; the protocol calls them @0, @1, … in order of
			// creation (only successful starts count, and resumed sessions are not new ones)
			fresh := 0
			for _, w := range *writers {
				if strings.Contains(w, "\x00@") {
					fresh++
				}
			}
			*writers = append(*writers, repo+"\x00@"+strconv.Itoa(fresh))
		}
		return fmt.Sprintf("mem pushchunked %s", tok(repo))
	case 84, 85:
		id := pick(rng, u.ids)
		off := int64(rng.Intn(4)) - 1
		*writers = append(*writers, repo+"\x00"+id)
		return fmt.Sprintf("mem resume %s %s %d", tok(repo), tok(id), off)
	}
	// writer operations on a previously obtained handle
	if len(*writers) == 0 {
		return fmt.Sprintf("mem repositories %s", tok(""))
	}
	w := strings.SplitN(pick(rng, *writers), "\x00", 2)
	switch rng.Intn(10) {
	case 0, 1, 2, 3:
		return fmt.Sprintf("mem wwrite %s %s %s", tok(w[0]), tok(w[1]), tok(string(pick(rng, [][]byte{[]byte("x"), []byte("hel"), []byte("lo"), []byte(""), []byte("hello")}))))
	case 4:
		return fmt.Sprintf("mem wsize %s %s", tok(w[0]), tok(w[1]))
	case 5:
		return fmt.Sprintf("mem resume %s %s %d", tok(w[0]), tok(w[1]), int64(rng.Intn(7))-1)
	case 6:
		if rng.Chance(1, 3) {
			return fmt.Sprintf("mem wcancel %s %s", tok(w[0]), tok(w[1]))
		}
		fallthrough
	default:
		return fmt.Sprintf("mem wcommit %s %s %s", tok(w[0]), tok(w[1]), tok(pick(rng, []string{sha256Digest([]byte("x")), sha256Digest([]byte("hello")), sha256Digest([]byte("")), sha256Digest([]byte("xx")), sha256Digest([]byte("hel"))})))
	}
}

// memDirected: short histories aimed at state that two repositories could share and at the
// edges of manifest decoding.
func memDirected(rng *RNG) []Case {
	var cases []Case
	u := newMemUniverse(rng, false)
	byName := map[string]memManifest{}
	for _, m := range u.manifests {
		byName[m.name] = m
	}
	b := u.blobs[2]
	dg := sha256Digest(b)
	for imm := 0; imm < 2; imm++ {
		for _, back := range []string{"a", "b/c"} {
			// a mounted blob is a copy: re-pushing it under another media type in one repository
			// does not change what the other reports; deleting it in one leaves the other
			lines := []string{fmt.Sprintf("mem init %d", imm),
				linePushBlob("a", "application/octet-stream", dg, int64(len(b)), b),
				fmt.Sprintf("mem mount %s %s %s", tok("a"), tok("b/c"), tok(dg)),
				linePushBlob(back, "text/plain", dg, int64(len(b)), b),
			}
			for _, r := range []string{"a", "b/c"} {
				lines = append(lines, fmt.Sprintf("mem resolveblob %s %s", tok(r), tok(dg)), fmt.Sprintf("mem getblob %s %s", tok(r), tok(dg)))
			}
			lines = append(lines, fmt.Sprintf("mem deleteblob %s %s", tok(back), tok(dg)))
			for _, r := range []string{"a", "b/c"} {
				lines = append(lines, fmt.Sprintf("mem resolveblob %s %s", tok(r), tok(dg)))
			}
			cases = append(cases, Case{Tag: "directed:mount-copy", Lines: lines})
		}
		// acceptance is judged against the repository as it is NOW: a manifest that was accepted once, whose layer (or
		// member) has been deleted since, is refused when the same bytes come again (seed C02-14)
		for _, pr := range [][2]string{{"m1", "blob"}, {"i1", "m1"}} {
			m := byName[pr[0]]
			lines := []string{fmt.Sprintf("mem init %d", imm)}
			for _, bl := range u.blobs {
				lines = append(lines, linePushBlob("a", "application/octet-stream", sha256Digest(bl), int64(len(bl)), bl))
			}
			if pr[0] == "i1" {
				lines = append(lines, linePushManifest("a", "", byName["m1"].data, byName["m1"].mt))
			}
			lines = append(lines, linePushManifest("a", "", m.data, m.mt))
			if pr[1] == "blob" {
				lines = append(lines, fmt.Sprintf("mem deleteblob %s %s", tok("a"), tok(sha256Digest(u.blobs[1]))))
			} else {
				lines = append(lines, fmt.Sprintf("mem deletemanifest %s %s", tok("a"), tok(sha256Digest(byName["m1"].data))))
			}
			lines = append(lines, linePushManifest("a", "again", m.data, m.mt), linePushManifest("a", "", m.data, m.mt),
				fmt.Sprintf("mem resolvetag %s %s", tok("a"), tok("again")), fmt.Sprintf("mem gettag %s %s", tok("a"), tok("again")))
			cases = append(cases, Case{Tag: "directed:repush-after-delete", Lines: lines})
		}
		// the same bytes under two media types: what a tag serves is the manifest as it is stored now
		for _, order := range [][2]string{{"m1", "img-param"}, {"img-param", "m1"}, {"opaque-param", "opaque-upper"}} {
			first, second := byName[order[0]], byName[order[1]]
			data := first.data
			lines := []string{fmt.Sprintf("mem init %d", imm)}
			for _, bl := range u.blobs {
				lines = append(lines, linePushBlob("a", "application/octet-stream", sha256Digest(bl), int64(len(bl)), bl))
			}
			lines = append(lines,
				linePushManifest("a", "t", data, first.mt),
				linePushManifest("a", "", data, second.mt),
				fmt.Sprintf("mem gettag %s %s", tok("a"), tok("t")),
				fmt.Sprintf("mem resolvetag %s %s", tok("a"), tok("t")),
				fmt.Sprintf("mem getmanifest %s %s", tok("a"), tok(sha256Digest(data))),
				fmt.Sprintf("mem resolvemanifest %s %s", tok("a"), tok(sha256Digest(data))),
				linePushManifest("a", "t2", data, second.mt),
				fmt.Sprintf("mem gettag %s %s", tok("a"), tok("t")),
				fmt.Sprintf("mem gettag %s %s", tok("a"), tok("t2")),
				fmt.Sprintf("mem resolvetag %s %s", tok("a"), tok("t2")))
			cases = append(cases, Case{Tag: "directed:retype", Lines: lines})
		}
		// a committed upload's session lives on: cancelling it and writing to it again from the start
		// must not reach the blob that was committed from it
		for _, second := range []string{"HELLO", "HEL", "HELLO-and-more"} {
			hello := []byte("hello")
			hd := sha256Digest(hello)
			cases = append(cases, Case{Tag: "directed:cancel-after-commit", Lines: []string{fmt.Sprintf("mem init %d", imm),
				"mem pushchunked " + tok("a"),
				fmt.Sprintf("mem wwrite %s %s %s", tok("a"), tok("@0"), tok("hello")),
				fmt.Sprintf("mem wcommit %s %s %s", tok("a"), tok("@0"), tok(hd)),
				linePushManifest("a", "t", mustJSON(ocispec.Manifest{MediaType: ocispec.MediaTypeImageManifest, Config: descJSON("application/octet-stream", hd, 5), Layers: []ocispec.Descriptor{descJSON("application/octet-stream", hd, 5)}}), ocispec.MediaTypeImageManifest),
				fmt.Sprintf("mem wcancel %s %s", tok("a"), tok("@0")),
				fmt.Sprintf("mem resume %s %s 0", tok("a"), tok("@0")),
				fmt.Sprintf("mem wwrite %s %s %s", tok("a"), tok("@0"), tok(second)),
				fmt.Sprintf("mem wsize %s %s", tok("a"), tok("@0")),
				fmt.Sprintf("mem getblob %s %s", tok("a"), tok(hd)),
				fmt.Sprintf("mem resume %s %s -1", tok("a"), tok("@0")),
				fmt.Sprintf("mem wwrite %s %s %s", tok("a"), tok("@0"), tok(second)),
				fmt.Sprintf("mem getblob %s %s", tok("a"), tok(hd)),
				fmt.Sprintf("mem wcommit %s %s %s", tok("a"), tok("@0"), tok(sha256Digest([]byte("hello"+second)))),
				fmt.Sprintf("mem getblob %s %s", tok("a"), tok(hd)),
				fmt.Sprintf("mem gettag %s %s", tok("a"), tok("t")),
			}})
		}
		// a tag left dangling by DeleteManifest (mutable tags): reading through it fails, but reading changes nothing -
		// the tag is still listed and still resolves the same way afterwards (seed C14-14: a read that tidies up)
		{
			a := tok("a")
			m := byName["opaque"]
			md := tok(sha256Digest(m.data))
			cases = append(cases, Case{Tag: "directed:dangling-tag-reads", Lines: []string{fmt.Sprintf("mem init %d", imm),
				linePushManifest("a", "stale", m.data, m.mt),
				linePushManifest("a", "live", byName["opaque-upper"].data, byName["opaque-upper"].mt),
				fmt.Sprintf("mem deletemanifest %s %s", a, md),
				fmt.Sprintf("mem tags %s %s", a, tok("")),
				fmt.Sprintf("mem resolvetag %s %s", a, tok("stale")),
				fmt.Sprintf("mem gettag %s %s", a, tok("stale")),
				fmt.Sprintf("mem tags %s %s", a, tok("")),
				fmt.Sprintf("mem resolvetag %s %s", a, tok("stale")),
				fmt.Sprintf("mem gettag %s %s", a, tok("stale")),
				fmt.Sprintf("mem tags %s %s", a, tok("")),
			}})
		}
		// one upload ID used in two repositories names two uploads (seed C02-12: a registry-wide session table)
		{
			a, b := tok("a"), tok("b/c")
			id := tok("myid")
			cases = append(cases, Case{Tag: "directed:same-id-two-repos", Lines: []string{fmt.Sprintf("mem init %d", imm),
				fmt.Sprintf("mem resume %s %s 0", a, id),
				fmt.Sprintf("mem wwrite %s %s %s", a, id, tok("aaa")),
				fmt.Sprintf("mem resume %s %s 0", b, id),
				fmt.Sprintf("mem wwrite %s %s %s", b, id, tok("bb")),
				fmt.Sprintf("mem wsize %s %s", b, id),
				fmt.Sprintf("mem wcommit %s %s %s", b, id, tok(sha256Digest([]byte("bb")))),
				fmt.Sprintf("mem getblob %s %s", b, tok(sha256Digest([]byte("bb")))),
				fmt.Sprintf("mem getblob %s %s", a, tok(sha256Digest([]byte("bb")))), // index 8: the only line that has to fail
				fmt.Sprintf("mem wcommit %s %s %s", a, id, tok(sha256Digest([]byte("aaa")))),
				fmt.Sprintf("mem getblob %s %s", a, tok(sha256Digest([]byte("aaa")))),
			}})
		}
		// manifests whose bytes are a valid document followed by more
		lines := []string{fmt.Sprintf("mem init %d", imm)}
		for _, bl := range u.blobs {
			lines = append(lines, linePushBlob("a", "application/octet-stream", sha256Digest(bl), int64(len(bl)), bl))
		}
		lines = append(lines, linePushManifest("a", "", byName["m1"].data, byName["m1"].mt))
		for _, name := range []string{"m1-trailing", "m1-twice", "i1-trailing", "m1-trailing-space"} {
			m := byName[name]
			lines = append(lines, linePushManifest("a", name, m.data, m.mt),
				fmt.Sprintf("mem gettag %s %s", tok("a"), tok(name)),
				fmt.Sprintf("mem resolvemanifest %s %s", tok("a"), tok(sha256Digest(m.data))))
		}
		lines = append(lines, fmt.Sprintf("mem tags %s %s", tok("a"), tok("")))
		cases = append(cases, Case{Tag: "directed:trailing-json", Lines: lines})
	}
	return cases
}

func (e *memEngine) Gen(rng *RNG, tier string) []Case {
	var cases []Case
	if e.prop == "C14" {
		cases = append(cases, c14Directed(rng)...)
	}
	cases = append(cases, memDirected(rng)...)
	n, maxLen := 600, 40
	if tier == "thorough" {
		n, maxLen = 8000, 200
	}
	for i := 0; i < n; i++ {
		u := newMemUniverse(rng, i%4 == 3)
		imm := i % 2
		if e.prop == "C14" {
			imm = 1
		}
		lines := []string{fmt.Sprintf("mem init %d", imm)}
		var writers []string
		// seed: push the blobs and some manifests so that most reads hit
		if rng.Chance(3, 4) {
			for j, b := range u.blobs {
				if rng.Chance(4, 5) {
					lines = append(lines, linePushBlob(u.repos[j%2], "application/octet-stream", sha256Digest(b), int64(len(b)), b))
					lines = append(lines, linePushBlob(u.repos[(j+1)%2], "application/octet-stream", sha256Digest(b), int64(len(b)), b))
				}
			}
			for _, m := range u.manifests[:4] {
				if rng.Chance(2, 3) {
					lines = append(lines, linePushManifest(u.repos[0], pick(rng, append([]string{""}, u.tags...)), m.data, m.mt))
				}
			}
		}
		k := 5 + rng.Intn(maxLen)
		for j := 0; j < k; j++ {
			lines = append(lines, u.genOp(rng, &writers))
		}
		cases = append(cases, Case{Lines: lines})
	}
	return cases
}

// ---- oracle: a reference tracker in Go (independent of the Lean model) ----

type trkBlob struct {
	data []byte
	mt   string
}
type trkManifest struct {
	data    []byte
	mt      string
	subject string
	refs    []refTok
}
type trkRepo struct {
	blobs     map[string]trkBlob
	manifests map[string]trkManifest
	tags      map[string]ociregistry.Descriptor
	// immutable-tags mode: references ever recorded for a manifest digest, and
	// everything that was at some point reachable from a tag (it must stay).
	refsEver  map[string][]refTok
	protected map[string]bool
	followed  map[string]bool // manifests whose references have been taken into the protected set
}

// refsAs is what the stored bytes reference when they are read as the media type a referring descriptor
// declares for them, where that is not the media type they are stored with (F42: the same bytes can be stored
// under another media type while no tag leads to them; whoever follows the reference reads them as declared).
// Bytes that do not decode as that type, and types ocimem cannot look inside, reference nothing.
func (m trkManifest) refsAs(mt string) []refTok {
	if mt == m.mt {
		return nil
	}
	kind, refs := parseDecTokens(strings.Split(decodeManifest(mt, m.data), " "))
	if kind != "refs" {
		return nil
	}
	return refs
}

// protect adds everything currently reachable from a tag to the protected set,
// following the references a digest was EVER stored with (so that re-storing the
// same bytes under another media type cannot unprotect anything).
func (r *trkRepo) protect() {
	if r.protected == nil {
		r.protected = map[string]bool{}
	}
	if r.followed == nil {
		r.followed = map[string]bool{}
	}
	// A digest is protected whatever it was referenced as (the registry compares digests only), but it
	// is looked INTO only where it is referenced as a manifest: a layer that happens to carry a
	// manifest's bytes is a blob, and what those bytes mention is not referenced through it.
	// declared is the media type the reference gives the manifest (a tag: the one it was pushed with).
	var visit func(d string, asManifest bool, declared string)
	visit = func(d string, asManifest bool, declared string) {
		r.protected[d] = true
		key := d + "\x00" + declared
		if !asManifest || r.followed[key] {
			return
		}
		r.followed[key] = true
		// what the manifest references under the media type it has NOW, while reachable from a tag, is
		// retained from now on, and so is what it references under the media type the reference that leads to
		// it declares (F42); references it had under another type while no tag led to it, and that no
		// reference leading to it declares, are not
		if m, ok := r.manifests[d]; ok {
			r.refsEver[d] = append(r.refsEver[d], m.refs...)
			r.refsEver[d] = append(r.refsEver[d], m.refsAs(declared)...)
		}
		for _, ref := range r.refsEver[d] {
			switch ref.kind {
			case 0:
				visit(ref.digest, false, "")
			case 1:
				visit(ref.digest, true, ref.mediaType)
			} // a subject may dangle and is not retained
		}
	}
	for _, d := range r.tags {
		visit(string(d.Digest), true, d.MediaType)
	}
}

func (r *trkRepo) hasContent() bool {
	return r != nil && (len(r.blobs) > 0 || len(r.manifests) > 0 || len(r.tags) > 0)
}

type tracker struct {
	immutable bool
	repos     map[string]*trkRepo
	named     map[string]bool   // repository names ever passed to a call
	bufs      map[string][]byte // "repo\x00id" -> bytes accepted so far
}

func newTracker(imm bool) *tracker {
	return &tracker{immutable: imm, repos: map[string]*trkRepo{}, named: map[string]bool{}, bufs: map[string][]byte{}}
}

func (t *tracker) repo(name string) *trkRepo {
	r := t.repos[name]
	if r == nil {
		r = &trkRepo{blobs: map[string]trkBlob{}, manifests: map[string]trkManifest{}, tags: map[string]ociregistry.Descriptor{}, refsEver: map[string][]refTok{}, protected: map[string]bool{}}
		t.repos[name] = r
	}
	return r
}

func parseDecTokens(ts []string) (kind string, refs []refTok) {
	if len(ts) == 0 {
		return "opaque", nil
	}
	if ts[0] != "refs" {
		return ts[0], nil
	}
	n, _ := strconv.Atoi(ts[1])
	for i := 0; i < n; i++ {
		b := 2 + 4*i
		k, _ := strconv.Atoi(ts[b])
		mt, _ := untok(ts[b+1])
		dg, _ := untok(ts[b+2])
		sz, _ := strconv.ParseInt(ts[b+3], 10, 64)
		refs = append(refs, refTok{k, mt, dg, sz})
	}
	return "refs", refs
}

// reachable reports whether target is reachable from some tag of r through
// stored manifests' references.
func (r *trkRepo) reachable(target string) bool {
	seen := map[string]bool{}
	// declared is the media type the reference gives the manifest: it is followed under the media type it
	// is stored with and under the declared one (F42)
	var visit func(d, declared string) bool
	visit = func(d, declared string) bool {
		if d == target {
			return true
		}
		key := d + "\x00" + declared
		if seen[key] {
			return false
		}
		seen[key] = true
		m, ok := r.manifests[d]
		if !ok {
			return false
		}
		for _, ref := range append(append([]refTok(nil), m.refs...), m.refsAs(declared)...) {
			if ref.digest == target {
				return true
			}
			if ref.kind != 0 && visit(ref.digest, ref.mediaType) {
				return true
			}
		}
		return false
	}
	for _, d := range r.tags {
		if visit(string(d.Digest), d.MediaType) {
			return true
		}
	}
	return false
}

func parseRead(s string) (ok bool, mt, dg string, size int64, data string) {
	f := strings.Split(s, " ")
	if len(f) != 5 || f[0] != "read" {
		return false, "", "", 0, ""
	}
	mt, _ = untok(f[1])
	dg, _ = untok(f[2])
	size, _ = strconv.ParseInt(f[3], 10, 64)
	data, _ = untok(f[4])
	return true, mt, dg, size, data
}

func parseDescOut(s string) (ok bool, mt, dg string, size int64) {
	f := strings.Split(s, " ")
	if len(f) != 4 || f[0] != "desc" {
		return false, "", "", 0
	}
	mt, _ = untok(f[1])
	dg, _ = untok(f[2])
	size, _ = strconv.ParseInt(f[3], 10, 64)
	return true, mt, dg, size
}

func parseListOut(s string) ([]string, bool) {
	if !strings.HasPrefix(s, "list [") || !strings.HasSuffix(s, "]") {
		return nil, false
	}
	s = s[6 : len(s)-1]
	if s == "" {
		return nil, true
	}
	var items []string
	for _, x := range strings.Split(s, " ") {
		v, _ := untok(x)
		items = append(items, v)
	}
	return items, true
}

// memOracle checks an implementation trace of "mem" lines against the reference
// semantics. props selects which clauses are evaluated.
func memOracle(c Case, impl []string, wire bool) []Failure {
	var fs []Failure
	var tr *tracker
	for i, l := range c.Lines {
		if i >= len(impl) {
			break
		}
		got := impl[i]
		t := strings.Split(l, " ")
		if t[1] == "init" {
			tr = newTracker(t[2] == "1")
			continue
		}
		if tr == nil {
			tr = newTracker(false)
		}
		arg := func(k int) string { s, _ := untok(t[k]); return s }
		fail := func(class, oracle, exp string) {
			fs = append(fs, Failure{Class: class, Oracle: oracle, Index: i, Expected: exp, Observed: got})
		}
		if strings.HasPrefix(c.Tag, "directed:retype-before-tag:") {
			n0, _ := strconv.Atoi(strings.TrimPrefix(c.Tag, "directed:retype-before-tag:"))
			if i >= n0 && i < n0+3 && !strings.HasPrefix(got, "err") {
				fail("mem-deletes-reachable-blob:retyped-before-tag", "reachable_retained", "err DENIED (tag v1 -> index -> image -> this blob)")
			}
			continue
		}
		if c.Tag == "directed:dangling-tag-reads" && (i == 7 || i == 10) && got != impl[4] {
			fail("mem-read-changed-the-registry", "reads_change_nothing", impl[4])
		}
		if c.Tag == "directed:dangling-tag-reads" && i == 8 && got != impl[5] {
			fail("mem-read-changed-the-registry", "reads_change_nothing", impl[5])
		}
		if c.Tag == "directed:same-id-two-repos" && got != "panic" && strings.HasPrefix(got, "err") != (i == 8) {
			fail("mem-upload-id-shared-between-repositories", "uploads_belong_to_their_repository",
				map[bool]string{true: "err (the blob was committed in the other repository)", false: "success: an upload ID names one upload per repository"}[i == 8])
		}
		if got == "panic" {
			fail("mem-panic:"+t[1], "no_panic", "a result")
			continue
		}
		isErr := strings.HasPrefix(got, "err ")
		errCls := strings.TrimPrefix(got, "err ")
		repoName := ""
		if len(t) > 2 && t[1] != "repositories" {
			repoName = arg(2)
			if t[1] == "mount" {
				repoName = arg(3)
			}
		}
		rp := tr.repos[repoName]
		// unknown-or-empty licence: a repository without content may answer NAME_UNKNOWN
		notFound := func(specific string) {
			if !isErr {
				fail("mem-found-deleted:"+t[1], "found_until_deleted", "err "+specific)
				return
			}
			if errCls == specific {
				return
			}
			if errCls == "NAME_UNKNOWN" && !rp.hasContent() {
				return
			}
			fail("mem-error-code:"+t[1], "error_code_table", "err "+specific)
		}
		switch t[1] {
		case "pushblob":
			mt, dg, data := arg(3), arg(4), arg(6)
			size, _ := strconv.ParseInt(t[5], 10, 64)
			good := sha256Digest([]byte(data)) == dg && size == int64(len(data))
			if !isErr {
				if !good {
					fail("mem-accepts-mismatch", "push_mismatch_rejected", "err")
					break
				}
				tr.repo(repoName).blobs[dg] = trkBlob{[]byte(data), mt}
				if ok, _, rdg, rsize := parseDescOut(got); !ok || rdg != dg || rsize != size {
					fail("mem-push-desc", "push_returns_descriptor", "desc with the pushed digest and size")
				}
			} else {
				valid := ociref.IsValidRepository(repoName)
				switch {
				case good && valid && mt != "":
					fail("mem-rejects-valid", "push_accepted", "desc")
				case !ociref.IsValidDigest(dg) || sha256Digest([]byte(data)) != dg:
					if errCls != "DIGEST_INVALID" {
						fail("mem-pushblob-code-digest", "error_code_table", "err DIGEST_INVALID (interface.go: ErrDigestInvalid when desc.Digest does not match the content)")
					}
				case size != int64(len(data)):
					if errCls != "SIZE_INVALID" {
						fail("mem-pushblob-code-size", "error_code_table", "err SIZE_INVALID (interface.go: ErrSizeInvalid when desc.Size does not match the content length)")
					}
				case !valid && mt != "":
					if errCls != "NAME_INVALID" {
						fail("mem-pushblob-code-name", "error_code_table", "err NAME_INVALID")
					}
				}
			}
		case "getblob", "resolveblob", "getblobrange":
			dg := arg(3)
			b, have := trkBlob{}, false
			if rp != nil {
				b, have = rp.blobs[dg]
			}
			if !have {
				notFound("BLOB_UNKNOWN")
				break
			}
			switch t[1] {
			case "getblob":
				ok, rmt, rdg, rsize, rdata := parseRead(got)
				if !ok || rdata != string(b.data) || rdg != dg || rsize != int64(len(b.data)) || sha256Digest([]byte(rdata)) != dg {
					fail("mem-read-bytes", "get_exact", "read … the pushed bytes")
				} else if !wire && rmt != b.mt {
					fail("mem-blob-mediatype", "blob_descriptor_is_this_repositorys", "media type "+b.mt+" (as last pushed or mounted in this repository)")
				}
			case "resolveblob":
				ok, rmt, rdg, rsize := parseDescOut(got)
				if !ok || rdg != dg || rsize != int64(len(b.data)) {
					fail("mem-resolve-desc", "resolve_exact", "desc of the pushed bytes")
				} else if !wire && rmt != b.mt {
					fail("mem-blob-mediatype", "blob_descriptor_is_this_repositorys", "media type "+b.mt+" (as last pushed or mounted in this repository)")
				}
			case "getblobrange":
				o0, _ := strconv.ParseInt(t[4], 10, 64)
				o1, _ := strconv.ParseInt(t[5], 10, 64)
				n := int64(len(b.data))
				e1 := o1
				if e1 < 0 || e1 > n {
					e1 = n
				}
				if o0 < 0 || o0 > e1 {
					if !isErr {
						fail("mem-range-invalid-accepted", "range_exact", "err")
					}
					break
				}
				if o0 == e1 && wire {
					break // an empty range cannot be expressed over HTTP (finding F3, judged by C03)
				}
				ok, _, rdg, rsize, rdata := parseRead(got)
				if !ok || rdata != string(b.data[o0:e1]) || rdg != dg || rsize != n {
					fail("mem-range-bytes", "range_exact", "read of the slice, describing the whole blob")
				}
			}
		case "getmanifest", "resolvemanifest":
			dg := arg(3)
			m, have := trkManifest{}, false
			if rp != nil {
				m, have = rp.manifests[dg]
			}
			if !have {
				notFound("MANIFEST_UNKNOWN")
				break
			}
			if t[1] == "getmanifest" {
				ok, rmt, rdg, rsize, rdata := parseRead(got)
				if !ok || rdata != string(m.data) || rdg != dg || rsize != int64(len(m.data)) || rmt != m.mt {
					fail("mem-read-bytes", "get_exact", "read … the pushed manifest")
				}
			} else {
				ok, rmt, rdg, rsize := parseDescOut(got)
				if !ok || rdg != dg || rsize != int64(len(m.data)) || rmt != m.mt {
					fail("mem-resolve-desc", "resolve_exact", "desc of the pushed manifest")
				}
			}
		case "gettag", "resolvetag":
			tag := arg(3)
			var d ociregistry.Descriptor
			have := false
			if rp != nil {
				d, have = rp.tags[tag]
			}
			if !have {
				notFound("MANIFEST_UNKNOWN")
				break
			}
			if t[1] == "resolvetag" {
				ok, rmt, rdg, rsize := parseDescOut(got)
				if !ok || rdg != string(d.Digest) || rsize != d.Size || rmt != d.MediaType {
					fail("mem-tag-resolves", "tag_resolves_last_push", "desc "+showDesc(d))
				}
			} else {
				m, still := rp.manifests[string(d.Digest)]
				if !still {
					notFound("MANIFEST_UNKNOWN")
					break
				}
				ok, rmt, rdg, _, rdata := parseRead(got)
				if !ok || rdg != string(d.Digest) || rdata != string(m.data) {
					fail("mem-tag-resolves", "tag_resolves_last_push", "read of the tagged manifest")
				} else if !wire && rmt != m.mt {
					// reading through a tag is reading the manifest the binding names, as it is stored now
					fail("mem-tag-read-mediatype", "tag_read_is_the_manifest_entry", "media type "+m.mt+" (what GetManifest reports for the same digest)")
				}
			}
		case "pushmanifest":
			tag, data, mt := arg(3), arg(4), arg(5)
			kind, refs := parseDecTokens(t[6:])
			dg := sha256Digest([]byte(data))
			if isErr {
				break // acceptance of well-formed manifests is judged by the model diff
			}
			if ok, rmt, rdg, rsize := parseDescOut(got); !ok || rdg != dg || rsize != int64(len(data)) || rmt != mt {
				fail("mem-push-desc", "push_returns_descriptor", "desc of the pushed manifest")
			}
			r := tr.repo(repoName)
			if cur, exists := r.tags[tag]; tr.immutable && tag != "" && exists {
				if string(cur.Digest) != dg || cur.MediaType != mt {
					fail("mem-tag-overwritten", "tag_stable", "err DENIED")
				}
				break // same content: nothing changes
			}
			if kind == "malformed" {
				fail("mem-accepts-malformed", "manifest_accepted_iff", "err")
			}
			subject := ""
			for _, ref := range refs {
				switch ref.kind {
				case 0:
					if _, ok := r.blobs[ref.digest]; !ok {
						fail("mem-accepts-dangling", "manifest_accepted_iff", "err (referenced blob is not in the repository)")
					}
				case 1:
					if _, ok := r.manifests[ref.digest]; !ok {
						fail("mem-accepts-dangling", "manifest_accepted_iff", "err (referenced manifest is not in the repository)")
					}
				case 2:
					subject = ref.digest
				}
			}
			if tag != "" && !ociref.IsValidTag(tag) {
				fail("mem-accepts-bad-tag", "manifest_accepted_iff", "err")
			}
			r.manifests[dg] = trkManifest{[]byte(data), mt, subject, refs}
			if tag != "" {
				r.tags[tag] = ociregistry.Descriptor{MediaType: mt, Digest: ociregistry.Digest(dg), Size: int64(len(data))}
			}
			if tr.immutable {
				r.protect()
			}
		case "mount":
			from, dg := arg(2), arg(4)
			src := tr.repos[from]
			b, have := trkBlob{}, false
			if src != nil {
				b, have = src.blobs[dg]
			}
			if !isErr {
				if !have {
					fail("mem-mount-from-nowhere", "found_until_deleted", "err BLOB_UNKNOWN")
					break
				}
				tr.repo(repoName).blobs[dg] = b
				if ok, _, rdg, _ := parseDescOut(got); !ok || rdg != dg {
					fail("mem-push-desc", "push_returns_descriptor", "desc with the mounted digest")
				}
			} else if have && ociref.IsValidRepository(repoName) {
				fail("mem-rejects-valid", "push_accepted", "desc")
			}
		case "deleteblob":
			dg := arg(3)
			have := rp != nil && func() bool { _, ok := rp.blobs[dg]; return ok }()
			if !have {
				notFound("BLOB_UNKNOWN")
				break
			}
			if isErr {
				if !(tr.immutable && errCls == "DENIED") {
					fail("mem-delete-refused", "found_until_deleted", "ok")
				} else if !rp.reachable(dg) && !rp.protected[dg] {
					fail("mem-delete-denied-unreferenced", "found_until_deleted", "ok")
				}
				break
			}
			if tr.immutable && rp.reachable(dg) {
				fail("mem-deletes-reachable-blob", "reachable_retained", "err DENIED")
			} else if tr.immutable && rp.protected[dg] {
				fail("mem-deletes-once-reachable-blob", "reachable_retained", "err DENIED (a tagged manifest referenced this blob)")
			}
			delete(rp.blobs, dg)
		case "deletemanifest":
			dg := arg(3)
			have := rp != nil && func() bool { _, ok := rp.manifests[dg]; return ok }()
			if !have {
				notFound("MANIFEST_UNKNOWN")
				break
			}
			if isErr {
				if !(tr.immutable && errCls == "DENIED") {
					fail("mem-delete-refused", "found_until_deleted", "ok")
				} else if !rp.reachable(dg) && !rp.protected[dg] {
					fail("mem-delete-denied-unreferenced", "found_until_deleted", "ok")
				}
				break
			}
			if tr.immutable && rp.reachable(dg) {
				fail("mem-deletes-reachable-manifest", "reachable_retained", "err DENIED")
			} else if tr.immutable && rp.protected[dg] {
				fail("mem-deletes-once-reachable-manifest", "reachable_retained", "err DENIED (a tagged manifest referenced this manifest)")
			}
			delete(rp.manifests, dg)
		case "deletetag":
			tag := arg(3)
			have := rp != nil && func() bool { _, ok := rp.tags[tag]; return ok }()
			if !have {
				notFound("MANIFEST_UNKNOWN")
				break
			}
			if tr.immutable {
				if !isErr || errCls != "DENIED" {
					fail("mem-deletes-tag-immutable", "tag_stable", "err DENIED")
				}
				break
			}
			if isErr {
				fail("mem-delete-refused", "found_until_deleted", "ok")
				break
			}
			delete(rp.tags, tag)
		case "repositories", "tags":
			var start string
			want := map[string]bool{}
			if t[1] == "repositories" {
				start = arg(2)
				for name, r := range tr.repos {
					if r.hasContent() {
						want[name] = true
					}
				}
			} else {
				start = arg(3)
				if rp == nil {
					if !isErr && got != "list []" {
						fail("mem-list-unknown-repo", "listing", "err NAME_UNKNOWN or empty")
					}
					break
				}
				for tg := range rp.tags {
					want[tg] = true
				}
			}
			items, ok := parseListOut(got)
			if !ok {
				if t[1] == "tags" && isErr && errCls == "NAME_UNKNOWN" && !rp.hasContent() {
					break
				}
				fail("mem-list-error", "listing", "a list")
				break
			}
			for j, it := range items {
				if j > 0 && !(items[j-1] < it) {
					fail("mem-list-order", "listing_sorted_strictly_after", "strictly ascending")
				}
				if !(it > start) {
					fail("mem-list-start", "listing_sorted_strictly_after", "items strictly after the start point")
				}
				if t[1] == "repositories" && !tr.named[it] && !want[it] {
					fail("mem-list-phantom", "listing_complete", "only repositories that were created")
				}
				if t[1] == "tags" && !want[it] {
					fail("mem-list-phantom", "listing_complete", "only existing tags")
				}
				delete(want, it)
			}
			for name := range want {
				if name > start {
					fail("mem-list-missing", "listing_complete", "list containing "+tok(name))
					break
				}
			}
		case "referrers":
			dg := arg(3)
			if rp == nil {
				break
			}
			var want []string
			for mdg, m := range rp.manifests {
				if m.subject == dg {
					want = append(want, tok(m.mt)+":"+tok(mdg)+":"+strconv.Itoa(len(m.data)))
				}
			}
			sort.Slice(want, func(a, b int) bool {
				da, _ := untok(strings.Split(want[a], ":")[1])
				db, _ := untok(strings.Split(want[b], ":")[1])
				return da < db
			})
			exp := "descs [" + strings.Join(want, " ") + "]"
			if got != exp && !(isErr && errCls == "NAME_UNKNOWN" && !rp.hasContent()) {
				fail("mem-referrers", "referrers_exact", exp)
			}
		case "pushchunked", "resume":
			if !isErr {
				tr.repo(repoName)
			}
		case "wwrite":
			key := arg(2) + "\x00" + arg(3)
			if strings.HasPrefix(got, "n ") {
				tr.bufs[key] = append(tr.bufs[key], arg(4)...)
			}
		case "wcommit":
			key := arg(2) + "\x00" + arg(3)
			dg := arg(4)
			if !isErr {
				buf := tr.bufs[key]
				if sha256Digest(buf) != dg {
					fail("mem-commit-mismatch", "commit_digest_checked", "err DIGEST_INVALID")
					break
				}
				tr.repo(arg(2)).blobs[dg] = trkBlob{append([]byte(nil), buf...), "application/octet-stream"}
			}
		}
		if repoName != "" && ociref.IsValidRepository(repoName) {
			tr.named[repoName] = true
		}
	}
	return fs
}

func (e *memEngine) Oracle(c Case, impl []string) []Failure { return memOracle(c, impl, false) }

func (*memEngine) NonTrivial(c Case, impl []string) (bool, string) {
	okReads, errs := 0, 0
	for _, o := range impl {
		if strings.HasPrefix(o, "read ") || strings.HasPrefix(o, "desc ") {
			okReads++
		}
		if strings.HasPrefix(o, "err ") {
			errs++
		}
	}
	b := "mutable"
	if len(c.Lines) > 0 && strings.HasSuffix(c.Lines[0], " 1") {
		b = "immutable-tags"
	}
	return okReads >= 3 && errs >= 1, b
}
