package main

import (
	"sync"
	"context"
	"encoding/base64"
	"errors"
	"fmt"
	"io"
	"net/http/httptest"
	"strconv"
	"strings"
	"unicode/utf8"

	"cuelabs.dev/go/oci/ociregistry"
	"cuelabs.dev/go/oci/ociregistry/ociclient"
	"cuelabs.dev/go/oci/ociregistry/ociref"
	"cuelabs.dev/go/oci/ociregistry/ociserver"
)

// C03W: the client, the wire and the server, composed (sub-check of C03).
//
//   wire1 call <opts> <pageSize> <call> <nans> <ans>*
//
// One interface call on the real ociclient, whose transport is a real httptest server running the real
// ociserver in front of a scripted backend that answers the calls it receives, in order, with <ans>*.
// Output: `calls <n> <call>* | <result>`: the calls the backend received, with their arguments, and what the
// caller got. Diffed with the composed Lean model (Wire.hopS) and judged by an oracle written from the
// property: the backend receives exactly the call, the caller gets the backend's answer.
//
// Formats are documented in lean/OciModel/Driver/Wire.lean.

func init() { engines["C03W"] = func() Engine { return &c03w{} } }

type c03w struct{}

func (*c03w) UsesModel() bool { return true }

// ---- calls ----

type wireCall struct {
	name       string
	repo, from string
	dg, tag    string
	o0, o1     int64
	d          respDesc
	content    string
	mt         string
	id         string
	cs         int64 // chunk size / hint
	start      int64
	last       string
}

func (r *rtoks) wcall() wireCall {
	c := wireCall{name: r.s()}
	switch c.name {
	case "getBlob", "getManifest", "resolveBlob", "resolveManifest", "deleteBlob", "deleteManifest", "referrers":
		c.repo, c.dg = r.b(), r.b()
	case "getBlobRange":
		c.repo, c.dg, c.o0, c.o1 = r.b(), r.b(), r.i(), r.i()
	case "getTag", "resolveTag", "deleteTag":
		c.repo, c.tag = r.b(), r.b()
	case "pushBlob":
		c.repo = r.b()
		c.d = r.desc()
		c.content = r.b()
	case "pushManifest":
		c.repo, c.tag, c.content, c.mt = r.b(), r.b(), r.b(), r.b()
	case "mountBlob":
		c.from, c.repo, c.dg = r.b(), r.b(), r.b()
	case "startUpload":
		c.repo, c.cs = r.b(), r.i()
	case "uploadInfo":
		c.repo, c.id, c.cs = r.b(), r.b(), r.i()
	case "uploadChunk":
		c.repo, c.id, c.start, c.cs, c.content = r.b(), r.b(), r.i(), r.i(), r.b()
	case "uploadCommit":
		c.repo, c.id, c.start, c.cs, c.content, c.dg = r.b(), r.b(), r.i(), r.i(), r.b(), r.b()
	case "tags":
		c.repo, c.last = r.b(), r.b()
	case "repositories":
		c.last = r.b()
	default:
		r.bad = true
	}
	return c
}

// line renders the call as it appears in a protocol line.
func (c wireCall) line() string {
	switch c.name {
	case "getBlob", "getManifest", "resolveBlob", "resolveManifest", "deleteBlob", "deleteManifest", "referrers":
		return fmt.Sprintf("%s %s %s", c.name, tok(c.repo), tok(c.dg))
	case "getBlobRange":
		return fmt.Sprintf("%s %s %s %d %d", c.name, tok(c.repo), tok(c.dg), c.o0, c.o1)
	case "getTag", "resolveTag", "deleteTag":
		return fmt.Sprintf("%s %s %s", c.name, tok(c.repo), tok(c.tag))
	case "pushBlob":
		return fmt.Sprintf("%s %s %s %s %d %s", c.name, tok(c.repo), tok(c.d.mt), tok(c.d.dg), c.d.size, tok(c.content))
	case "pushManifest":
		return fmt.Sprintf("%s %s %s %s %s", c.name, tok(c.repo), tok(c.tag), tok(c.content), tok(c.mt))
	case "mountBlob":
		return fmt.Sprintf("%s %s %s %s", c.name, tok(c.from), tok(c.repo), tok(c.dg))
	case "startUpload":
		return fmt.Sprintf("%s %s %d", c.name, tok(c.repo), c.cs)
	case "uploadInfo":
		return fmt.Sprintf("%s %s %s %d", c.name, tok(c.repo), tok(c.id), c.cs)
	case "uploadChunk":
		return fmt.Sprintf("%s %s %s %d %d %s", c.name, tok(c.repo), tok(c.id), c.start, c.cs, tok(c.content))
	case "uploadCommit":
		return fmt.Sprintf("%s %s %s %d %d %s %s", c.name, tok(c.repo), tok(c.id), c.start, c.cs, tok(c.content), tok(c.dg))
	case "tags":
		return fmt.Sprintf("%s %s %s", c.name, tok(c.repo), tok(c.last))
	case "repositories":
		return fmt.Sprintf("%s %s", c.name, tok(c.last))
	}
	return "bad"
}

// show renders the call as the backend records it (the format of Driver/Wire.lean's showCall).
func (c wireCall) show() string { return strings.Join(strings.Split(c.line(), " "), ":") }

// ---- answers ----

type wireAns struct {
	ok   bool
	b    respBRes
	err  error
	expr []string
}

func (r *rtoks) wans() wireAns {
	switch r.s() {
	case "ok":
		return wireAns{ok: true, b: r.bres()}
	case "err":
		e, rest, ok := parseErrExpr(r.t)
		if !ok {
			r.bad = true
			return wireAns{}
		}
		expr := r.t[:len(r.t)-len(rest)]
		r.t = rest
		return wireAns{err: e, expr: expr}
	}
	r.bad = true
	return wireAns{}
}

func (a wireAns) line() string {
	if a.ok {
		return "ok " + a.b.String()
	}
	return "err " + strings.Join(a.expr, " ")
}

// ---- the scripted backend: answers in order, records every call with its arguments ----

type wireBackend struct {
	*ociregistry.Funcs
	answers []wireAns
	calls   []string
}

var errNoAnswersLeft = errors.New("scripted backend: no answers left")
var errWrongType = errors.New("scripted backend: the answer has not the type of the call")

func (b *wireBackend) pop(c wireCall) wireAns {
	b.calls = append(b.calls, c.show())
	if len(b.answers) == 0 {
		return wireAns{err: errNoAnswersLeft}
	}
	a := b.answers[0]
	b.answers = b.answers[1:]
	return a
}

type wireWriter struct {
	b         *wireBackend
	repo, id  string
	offset    int64
	hint      int
	data      []byte
	size      int64
	chunk     int
	finished  bool // closed or committed: the compound call has been recorded
	answerID  string
	committed bool
}

func (w *wireWriter) Write(p []byte) (int, error) {
	w.data = append(w.data, p...)
	return len(p), nil
}
func (w *wireWriter) Close() error {
	if w.finished {
		return nil
	}
	w.finished = true
	a := w.b.pop(wireCall{name: "uploadChunk", repo: w.repo, id: w.id, start: w.offset, cs: int64(w.hint), content: string(w.data)})
	if !a.ok {
		return a.err
	}
	if a.b.kind != "writer" {
		return errWrongType
	}
	w.answerID, w.size, w.chunk = a.b.id, a.b.size, int(a.b.chunk)
	return nil
}
func (w *wireWriter) Size() int64    { return w.size }
func (w *wireWriter) ChunkSize() int { return w.chunk }
func (w *wireWriter) ID() string     { return w.answerID }
func (w *wireWriter) Cancel() error  { return nil }
func (w *wireWriter) Commit(d ociregistry.Digest) (ociregistry.Descriptor, error) {
	w.finished = true
	a := w.b.pop(wireCall{name: "uploadCommit", repo: w.repo, id: w.id, start: w.offset, cs: int64(w.hint), content: string(w.data), dg: string(d)})
	if !a.ok {
		return ociregistry.Descriptor{}, a.err
	}
	if a.b.kind != "commit" {
		return ociregistry.Descriptor{}, errWrongType
	}
	return a.b.d.oci(), nil
}

// a writer that was answered at once (new upload, upload info): nothing more to record
type wireWriterDone struct {
	id    string
	size  int64
	chunk int
}

func (w *wireWriterDone) Write(p []byte) (int, error) { return len(p), nil }
func (w *wireWriterDone) Close() error                { return nil }
func (w *wireWriterDone) Size() int64                 { return w.size }
func (w *wireWriterDone) ChunkSize() int              { return w.chunk }
func (w *wireWriterDone) ID() string                  { return w.id }
func (w *wireWriterDone) Cancel() error               { return nil }
func (w *wireWriterDone) Commit(d ociregistry.Digest) (ociregistry.Descriptor, error) {
	return ociregistry.Descriptor{}, errWrongType
}

func newWireBackend(answers []wireAns) *wireBackend {
	b := &wireBackend{answers: answers}
	reader := func(c wireCall) (ociregistry.BlobReader, error) {
		a := b.pop(c)
		if !a.ok {
			return nil, a.err
		}
		if a.b.kind != "reader" {
			return nil, errWrongType
		}
		return &respReader{Reader: strings.NewReader(a.b.content), d: a.b.d.oci()}, nil
	}
	desc := func(c wireCall) (ociregistry.Descriptor, error) {
		a := b.pop(c)
		if !a.ok {
			return ociregistry.Descriptor{}, a.err
		}
		if a.b.kind != "desc" {
			return ociregistry.Descriptor{}, errWrongType
		}
		return a.b.d.oci(), nil
	}
	unit := func(c wireCall) error {
		a := b.pop(c)
		if !a.ok {
			return a.err
		}
		if a.b.kind != "unit" {
			return errWrongType
		}
		return nil
	}
	// a listing happens when its iterator runs (Tags / Repositories only make the iterator)
	items := func(c wireCall) ociregistry.Seq[string] {
		return func(yield func(string, error) bool) {
			a := b.pop(c)
			if !a.ok {
				yield("", a.err)
				return
			}
			if a.b.kind != "items" {
				yield("", errWrongType)
				return
			}
			for _, it := range a.b.items {
				if !yield(it, nil) {
					return
				}
			}
		}
	}
	b.Funcs = &ociregistry.Funcs{
		GetBlob_: func(ctx context.Context, repo string, d ociregistry.Digest) (ociregistry.BlobReader, error) {
			return reader(wireCall{name: "getBlob", repo: repo, dg: string(d)})
		},
		GetBlobRange_: func(ctx context.Context, repo string, d ociregistry.Digest, o0, o1 int64) (ociregistry.BlobReader, error) {
			return reader(wireCall{name: "getBlobRange", repo: repo, dg: string(d), o0: o0, o1: o1})
		},
		GetManifest_: func(ctx context.Context, repo string, d ociregistry.Digest) (ociregistry.BlobReader, error) {
			return reader(wireCall{name: "getManifest", repo: repo, dg: string(d)})
		},
		GetTag_: func(ctx context.Context, repo, tag string) (ociregistry.BlobReader, error) {
			return reader(wireCall{name: "getTag", repo: repo, tag: tag})
		},
		ResolveBlob_: func(ctx context.Context, repo string, d ociregistry.Digest) (ociregistry.Descriptor, error) {
			return desc(wireCall{name: "resolveBlob", repo: repo, dg: string(d)})
		},
		ResolveManifest_: func(ctx context.Context, repo string, d ociregistry.Digest) (ociregistry.Descriptor, error) {
			return desc(wireCall{name: "resolveManifest", repo: repo, dg: string(d)})
		},
		ResolveTag_: func(ctx context.Context, repo, tag string) (ociregistry.Descriptor, error) {
			return desc(wireCall{name: "resolveTag", repo: repo, tag: tag})
		},
		PushBlob_: func(ctx context.Context, repo string, d ociregistry.Descriptor, r io.Reader) (ociregistry.Descriptor, error) {
			data, _ := io.ReadAll(r)
			return desc(wireCall{name: "pushBlob", repo: repo, d: respDesc{d.MediaType, string(d.Digest), d.Size}, content: string(data)})
		},
		PushBlobChunked_: func(ctx context.Context, repo string, chunkSize int) (ociregistry.BlobWriter, error) {
			a := b.pop(wireCall{name: "startUpload", repo: repo, cs: int64(chunkSize)})
			if !a.ok {
				return nil, a.err
			}
			if a.b.kind != "writer" {
				return nil, errWrongType
			}
			return &wireWriterDone{id: a.b.id, size: a.b.size, chunk: int(a.b.chunk)}, nil
		},
		PushBlobChunkedResume_: func(ctx context.Context, repo, id string, offset int64, chunkSize int) (ociregistry.BlobWriter, error) {
			if offset == -1 {
				a := b.pop(wireCall{name: "uploadInfo", repo: repo, id: id, cs: int64(chunkSize)})
				if !a.ok {
					return nil, a.err
				}
				if a.b.kind != "writer" {
					return nil, errWrongType
				}
				return &wireWriterDone{id: a.b.id, size: a.b.size, chunk: int(a.b.chunk)}, nil
			}
			return &wireWriter{b: b, repo: repo, id: id, offset: offset, hint: chunkSize}, nil
		},
		MountBlob_: func(ctx context.Context, from, to string, d ociregistry.Digest) (ociregistry.Descriptor, error) {
			return desc(wireCall{name: "mountBlob", from: from, repo: to, dg: string(d)})
		},
		PushManifest_: func(ctx context.Context, repo, tag string, data []byte, mt string) (ociregistry.Descriptor, error) {
			return desc(wireCall{name: "pushManifest", repo: repo, tag: tag, content: string(data), mt: mt})
		},
		DeleteBlob_: func(ctx context.Context, repo string, d ociregistry.Digest) error {
			return unit(wireCall{name: "deleteBlob", repo: repo, dg: string(d)})
		},
		DeleteManifest_: func(ctx context.Context, repo string, d ociregistry.Digest) error {
			return unit(wireCall{name: "deleteManifest", repo: repo, dg: string(d)})
		},
		DeleteTag_: func(ctx context.Context, repo, tag string) error {
			return unit(wireCall{name: "deleteTag", repo: repo, tag: tag})
		},
		Repositories_: func(ctx context.Context, start string) ociregistry.Seq[string] {
			return items(wireCall{name: "repositories", last: start})
		},
		Tags_: func(ctx context.Context, repo, start string) ociregistry.Seq[string] {
			return items(wireCall{name: "tags", repo: repo, last: start})
		},
		Referrers_: func(ctx context.Context, repo string, d ociregistry.Digest, at string) ociregistry.Seq[ociregistry.Descriptor] {
			c03wArtifactSeen.Store(repo+" "+string(d), at) // the one argument the call record does not carry (F44)
			a := b.pop(wireCall{name: "referrers", repo: repo, dg: string(d)})
			if !a.ok {
				return ociregistry.ErrorSeq[ociregistry.Descriptor](a.err)
			}
			if a.b.kind != "descs" {
				return ociregistry.ErrorSeq[ociregistry.Descriptor](errWrongType)
			}
			var ds []ociregistry.Descriptor
			for _, d := range a.b.descs {
				ds = append(ds, d.oci())
			}
			return ociregistry.SliceSeq(ds)
		},
	}
	return b
}

// ---- the client side ----

// wireShowErr: the status of an HTTPError in the chain, the code of an ociregistry.Error in the chain.
func wireShowErr(err error) string {
	st, code := "-", "-"
	var herr ociregistry.HTTPError
	if errors.As(err, &herr) {
		st = strconv.Itoa(herr.StatusCode())
	}
	var oerr ociregistry.Error
	if errors.As(err, &oerr) {
		code = tok(oerr.Code())
	}
	return "err st=" + st + " code=" + code
}

func wireDo(cl ociregistry.Interface, base string, c wireCall) string {
	ctx := context.Background()
	dg := ociregistry.Digest(c.dg)
	loc := func(id string) string {
		return base + "/v2/" + c.repo + "/blobs/uploads/" + base64.RawURLEncoding.EncodeToString([]byte(id))
	}
	canon := func(s string) string { return strings.TrimPrefix(s, base) }
	// the writer steps are "one PATCH" / "one PUT": the data must fit the writer's chunk, or Write flushes first
	fit := func(cs int64, data string) int {
		if cs > 0 && int(cs) < len(data) {
			return len(data)
		}
		return int(cs)
	}
	showR := func(r ociregistry.BlobReader, err error) string {
		if err != nil {
			return wireShowErr(err)
		}
		return respShowRead(r, nil)
	}
	showD := func(d ociregistry.Descriptor, err error) string {
		if err != nil {
			return wireShowErr(err)
		}
		return "desc " + respShowDesc(d)
	}
	showW := func(w ociregistry.BlobWriter, err error) string {
		if err != nil {
			return wireShowErr(err)
		}
		return fmt.Sprintf("writer %s %d %d", tok(canon(w.ID())), w.ChunkSize(), w.Size())
	}
	showU := func(err error) string {
		if err != nil {
			return wireShowErr(err)
		}
		return "ok"
	}
	showL := func(seq ociregistry.Seq[string]) string {
		var got []string
		end := "done"
		seq(func(s string, err error) bool {
			if err != nil {
				end = wireShowErr(err)
				return false
			}
			got = append(got, tok(s))
			return true
		})
		return "items [" + strings.Join(got, " ") + "] end=" + end
	}
	switch c.name {
	case "getBlob":
		return showR(cl.GetBlob(ctx, c.repo, dg))
	case "getBlobRange":
		return showR(cl.GetBlobRange(ctx, c.repo, dg, c.o0, c.o1))
	case "getManifest":
		return showR(cl.GetManifest(ctx, c.repo, dg))
	case "getTag":
		return showR(cl.GetTag(ctx, c.repo, c.tag))
	case "resolveBlob":
		return showD(cl.ResolveBlob(ctx, c.repo, dg))
	case "resolveManifest":
		return showD(cl.ResolveManifest(ctx, c.repo, dg))
	case "resolveTag":
		return showD(cl.ResolveTag(ctx, c.repo, c.tag))
	case "pushBlob":
		return showD(cl.PushBlob(ctx, c.repo, c.d.oci(), strings.NewReader(c.content)))
	case "pushManifest":
		return showD(cl.PushManifest(ctx, c.repo, c.tag, []byte(c.content), c.mt))
	case "mountBlob":
		return showD(cl.MountBlob(ctx, c.from, c.repo, dg))
	case "deleteBlob":
		return showU(cl.DeleteBlob(ctx, c.repo, dg))
	case "deleteManifest":
		return showU(cl.DeleteManifest(ctx, c.repo, dg))
	case "deleteTag":
		return showU(cl.DeleteTag(ctx, c.repo, c.tag))
	case "startUpload":
		return showW(cl.PushBlobChunked(ctx, c.repo, int(c.cs)))
	case "uploadInfo":
		return showW(cl.PushBlobChunkedResume(ctx, c.repo, loc(c.id), -1, int(c.cs)))
	case "uploadChunk":
		// resume at `start`, write the data, close: one PATCH
		w, err := cl.PushBlobChunkedResume(ctx, c.repo, loc(c.id), c.start, fit(c.cs, c.content))
		if err != nil {
			return wireShowErr(err)
		}
		if _, err := w.Write([]byte(c.content)); err != nil {
			return wireShowErr(err)
		}
		if err := w.Close(); err != nil {
			return wireShowErr(err)
		}
		return "writer " + tok(canon(w.ID()))
	case "uploadCommit":
		// resume at `start`, write the data, commit: one PUT
		w, err := cl.PushBlobChunkedResume(ctx, c.repo, loc(c.id), c.start, fit(c.cs, c.content))
		if err != nil {
			return wireShowErr(err)
		}
		if _, err := w.Write([]byte(c.content)); err != nil {
			return wireShowErr(err)
		}
		return showD(w.Commit(dg))
	case "tags":
		return showL(cl.Tags(ctx, c.repo, c.last))
	case "repositories":
		return showL(cl.Repositories(ctx, c.last))
	case "referrers":
		var ds []ociregistry.Descriptor
		var rerr error
		cl.Referrers(ctx, c.repo, dg, c03wArtifactType)(func(d ociregistry.Descriptor, err error) bool {
			if err != nil {
				rerr = err
				return false
			}
			ds = append(ds, d)
			return true
		})
		if rerr != nil {
			return wireShowErr(rerr)
		}
		out := fmt.Sprintf("descs %d", len(ds))
		for _, d := range ds {
			out += " " + respShowDesc(d)
		}
		return out
	}
	return "bad-op"
}

type wireLine struct {
	o        respOpts
	pageSize int64
	c        wireCall
	as       []wireAns
}

func parseWireLine(t []string) (wireLine, bool) {
	if len(t) < 2 || t[0] != "wire1" || t[1] != "call" {
		return wireLine{}, false
	}
	r := &rtoks{t: t[2:]}
	var x wireLine
	x.o = r.opts()
	x.pageSize = r.i()
	x.c = r.wcall()
	n := r.n()
	for j := 0; j < n && !r.bad; j++ {
		x.as = append(x.as, r.wans())
	}
	if r.bad || len(r.t) != 0 {
		return wireLine{}, false
	}
	return x, true
}

func (x wireLine) line() string {
	parts := []string{"wire1", "call", x.o.bits, strconv.FormatInt(x.o.maxPage, 10), strconv.FormatInt(x.pageSize, 10), x.c.line(), strconv.Itoa(len(x.as))}
	for _, a := range x.as {
		parts = append(parts, a.line())
	}
	return strings.Join(parts, " ")
}

func wireRun(x wireLine) string {
	backend := newWireBackend(append([]wireAns{}, x.as...))
	srv := httptest.NewServer(ociserver.New(backend, x.o.server()))
	defer srv.Close()
	cl, err := ociclient.New(strings.TrimPrefix(srv.URL, "http://"), &ociclient.Options{Insecure: true, ListPageSize: int(x.pageSize)})
	if err != nil {
		return "bad-op"
	}
	out := withWatchdog(func() string { return wireDo(cl, srv.URL, x.c) })
	// a server handler that is still running when the client gave up has not recorded yet: close first
	srv.Close()
	return fmt.Sprintf("calls %d", len(backend.calls)) + strings.Join(append([]string{""}, backend.calls...), " ") + " | " + out
}

// The artifact type every Referrers call of this engine asks for, and what the backend behind the server was handed
// for (repository, digest): "the backend receives exactly the operations, with exactly the arguments" (F44).
const c03wArtifactType = "application/vnd.verif.sig"

var c03wArtifactSeen sync.Map

func (*c03w) Impl(c Case) []string {
	out := make([]string, len(c.Lines))
	for i, l := range c.Lines {
		x, ok := parseWireLine(strings.Split(l, " "))
		if !ok {
			out[i] = "bad-op"
			continue
		}
		out[i] = guard(func() string { return wireRun(x) })
	}
	return out
}

// ---- generation ----

const wireDgA = "sha256:aaaaaaaaaaaaaaaaaaaaaaaaaaaaaaaaaaaaaaaaaaaaaaaaaaaaaaaaaaaaaaaa"

var wireRepos = []string{"foo", "a/b", "blobs/uploads", "x/manifests/y", "tags/list", "v2/_catalog", "org/blobstore/img", "a/blobs/uploads/x", "referrers/a"}
// Ill-formed names. None contains `?`, `#` or `%`: the client checks a name by parsing back the URL it built
// from it, so such a name is cut or unescaped there and the rest is checked (DeleteTag(repo, "a?b=c") deletes
// the tag "a"); the URL layer is a parameter of the model (ReqCodec), and the property is about well-formed
// names: reported as an observation, not generated.
var wireBadRepos = []string{"", "Foo", "a//b", "a b", "-a", "a/", "a:b"}
var wireTags = []string{"latest", "v1.0", "uploads", "list", "a_b-c.d", "T"}
var wireBadTags = []string{"", "-x", "a b", "a/b", ".x", "a:b"}
var wireBadDigests = []string{"", "sha256:abc", "nocolon", "sha256:" + strings.Repeat("g", 64), "sha512:aa"}
var wireIDs = []string{"abc", "a/b?c", "upload-1", "été", "@0", "%2f", "a b"}
var wireMediaTypes = []string{"application/vnd.oci.image.manifest.v1+json", "application/vnd.oci.image.index.v1+json", "application/json", "text/plain", "application/octet-stream"}
var wireCodes = []string{"BLOB_UNKNOWN", "MANIFEST_UNKNOWN", "NAME_UNKNOWN", "DENIED", "UNAUTHORIZED", "UNSUPPORTED", "DIGEST_INVALID", "SIZE_INVALID", "BLOB_UPLOAD_UNKNOWN", "BLOB_UPLOAD_INVALID", "RANGE_INVALID", "TOOMANYREQUESTS", "MANIFEST_INVALID", "NAME_INVALID", "CUSTOM_CODE", "UNKNOWN"}

func wireGenContent(rng *RNG) string {
	switch rng.Intn(6) {
	case 0:
		return ""
	case 1:
		return "x"
	case 2:
		return `{"schemaVersion":2}`
	case 3:
		return string(rng.Bytes(1 + rng.Intn(40)))
	case 4:
		return strings.Repeat("m", 100+rng.Intn(300))
	}
	return "hello, world"
}

// wireGenErr: an error expression (format of parseErrExpr / Driver/Err.lean). `wild` adds the statuses
// that are not error statuses, and messages that make the body exceed the client's limit.
func wireGenErr(rng *RNG, wild bool, decorated bool) string {
	msgs := []string{"", "nope", "blob unknown to registry", "404 Not Found: x", "denied: y"}
	msg := pick(rng, msgs)
	if wild && rng.Chance(1, 8) {
		msg = strings.Repeat("e", 8100+rng.Intn(200)) // around the 8 KiB limit of the client (F24)
		if decorated {
			// the server adds context to the message of this error ("cannot close BlobWriter: …"), which the
			// model does not spell out: stay clear of the limit
			msg = strings.Repeat("e", pick(rng, []int{7000, 9000}))
		}
	}
	code := pick(rng, wireCodes)
	e := fmt.Sprintf("W %s %s -", tok(code), tok(msg))
	if rng.Chance(1, 6) {
		e = "P " + tok(msg) // an error without a code
	}
	if rng.Chance(1, 8) {
		e = fmt.Sprintf("W %s %s %s", tok(code), tok(msg), tok(`{"k": [1, 2]}`))
	}
	for k := rng.Intn(3); k > 0; k-- {
		switch rng.Intn(3) {
		case 0:
			sts := []int{400, 401, 403, 404, 405, 409, 416, 418, 429, 499, 500, 503, 599}
			if wild {
				sts = append(sts, 200, 201, 202, 204, 206, 100, 101, 102, 301, 302, 304, 307, 399, 600, 999, 0, 99, 1000)
			}
			e = fmt.Sprintf("H %d %s", pick(rng, sts), e)
		case 1:
			e = fmt.Sprintf("F %s %s %s", tok("ctx: "), tok(""), e)
		}
	}
	return e
}

func wireGenDesc(rng *RNG, dg string, content string) respDesc {
	d := respDesc{mt: pick(rng, wireMediaTypes), dg: dg, size: int64(len(content))}
	if rng.Chance(1, 8) {
		d.mt = ""
	}
	return d
}

func sha512Digest() string { return "sha512:" + strings.Repeat("0", 128) }

// wireGenCase makes one line: a call and the answers of the backend. `wild`: ill-formed names and arguments,
// answers the headers cannot carry, errors with statuses that are not error statuses.
func wireGenCase(rng *RNG, kind string, wild bool) wireLine {
	x := wireLine{}
	bits := []byte("0000")
	for i := range bits {
		if rng.Chance(1, 5) {
			bits[i] = '1'
		}
	}
	x.o = respOpts{bits: string(bits)}
	if rng.Chance(1, 10) {
		x.o.maxPage = int64(pick(rng, []int{1, 2, 1000}))
	}
	x.pageSize = int64(pick(rng, []int{0, 1, 2, 3, 5}))
	repo := pick(rng, wireRepos)
	tag := pick(rng, wireTags)
	content := wireGenContent(rng)
	dg := sha256Digest([]byte(content))
	if rng.Chance(1, 6) {
		dg = wireDgA
	}
	if wild {
		if rng.Chance(1, 4) {
			repo = pick(rng, wireBadRepos)
		}
		if rng.Chance(1, 4) {
			tag = pick(rng, wireBadTags)
		}
		if rng.Chance(1, 4) {
			dg = pick(rng, wireBadDigests)
		}
	}
	c := wireCall{name: kind, repo: repo, tag: tag, dg: dg}
	ansDesc := wireGenDesc(rng, dg, content)
	if rng.Chance(1, 6) {
		ansDesc.dg = wireDgA // the backend describes something else than was asked for
	}
	if rng.Chance(1, 12) {
		ansDesc.dg = sha512Digest()
	}
	if wild && rng.Chance(1, 6) {
		ansDesc.dg = pick(rng, wireBadDigests)
	}
	if wild && rng.Chance(1, 8) {
		// a size no body has: only for the answers that have no body (that net/http cuts a body short of its
		// declared length is the transport's doing, not modelled)
		switch kind {
		case "resolveBlob", "resolveManifest", "resolveTag", "mountBlob", "pushManifest", "uploadCommit":
			ansDesc.size = pick(rng, []int64{-1, 1 << 62})
		default:
			ansDesc.size = -1
		}
	}
	okAns := func(b respBRes) wireAns { return wireAns{ok: true, b: b} }
	errAns := func() wireAns {
		expr := strings.Split(wireGenErr(rng, wild, kind == "uploadChunk"), " ")
		e, _, _ := parseErrExpr(expr)
		return wireAns{err: e, expr: expr}
	}
	one := func(b respBRes) {
		if rng.Chance(1, 3) {
			x.as = []wireAns{errAns()}
		} else {
			x.as = []wireAns{okAns(b)}
		}
	}
	id := pick(rng, wireIDs)
	ansID := pick(rng, wireIDs)
	if wild && rng.Chance(1, 6) {
		id = pick(rng, []string{"", "\xff\xfe"})
	}
	if wild && rng.Chance(1, 10) {
		ansID = pick(rng, []string{"", "\xff"})
	}
	switch kind {
	case "getBlob", "getManifest", "getTag":
		one(respBRes{kind: "reader", d: ansDesc, content: content})
		if kind == "getTag" && bits[2] == '1' && x.as[0].ok && rng.Chance(1, 2) {
			// a digest-less tag GET of a large manifest: the HEAD follows
			big := strings.Repeat("B", 131073+rng.Intn(10))
			d := respDesc{mt: ansDesc.mt, dg: sha256Digest([]byte(big)), size: int64(len(big))}
			x.as = []wireAns{okAns(respBRes{kind: "reader", d: d, content: big})}
			if rng.Chance(1, 4) {
				x.as = append(x.as, errAns())
			} else {
				x.as = append(x.as, okAns(respBRes{kind: "desc", d: d}))
			}
		}
	case "getBlobRange":
		n := int64(len(content))
		c.o0 = int64(rng.Intn(int(n) + 2))
		switch rng.Intn(5) {
		case 0:
			c.o1 = -1
		case 1:
			c.o1 = -int64(1 + rng.Intn(5))
		case 2:
			c.o1 = c.o0 // the empty range (F3)
		default:
			c.o1 = c.o0 + int64(1+rng.Intn(int(n)+2))
		}
		if rng.Chance(1, 8) {
			c.o0 = 0
		}
		if wild && rng.Chance(1, 5) {
			c.o0, c.o1 = pick(rng, []int64{-1, 5, 1 << 62}), pick(rng, []int64{0, 2, 1<<63 - 1})
		}
		part := content
		if c.o0 <= n && c.o0 >= 0 {
			e := c.o1
			if e < 0 || e > n {
				e = n
			}
			if e >= c.o0 {
				part = content[c.o0:e]
			}
		}
		one(respBRes{kind: "reader", d: ansDesc, content: part})
	case "resolveBlob", "resolveManifest", "resolveTag":
		one(respBRes{kind: "desc", d: ansDesc})
	case "pushBlob":
		c.d = respDesc{mt: "application/octet-stream", dg: dg, size: int64(len(content))}
		c.content = content
		if wild && rng.Chance(1, 5) {
			c.d.size += int64(1 + rng.Intn(3))
		}
		x.as = []wireAns{okAns(respBRes{kind: "writer", id: ansID, size: 0, chunk: int64(rng.Intn(100))})}
		if rng.Chance(1, 5) {
			x.as = []wireAns{errAns()}
		} else if rng.Chance(1, 4) {
			x.as = append(x.as, errAns())
		} else {
			x.as = append(x.as, okAns(respBRes{kind: "commit", id: ansID, d: ansDesc}))
		}
	case "pushManifest":
		c.content = content
		c.mt = pick(rng, wireMediaTypes)
		if rng.Chance(1, 3) {
			c.tag = ""
		}
		if wild && rng.Chance(1, 5) {
			c.mt = ""
		}
		one(respBRes{kind: "desc", d: respDesc{mt: c.mt, dg: sha256Digest([]byte(content)), size: int64(len(content))}})
		if x.as[0].ok && rng.Chance(1, 5) {
			x.as[0].b.d = ansDesc // a backend with its own idea of the descriptor
		}
	case "mountBlob":
		c.from = pick(rng, wireRepos)
		if wild && rng.Chance(1, 4) {
			c.from = pick(rng, wireBadRepos)
		}
		one(respBRes{kind: "desc", d: ansDesc})
	case "deleteBlob", "deleteManifest", "deleteTag":
		one(respBRes{kind: "unit"})
	case "startUpload":
		c.cs = int64(pick(rng, []int{0, -1, 1, 100, 65536, 1 << 20}))
		one(respBRes{kind: "writer", id: ansID, size: 0, chunk: int64(pick(rng, []int{0, 1, 50, 200, 70000}))})
	case "uploadInfo":
		c.id = id
		c.cs = int64(pick(rng, []int{0, 1, 100, 65536}))
		one(respBRes{kind: "writer", id: ansID, size: int64(pick(rng, []int{0, 1, 2, 10, 1 << 40})), chunk: int64(rng.Intn(100))})
	case "uploadChunk":
		c.id = id
		c.start = int64(pick(rng, []int{0, 0, 1, 7, 1 << 30}))
		c.cs = int64(pick(rng, []int{0, 100, 65536}))
		c.content = content
		if content == "" && !wild {
			c.content = "z"
		}
		if c.content == "" {
			// nothing to flush: no request; the writer's ID is the location as net/url prints it, which is the
			// model's for well-formed names only
			c.repo, c.id = pick(rng, wireRepos), pick(rng, wireIDs)
		}
		one(respBRes{kind: "writer", id: ansID, size: c.start + int64(len(c.content)), chunk: 0})
	case "uploadCommit":
		c.id = id
		c.start = int64(pick(rng, []int{0, 0, 1, 7, 1 << 30}))
		c.cs = int64(pick(rng, []int{0, 100, 65536}))
		c.content = content
		one(respBRes{kind: "commit", id: ansID, d: ansDesc})
	case "tags", "repositories":
		c.last = pick(rng, []string{"", "", "b", "m", "a b&c"})
		// a listing, sorted or not, served page by page: one answer per page the client will ask for
		all := []string{}
		n := rng.Intn(8)
		for j := 0; j < n; j++ {
			all = append(all, pick(rng, []string{"a", "b", "c", "d", "e/f", "g h", "i&j=k", "l<m>", "n\"o", "ü", "p", "q"}))
		}
		if rng.Chance(3, 4) {
			sortDedupe(&all)
		}
		ps := int(x.pageSize)
		if ps <= 0 {
			ps = 1000
		}
		rest := all
		for pages := 0; pages < 6; pages++ {
			if rng.Chance(1, 10) {
				x.as = append(x.as, errAns())
				break
			}
			x.as = append(x.as, okAns(respBRes{kind: "items", items: append([]string{}, rest...)}))
			if len(rest) < ps {
				break
			}
			rest = rest[ps:]
		}
	case "referrers":
		var ds []respDesc
		for j := rng.Intn(4); j > 0; j-- {
			ds = append(ds, respDesc{mt: pick(rng, wireMediaTypes), dg: sha256Digest(rng.Bytes(3)), size: int64(rng.Intn(1000))})
		}
		one(respBRes{kind: "descs", descs: ds})
	}
	x.c = c
	return x
}

func sortDedupe(xs *[]string) {
	m := map[string]bool{}
	var out []string
	for _, x := range *xs {
		if !m[x] {
			m[x] = true
			out = append(out, x)
		}
	}
	for i := 1; i < len(out); i++ {
		for j := i; j > 0 && out[j] < out[j-1]; j-- {
			out[j], out[j-1] = out[j-1], out[j]
		}
	}
	*xs = out
}

var wireKinds = []string{"getBlob", "getBlobRange", "getManifest", "getTag", "resolveBlob", "resolveManifest", "resolveTag",
	"pushBlob", "pushManifest", "mountBlob", "deleteBlob", "deleteManifest", "deleteTag", "startUpload", "uploadInfo",
	"uploadChunk", "uploadCommit", "tags", "repositories", "referrers"}

func (*c03w) Gen(rng *RNG, tier string) []Case {
	var cases []Case
	per := 60
	if tier == "thorough" {
		per = 900
	}
	for _, k := range wireKinds {
		for i := 0; i < per; i++ {
			wild := i%4 == 3
			x := wireGenCase(rng, k, wild)
			tag := "valid"
			if wild {
				tag = "wild"
			}
			cases = append(cases, Case{Tag: tag, Lines: []string{x.line()}})
		}
	}
	// directed: an error with a status that is not an error status, on every kind of call (F29)
	for _, st := range []int{200, 201, 202, 204, 100, 302, 0, 1000} {
		for _, k := range []string{"getBlob", "resolveBlob", "pushManifest", "deleteBlob", "startUpload", "mountBlob", "getTag", "tags"} {
			x := wireGenCase(rng, k, false)
			expr := strings.Split(fmt.Sprintf("H %d W %s %s -", st, tok("CUSTOM_CODE"), tok("refused")), " ")
			e, _, _ := parseErrExpr(expr)
			x.as = []wireAns{{err: e, expr: expr}}
			cases = append(cases, Case{Tag: "error-with-non-error-status", Lines: []string{x.line()}})
		}
	}
	return cases
}

// ---- oracle: the property, stated on the implementation's trace, independently of the model ----

func wireValidRepo(s string) bool   { return ociref.IsValidRepository(s) }
func wireValidDigest(s string) bool { return ociref.IsValidDigest(s) }
func wireValidTag(s string) bool    { return ociref.IsValidTag(s) }
func wireValidID(s string) bool     { return s != "" && utf8.ValidString(s) }

// wireWF: well-formed names and arguments (the calls the property quantifies over).
func wireWF(c wireCall) bool {
	switch c.name {
	case "getBlob", "getManifest", "resolveBlob", "resolveManifest", "deleteBlob", "deleteManifest", "referrers":
		return wireValidRepo(c.repo) && wireValidDigest(c.dg)
	case "getBlobRange":
		return wireValidRepo(c.repo) && wireValidDigest(c.dg) && c.o0 >= 0 && (c.o1 < 0 || c.o0 < c.o1)
	case "getTag", "resolveTag", "deleteTag":
		return wireValidRepo(c.repo) && wireValidTag(c.tag)
	case "pushBlob":
		return wireValidRepo(c.repo) && wireValidDigest(c.d.dg) && int64(len(c.content)) == c.d.size
	case "pushManifest":
		return wireValidRepo(c.repo) && (c.tag == "" || wireValidTag(c.tag)) && c.mt != ""
	case "mountBlob":
		return wireValidRepo(c.repo) && wireValidRepo(c.from) && wireValidDigest(c.dg)
	case "startUpload", "tags":
		return wireValidRepo(c.repo)
	case "uploadInfo":
		return wireValidRepo(c.repo) && wireValidID(c.id)
	case "uploadChunk":
		return wireValidRepo(c.repo) && wireValidID(c.id) && c.start >= 0 && c.content != ""
	case "uploadCommit":
		return wireValidRepo(c.repo) && wireValidID(c.id) && c.start >= 0 && wireValidDigest(c.dg)
	case "repositories":
		return true
	}
	return false
}

// wireOnWire: the call as the backend is to receive it (hints are not sent).
func wireOnWire(c wireCall) wireCall {
	switch c.name {
	case "getBlobRange":
		if c.o0 == 0 && c.o1 < 0 {
			return wireCall{name: "getBlob", repo: c.repo, dg: c.dg}
		}
		if c.o1 < 0 {
			c.o1 = -1
		}
	case "startUpload", "uploadInfo":
		c.cs = 0
	case "uploadChunk", "uploadCommit":
		c.cs = int64(len(c.content))
	}
	return c
}

// wireCarriable: the answer is one the headers can carry (sizes, digests, upload IDs).
func wireCarriable(c wireCall, a wireAns, o respOpts) bool {
	if !a.ok {
		return true
	}
	okSize := func(n int64) bool { return n >= 0 }
	switch a.b.kind {
	case "reader":
		if !okSize(a.b.d.size) {
			return false
		}
		if (c.name == "getManifest" || c.name == "getTag") && o.bits[2] == '0' && !wireValidDigest(a.b.d.dg) {
			return false
		}
	case "desc":
		switch c.name {
		case "resolveBlob", "resolveManifest", "resolveTag":
			return okSize(a.b.d.size) && wireValidDigest(a.b.d.dg)
		case "mountBlob":
			return wireValidDigest(a.b.d.dg)
		}
	case "writer":
		return wireValidID(a.b.id) && okSize(a.b.size) && okSize(a.b.chunk)
	}
	return true
}

func wireParseOut(out string) (calls []string, res string, ok bool) {
	i := strings.Index(out, " | ")
	if i < 0 || !strings.HasPrefix(out, "calls ") {
		return nil, "", false
	}
	f := strings.Fields(out[:i])
	return f[2:], out[i+3:], true
}

// wireExpectedStatus: the status the distribution specification gives the code; for a code without one the
// error's own status when that is an error status (0: the property does not say which status an error
// that carries a status outside 4xx/5xx is to arrive with, only that it arrives as an error).
func wireExpectedStatus(err error) (int, string) {
	code := "UNKNOWN"
	var oerr ociregistry.Error
	if errors.As(err, &oerr) && oerr.Code() != "" {
		code = oerr.Code()
	}
	if st, ok := specStatus[code]; ok {
		return st, code
	}
	var herr ociregistry.HTTPError
	if errors.As(err, &herr) {
		if herr.StatusCode() >= 400 && herr.StatusCode() <= 599 {
			return herr.StatusCode(), code
		}
		return 0, code
	}
	return 500, code
}

func (*c03w) Oracle(c Case, impl []string) []Failure {
	var fs []Failure
	for i, l := range c.Lines {
		if i >= len(impl) {
			break
		}
		x, ok := parseWireLine(strings.Split(l, " "))
		if !ok {
			continue
		}
		out := impl[i]
		if x.c.name == "referrers" {
			if got, ok := c03wArtifactSeen.Load(x.c.repo + " " + x.c.dg); ok && got.(string) != c03wArtifactType {
				fs = append(fs, Failure{Class: "wire1-referrers-artifact-type-dropped", Oracle: "wire_call_exact(arguments)", Index: i,
					Expected: "Referrers(…, artifactType " + c03wArtifactType + ")", Observed: "Referrers(…, artifactType \"" + got.(string) + "\")"})
			}
		}
		fail := func(class, oracle, want string) {
			fs = append(fs, Failure{Class: class, Oracle: oracle, Index: i, Expected: want, Observed: out})
		}
		if strings.HasSuffix(out, "| panic") || out == "panic" {
			fail("wire1-panic:"+x.c.name, "no_panic", "no panic")
			continue
		}
		if strings.HasSuffix(out, "| hang") {
			fail("wire1-hang:"+x.c.name, "returns", "the call returns")
			continue
		}
		calls, res, ok := wireParseOut(out)
		if !ok || !wireWF(x.c) || len(x.as) == 0 {
			continue
		}
		cc := x.c
		// --- which calls the backend received ---
		switch cc.name {
		case "pushBlob":
			want := []string{wireCall{name: "startUpload", repo: cc.repo}.show()}
			if x.as[0].ok && wireCarriable(cc, x.as[0], x.o) {
				want = append(want, wireCall{name: "uploadCommit", repo: cc.repo, id: x.as[0].b.id, start: 0, cs: cc.d.size, content: cc.content, dg: cc.d.dg}.show())
			}
			if strings.Join(calls, " ") != strings.Join(want, " ") {
				fail("wire1-calls:pushBlob", "wire_exact(calls)", strings.Join(want, " "))
			}
		case "tags", "repositories":
			// the first call starts where the caller said; every further call starts after the last item of the page before
			ps := x.pageSize
			if ps <= 0 {
				ps = 1000
			}
			if x.o.maxPage > 0 && ps > x.o.maxPage {
				break // the server is set to refuse this page size
			}
			if len(calls) == 0 || calls[0] != cc.show() {
				fail("wire1-calls:"+cc.name, "wire_exact(calls)", cc.show())
				break
			}
			// one backend call per page, each starting after the last item of the page before (the server cuts the
			// backend's listing to the page size); the caller gets the pages one after the other, then the error if any
			var wantCalls, wantItems []string
			end := "done"
			cur := cc
			for k := 0; ; k++ {
				wantCalls = append(wantCalls, cur.show())
				if k >= len(x.as) {
					end = "err" // the script has run out: the backend answers with an error
					break
				}
				a := x.as[k]
				if !a.ok {
					end = "err"
					break
				}
				page := a.b.items
				if int64(len(page)) > ps {
					page = page[:ps]
				}
				for _, it := range page {
					wantItems = append(wantItems, tok(it))
				}
				if int64(len(page)) < ps {
					break
				}
				cur.last = page[len(page)-1]
			}
			if strings.Join(calls, " ") != strings.Join(wantCalls, " ") {
				fail("wire1-calls:"+cc.name, "listing_wire(one call per page, each after the last item of the page before)", strings.Join(wantCalls, " "))
				break
			}
			wantRes := "items [" + strings.Join(wantItems, " ") + "] end=" + end
			if end == "done" && res != wantRes || end == "err" && !strings.HasPrefix(res, wantRes) {
				fail("wire1-listing:"+cc.name, "listing_wire(the pages, in order)", wantRes)
			}
		case "getTag":
			if len(calls) == 0 || calls[0] != cc.show() || len(calls) > 2 || (len(calls) == 2 && calls[1] != wireCall{name: "resolveTag", repo: cc.repo, tag: cc.tag}.show()) {
				fail("wire1-calls:getTag", "wire_exact(calls)", cc.show())
			}
		default:
			if x.o.bits[0] == '1' && cc.name == "referrers" {
				break // the referrers API is switched off
			}
			want := wireOnWire(cc).show()
			if len(calls) != 1 || calls[0] != want {
				fail("wire1-calls:"+cc.name, "wire_call_exact(the backend receives exactly the call)", want)
			}
		}
		// --- what the caller got, for the calls answered by one backend call ---
		single := cc.name != "pushBlob" && cc.name != "tags" && cc.name != "repositories" &&
			!(cc.name == "getTag" && x.o.bits[2] == '1') && !(cc.name == "referrers" && x.o.bits[0] == '1')
		if !single {
			continue
		}
		a := x.as[0]
		if !wireCarriable(cc, a, x.o) {
			continue
		}
		isErr := strings.HasPrefix(res, "err ")
		if !a.ok {
			if !isErr {
				fail("wire1-outcome:"+cc.name, "wire_call_transparent(the backend failed, the caller must fail)", "an error")
				continue
			}
			wantSt, wantCode := wireExpectedStatus(a.err)
			var st, code string
			fmt.Sscanf(res, "err st=%s code=%s", &st, &code)
			head := cc.name == "resolveBlob" || cc.name == "resolveManifest" || cc.name == "resolveTag"
			if head {
				// body-less: the status is what survives
				if wantSt != 0 && st != strconv.Itoa(wantSt) {
					fail("wire1-error-status:"+cc.name, "wire_call_transparent(status of a HEAD-carried error)", strconv.Itoa(wantSt))
				}
				continue
			}
			if wantSt != 0 && code != tok(wantCode) && code != "-" {
				// "-": the body was over the client's limit (F24, recorded under C07); any other code is wrong
				fail("wire1-error-code:"+cc.name, "wire_call_transparent(code)", wantCode)
			}
			continue
		}
		if isErr {
			// the ranges the server refuses although the backend answered: a start beyond the end of the blob
			if cc.name == "getBlobRange" && a.b.kind == "reader" && cc.o0 > a.b.d.size {
				continue
			}
			fail("wire1-outcome:"+cc.name, "wire_call_transparent(the backend succeeded, the caller must succeed)", "a success")
			continue
		}
		switch a.b.kind {
		case "reader":
			f := strings.Fields(res)
			// reader <mt> <dg> <size> eof|readerr <…>
			if len(f) < 6 || f[0] != "reader" {
				fail("wire1-read:"+cc.name, "wire_call_transparent(reader)", "a reader")
				continue
			}
			if f[3] != strconv.FormatInt(a.b.d.size, 10) {
				fail("wire1-read-size:"+cc.name, "wire_call_transparent(size)", strconv.FormatInt(a.b.d.size, 10))
			}
			if (cc.name == "getManifest" || cc.name == "getTag") && x.o.bits[2] == '0' {
				// by digest the caller is told the digest it asked for (F31: client_reports_requested_digest); a backend
				// that honours the interface answers with that same digest, so this is transparency for every faithful backend
				wantDg := a.b.d.dg
				if cc.name == "getManifest" {
					wantDg = cc.dg
				}
				if f[2] != tok(wantDg) {
					fail("wire1-read-digest:"+cc.name, "wire_call_transparent(digest)", wantDg)
				}
				mt := a.b.d.mt
				if mt == "" {
					mt = "application/octet-stream"
				}
				if f[1] != tok(mt) {
					fail("wire1-read-mediatype:"+cc.name, "wire_call_transparent(media type)", mt)
				}
			}
			if f[4] == "eof" && f[5] != tok(a.b.content) {
				fail("wire1-read-bytes:"+cc.name, "wire_call_transparent(bytes)", tok(a.b.content))
			}
		case "desc":
			f := strings.Fields(res)
			if len(f) != 4 || f[0] != "desc" {
				fail("wire1-desc:"+cc.name, "wire_call_transparent(descriptor)", "a descriptor")
				continue
			}
			switch cc.name {
			case "resolveBlob", "resolveManifest", "resolveTag":
				wantDg := a.b.d.dg
				if cc.name != "resolveTag" {
					wantDg = cc.dg // F31: the digest that was asked for
				}
				if f[2] != tok(wantDg) || f[3] != strconv.FormatInt(a.b.d.size, 10) {
					fail("wire1-desc:"+cc.name, "wire_call_transparent(digest, size)", wantDg)
				}
				if cc.name != "resolveBlob" { // a blob's media type is not carried; a manifest's is
					mt := a.b.d.mt
					if mt == "" {
						mt = "application/octet-stream"
					}
					if f[1] != tok(mt) {
						fail("wire1-desc-mediatype:"+cc.name, "wire_call_transparent(media type)", mt)
					}
				}
			case "mountBlob":
				if f[2] != tok(cc.dg) { // F31: the digest that was asked for
					fail("wire1-desc:mountBlob", "wire_call_transparent(digest)", cc.dg)
				}
			case "pushManifest":
				// the client's own account of what it pushed
				if f[2] != tok(sha256Digest([]byte(cc.content))) || f[3] != strconv.Itoa(len(cc.content)) || f[1] != tok(cc.mt) {
					fail("wire1-desc:pushManifest", "wire_call_transparent(descriptor of the pushed bytes)", "")
				}
			}
		case "unit":
			if res != "ok" {
				fail("wire1-result:"+cc.name, "wire_call_transparent(result)", "ok")
			}
		case "writer":
			want := "/v2/" + cc.repo + "/blobs/uploads/" + base64.RawURLEncoding.EncodeToString([]byte(a.b.id))
			f := strings.Fields(res)
			if len(f) < 2 || f[0] != "writer" || f[1] != tok(want) {
				fail("wire1-writer:"+cc.name, "wire_call_transparent(the upload is the one the backend named)", want)
			}
		case "commit":
			f := strings.Fields(res)
			if len(f) != 4 || f[2] != tok(cc.dg) || f[3] != strconv.FormatInt(cc.start+int64(len(cc.content)), 10) {
				fail("wire1-desc:uploadCommit", "wire_call_transparent(digest, size)", cc.dg)
			}
		case "descs":
			want := fmt.Sprintf("descs %d", len(a.b.descs))
			for _, d := range a.b.descs {
				want += " " + d.mt + " " + d.dg
			}
			got := strings.Fields(res)
			ok := len(got) == 2+3*len(a.b.descs)
			for j, d := range a.b.descs {
				if ok && (got[2+3*j+1] != tok(d.dg) || got[2+3*j+2] != strconv.FormatInt(d.size, 10)) {
					ok = false
				}
			}
			if !ok {
				fail("wire1-descs:referrers", "wire_call_transparent(descriptors)", want)
			}
		}
	}
	return fs
}

func (*c03w) NonTrivial(c Case, impl []string) (bool, string) {
	x, ok := parseWireLine(strings.Split(c.Lines[0], " "))
	if !ok {
		return false, "bad"
	}
	if len(impl) == 0 {
		return false, x.c.name
	}
	calls, res, ok := wireParseOut(impl[0])
	bucket := x.c.name
	if ok && strings.HasPrefix(res, "err ") {
		bucket += ":err"
	}
	return ok && len(calls) > 0, bucket
}
