package main

import (
	"fmt"
	"net/http"
	"net/url"
	"strings"
)

// Case generation for C10 and C11.

// reg1.example:5000 and reg1.example:5001 are different registries on one host name
var authHosts = []string{"reg0.example", "reg1.example:5000", "reg2.example", "reg1.example:5001"}

// authRealmTable: every realm a generated challenge may name. The first four
// are URLs that print back unchanged; "" is a missing realm, "://bad" is
// refused by url.Parse; the last one prints back with its backslash escaped.
var authRealmTable = []string{
	"https://auth0.example/token",
	"https://auth1.example/token",
	"http://auth2.example:8080/auth/token",
	"https://reg0.example/token", // a realm on a registry host
	"",
	"://bad",
	// a path with a backslash: in a challenge it travels as \\ inside the quoted string, and net/url
	// prints it as %5C (authRealmText)
	`https://auth0.example/ten\ant/token`,
}

// authRealmText is the text net/url prints for a realm of the table.
func authRealmText(realm string) string { return strings.ReplaceAll(realm, `\`, "%5C") }

var authServices = []string{"svc0", "registry.example", "", `a"b\c d`, "svc,1", "\xc3\xa9\xff"}

// the 4-element lattice of required/desired scopes
var authLattice = []string{"", "repository:foo:pull", "repository:foo:push", "repository:foo:pull,push"}

// scopes a registry may challenge with: the lattice, other texts for the same
// sets, other repositories, opaque words
var authChalScopes = []string{
	"", "repository:foo:pull", "repository:foo:push", "repository:foo:pull,push",
	"repository:foo:push,pull", "repository:foo:pull repository:foo:push", "repository:foo:pull  repository:foo:pull",
	"repository:bar:pull", "registry:catalog:*", "repository:foo:pull repository:bar:pull,push",
	"weird", "repository:foo:delete,pull", "repository:foo:pull,push repository:zot:push",
}

func authSecret(kind string, host int) string { return fmt.Sprintf("%s%d-SECRET", kind, host) }

func init() {
	// the generator relies on these facts about its own table
	for _, r := range authRealmTable[:4] {
		u, err := url.Parse(r)
		if err != nil || u.String() != r || u.RawQuery != "" {
			panic("auth realm table: " + r)
		}
		if _, err := http.NewRequest("POST", r, nil); err != nil {
			panic("auth realm table: " + r)
		}
	}
	if _, err := url.Parse("://bad"); err == nil {
		panic("auth realm table: ://bad parses")
	}
}

// ---- challenge header values ----

func isPureToken(s string) bool {
	if s == "" {
		return false
	}
	for i := 0; i < len(s); i++ {
		if !refIsTokenChar(s[i]) {
			return false
		}
	}
	return true
}

func quoteParam(rng *RNG, v string, gratuitous bool) string {
	var sb strings.Builder
	sb.WriteByte('"')
	for i := 0; i < len(v); i++ {
		c := v[i]
		if c == '"' || c == '\\' || (gratuitous && rng.Chance(1, 4)) {
			sb.WriteByte('\\')
		}
		sb.WriteByte(c)
	}
	sb.WriteByte('"')
	return sb.String()
}

func caseVariant(rng *RNG, s string) string {
	switch rng.Intn(4) {
	case 0:
		return strings.ToUpper(s)
	case 1:
		return strings.ToLower(s)
	case 2:
		b := []byte(strings.ToLower(s))
		for i := range b {
			if rng.Bool() && b[i] >= 'a' && b[i] <= 'z' {
				b[i] -= 32
			}
		}
		return string(b)
	}
	return s
}

// wellFormedChallenge renders scheme + params in one of the spellings RFC 7235 allows.
func wellFormedChallenge(rng *RNG, scheme string, params [][2]string) string {
	var sb strings.Builder
	sb.WriteString(caseVariant(rng, scheme))
	if len(params) == 0 {
		if rng.Chance(1, 3) {
			sb.WriteString(pick(rng, []string{" ", "  ", "\t"}))
		}
		return sb.String()
	}
	sb.WriteString(pick(rng, []string{" ", " ", " ", "  ", "\t", " \r\n "}))
	order := rng.Perm(len(params))
	for i, k := range order {
		p := params[k]
		if i > 0 {
			sb.WriteString(pick(rng, []string{",", ", ", ",", " , ", ",\t", ",  "}))
		}
		sb.WriteString(caseVariant(rng, p[0]))
		sb.WriteByte('=')
		if isPureToken(p[1]) && rng.Bool() {
			sb.WriteString(p[1])
		} else {
			sb.WriteString(quoteParam(rng, p[1], rng.Chance(1, 4)))
		}
	}
	if rng.Chance(1, 10) {
		sb.WriteString(pick(rng, []string{",", " ,", " ", "\t"})) // a trailing comma or blank is accepted
	}
	return sb.String()
}

func bearerParams(rng *RNG, realm, service, scope string) [][2]string {
	var ps [][2]string
	if realm != "" {
		ps = append(ps, [2]string{"realm", realm})
	}
	if service != "" {
		ps = append(ps, [2]string{"service", service})
	}
	if scope != "" {
		ps = append(ps, [2]string{"scope", scope})
	}
	if rng.Chance(1, 6) {
		ps = append(ps, [2]string{pick(rng, []string{"error", "charset", "x-extra"}), pick(rng, []string{"invalid_token", "UTF-8", "some value"})})
	}
	if rng.Chance(1, 12) && realm != "" { // a duplicate key: the later one wins
		ps = append([][2]string{{"realm", pick(rng, authRealmTable[:4])}}, ps...)
		return ps // keep this order: handled by the caller (no permutation wanted, but harmless: both are table realms)
	}
	return ps
}

// malformedChallenge breaks a header in one of the structural ways.
func malformedChallenge(rng *RNG, realm, service, scope string) string {
	q := func(s string) string { return `"` + s + `"` }
	switch rng.Intn(28) {
	case 0:
		return "Bearer realm" + q(realm) // missing '='
	case 1:
		return "Bearer realm=" // empty value
	case 2:
		return `Bearer realm=""` // empty quoted value
	case 3:
		return "Bearer realm=" + q(realm) + `,service="` + service // unterminated quote
	case 4:
		return "Bearer realm=" + q(realm) + " garbage"
	case 5:
		return "Bearer ,realm=" + q(realm)
	case 6:
		return "Bearer realm=" + q(realm) + ",,scope=" + q(scope)
	case 7:
		return "Bearer realm=" + q(realm) + ", " // comma then blank: refused
	case 8:
		return " Bearer realm=" + q(realm) // leading blank: empty scheme
	case 9:
		return "=Bearer realm=" + q(realm)
	case 10:
		return "Bearer re@lm=" + q(realm)
	case 11:
		return "Bearer realm=" + q(realm) + `,scope=repository:foo:pull` // unquoted value with separators
	case 12:
		return "Bearer realm=" + q(realm) + `,service="abc\` // backslash at the very end
	case 13:
		return "Bearer realm=" + q(realm) + `,service="abc\"` // escaped closing quote
	case 14:
		return "Bearer realm = " + q(realm) // blanks around '='
	case 15:
		return "Bearer realm=" + q(realm) + ";service=" + q(service)
	case 16:
		return "Bearer\x00realm=" + q(realm)
	case 17:
		return "Bearer realm=" + q(realm) + ",s\xe9rvice=x"
	case 18:
		return "Bearer realm=" + q(realm) + `,service="` + "\xff\x00\x7f" + `"` // odd bytes inside a quoted string are fine
	case 19:
		return ""
	case 20:
		return "Bearer realm=" + q(realm) + `,service=` + q(service) + `"`
	case 21:
		return "Negotiate YIIabc==" // token68 credentials instead of auth-params
	case 22:
		return "Bearer abc="
	case 23:
		return "Basic QWxhZGRpbjpvcGVuIHNlc2FtZQ=="
	case 24: // two challenges in one field value (RFC 7235 allows it; this parser takes one per value)
		return `Basic realm="registry", Bearer realm=` + q(realm) + ",service=" + q(service)
	case 25:
		return "Bearer realm=" + q(realm) + `, Basic realm="registry"`
	case 26:
		return "Bearer realm=" + q(realm) + ",realm" // a key without a value at the end
	}
	return "Bearer service=" + q(service) + ",realm=" + q(realm) + `\`
}

// rawChallenge: random bytes, or a byte-level mutation of a well-formed header.
func rawChallenge(rng *RNG, base string) string {
	if rng.Chance(1, 3) || base == "" {
		n := rng.Intn(24)
		alphabet := []byte("Bearrbasic =\",\\ \trealmscope:/x\x00\xff")
		b := make([]byte, n)
		for i := range b {
			b[i] = alphabet[rng.Intn(len(alphabet))]
		}
		return string(b)
	}
	b := []byte(base)
	for k := 1 + rng.Intn(3); k > 0 && len(b) > 0; k-- {
		i := rng.Intn(len(b))
		switch rng.Intn(3) {
		case 0:
			b = append(b[:i], b[i+1:]...)
		case 1:
			b[i] = pick(rng, []byte("\"\\,= \tx:\x00\xe9"))
		default:
			b = append(b[:i], append([]byte{pick(rng, []byte("\"\\,= \tx"))}, b[i:]...)...)
		}
	}
	return string(b)
}

// realmInTable: input-construction filter. A header the reference reading takes
// for a Bearer challenge must name a realm of the table (the canonical form of
// any other realm depends on net/url, which is not under test).
func realmInTable(h string) bool {
	c, ok := refParseChallenge(h)
	if !ok || c.scheme != "bearer" {
		return true
	}
	for _, r := range authRealmTable {
		if c.params["realm"] == r {
			return true
		}
	}
	return false
}

type chalChoice struct {
	realm, service, scope string
}

// genChallengeValues makes the Www-Authenticate values of one 401 response.
func genChallengeValues(rng *RNG, home chalChoice, flavour string) []string {
	realm, service, scope := home.realm, home.service, home.scope
	bearer := func() string { return wellFormedChallenge(rng, "Bearer", bearerParams(rng, realm, service, scope)) }
	basic := func() string {
		return wellFormedChallenge(rng, "Basic", [][2]string{{"realm", pick(rng, []string{"registry", "Registry Realm", realm + "x"})}})
	}
	unknown := func() string {
		return wellFormedChallenge(rng, pick(rng, []string{"Digest", "Negotiate", "NTLM", "Bearerx", "Mutual"}), [][2]string{{"realm", pick(rng, []string{"r", realm + "x"})}, {"nonce", "abc"}})
	}
	var vals []string
	for tries := 0; tries < 20; tries++ {
		vals = nil
		switch flavour {
		case "bearer":
			vals = []string{bearer()}
		case "basic":
			vals = []string{basic()}
		case "both":
			vals = []string{bearer(), basic()}
			if rng.Bool() {
				vals[0], vals[1] = vals[1], vals[0]
			}
		case "unknown":
			vals = []string{unknown()}
			if rng.Bool() {
				vals = append(vals, pick(rng, []func() string{bearer, basic})())
				if rng.Bool() {
					vals[0], vals[1] = vals[1], vals[0]
				}
			}
		case "malformed":
			vals = []string{malformedChallenge(rng, realm, service, scope)}
			if rng.Chance(1, 3) {
				vals = append(vals, pick(rng, []func() string{bearer, basic, unknown})())
			}
		case "raw":
			vals = []string{rawChallenge(rng, bearer())}
			if rng.Chance(1, 4) {
				vals = append(vals, rawChallenge(rng, basic()))
			}
		case "many":
			n := 2 + rng.Intn(3)
			for i := 0; i < n; i++ {
				vals = append(vals, pick(rng, []func() string{bearer, bearer, basic, unknown, func() string { return malformedChallenge(rng, realm, service, scope) }})())
			}
		default:
			vals = []string{bearer()}
		}
		ok := true
		for _, v := range vals {
			if !realmInTable(v) {
				ok = false
			}
		}
		if ok {
			return vals
		}
	}
	return []string{`Bearer realm="` + authRealmTable[0] + `"`}
}

// ---- requests ----

type authGenOpts struct {
	prop     string
	lifetime []int // expires_in values to draw from
}

func genTokReply(rng *RNG, o authGenOpts, call, pos int) tokReply {
	attempt, method := (pos>>1)&1, pos&1
	grant := func() tokReply {
		r := tokReply{kind: 'j', exp: pick(rng, o.lifetime)}
		switch rng.Intn(6) {
		case 0:
			r.access = fmt.Sprintf("A%dp%d", call, pos)
		case 1:
			r.token = fmt.Sprintf("T%dp%d", call, pos)
			r.access = fmt.Sprintf("A%dp%d", call, pos)
		default:
			r.token = fmt.Sprintf("T%dp%d", call, pos)
		}
		if rng.Chance(1, 4) {
			r.refresh = fmt.Sprintf("N%dp%d-RT", call, pos)
		}
		return r
	}
	n := rng.Intn(100)
	switch {
	case n < 62:
		return grant()
	case n < 74 && attempt == 0:
		return tokReply{kind: 's', status: 401}
	case n < 74:
		return grant()
	case n < 84 && method == 0:
		return tokReply{kind: 's', status: 404}
	case n < 84:
		return grant()
	case n < 90:
		return tokReply{kind: 's', status: pick(rng, []int{400, 401, 403, 404, 429, 500, 503, 301, 204, 201, 418})}
	case n < 93:
		return tokReply{kind: 'm'}
	case n < 97: // a 200 without any token (maybe with a refresh token)
		r := tokReply{kind: 'j', exp: pick(rng, o.lifetime)}
		if rng.Bool() {
			r.refresh = fmt.Sprintf("N%dp%d-RT", call, pos)
		}
		return r
	}
	return tokReply{kind: 'f'}
}

type authCaseGen struct {
	rng   *RNG
	o     authGenOpts
	lines []string
	call  int
	now   int
	step  int // logical milliseconds between calls
	verb  string
	homes map[string]chalChoice
}

func newAuthCaseGen(rng *RNG, o authGenOpts) *authCaseGen {
	return &authCaseGen{rng: rng, o: o, step: 1, verb: "req", homes: map[string]chalChoice{}}
}

// cfg kinds: 0 none, 1 basic, 2 refresh, 3 access, 4 basic+refresh, 5 all, 6 lookup fails, 7 user only, 8 password only
func (g *authCaseGen) cfg(hostIdx, kind int) {
	h := authHosts[hostIdx]
	u, p, r, a := "", "", "", ""
	switch kind {
	case 1:
		u, p = authSecret("user", hostIdx), authSecret("pw", hostIdx)
	case 2:
		r = authSecret("rt", hostIdx)
	case 3:
		a = authSecret("at", hostIdx)
	case 4:
		u, p, r = authSecret("user", hostIdx), authSecret("pw", hostIdx), authSecret("rt", hostIdx)
	case 5:
		u, p, r, a = authSecret("user", hostIdx), authSecret("pw", hostIdx), authSecret("rt", hostIdx), authSecret("at", hostIdx)
	case 6:
		g.lines = append(g.lines, "auth cfg "+tok(h)+" fail")
		return
	case 7:
		u = authSecret("user", hostIdx)
	case 8:
		p = authSecret("pw", hostIdx)
	}
	g.lines = append(g.lines, strings.Join([]string{"auth", "cfg", tok(h), tok(u), tok(p), tok(r), tok(a)}, " "))
}

func (g *authCaseGen) home(hostIdx int) chalChoice {
	h := authHosts[hostIdx]
	if c, ok := g.homes[h]; ok {
		return c
	}
	c := chalChoice{realm: authRealmTable[hostIdx%3], service: authServices[hostIdx%2], scope: pick(g.rng, authChalScopes)}
	g.homes[h] = c
	return c
}

func (g *authCaseGen) scopeTok(allowUnlimited bool) string {
	rng := g.rng
	switch n := rng.Intn(20); {
	case n == 0:
		return "-"
	case n == 1 && allowUnlimited:
		return "*"
	}
	return tok(pick(rng, authLattice))
}

func (g *authCaseGen) challenge(hostIdx int) []string {
	rng := g.rng
	c := g.home(hostIdx)
	if rng.Chance(1, 3) {
		c.scope = pick(rng, authChalScopes)
	}
	if rng.Chance(1, 8) {
		c.realm = pick(rng, authRealmTable)
	}
	if rng.Chance(1, 8) {
		c.service = pick(rng, authServices)
	}
	var flavour string
	if g.o.prop == "C10" {
		flavour = pick(rng, []string{"bearer", "bearer", "bearer", "bearer", "bearer", "bearer", "basic", "both", "unknown", "malformed"})
	} else {
		flavour = pick(rng, []string{"bearer", "bearer", "bearer", "basic", "basic", "both", "both", "unknown", "malformed", "malformed", "raw", "many"})
	}
	return genChallengeValues(rng, c, flavour)
}

func (g *authCaseGen) regReply(hostIdx int, first bool) regReply {
	rng := g.rng
	n := rng.Intn(100)
	if first {
		switch {
		case n < 35:
			return regReply{status: pick(rng, []int{200, 200, 200, 201, 202, 404})}
		case n < 85:
			return regReply{status: 401, hdrs: g.challenge(hostIdx)}
		case n < 89:
			return regReply{status: 401}
		case n < 95:
			return regReply{status: pick(rng, []int{403, 404, 429, 500, 503, 400})}
		}
		return regReply{fail: true}
	}
	switch {
	case n < 62:
		return regReply{status: pick(rng, []int{200, 200, 201, 404})}
	case n < 82:
		return regReply{status: 401, hdrs: g.challenge(hostIdx)}
	case n < 86:
		return regReply{status: 401}
	case n < 95:
		return regReply{status: pick(rng, []int{403, 404, 429, 500})}
	}
	return regReply{fail: true}
}

func (g *authCaseGen) req(hostIdx int) *authReq {
	rng := g.rng
	a := &authReq{host: authHosts[hostIdx], now: g.now, required: g.scopeTok(false), want: g.scopeTok(true)}
	if g.o.prop == "C11" {
		a.body = pick(rng, []string{"n", "n", "g", "g", "b"})
	} else {
		a.body = pick(rng, []string{"n", "n", "n", "g", "b"})
	}
	a.reg[0] = g.regReply(hostIdx, true)
	a.reg[1] = g.regReply(hostIdx, false)
	for i := 0; i < 8; i++ {
		a.tok[i>>2][(i>>1)&1][i&1] = genTokReply(rng, g.o, g.call, i)
	}
	return a
}

func (g *authCaseGen) add(a *authReq) {
	l := a.Line()
	if g.verb != "req" {
		l = strings.Replace(l, "auth req ", "auth "+g.verb+" ", 1)
	}
	g.lines = append(g.lines, l)
	g.call++
	g.now += g.step
}

func (g *authCaseGen) Case(tag string) Case { return Case{Tag: tag, Lines: g.lines} }

// ---- directed flows ----

func grantTok(name string, exp int) tokReply { return tokReply{kind: 'j', token: name, exp: exp} }

func allTok(a *authReq, r tokReply) {
	for i := 0; i < 8; i++ {
		a.tok[i>>2][(i>>1)&1][i&1] = r
	}
}

func bearerHdr(realm, service, scope string) string {
	s := `Bearer realm="` + realm + `"`
	if service != "" {
		s += `,service="` + service + `"`
	}
	if scope != "" {
		s += `,scope="` + scope + `"`
	}
	return s
}

func authDirected(o authGenOpts) []Case {
	var cases []Case
	mk := func(host int, now int, required, want string) *authReq {
		a := &authReq{host: authHosts[host], now: now, required: tok(required), want: tok(want), body: "n"}
		a.reg[0] = regReply{status: 200}
		a.reg[1] = regReply{status: 200}
		allTok(a, tokReply{kind: 's', status: 500})
		return a
	}
	pull, push, both := authLattice[1], authLattice[2], authLattice[3]
	realm0, realm1 := authRealmTable[0], authRealmTable[1]
	for _, cfgKind := range []int{0, 1, 2, 3, 4, 5, 6, 7} {
		// 1. challenge -> token -> retry; then a cache hit; then a wider request misses the cache
		g := newAuthCaseGen(NewRNG(1), o)
		g.cfg(0, cfgKind)
		a := mk(0, 0, pull, "")
		a.reg[0] = regReply{status: 401, hdrs: []string{bearerHdr(realm0, "svc0", pull)}}
		allTok(a, grantTok("Tfirst", 3600))
		g.add(a)
		b := mk(0, 1, pull, both)
		g.add(b)
		c := mk(0, 2, both, "")
		c.reg[0] = regReply{status: 401, hdrs: []string{bearerHdr(realm0, "svc0", both)}}
		allTok(c, grantTok("Tsecond", 1))
		g.add(c)
		d := mk(0, 3, both, "") // Tsecond had one second: unusable now
		d.reg[0] = regReply{status: 401, hdrs: []string{bearerHdr(realm0, "svc0", "repository:foo:push,pull")}}
		allTok(d, grantTok("Tthird", 0))
		d.reg[1] = regReply{status: 401}
		g.add(d)
		cases = append(cases, g.Case(fmt.Sprintf("directed:flow cfg=%d", cfgKind)))

		// 2. the token server refuses the wide scope (401) and grants the challenge scope
		g = newAuthCaseGen(NewRNG(1), o)
		g.cfg(0, cfgKind)
		a = mk(0, 0, pull, both)
		a.reg[0] = regReply{status: 401, hdrs: []string{bearerHdr(realm0, "", pull)}}
		allTok(a, tokReply{kind: 's', status: 401})
		a.tok[1][1][0], a.tok[1][1][1] = grantTok("Tnarrow", 3600), grantTok("TnarrowG", 3600)
		g.add(a)
		b = mk(0, 1, push, "")
		g.add(b)
		b2 := mk(0, 2, pull, "")
		g.add(b2)
		cases = append(cases, g.Case(fmt.Sprintf("directed:overwide cfg=%d", cfgKind)))

		// 2b. the same refusal on a pre-emptive acquisition (challenge already known, refresh token):
		// the narrow retry must still ask for what this request requires
		g = newAuthCaseGen(NewRNG(1), o)
		g.cfg(0, cfgKind)
		a = mk(0, 0, pull, "")
		a.reg[0] = regReply{status: 401, hdrs: []string{bearerHdr(realm0, "svc0", pull)}}
		allTok(a, tokReply{kind: 'j', token: "Tpull", refresh: "Nfresh-RT", exp: 3600})
		g.add(a)
		b = mk(0, 1, push, pull)
		allTok(b, tokReply{kind: 's', status: 401})
		b.tok[0][1][0], b.tok[0][1][1] = grantTok("TnarrowPre", 3600), grantTok("TnarrowPreG", 3600)
		b.reg[0] = regReply{status: 401, hdrs: []string{bearerHdr(realm0, "svc0", push)}}
		b.reg[1] = regReply{status: 401}
		g.add(b)
		b2 = mk(0, 2, "repository:bar:pull", both)
		allTok(b2, tokReply{kind: 's', status: 401})
		b2.tok[0][1][0], b2.tok[0][1][1] = grantTok("TnarrowBar", 3600), grantTok("TnarrowBarG", 3600)
		g.add(b2)
		cases = append(cases, g.Case(fmt.Sprintf("directed:overwide-preemptive cfg=%d", cfgKind)))

		// 3. no OAuth2 POST endpoint (404): GET with Basic
		g = newAuthCaseGen(NewRNG(1), o)
		g.cfg(0, cfgKind)
		a = mk(0, 0, push, "")
		a.reg[0] = regReply{status: 401, hdrs: []string{bearerHdr(realm0, "svc0", push)}}
		allTok(a, tokReply{kind: 's', status: 404})
		a.tok[1][0][1] = tokReply{kind: 'j', access: "Aget", refresh: "Nnew-RT", exp: 120}
		g.add(a)
		b = mk(0, 1, both, "") // pre-emptive acquisition with the (new) refresh token
		allTok(b, grantTok("Tpre", 3600))
		g.add(b)
		cases = append(cases, g.Case(fmt.Sprintf("directed:nopost cfg=%d", cfgKind)))

		// 4. Basic challenge; Basic preferred over Bearer; two hosts with their own secrets
		g = newAuthCaseGen(NewRNG(1), o)
		g.cfg(0, cfgKind)
		g.cfg(1, 5-cfgKind%5)
		a = mk(0, 0, pull, "")
		a.reg[0] = regReply{status: 401, hdrs: []string{bearerHdr(realm0, "svc0", pull), `Basic realm="registry"`}}
		g.add(a)
		b = mk(1, 1, pull, "")
		b.reg[0] = regReply{status: 401, hdrs: []string{`Digest realm="x"`, bearerHdr(realm1, "registry.example", pull)}}
		allTok(b, grantTok("Thost1", 3600))
		g.add(b)
		c = mk(0, 2, pull, "")
		g.add(c)
		d = mk(1, 3, pull, "")
		g.add(d)
		e := mk(2, 4, pull, "")
		e.reg[0] = regReply{status: 401, hdrs: []string{`Basic realm="other"`}}
		g.add(e)
		cases = append(cases, g.Case(fmt.Sprintf("directed:basic cfg=%d", cfgKind)))

		// 4b. two registries on one host name, different ports: nothing is shared
		g = newAuthCaseGen(NewRNG(1), o)
		g.cfg(1, cfgKind)
		g.cfg(3, 5-cfgKind%5)
		a = mk(1, 0, pull, "")
		a.reg[0] = regReply{status: 401, hdrs: []string{bearerHdr(realm1, "registry.example", pull), `Basic realm="r"`}}
		allTok(a, grantTok("Tport5000", 3600))
		g.add(a)
		b = mk(3, 1, pull, "")
		allTok(b, grantTok("Tport5001pre", 3600))
		g.add(b)
		c = mk(3, 2, pull, "")
		c.reg[0] = regReply{status: 401, hdrs: []string{bearerHdr(realm0, "svc0", pull)}}
		allTok(c, grantTok("Tport5001", 3600))
		g.add(c)
		d = mk(1, 3, pull, "")
		g.add(d)
		cases = append(cases, g.Case(fmt.Sprintf("directed:sameport cfg=%d", cfgKind)))

		// 5. failures of the token server
		for _, bad := range []tokReply{{kind: 'm'}, {kind: 'f'}, {kind: 's', status: 500}, {kind: 's', status: 403}, {kind: 'j', refresh: "Nonly-RT"}, {kind: 'j'}} {
			g = newAuthCaseGen(NewRNG(1), o)
			g.cfg(0, cfgKind)
			a = mk(0, 0, pull, "")
			a.body = "g"
			a.reg[0] = regReply{status: 401, hdrs: []string{bearerHdr(realm0, "svc0", pull)}}
			allTok(a, bad)
			g.add(a)
			b = mk(0, 1, pull, "")
			b.body = "b"
			allTok(b, grantTok("Tlater", 3600))
			g.add(b)
			cases = append(cases, g.Case(fmt.Sprintf("directed:tokfail cfg=%d %s", cfgKind, bad.String())))
		}
		// 6. challenges without a usable realm
		for _, realm := range []string{"", "://bad"} {
			g = newAuthCaseGen(NewRNG(1), o)
			g.cfg(0, cfgKind)
			a = mk(0, 0, pull, "")
			a.body = "g"
			a.reg[0] = regReply{status: 401, hdrs: []string{bearerHdr(realm, "svc0", pull)}}
			if realm == "" {
				a.reg[0].hdrs = []string{`Bearer service="svc0"`}
			}
			allTok(a, grantTok("Tnever", 3600))
			g.add(a)
			b = mk(0, 1, pull, "")
			allTok(b, grantTok("Tnever2", 3600))
			g.add(b)
			cases = append(cases, g.Case(fmt.Sprintf("directed:norealm cfg=%d", cfgKind)))
		}
	}
	// 9. a token server that answers 307 / 308 pointing somewhere else
	if o.prop == "C11" {
		for _, cfgKind := range []int{1, 2, 4} {
			for _, st := range []int{307, 308} {
				g := newAuthCaseGen(NewRNG(1), o)
				g.cfg(0, cfgKind)
				a := mk(0, 0, pull, "")
				a.reg[0] = regReply{status: 401, hdrs: []string{bearerHdr(realm0, "svc0", pull)}}
				allTok(a, tokReply{kind: 's', status: st})
				g.add(a)
				cases = append(cases, g.Case(fmt.Sprintf("directed:realm-redirects cfg=%d status=%d", cfgKind, st)))
			}
		}
	}
	// 8. two first requests to one host at the same time (different scopes), then one request per scope:
	// whatever the schedule, the host has one state, both tokens are in it, the follow-ups are cache hits
	for _, cfgKind := range []int{0, 1, 2, 4} {
		g := newAuthCaseGen(NewRNG(1), o)
		g.cfg(0, cfgKind)
		g.lines = append(g.lines, "auth batch 2")
		g.verb, g.step = "breq", 0
		a := mk(0, 0, pull, "")
		a.reg[0] = regReply{status: 401, hdrs: []string{bearerHdr(realm0, "svc0", pull)}}
		allTok(a, grantTok("Tpull", 3600))
		g.add(a)
		b := mk(0, 0, "repository:bar:pull", "")
		b.reg[0] = regReply{status: 401, hdrs: []string{bearerHdr(realm0, "svc0", "repository:bar:pull")}}
		allTok(b, grantTok("Tbar", 3600))
		g.add(b)
		g.verb, g.step = "areq", 1
		g.now = 1
		c := mk(0, 1, pull, "")
		allTok(c, grantTok("Uagain1", 3600)) // never needed: the token of the batch covers it
		g.add(c)
		d := mk(0, 2, "repository:bar:pull", "")
		allTok(d, grantTok("Uagain2", 3600))
		g.add(d)
		cases = append(cases, g.Case(fmt.Sprintf("directed:concurrent-first-requests cfg=%d", cfgKind)))
	}
	// 10. a repository that shares its name with a resource of another type that sorts just before it:
	// the text asked of the token server names both, each under its own type
	if o.prop == "C10" {
		for _, pair := range [][2]string{{"registry:catalog:*", "repository:catalog:pull"}, {"artifact:foo:read", "repository:foo:pull,push"}, {"registry:catalog:* repository:b:pull", "repository:catalog:push"}} {
			g := newAuthCaseGen(NewRNG(1), o)
			g.cfg(0, 0)
			a := mk(0, 0, pair[1], pair[0])
			a.reg[0] = regReply{status: 401, hdrs: []string{bearerHdr(realm0, "svc0", pair[1])}}
			allTok(a, grantTok("Tmixed", 3600))
			g.add(a)
			b := mk(0, 1, pair[1], "")
			g.add(b)
			cases = append(cases, g.Case("directed:same-name-two-types "+pair[0]))
		}
	}
	// 11. F39: unlimited scopes. An unlimited desired scope (ContextWithScope(ctx, UnlimitedScope()), which ocifilter.Sub
	// passes through) and an unlimited required scope have no text a token server could be asked for: the token
	// request names the challenge scope and the limited ones (never "*"), the token is good for what was asked and
	// no more, and only the configured access token (cfg 3) serves a request that requires everything. cfg 2 takes
	// the same requests through the pre-emptive (refresh token) acquisition.
	if o.prop == "C10" {
		bar := "repository:bar:pull"
		for _, cfgKind := range []int{0, 1, 2, 3, 4} {
			// the auditor's conversation: foo, foo again (cache hit), then bar (the foo token does not cover it)
			g := newAuthCaseGen(NewRNG(1), o)
			g.cfg(0, cfgKind)
			a := mk(0, 0, pull, "")
			a.want = "*"
			a.reg[0] = regReply{status: 401, hdrs: []string{bearerHdr(realm0, "svc0", pull)}}
			allTok(a, grantTok("Tfoo", 3600))
			g.add(a)
			b := mk(0, 1, pull, "")
			b.want = "*"
			allTok(b, grantTok("Tnever", 3600))
			g.add(b)
			c := mk(0, 2, bar, "")
			c.want = "*"
			c.reg[0] = regReply{status: 401, hdrs: []string{bearerHdr(realm0, "svc0", bar)}}
			allTok(c, grantTok("Tbar", 3600))
			g.add(c)
			d := mk(0, 3, both, "") // the challenge names less than is required
			d.want = "*"
			d.reg[0] = regReply{status: 401, hdrs: []string{bearerHdr(realm0, "svc0", pull)}}
			allTok(d, grantTok("Tboth", 3600))
			g.add(d)
			e := mk(0, 4, push, "") // the wide request is refused: the retry asks for the challenge scope alone
			e.want = "*"
			e.reg[0] = regReply{status: 401, hdrs: []string{bearerHdr(realm0, "svc0", "repository:zot:push")}}
			allTok(e, tokReply{kind: 's', status: 401})
			e.tok[0][1][0], e.tok[0][1][1] = grantTok("TnarrowPre", 3600), grantTok("TnarrowPreG", 3600)
			e.tok[1][1][0], e.tok[1][1][1] = grantTok("Tnarrow", 3600), grantTok("TnarrowG", 3600)
			g.add(e)
			cases = append(cases, g.Case(fmt.Sprintf("directed:unlimited-desired cfg=%d", cfgKind)))

			// an unlimited required scope, desired pull / unlimited / none
			g = newAuthCaseGen(NewRNG(1), o)
			g.cfg(0, cfgKind)
			a = mk(0, 0, "", pull)
			a.required = "*"
			a.reg[0] = regReply{status: 401, hdrs: []string{bearerHdr(realm0, "svc0", push)}}
			allTok(a, grantTok("Tpp", 3600))
			g.add(a)
			b = mk(0, 1, "", "") // Tpp was asked for pull+push: it does not cover "everything"
			b.required, b.want = "*", "*"
			b.reg[0] = regReply{status: 401, hdrs: []string{bearerHdr(realm0, "svc0", bar)}}
			allTok(b, grantTok("Tbar", 3600))
			g.add(b)
			c = mk(0, 2, both, "") // ... but it covers pull+push
			allTok(c, grantTok("Tnever", 3600))
			g.add(c)
			d = mk(0, 3, "", "")
			d.required, d.want = "*", "-"
			d.reg[0] = regReply{status: 401, hdrs: []string{bearerHdr(realm0, "svc0", "repository:zot:push")}}
			allTok(d, tokReply{kind: 's', status: 401})
			d.tok[0][1][0], d.tok[0][1][1] = grantTok("TemptyPre", 3600), grantTok("TemptyPreG", 3600)
			d.tok[1][1][0], d.tok[1][1][1] = grantTok("Tzot", 3600), grantTok("TzotG", 3600)
			g.add(d)
			cases = append(cases, g.Case(fmt.Sprintf("directed:unlimited-required cfg=%d", cfgKind)))
		}
	}
	// 9. real time, two overlapping requests: the registry sits on its answer to the first for 2.6 s
	// while the second gets a 2 s token and completes; whatever the first then sends, it is not that token
	if o.prop == "C10" {
		for _, cfgKind := range []int{0, 2} {
			g := newAuthCaseGen(NewRNG(1), o)
			g.cfg(0, cfgKind)
			g.lines = append(g.lines, "auth batch 2 hold 2600")
			g.verb, g.step = "breq", 0
			a := mk(0, 0, pull, "")
			a.reg[0] = regReply{status: 401, hdrs: []string{bearerHdr(realm0, "svc0", pull)}}
			allTok(a, grantTok("Theld", 3600))
			g.add(a)
			b := mk(0, 0, pull, "")
			b.reg[0] = regReply{status: 401, hdrs: []string{bearerHdr(realm0, "svc0", pull)}}
			allTok(b, grantTok("Tbrief", 2))
			g.add(b)
			cases = append(cases, g.Case(fmt.Sprintf("directed:held-challenge cfg=%d", cfgKind)))
		}
	}
	// 7. real time: a 1 s token acquired after a long-lived one, used 1.3 s later
	for _, cfgKind := range []int{0, 2} {
		g := newAuthCaseGen(NewRNG(1), o)
		g.cfg(0, cfgKind)
		a := mk(0, 0, pull, "")
		a.reg[0] = regReply{status: 401, hdrs: []string{bearerHdr(realm0, "svc0", pull)}}
		allTok(a, grantTok("Tlong", 3600))
		g.add(a)
		b := mk(0, 1, push, "")
		b.reg[0] = regReply{status: 401, hdrs: []string{bearerHdr(realm0, "svc0", push)}}
		allTok(b, grantTok("Tshort", 1))
		g.add(b)
		g.lines = append(g.lines, "auth sleep 1300")
		c := mk(0, 1400, push, "")
		c.reg[0] = regReply{status: 401, hdrs: []string{bearerHdr(realm0, "svc0", push)}}
		allTok(c, grantTok("Tagain", 3600))
		g.add(c)
		d := mk(0, 1401, pull, "")
		g.add(d)
		cases = append(cases, g.Case(fmt.Sprintf("directed:expiry-order cfg=%d", cfgKind)))
	}
	return cases
}

// ---- Engine.Gen ----

func (e *cauth) Gen(rng *RNG, tier string) []Case {
	o := authGenOpts{prop: e.prop, lifetime: []int{0, 1, 3600, 3600, 60, 120}}
	cases := authDirected(o)

	// header values, observed through a probing transport
	nParse := 400
	nSeq := 2500
	if tier == "thorough" {
		nParse, nSeq = 6000, 40000
	}
	if e.prop == "C10" {
		nParse /= 4
	}
	for i := 0; i < nParse; i++ {
		home := chalChoice{realm: pick(rng, authRealmTable), service: pick(rng, authServices), scope: pick(rng, authChalScopes)}
		flavour := pick(rng, []string{"bearer", "bearer", "basic", "both", "unknown", "malformed", "malformed", "raw", "raw", "many"})
		vals := genChallengeValues(rng, home, flavour)
		parts := []string{"auth", "parse"}
		for _, v := range vals {
			parts = append(parts, tok(v))
		}
		cases = append(cases, Case{Tag: "parse:" + flavour, Lines: []string{strings.Join(parts, " ")}})
	}

	// random sequences
	for i := 0; i < nSeq; i++ {
		g := newAuthCaseGen(rng, o)
		nh := 1 + rng.Intn(3)
		if e.prop == "C11" && nh < 2 {
			nh = 2
		}
		hs := rng.Perm(len(authHosts))[:nh]
		if rng.Chance(1, 4) && nh >= 2 { // the two registries that share a host name
			hs[0], hs[1] = 1, 3
			if nh == 3 {
				hs[2] = 2 * rng.Intn(2)
			}
		}
		for _, h := range hs {
			g.cfg(h, rng.Intn(9))
		}
		n := 2 + rng.Intn(6)
		for k := 0; k < n; k++ {
			g.add(g.req(hs[rng.Intn(nh)]))
		}
		cases = append(cases, g.Case("seq"))
	}

	if tier == "thorough" {
		// real time: lifetimes of 1..3 s, 600 ms between calls
		timed := authGenOpts{prop: e.prop, lifetime: []int{0, 1, 2, 2, 3, 3, 3600}}
		for i := 0; i < 40; i++ {
			g := newAuthCaseGen(rng, timed)
			g.step = 600
			g.cfg(0, pick(rng, []int{0, 1, 2, 4}))
			n := 4 + rng.Intn(3)
			for k := 0; k < n; k++ {
				if k > 0 {
					g.lines = append(g.lines, "auth sleep 600")
				}
				a := g.req(0)
				if rng.Chance(2, 3) { // mostly clean flows so that lifetimes matter
					a.reg[0] = regReply{status: 401, hdrs: []string{bearerHdr(authRealmTable[0], "svc0", pick(rng, authLattice))}}
					a.reg[1] = regReply{status: 200}
				}
				g.add(a)
			}
			cases = append(cases, g.Case("timed"))
		}
		// concurrent batches on one transport: oracles only
		for i := 0; i < 300; i++ {
			g := newAuthCaseGen(rng, o)
			nh := 2 + rng.Intn(2)
			hs := rng.Perm(len(authHosts))[:nh]
			for _, h := range hs {
				g.cfg(h, rng.Intn(9))
			}
			n := 4 + rng.Intn(5)
			g.lines = append(g.lines, fmt.Sprintf("auth batch %d", n))
			g.verb = "breq"
			g.step = 0
			for k := 0; k < n; k++ {
				g.add(g.req(hs[rng.Intn(nh)]))
			}
			cases = append(cases, g.Case("batch"))
		}
	}
	return cases
}
