package main

import (
	"io"
	"context"
	"errors"
	"flag"
	"fmt"
	"os/exec"
	"runtime"
	"strings"
	"sync"
	"sync/atomic"
	"time"

	"cuelabs.dev/go/oci/ociregistry"
	"cuelabs.dev/go/oci/ociregistry/ociunify"
)

// C16 (partial): concurrent unified reads are leak-free for every answer order
// and cancellation. One line is one scenario:
//
//	conc run <entry> <ok0> <ok1> <stub0> <stub1> <ev,ev,…>
//
// entry ∈ GetBlob GetBlobRange GetManifest ResolveBlob ResolveManifest. The two
// members are fakes whose call blocks until the harness opens their gate (event
// R0 / R1); a stubborn member (stub = 1) also returns, gate or no gate, as soon
// as the context it was given is cancelled. Further events: X (the caller
// cancels), W (wait for the call to return), C (close the returned reader), and the
// simultaneous events: P (both gates are opened, from two goroutines released by one
// barrier), PX0 / PX1 (gate 0 / 1 is opened and the caller cancels, likewise). A trailing
// r (Pr, PX0r, PX1r) swaps the order in which the two goroutines are started; for the
// model it is the same event. An implicit "W, C" ends every scenario. Observation:
//
//	ret=<ok0|ok1|e0|e1|ctx|hang> closed=<c0><c1> ctx=<x0><x1> live=<1|0|-> leak=<n> dbl=<0|1>
//
// closed: the reader member i returned was closed; ctx: the context member i was
// given is cancelled at the end; live: the chosen member's context was still
// live while the returned reader was open (sampled only if the caller had not
// cancelled); leak: goroutines still inside package ociunify at the end; dbl: a
// reader was closed twice.
//
// The engine does not use the line-by-line model diff (Go's select may choose
// either ready case): instead the Lean driver's `conc allowed …` gives the SET
// of observations the transition system allows for the scenario and the
// oracle checks membership, next to the direct statement of the property.

func init() { engines["C16"] = func() Engine { return &c16{} } }

type c16 struct {
	mu       sync.Mutex
	pending  []string          // model queries for the generated scenarios
	allowed  map[string]string // query -> set of allowed observations
	noDriver bool
}

func (*c16) UsesModel() bool { return false }

var c16Entries = []string{"GetBlob", "GetBlobRange", "GetManifest", "ResolveBlob", "ResolveManifest"}

func c16ReaderStyle(entry string) bool { return strings.HasPrefix(entry, "Get") }

// ---- gated fake members ----

type c16Member struct {
	idx      int
	ok, stub bool
	gate     chan struct{}
	started  chan struct{}
	returned chan struct{}
	once     sync.Once
	mu       sync.Mutex
	ctx      context.Context
	closes   atomic.Int32
	err      error
}

type c16Reader struct {
	m *c16Member
	r *strings.Reader
}

func (r *c16Reader) Read(p []byte) (int, error) { return r.r.Read(p) }
// Close counts the call and fails, as a reader over a broken transport does: what the unifier does on
// Close may not depend on whether the member's own Close succeeded.
func (r *c16Reader) Close() error {
	r.m.closes.Add(1)
	return errors.New("member reader: close failed")
}
func (r *c16Reader) Descriptor() ociregistry.Descriptor {
	return ociregistry.Descriptor{MediaType: "application/x-member", Digest: ociregistry.Digest(fmt.Sprintf("sha256:member%d", r.m.idx)), Size: 1}
}

// call is the body of every gated method: it records the context, blocks, and
// reports when it is about to return.
func (m *c16Member) call(ctx context.Context) {
	m.mu.Lock()
	m.ctx = ctx
	m.mu.Unlock()
	m.once.Do(func() { close(m.started) })
	if m.stub {
		select {
		case <-m.gate:
		case <-ctx.Done():
		}
	} else {
		<-m.gate
	}
}

func (m *c16Member) reader(ctx context.Context) (ociregistry.BlobReader, error) {
	defer close(m.returned)
	m.call(ctx)
	if !m.ok {
		return nil, m.err
	}
	return &c16Reader{m: m, r: strings.NewReader("x")}, nil
}

func (m *c16Member) desc(ctx context.Context) (ociregistry.Descriptor, error) {
	defer close(m.returned)
	m.call(ctx)
	if !m.ok {
		return ociregistry.Descriptor{}, m.err
	}
	return ociregistry.Descriptor{Digest: ociregistry.Digest(fmt.Sprintf("sha256:member%d", m.idx)), Size: 1}, nil
}

func (m *c16Member) registry() ociregistry.Interface {
	return &ociregistry.Funcs{
		GetBlob_: func(ctx context.Context, repo string, dg ociregistry.Digest) (ociregistry.BlobReader, error) {
			return m.reader(ctx)
		},
		GetBlobRange_: func(ctx context.Context, repo string, dg ociregistry.Digest, o0, o1 int64) (ociregistry.BlobReader, error) {
			return m.reader(ctx)
		},
		GetManifest_: func(ctx context.Context, repo string, dg ociregistry.Digest) (ociregistry.BlobReader, error) {
			return m.reader(ctx)
		},
		ResolveBlob_: func(ctx context.Context, repo string, dg ociregistry.Digest) (ociregistry.Descriptor, error) {
			return m.desc(ctx)
		},
		ResolveManifest_: func(ctx context.Context, repo string, dg ociregistry.Digest) (ociregistry.Descriptor, error) {
			return m.desc(ctx)
		},
	}
}

func (m *c16Member) ctxCancelled() bool {
	m.mu.Lock()
	defer m.mu.Unlock()
	return m.ctx != nil && m.ctx.Err() != nil
}

// c16Timeout bounds every "eventually" wait. A correct tree never reaches it;
// on a broken one the first few scenarios pay the full price and the rest a
// short one, so that the run still ends with concrete failing scenarios.
func c16Timeout() time.Duration {
	if c16TimedOut.Load() >= 3 {
		return 150 * time.Millisecond
	}
	return 3 * time.Second
}

var c16TimedOut atomic.Int32

func c16Wait(ch <-chan struct{}) bool {
	select {
	case <-ch:
		return true
	case <-time.After(c16Timeout()):
		c16TimedOut.Add(1)
		return false
	}
}

// c16Goroutines counts goroutines with a frame inside package ociunify.
func c16Goroutines() int {
	buf := make([]byte, 1<<20)
	for {
		n := runtime.Stack(buf, true)
		if n < len(buf) {
			buf = buf[:n]
			break
		}
		buf = make([]byte, 2*len(buf))
	}
	n := 0
	for _, g := range strings.Split(string(buf), "\n\n") {
		if strings.Contains(g, "ociregistry/ociunify.") {
			n++
		}
	}
	return n
}

type c16Result struct {
	r   ociregistry.BlobReader
	d   ociregistry.Descriptor
	err error
}

// c16IsNest: "uconc nest …" is the same scenario with the concurrent unifier used as the first member of a
// sequential one (whose second member fails at once): what the two gated members observe may not depend on
// what the caller of the concurrent unifier is.
func c16IsNest(l string) bool { return strings.HasPrefix(l, "uconc nest ") }

func c16Run(entry string, ok0, ok1, stub0, stub1 bool, events []string, nest bool) string {
	ms := [2]*c16Member{}
	for i := range ms {
		ms[i] = &c16Member{idx: i, gate: make(chan struct{}), started: make(chan struct{}), returned: make(chan struct{}),
			// a member's own failure may well be a timeout of its own (an http.Client with a Timeout, a
			// context it derived): that is the member failing, not the caller giving up
			err: fmt.Errorf("member %d failed: its own deadline passed: %w", i, context.DeadlineExceeded)}
	}
	ms[0].ok, ms[1].ok, ms[0].stub, ms[1].stub = ok0, ok1, stub0, stub1
	baseline := c16Goroutines() // goroutines an earlier, broken scenario may have left behind
	u := ociunify.New(ms[0].registry(), ms[1].registry(), &ociunify.Options{ReadPolicy: ociunify.ReadConcurrent})
	if nest {
		third := &c16Member{idx: 2, gate: make(chan struct{}), started: make(chan struct{}), returned: make(chan struct{}),
			err: errors.New("member 2 failed")}
		close(third.gate)
		u = ociunify.New(u, third.registry(), &ociunify.Options{ReadPolicy: ociunify.ReadSequential})
	}
	ctx, cancel := context.WithCancel(context.Background())
	defer cancel()
	retc := make(chan c16Result, 1)
	go func() {
		var res c16Result
		switch entry {
		case "GetBlob":
			res.r, res.err = u.GetBlob(ctx, "repo", "sha256:x")
		case "GetBlobRange":
			res.r, res.err = u.GetBlobRange(ctx, "repo", "sha256:x", 0, 1)
		case "GetManifest":
			res.r, res.err = u.GetManifest(ctx, "repo", "sha256:x")
		case "ResolveBlob":
			res.d, res.err = u.ResolveBlob(ctx, "repo", "sha256:x")
		case "ResolveManifest":
			res.d, res.err = u.ResolveManifest(ctx, "repo", "sha256:x")
		}
		retc <- res
	}()
	// both members are always asked
	if !c16Wait(ms[0].started) || !c16Wait(ms[1].started) {
		for _, m := range ms {
			close(m.gate)
		}
		return "ret=not-started closed=00 ctx=00 live=- leak=0 dbl=0"
	}
	var res c16Result
	have, hang, cancelled, closedRet := false, false, false, false
	live := "-"
	gateOpen := [2]bool{}
	open := func(i int) {
		if !gateOpen[i] {
			gateOpen[i] = true
			close(ms[i].gate)
		}
	}
	wait := func() {
		if have || hang {
			return
		}
		select {
		case res = <-retc:
			have = true
		case <-time.After(c16Timeout()):
			c16TimedOut.Add(1)
			hang = true
		}
	}
	chosen := func() int {
		var dg ociregistry.Digest
		switch {
		case res.err != nil:
			return -1
		case res.r != nil:
			dg = res.r.Descriptor().Digest
		default:
			dg = res.d.Digest
		}
		if dg == "sha256:member1" {
			return 1
		}
		return 0
	}
	closeRet := func() {
		if !have || closedRet || res.err != nil || res.r == nil {
			return
		}
		closedRet = true
		if !cancelled {
			// a caller reads what it was given (to the end, and once more) before closing it
			io.ReadAll(res.r)
			res.r.Read(make([]byte, 1))
			// give a wrong early cancel the time to show
			time.Sleep(10 * time.Millisecond)
			if ms[chosen()].ctxCancelled() || ms[chosen()].closes.Load() != 0 {
				live = "0"
			} else {
				live = "1"
			}
		}
		res.r.Close()
	}
	// simul runs a and b from two goroutines that are released by the same close(start)
	simul := func(a, b func(), swap bool) {
		if swap {
			a, b = b, a
		}
		start := make(chan struct{})
		var ready, done sync.WaitGroup
		for _, f := range []func(){a, b} {
			ready.Add(1)
			done.Add(1)
			go func() {
				defer done.Done()
				ready.Done()
				<-start
				f()
			}()
		}
		ready.Wait()
		runtime.Gosched() // let both reach the barrier
		close(start)
		done.Wait()
	}
	for _, ev := range events {
		switch ev {
		case "R0", "R1":
			i := int(ev[1] - '0')
			open(i)
			c16Wait(ms[i].returned)
		case "P", "Pr":
			simul(func() { open(0) }, func() { open(1) }, ev == "Pr")
			c16Wait(ms[0].returned)
			c16Wait(ms[1].returned)
		case "PX0", "PX1", "PX0r", "PX1r":
			i := int(ev[2] - '0')
			cancelled = true
			simul(func() { open(i) }, cancel, strings.HasSuffix(ev, "r"))
			c16Wait(ms[i].returned)
		case "X":
			cancelled = true
			cancel()
		case "W":
			wait()
		case "C":
			closeRet()
		}
	}
	wait()
	closeRet()
	open(0)
	open(1)
	c16Wait(ms[0].returned)
	c16Wait(ms[1].returned)
	// settle: the senders finish on their own; poll rather than sleep
	leak := 0
	deadline := time.Now().Add(c16Timeout())
	for {
		leak = c16Goroutines() - baseline
		if leak <= 0 {
			leak = 0
			break
		}
		if time.Now().After(deadline) {
			c16TimedOut.Add(1)
			break
		}
		time.Sleep(time.Millisecond)
	}
	// expected closes and cancellations follow the last goroutine's exit at once;
	// poll briefly for the flags that are set after the goroutine leaves ociunify frames
	ret := "hang"
	if have {
		switch {
		case res.err == nil:
			ret = fmt.Sprintf("ok%d", chosen())
		case errors.Is(res.err, ms[0].err):
			ret = "e0"
		case errors.Is(res.err, ms[1].err):
			ret = "e1"
		case errors.Is(res.err, context.Canceled):
			ret = "ctx"
		default:
			ret = "other-error"
		}
	}
	b := func(x bool) string {
		if x {
			return "1"
		}
		return "0"
	}
	dbl := ms[0].closes.Load() > 1 || ms[1].closes.Load() > 1
	return fmt.Sprintf("ret=%s closed=%s%s ctx=%s%s live=%s leak=%d dbl=%s", ret,
		b(ms[0].closes.Load() > 0), b(ms[1].closes.Load() > 0), b(ms[0].ctxCancelled()), b(ms[1].ctxCancelled()), live, leak, b(dbl))
}

func c16Parse(l string) (entry string, ok0, ok1, stub0, stub1 bool, events []string, good bool) {
	t := strings.Split(l, " ")
	if len(t) != 8 || t[0] != "uconc" || t[1] != "run" && t[1] != "nest" {
		return
	}
	found := false
	for _, e := range c16Entries {
		found = found || e == t[2]
	}
	for _, x := range t[3:7] {
		if x != "0" && x != "1" {
			return
		}
	}
	if !found {
		return
	}
	for _, ev := range strings.Split(t[7], ",") {
		switch ev {
		case "R0", "R1", "X", "W", "C", "P", "Pr", "PX0", "PX1", "PX0r", "PX1r":
			events = append(events, ev)
		default:
			return
		}
	}
	return t[2], t[3] == "1", t[4] == "1", t[5] == "1", t[6] == "1", events, true
}

func (*c16) Impl(c Case) []string {
	out := make([]string, len(c.Lines))
	for i, l := range c.Lines {
		out[i] = guard(func() string {
			entry, ok0, ok1, s0, s1, evs, good := c16Parse(l)
			if !good {
				return "bad-op"
			}
			return c16Run(entry, ok0, ok1, s0, s1, evs, c16IsNest(l))
		})
	}
	return out
}

// ---- generator ----

// c16Scenarios enumerates event sequences: both completion orders, the caller's
// cancellation before / between / after the answers or never, and optionally an
// explicit "wait, close" as early as the call is certain to have returned.
func c16Scenarios(ok0, ok1 bool) [][]string {
	var out [][]string
	for _, order := range [][]string{{"R0", "R1"}, {"R1", "R0"}} {
		for xpos := -1; xpos <= 2; xpos++ {
			var base []string
			for k := 0; k <= 2; k++ {
				if k == xpos {
					base = append(base, "X")
				}
				if k < 2 {
					base = append(base, order[k])
				}
			}
			out = append(out, base)
			// earliest point where the return is certain
			n0, n1 := false, false
			for k, ev := range base {
				switch ev {
				case "R0":
					n0 = true
				case "R1":
					n1 = true
				}
				certain := ev == "X" || (n0 && ok0) || (n1 && ok1) || (n0 && n1)
				if certain {
					if k < len(base)-1 {
						for _, ins := range [][]string{{"W"}, {"W", "C"}} {
							v := append(append(append([]string{}, base[:k+1]...), ins...), base[k+1:]...)
							out = append(out, v)
						}
					}
					break
				}
			}
		}
	}
	return out
}

func (e *c16) Gen(rng *RNG, tier string) []Case {
	var cases []Case
	add := func(entry string, ok0, ok1, s0, s1 bool, evs []string) {
		e.pending = append(e.pending, c16ModelQuery(entry, ok0, ok1, s0, s1, evs))
		cases = append(cases, Case{Tag: entry, Lines: []string{fmt.Sprintf("uconc run %s %s %s %s %s %s", entry, b01(ok0), b01(ok1), b01(s0), b01(s1), strings.Join(evs, ","))}})
	}
	reps := 1
	if tier == "thorough" {
		reps = 3
	}
	k := 0
	for rep := 0; rep < reps; rep++ {
		for _, oks := range [][2]bool{{true, true}, {true, false}, {false, true}, {false, false}} {
			for _, stubs := range [][2]bool{{false, false}, {true, false}, {false, true}, {true, true}} {
				for _, evs := range c16Scenarios(oks[0], oks[1]) {
					plain := !stubs[0] && !stubs[1]
					explicit := false
					for _, e := range evs {
						explicit = explicit || e == "W"
					}
					if tier == "thorough" || (plain && !explicit) {
						// every entry point sees every outcome × order × cancellation point
						for _, entry := range c16Entries {
							add(entry, oks[0], oks[1], stubs[0], stubs[1], evs)
						}
					} else {
						add(c16Entries[k%len(c16Entries)], oks[0], oks[1], stubs[0], stubs[1], evs)
						k++
					}
				}
			}
		}
	}
	// the same unifier as a member of another: every outcome × order × cancellation point, reader-style entries
	for _, oks := range [][2]bool{{true, true}, {true, false}, {false, true}, {false, false}} {
		for _, evs := range c16Scenarios(oks[0], oks[1]) {
			for _, entry := range c16Entries {
				if tier != "thorough" && !c16ReaderStyle(entry) {
					continue
				}
				cases = append(cases, Case{Tag: "nest:" + entry, Lines: []string{fmt.Sprintf("uconc nest %s %s %s 0 0 %s", entry, b01(oks[0]), b01(oks[1]), strings.Join(evs, ","))}})
			}
		}
	}
	// two events at the same moment: both gates, or a gate and the caller's cancel. The same scenario is
	// repeated (which of the ready cases Go's select takes, and which goroutine runs first, is the
	// scheduler's choice): every entry point gets the 52 of c16Simul plus 8 random ones.
	simreps := 1
	if tier == "thorough" {
		simreps = 4
	}
	addSimul := func(entry string, ok0, ok1, s0, s1 bool, evs []string) {
		e.pending = append(e.pending, c16ModelQuery(entry, ok0, ok1, s0, s1, evs))
		cases = append(cases, Case{Tag: "simul:" + entry, Lines: []string{fmt.Sprintf("uconc run %s %s %s %s %s %s", entry, b01(ok0), b01(ok1), b01(s0), b01(s1), strings.Join(evs, ","))}})
	}
	for rep := 0; rep < simreps; rep++ {
		for _, entry := range c16Entries {
			for _, sc := range c16Simul {
				for k := 0; k < sc.reps; k++ {
					evs := strings.Split(sc.evs, ",")
					if k%2 == 1 {
						evs = c16SwapStart(evs)
					}
					addSimul(entry, sc.ok0, sc.ok1, sc.s0, sc.s1, evs)
				}
			}
			for k := 0; k < 8; k++ {
				var evs []string
				if rng.Chance(1, 3) {
					evs = append(evs, pick(rng, []string{"X", "R0", "R1"}))
				}
				switch ev := pick(rng, []string{"P", "Pr", "PX0", "PX1", "PX0r", "PX1r"}); ev {
				case "P", "Pr":
					evs = append(evs, ev)
				default:
					evs = append(evs, ev, "R"+string(rune('0'+('1'-ev[2])))) // the other gate is opened afterwards
				}
				if rng.Chance(1, 3) {
					evs = append(evs, "X")
				}
				addSimul(entry, rng.Bool(), rng.Bool(), rng.Chance(1, 4), rng.Chance(1, 4), evs)
			}
		}
	}
	// a few random longer sequences (repeated events are harmless)
	n := 60
	if tier == "thorough" {
		n = 600
	}
	for i := 0; i < n; i++ {
		evs := []string{}
		for j := 0; j < 2+rng.Intn(4); j++ {
			evs = append(evs, pick(rng, []string{"R0", "R1", "X", "R0", "R1"}))
		}
		evs = append(evs, "R0", "R1")
		add(pick(rng, c16Entries), rng.Bool(), rng.Bool(), rng.Bool(), rng.Bool(), evs)
	}
	// malformed stream
	cases = append(cases, Case{Tag: "malformed", Lines: []string{"conc", "conc run", "uconc run GetTag 1 1 0 0 R0,R1", "uconc run GetBlob 1 2 0 0 R0", "uconc run GetBlob 1 1 0 0 R0,Q", "uconc walk GetBlob 1 1 0 0 R0"}})
	return cases
}

// c16Simul: the fixed scenarios with two simultaneous events (reps per entry point; odd repetitions start
// the two goroutines in the other order). 52 per entry point. Every scenario opens both gates somewhere:
// the model's final states are those where nothing can move any more.
var c16Simul = []struct {
	ok0, ok1, s0, s1 bool
	evs              string
	reps             int
}{
	{true, true, false, false, "P", 12},      // ok0 | ok1
	{false, false, false, false, "P", 6},     // e0 | e1
	{true, false, false, false, "P", 2},      // ok0 whichever answer main takes first
	{false, true, false, false, "P", 2},      // ok1
	{true, true, false, false, "PX0,R1", 6},  // ok0 | ctx (| ok1)
	{true, true, false, false, "PX1,R0", 6},  // ok1 | ctx (| ok0)
	{true, false, false, false, "PX0,R1", 4}, // ok0 | ctx
	{false, true, false, false, "PX1,R0", 4}, // ok1 | ctx
	{false, true, false, false, "PX0,R1", 2}, // the failure and the cancel together
	{true, false, false, false, "PX1,R0", 2},
	{true, true, false, true, "PX0,R1", 2}, // the other member returns on cancellation
	{true, true, true, false, "PX1,R0", 2},
	{true, true, false, false, "X,P", 2}, // cancelled before both answer together
}

// c16SwapStart: the same events with the two goroutines of every simultaneous event started in the other order.
func c16SwapStart(evs []string) []string {
	out := make([]string, len(evs))
	for i, ev := range evs {
		out[i] = ev
		if strings.HasPrefix(ev, "P") {
			if strings.HasSuffix(ev, "r") {
				out[i] = strings.TrimSuffix(ev, "r")
			} else {
				out[i] = ev + "r"
			}
		}
	}
	return out
}

// ---- oracle ----

// modelQuery is the driver line asking for the allowed observations of a scenario.
func c16ModelQuery(entry string, ok0, ok1, s0, s1 bool, evs []string) string {
	style := "d"
	if c16ReaderStyle(entry) {
		style = "r"
	}
	return fmt.Sprintf("uconc allowed %s %s %s %s %s %s", style, b01(ok0), b01(ok1), b01(s0), b01(s1), strings.Join(evs, ","))
}

// askModel runs the Lean driver once over a batch of queries (the driver
// flushes its output only at exit, so it cannot be used interactively).
func (e *c16) askModel(queries []string) {
	path := ""
	if f := flag.Lookup("driver"); f != nil {
		path = f.Value.String()
	}
	if path == "" || len(queries) == 0 {
		e.noDriver = path == ""
		return
	}
	cmd := exec.Command(path)
	cmd.Stdin = strings.NewReader(strings.Join(queries, "\n") + "\n")
	out, err := cmd.Output()
	if err != nil {
		e.noDriver = true
		return
	}
	lines := strings.Split(strings.TrimRight(string(out), "\n"), "\n")
	if len(lines) != len(queries) {
		return // not one answer per query: no answer can be attributed
	}
	for i, q := range queries {
		// "bad-op" (a driver that does not know the scenario language) or an empty line is no answer
		if lines[i] != "" && lines[i] != "bad-op" {
			e.allowed[q] = lines[i]
		}
	}
}

func (e *c16) modelAllowed(entry string, ok0, ok1, s0, s1 bool, evs []string) (string, bool) {
	e.mu.Lock()
	defer e.mu.Unlock()
	if e.allowed == nil {
		e.allowed = map[string]string{}
		e.askModel(e.pending) // every scenario the generator made, in one run
		e.pending = nil
	}
	q := c16ModelQuery(entry, ok0, ok1, s0, s1, evs)
	if a, ok := e.allowed[q]; ok {
		return a, true
	}
	if e.noDriver {
		return "", false
	}
	e.askModel([]string{q}) // corpus and replay cases
	a, ok := e.allowed[q]
	return a, ok
}

func (e *c16) Oracle(c Case, impl []string) []Failure {
	var fs []Failure
	for i, l := range c.Lines {
		if i >= len(impl) {
			break
		}
		got := impl[i]
		entry, ok0, ok1, s0, s1, evs, good := c16Parse(l)
		if !good {
			continue
		}
		fail := func(class, oracle, exp string) {
			fs = append(fs, Failure{Class: class, Oracle: oracle, Index: i, Expected: exp, Observed: got})
		}
		if got == "panic" {
			fail("c16-panic", "no_panic", "an observation")
			continue
		}
		f := map[string]string{}
		for _, kv := range strings.Split(got, " ") {
			if k, v, ok := strings.Cut(kv, "="); ok {
				f[k] = v
			}
		}
		ret := f["ret"]
		nest := c16IsNest(l)
		if nest && ret != "hang" && ret != "not-started" && !strings.HasPrefix(ret, "ok") {
			// which of the three errors the outer, sequential unifier reports is its own business
			ret = "nested-error"
		}
		oks := [2]bool{ok0, ok1}
		reader := c16ReaderStyle(entry)
		// did the caller cancel before the point where the harness knows the call has returned?
		cancelBeforeReturn := false
		for _, ev := range evs {
			if ev == "W" {
				break
			}
			if ev == "X" || strings.HasPrefix(ev, "PX") {
				cancelBeforeReturn = true
			}
		}
		switch ret {
		case "hang", "not-started":
			fail("c16-hang", "call_returns", "the call returns once a member succeeded, both answered, or the caller cancelled")
			continue
		case "other-error":
			fail("c16-foreign-error", "error_only_when_justified", "a member's error or the context's")
		case "ctx":
			if !cancelBeforeReturn {
				fail("c16-ctx-error-without-cancel", "error_only_when_justified", "no context error: the caller had not cancelled")
			}
		case "e0", "e1":
			if ok0 || ok1 {
				fail("c16-failure-despite-success", "returns_first_success", "the successful member's answer")
			}
		case "ok0", "ok1":
			if !oks[ret[2]-'0'] {
				fail("c16-success-from-failing-member", "returns_first_success", "an error")
			}
		}
		// every reader opened on a member that was not chosen is closed; the chosen one
		// is closed because the harness closed it; nothing is closed twice
		for m := 0; m < 2; m++ {
			want := byte('0')
			if oks[m] && reader {
				want = '1'
			}
			if len(f["closed"]) == 2 && f["closed"][m] != want {
				what := fmt.Sprintf("closed[%d]=%c", m, want)
				if want == '1' && ret != fmt.Sprintf("ok%d", m) {
					fail("c16-loser-reader-not-closed", "loser_reader_closed", what)
				} else {
					fail("c16-reader-close-state", "loser_reader_closed", what)
				}
			}
		}
		if f["dbl"] != "0" {
			fail("c16-reader-closed-twice", "loser_reader_closed", "dbl=0")
		}
		// the chosen member's context is live until the reader is closed …
		if f["live"] == "0" {
			fail("c16-winner-cancelled-early", "winner_ctx_live_until_close", "live=1")
		}
		// … and every context is cancelled in the end
		if f["ctx"] != "11" {
			fail("c16-context-not-cancelled", "cancelled_after_close", "ctx=11")
		}
		if f["leak"] != "0" {
			fail("c16-goroutine-left", "no_goroutine_left", "leak=0")
		}
		// membership in the set of observations the transition system allows
		if !nest {
			set, ok := e.modelAllowed(entry, ok0, ok1, s0, s1, evs)
			if !ok {
				// no driver, a driver that failed, or one that has no answer for this scenario: the membership
				// check did not happen, which is not the same as having passed
				fail("c16-model-answer-missing", "model_observation_set", "the model's set of allowed observations for "+c16ModelQuery(entry, ok0, ok1, s0, s1, evs))
			} else {
				obs := fmt.Sprintf("ret=%s closed=%s ctx=%s", ret, f["closed"], f["ctx"])
				in := false
				for _, a := range strings.Split(set, "|") {
					in = in || a == obs
				}
				if !in {
					fail("c16-not-allowed-by-model", "model_observation_set", set)
				}
			}
		}
	}
	return fs
}

// NonTrivial: the bucket is <tag>:ret=…; where the model allows more than one observation for the scenario
// the bucket also says how many, and for the scenarios with simultaneous events it names the scenario and
// the observation seen, so that the distribution is the histogram of what was seen per scenario:
//
//	simul:GetBlob:1100:P [2 allowed] saw ret=ok1 closed=11 ctx=11    (count)
//
// Seeing only one of the allowed observations is not a failure: which one happens is the scheduler's choice.
func (e *c16) NonTrivial(c Case, impl []string) (bool, string) {
	if len(impl) == 0 || len(c.Lines) == 0 || !strings.HasPrefix(impl[0], "ret=") {
		return false, "malformed"
	}
	fields := strings.Fields(impl[0])
	bucket := c.Tag + ":" + fields[0]
	entry, ok0, ok1, s0, s1, evs, good := c16Parse(c.Lines[0])
	if !good || c16IsNest(c.Lines[0]) || len(fields) < 3 {
		return true, bucket
	}
	set, ok := e.modelAllowed(entry, ok0, ok1, s0, s1, evs)
	if !ok {
		return true, bucket
	}
	n := len(strings.Split(set, "|"))
	simul := false
	for _, ev := range evs {
		simul = simul || strings.HasPrefix(ev, "P")
	}
	switch {
	case n > 1 && simul:
		sw := c16SwapStart(evs)
		name := strings.Join(evs, ",")
		if strings.Join(sw, ",") < name { // Pr and P are one scenario
			name = strings.Join(sw, ",")
		}
		t := strings.Split(c.Lines[0], " ")
		return true, fmt.Sprintf("%s:%s%s%s%s:%s [%d allowed] saw %s", c.Tag, t[3], t[4], t[5], t[6], name, n, strings.Join(fields[:3], " "))
	case n > 1:
		return true, fmt.Sprintf("%s [%d allowed]", bucket, n)
	}
	return true, bucket
}
