package main

// RNG is splitmix64: every random choice of a run derives from one state.
type RNG struct{ s uint64 }

func NewRNG(seed uint64) *RNG { return &RNG{s: seed*0x9E3779B97F4A7C15 + 0x1234567} }

func (r *RNG) Uint64() uint64 {
	r.s += 0x9E3779B97F4A7C15
	z := r.s
	z = (z ^ (z >> 30)) * 0xBF58476D1CE4E5B9
	z = (z ^ (z >> 27)) * 0x94D049BB133111EB
	return z ^ (z >> 31)
}

func (r *RNG) Intn(n int) int {
	if n <= 0 {
		return 0
	}
	return int(r.Uint64() % uint64(n))
}

func (r *RNG) Bool() bool { return r.Uint64()&1 == 1 }

// Chance returns true with probability num/den.
func (r *RNG) Chance(num, den int) bool { return r.Intn(den) < num }

func pick[T any](r *RNG, xs []T) T { return xs[r.Intn(len(xs))] }

func (r *RNG) Bytes(n int) []byte {
	b := make([]byte, n)
	for i := range b {
		b[i] = byte(r.Uint64())
	}
	return b
}

func (r *RNG) Perm(n int) []int {
	p := make([]int, n)
	for i := range p {
		p[i] = i
	}
	for i := n - 1; i > 0; i-- {
		j := r.Intn(i + 1)
		p[i], p[j] = p[j], p[i]
	}
	return p
}
