package main

import (
	"os"
	"context"
	"encoding/base64"
	"encoding/json"
	"errors"
	"fmt"
	"io"
	"net/http"
	"net/url"
	"sort"
	"strconv"
	"strings"
	"sync"
	"sync/atomic"
	"time"

	"cuelabs.dev/go/oci/ociregistry/ociauth"
)

// C10 / C11: the auth transport (ociauth.NewStdTransport), exported API only.
//
// The real transport is given a FAKE underlying http.RoundTripper that plays
// every registry and every token server, answers from a per-call script and
// logs every request it sees. Lines (engine "auth"):
//
//   auth cfg <host> <user> <pass> <refresh> <access> | auth cfg <host> fail
//   auth req <host> <now> <required> <want> <body> <reg0> <reg1> <t000> … <t111>
//   auth parse <hex header value>*
//   auth batch <n>            (thorough tier: the next n req lines run concurrently; no model diff)
//
// Output of req: <result> <body> <request> <message>*  (see lean/OciModel/Driver/Auth.lean).

func init() {
	engines["C10"] = func() Engine { return &cauth{prop: "C10", side: map[string][]Failure{}} }
	engines["C11"] = func() Engine { return &cauth{prop: "C11", side: map[string][]Failure{}} }
}

type cauth struct {
	prop string
	mu   sync.Mutex
	side map[string][]Failure // failures found while running concurrent batches, by case key
	// batchOuts: what the calls of each batch returned, by case key and line index of the batch line
	batchOuts map[string]map[int][]string
}

func (*cauth) UsesModel() bool { return true }

// ---- scripts ----

type regReply struct {
	fail   bool
	status int
	hdrs   []string
}

type tokReply struct {
	kind    byte // 'f' fail, 'm' malformed, 's' status, 'j' json
	status  int
	token   string
	access  string
	refresh string
	exp     int
}

type authReq struct {
	host     string
	now      int
	required string // token as on the line: hex, "-" or "*"
	want     string
	body     string
	reg      [2]regReply
	tok      [2][2][2]tokReply
}

func parseRegReply(s string) (regReply, bool) {
	if s == "f" {
		return regReply{fail: true}, true
	}
	parts := strings.Split(s, ",")
	if len(parts[0]) < 2 || parts[0][0] != 's' {
		return regReply{}, false
	}
	n, err := strconv.Atoi(parts[0][1:])
	if err != nil {
		return regReply{}, false
	}
	r := regReply{status: n}
	for _, h := range parts[1:] {
		v, ok := untok(h)
		if !ok {
			return regReply{}, false
		}
		r.hdrs = append(r.hdrs, v)
	}
	return r, true
}

func (r regReply) String() string {
	if r.fail {
		return "f"
	}
	parts := []string{"s" + strconv.Itoa(r.status)}
	for _, h := range r.hdrs {
		parts = append(parts, tok(h))
	}
	return strings.Join(parts, ",")
}

func parseTokReply(s string) (tokReply, bool) {
	switch {
	case s == "f":
		return tokReply{kind: 'f'}, true
	case s == "m":
		return tokReply{kind: 'm'}, true
	case strings.HasPrefix(s, "j,"):
		p := strings.Split(s, ",")
		if len(p) != 5 {
			return tokReply{}, false
		}
		t, ok1 := untok(p[1])
		a, ok2 := untok(p[2])
		r, ok3 := untok(p[3])
		e, err := strconv.Atoi(p[4])
		if !ok1 || !ok2 || !ok3 || err != nil || e < 0 {
			return tokReply{}, false
		}
		return tokReply{kind: 'j', token: t, access: a, refresh: r, exp: e}, true
	case strings.HasPrefix(s, "s"):
		n, err := strconv.Atoi(s[1:])
		if err != nil || n == 200 {
			return tokReply{}, false
		}
		return tokReply{kind: 's', status: n}, true
	}
	return tokReply{}, false
}

func (t tokReply) String() string {
	switch t.kind {
	case 'j':
		return fmt.Sprintf("j,%s,%s,%s,%d", tok(t.token), tok(t.access), tok(t.refresh), t.exp)
	case 's':
		return "s" + strconv.Itoa(t.status)
	}
	return string(t.kind)
}

func parseAuthReq(t []string) (*authReq, bool) {
	// t = ["auth","req",host,now,required,want,body,reg0,reg1,t000..t111]
	if len(t) != 17 {
		return nil, false
	}
	h, ok := untok(t[2])
	if !ok {
		return nil, false
	}
	now, err := strconv.Atoi(t[3])
	if err != nil || now < 0 {
		return nil, false
	}
	r := &authReq{host: h, now: now, required: t[4], want: t[5], body: t[6]}
	for _, s := range []string{r.required, r.want} {
		if s != "-" && s != "*" {
			if _, ok := untok(s); !ok {
				return nil, false
			}
		}
	}
	if r.body != "n" && r.body != "g" && r.body != "b" {
		return nil, false
	}
	for i := 0; i < 2; i++ {
		if r.reg[i], ok = parseRegReply(t[7+i]); !ok {
			return nil, false
		}
	}
	for i := 0; i < 8; i++ {
		tr, ok := parseTokReply(t[9+i])
		if !ok {
			return nil, false
		}
		r.tok[i>>2][(i>>1)&1][i&1] = tr
	}
	return r, true
}

func (r *authReq) Line() string {
	parts := []string{"auth", "req", tok(r.host), strconv.Itoa(r.now), r.required, r.want, r.body, r.reg[0].String(), r.reg[1].String()}
	for i := 0; i < 8; i++ {
		parts = append(parts, r.tok[i>>2][(i>>1)&1][i&1].String())
	}
	return strings.Join(parts, " ")
}

func scopeOfTok(s string) ociauth.Scope {
	switch s {
	case "-":
		return ociauth.Scope{}
	case "*":
		return ociauth.UnlimitedScope()
	}
	text, _ := untok(s)
	return ociauth.ParseScope(text)
}

// ---- the fake underlying transport ----

type callKey struct{}

// callState is the fake's view of one RoundTrip call of the transport under
// test; it travels in the request context (token requests inherit it).
type callState struct {
	mu      sync.Mutex
	script  *authReq
	regSeen int
	tok401  [2]bool
	msgs    []string // canonical messages in the order seen
	hold    time.Duration // the registry sits on its first answer for this long
}

var errFakeNet = errors.New("fake transport failure")

type authFake struct {
	origHeader http.Header // headers the harness puts on every registry request
	// wall clock: when each short-lived token handed out by the token server stops being valid
	// (host + token -> latest expiry); a registry request carrying one well past that is marked
	lifeMu  sync.Mutex
	expires map[string]time.Time
}

// authExpiryMargin is how far past its expiry a token has to be before the fake registry calls it
// expired: the client and the fake read the clock at slightly different moments.
const authExpiryMargin = 300 * time.Millisecond

func (f *authFake) noteGrant(host string, r tokReply) {
	if r.exp <= 0 || r.exp >= 60 {
		return
	}
	f.lifeMu.Lock()
	defer f.lifeMu.Unlock()
	if f.expires == nil {
		f.expires = map[string]time.Time{}
	}
	at := time.Now().Add(time.Duration(r.exp) * time.Second)
	for _, t := range []string{r.token, r.access} {
		if t != "" && at.After(f.expires[host+" "+t]) {
			f.expires[host+" "+t] = at
		}
	}
}

func (f *authFake) expiredBearer(host string, authz []string) bool {
	if len(authz) != 1 || !strings.HasPrefix(authz[0], "Bearer ") {
		return false
	}
	f.lifeMu.Lock()
	defer f.lifeMu.Unlock()
	at, ok := f.expires[host+" "+strings.TrimPrefix(authz[0], "Bearer ")]
	return ok && time.Now().After(at.Add(authExpiryMargin))
}

const authRegPath = "/v2/foo/blobs/uploads/"

func (f *authFake) RoundTrip(req *http.Request) (*http.Response, error) {
	cs, _ := req.Context().Value(callKey{}).(*callState)
	var body []byte
	if req.Body != nil {
		body, _ = io.ReadAll(req.Body)
		req.Body.Close()
	}
	if cs == nil {
		return nil, errors.New("fake transport: request without call state")
	}
	cs.mu.Lock()
	defer cs.mu.Unlock()
	if req.URL.Path == authRegPath {
		return f.registry(cs, req)
	}
	return f.token(cs, req, body)
}

func mkResp(req *http.Request, status int, hdr http.Header, body string) *http.Response {
	if hdr == nil {
		hdr = http.Header{}
	}
	return &http.Response{
		Status:        strconv.Itoa(status) + " " + http.StatusText(status),
		StatusCode:    status,
		Proto:         "HTTP/1.1",
		ProtoMajor:    1,
		ProtoMinor:    1,
		Header:        hdr,
		Body:          io.NopCloser(strings.NewReader(body)),
		ContentLength: int64(len(body)),
		Request:       req,
	}
}

// showAuthz renders an Authorization header value canonically.
func showAuthz(vals []string) string {
	if len(vals) == 0 {
		return "-"
	}
	if len(vals) == 1 {
		v := vals[0]
		if rest, ok := strings.CutPrefix(v, "Bearer "); ok {
			return "B," + tok(rest)
		}
		if rest, ok := strings.CutPrefix(v, "Basic "); ok {
			if raw, err := base64.StdEncoding.DecodeString(rest); err == nil {
				if u, p, ok := strings.Cut(string(raw), ":"); ok {
					return "U," + tok(u) + "," + tok(p)
				}
			}
		}
	}
	return "O," + tok(strings.Join(vals, "\x00"))
}

// extras reports anything in a request beyond what the canonical message shows.
func extraHeaders(h http.Header, allowed ...string) []string {
	var ex []string
	for k := range h {
		ok := false
		for _, a := range allowed {
			if k == a {
				ok = true
			}
		}
		if !ok {
			ex = append(ex, "header:"+k+"="+strings.Join(h[k], "|"))
		}
	}
	sort.Strings(ex)
	return ex
}

func withExtras(msg string, ex []string) string {
	if len(ex) == 0 {
		return msg
	}
	sort.Strings(ex)
	return msg + ",X" + tok(strings.Join(ex, ";"))[1:]
}

func (f *authFake) registry(cs *callState, req *http.Request) (*http.Response, error) {
	n := cs.regSeen
	cs.regSeen++
	var ex []string
	for k, vs := range req.Header {
		if k == "Authorization" {
			continue
		}
		if strings.Join(f.origHeader[k], "\x00") != strings.Join(vs, "\x00") {
			ex = append(ex, "header:"+k+"="+strings.Join(vs, "|"))
		}
	}
	sort.Strings(ex)
	if req.URL.RawQuery != "" || req.URL.User != nil {
		ex = append(ex, "url:"+req.URL.String())
	}
	if f.expiredBearer(req.URL.Host, req.Header["Authorization"]) {
		ex = append(ex, "wallclock:bearer-expired")
	}
	cs.msgs = append(cs.msgs, withExtras("R,"+tok(req.URL.Host)+","+showAuthz(req.Header["Authorization"]), ex))
	if n >= 2 {
		return mkResp(req, 500, nil, "fake: unexpected third attempt"), nil
	}
	if n == 0 && cs.hold > 0 {
		time.Sleep(cs.hold)
	}
	r := cs.script.reg[n]
	if r.fail {
		return nil, errFakeNet
	}
	hdr := http.Header{}
	if len(r.hdrs) > 0 {
		hdr["Www-Authenticate"] = append([]string(nil), r.hdrs...)
	}
	return mkResp(req, r.status, hdr, "fake registry body"), nil
}

func (f *authFake) token(cs *callState, req *http.Request, body []byte) (*http.Response, error) {
	phase := 0
	if cs.regSeen > 0 {
		phase = 1
	}
	attempt := 0
	if cs.tok401[phase] {
		attempt = 1
	}
	var msg string
	var ex []string
	method := 1
	switch req.Method {
	case "POST":
		method = 0
		form, err := url.ParseQuery(string(body))
		if err != nil {
			ex = append(ex, "body:"+string(body))
		}
		for k, vs := range form {
			switch k {
			case "scope", "service", "refresh_token":
				if len(vs) != 1 {
					ex = append(ex, "form:"+k+"="+strings.Join(vs, "|"))
				}
			case "client_id":
				// a fixed, non-secret string
			case "grant_type":
				if len(vs) != 1 || vs[0] != "refresh_token" {
					ex = append(ex, "form:"+k+"="+strings.Join(vs, "|"))
				}
			default:
				ex = append(ex, "form:"+k+"="+strings.Join(vs, "|"))
			}
		}
		ex = append(ex, extraHeaders(req.Header, "Content-Type")...)
		msg = "P," + tok(req.URL.String()) + "," + tok(form.Get("refresh_token")) + "," + tok(form.Get("scope")) + "," + tok(form.Get("service"))
	default:
		if req.Method != "GET" {
			ex = append(ex, "method:"+req.Method)
		}
		u := *req.URL
		q := u.Query()
		scope := strings.Join(q["scope"], " ")
		if len(q["service"]) > 1 {
			ex = append(ex, "query:service="+strings.Join(q["service"], "|"))
		}
		service := q.Get("service")
		q.Del("scope")
		q.Del("service")
		u.RawQuery = q.Encode()
		if len(body) > 0 {
			ex = append(ex, "body:"+string(body))
		}
		ex = append(ex, extraHeaders(req.Header, "Authorization")...)
		msg = "G," + tok(u.String()) + "," + showAuthz(req.Header["Authorization"]) + "," + tok(scope) + "," + tok(service)
	}
	cs.msgs = append(cs.msgs, withExtras(msg, ex))
	if req.URL.Host == authRedirectHost {
		// where a redirecting token server sent the client: it is nobody the registry named
		return mkResp(req, 500, nil, "not a token server"), nil
	}
	r := cs.script.tok[phase][attempt][method]
	switch r.kind {
	case 'f':
		return nil, errFakeNet
	case 'm':
		return mkResp(req, 200, nil, `{"token": "unterminated`), nil
	case 's':
		if r.status == 401 {
			cs.tok401[phase] = true
		}
		if r.status == 307 || r.status == 308 {
			return mkResp(req, r.status, http.Header{"Location": {"https://" + authRedirectHost + "/token"}}, ""), nil
		}
		return mkResp(req, r.status, nil, "fake token server body"), nil
	}
	m := map[string]any{}
	if r.token != "" {
		m["token"] = r.token
	}
	if r.access != "" {
		m["access_token"] = r.access
	}
	if r.refresh != "" {
		m["refresh_token"] = r.refresh
	}
	if r.exp != 0 {
		m["expires_in"] = r.exp
	}
	data, _ := json.Marshal(m)
	f.noteGrant(cs.script.host, r)
	return mkResp(req, 200, http.Header{"Content-Type": {"application/json"}}, string(data)), nil
}

// authRedirectHost is where a token server answering 307/308 points.
const authRedirectHost = "redirected.example"

// ---- configuration ----

type authConfig struct {
	entries map[string]ociauth.ConfigEntry
	fails   map[string]bool
	// slow: lookups take a moment (a file read, a credential helper), which is when concurrent first
	// requests to one host meet
	slow atomic.Bool
}

func (c *authConfig) EntryForRegistry(host string) (ociauth.ConfigEntry, error) {
	if c.slow.Load() {
		time.Sleep(15 * time.Millisecond)
	}
	if c.fails[host] {
		return ociauth.ConfigEntry{}, errors.New("fake config: lookup failed")
	}
	return c.entries[host], nil
}

// ---- request bodies ----

type countBody struct {
	r              io.Reader
	closes         *int32
	readAfterClose *int32
	closed         bool
}

func (b *countBody) Read(p []byte) (int, error) {
	if b.closed {
		atomic.AddInt32(b.readAfterClose, 1)
		return 0, errors.New("read after close")
	}
	return b.r.Read(p)
}

func (b *countBody) Close() error {
	b.closed = true
	atomic.AddInt32(b.closes, 1)
	return nil
}

// ---- running one request on the real transport ----

type authRun struct {
	tr     http.RoundTripper
	fake   *authFake
	config *authConfig
	hdrs   map[string]http.Header
	hdrMu  sync.Mutex
}

func newAuthRun() *authRun {
	r := &authRun{
		fake:   &authFake{origHeader: http.Header{"Accept": {"application/json"}, "X-Caller": {"h1", "h2"}}},
		config: &authConfig{entries: map[string]ociauth.ConfigEntry{}, fails: map[string]bool{}},
	}
	return r
}

func (r *authRun) transport() http.RoundTripper {
	if r.tr == nil {
		r.tr = ociauth.NewStdTransport(ociauth.StdTransportParams{Config: r.config, Transport: r.fake})
	}
	return r.tr
}

// do performs the call and returns the canonical output line and the messages.
func (r *authRun) do(a *authReq) string { return r.doHeld(a, 0) }

// doHeld is do with the registry holding back its first answer.
func (r *authRun) doHeld(a *authReq, hold time.Duration) string {
	cs := &callState{script: a, hold: hold}
	ctx := context.WithValue(context.Background(), callKey{}, cs)
	ctx = ociauth.ContextWithRequestInfo(ctx, ociauth.RequestInfo{RequiredScope: scopeOfTok(a.required)})
	if a.want != "-" {
		ctx = ociauth.ContextWithScope(ctx, scopeOfTok(a.want))
	}
	var closes, rac int32
	var subBodies []*int32
	method := "GET"
	var body io.ReadCloser
	if a.body != "n" {
		method = "PUT"
		body = &countBody{r: strings.NewReader("request body"), closes: &closes, readAfterClose: &rac}
	}
	req, err := http.NewRequestWithContext(ctx, method, "https://"+a.host+authRegPath, nil)
	if err != nil {
		return "harness-error " + tok(err.Error())
	}
	// a caller that keeps one header map per registry and uses it for every request it sends there
	// (concurrent requests of a batch share it too: nobody is entitled to write to it)
	r.hdrMu.Lock()
	if r.hdrs == nil {
		r.hdrs = map[string]http.Header{}
	}
	if r.hdrs[a.host] == nil {
		h := http.Header{}
		for k, v := range r.fake.origHeader {
			h[k] = append([]string(nil), v...)
		}
		r.hdrs[a.host] = h
	}
	req.Header = r.hdrs[a.host]
	r.hdrMu.Unlock()
	if body != nil {
		req.Body = body
		req.ContentLength = int64(len("request body"))
		if a.body == "g" {
			req.GetBody = func() (io.ReadCloser, error) {
				// every body handed out belongs to the transport from then on: each has to be closed
				c := new(int32)
				subBodies = append(subBodies, c)
				return &countBody{r: strings.NewReader("request body"), closes: c, readAfterClose: &rac}, nil
			}
		}
	}
	// snapshot of what the caller handed over
	snapHeader := req.Header.Clone()
	snapURL := req.URL.String()
	snapBody, snapHost, snapMethod, snapLen := req.Body, req.Host, req.Method, req.ContentLength
	snapGetBody := req.GetBody != nil

	resp, err := r.transport().RoundTrip(req)

	result := "err"
	if err == nil {
		data, _ := io.ReadAll(resp.Body)
		resp.Body.Close()
		result = "resp:" + strconv.Itoa(resp.StatusCode)
		if resp.StatusCode == http.StatusForbidden {
			var werr struct {
				Errors []struct {
					Code string `json:"code"`
				} `json:"errors"`
			}
			if json.Unmarshal(data, &werr) == nil && len(werr.Errors) == 1 && werr.Errors[0].Code == "DENIED" {
				result = "denied"
			}
		}
	}
	bodyObs := "nobody"
	if body != nil {
		bodyObs = "unclosed"
		if atomic.LoadInt32(&closes) > 0 {
			bodyObs = "closed"
		}
		for _, c := range subBodies {
			if atomic.LoadInt32(c) == 0 {
				bodyObs = "unclosed" // a body obtained from GetBody was dropped without being closed
			}
		}
	}
	reqObs := "same"
	if req.URL.String() != snapURL || req.Body != snapBody || req.Host != snapHost || req.Method != snapMethod ||
		req.ContentLength != snapLen || (req.GetBody != nil) != snapGetBody || !sameHeader(req.Header, snapHeader) {
		reqObs = "modified"
	}
	cs.mu.Lock()
	msgs := append([]string(nil), cs.msgs...)
	cs.mu.Unlock()
	return strings.Join(append([]string{result, bodyObs, reqObs}, msgs...), " ")
}

func sameHeader(a, b http.Header) bool {
	if len(a) != len(b) {
		return false
	}
	for k, va := range a {
		vb, ok := b[k]
		if !ok || len(va) != len(vb) {
			return false
		}
		for i := range va {
			if va[i] != vb[i] {
				return false
			}
		}
	}
	return true
}

// parseProbe answers an `auth parse` line by observing what a fresh transport
// does with the header values: the function under test is unexported.
func parseProbe(hdrs []string) string {
	r := newAuthRun()
	const host = "probe.example"
	r.config.entries[host] = ociauth.ConfigEntry{Username: "probeuser", Password: "probepass"}
	grant := tokReply{kind: 'j', token: "probetoken", exp: 3600}
	a := &authReq{host: host, required: "-", want: "-", body: "n"}
	a.reg[0] = regReply{status: 401, hdrs: hdrs}
	a.reg[1] = regReply{status: 200}
	for i := 0; i < 8; i++ {
		a.tok[i>>2][(i>>1)&1][i&1] = grant
	}
	out := strings.Split(r.do(a), " ")
	if len(out) < 4 {
		return "probe-error"
	}
	msgs := out[3:]
	switch {
	case out[0] == "resp:401" && len(msgs) == 1:
		return "none"
	case out[0] == "err" && len(msgs) == 1:
		return "bearer-unusable"
	case len(msgs) == 2 && strings.HasPrefix(msgs[1], "R,") && strings.Contains(msgs[1], ",U,"):
		return "basic"
	case len(msgs) == 3 && strings.HasPrefix(msgs[1], "G,"):
		p := strings.Split(msgs[1], ",")
		if len(p) == 7 { // G realm U user pass scope service
			return "bearer " + p[1] + " " + p[6] + " " + p[5]
		}
	}
	return "probe-unexpected " + strings.Join(out, "_")
}

func (e *cauth) Impl(c Case) []string {
	run := newAuthRun()
	out := make([]string, len(c.Lines))
	for i := 0; i < len(c.Lines); i++ {
		l := c.Lines[i]
		t := strings.Split(l, " ")
		if len(t) < 2 || t[0] != "auth" {
			out[i] = "bad-op"
			continue
		}
		switch t[1] {
		case "cfg":
			out[i] = "bad-op"
			if len(t) == 4 && t[3] == "fail" {
				if h, ok := untok(t[2]); ok {
					run.config.fails[h] = true
					out[i] = "ok"
				}
			} else if len(t) == 7 {
				h, ok0 := untok(t[2])
				u, ok1 := untok(t[3])
				p, ok2 := untok(t[4])
				rt, ok3 := untok(t[5])
				at, ok4 := untok(t[6])
				if ok0 && ok1 && ok2 && ok3 && ok4 {
					run.config.entries[h] = ociauth.ConfigEntry{Username: u, Password: p, RefreshToken: rt, AccessToken: at}
					delete(run.config.fails, h)
					out[i] = "ok"
				}
			}
		case "parse":
			var hdrs []string
			ok := true
			for _, h := range t[2:] {
				v, k := untok(h)
				ok = ok && k
				hdrs = append(hdrs, v)
			}
			if !ok {
				out[i] = "bad-op"
				break
			}
			out[i] = guard(func() string { return parseProbe(hdrs) })
		case "req", "areq": // areq: a request after a concurrent batch (the model sits those out)
			a, ok := parseAuthReq(t)
			if !ok {
				out[i] = "bad-op"
				break
			}
			out[i] = guard(func() string { return run.do(a) })
			if authGrantsShortLived(a) && (strings.Contains(out[i], " P,") || strings.Contains(out[i], " G,")) {
				// a token with a lifetime of a second or so may have been cached: make sure the
				// wall clock has moved on before the next call, as the logical clock does
				time.Sleep(2 * time.Millisecond)
			}
		case "sleep":
			// auth sleep <ms>: real time passes (thorough tier); the model's clock is the `now` of each req
			if len(t) == 3 {
				if ms, err := strconv.Atoi(t[2]); err == nil && ms >= 0 && ms <= 5000 {
					time.Sleep(time.Duration(ms) * time.Millisecond)
					out[i] = "ok"
					break
				}
			}
			out[i] = "bad-op"
		case "batch":
			// auth batch <n>: the next n `auth breq` lines run concurrently on the same transport
			// auth batch <n> hold <ms>: the registry holds its first answer to the first of them for <ms>
			n := 0
			var hold time.Duration
			if len(t) == 3 || len(t) == 5 && t[3] == "hold" {
				n, _ = strconv.Atoi(t[2])
				if len(t) == 5 {
					ms, err := strconv.Atoi(t[4])
					if err != nil || ms < 0 || ms > 5000 {
						n = 0
					}
					hold = time.Duration(ms) * time.Millisecond
				}
			}
			if n <= 0 || i+n >= len(c.Lines) {
				out[i] = "bad-op"
				break
			}
			var reqs []*authReq
			for j := 1; j <= n; j++ {
				bt := strings.Split(c.Lines[i+j], " ")
				if len(bt) < 2 || bt[1] != "breq" {
					reqs = nil
					break
				}
				a, ok := parseAuthReq(bt)
				if !ok {
					reqs = nil
					break
				}
				reqs = append(reqs, a)
			}
			if reqs == nil {
				out[i] = "bad-op"
				break
			}
			outs := make([]string, len(reqs))
			var wg sync.WaitGroup
			run.transport()
			run.config.slow.Store(true)
			for j, a := range reqs {
				wg.Add(1)
				go func() {
					defer wg.Done()
					h := time.Duration(0)
					if j == 0 {
						h = hold
					} else if hold > 0 {
						// the held request is on its way before the others start
						time.Sleep(100 * time.Millisecond)
					}
					outs[j] = guard(func() string { return run.doHeld(a, h) })
				}()
			}
			wg.Wait()
			run.config.slow.Store(false)
			out[i] = "ok"
			if os.Getenv("VERIF_DEBUG") != "" && hold > 0 {
				fmt.Fprintf(os.Stderr, "held batch %s: %s\n", c.Tag, strings.Join(outs, " | "))
			}
			fs := e.batchOracle(c, i, reqs, outs)
			e.mu.Lock()
			e.side[caseKey(c)] = append(e.side[caseKey(c)], fs...)
			if e.batchOuts == nil {
				e.batchOuts = map[string]map[int][]string{}
			}
			if e.batchOuts[caseKey(c)] == nil {
				e.batchOuts[caseKey(c)] = map[int][]string{}
			}
			e.batchOuts[caseKey(c)][i] = outs
			e.mu.Unlock()
			for j := range reqs {
				out[i+1+j] = "batched"
			}
			i += len(reqs)
		case "breq":
			out[i] = "bad-op" // only valid inside a batch
		default:
			out[i] = "bad-op"
		}
	}
	return out
}

func authGrantsShortLived(a *authReq) bool {
	for i := 0; i < 8; i++ {
		t := a.tok[i>>2][(i>>1)&1][i&1]
		if t.kind == 'j' && t.exp > 0 && t.exp < 60 {
			return true
		}
	}
	return false
}
