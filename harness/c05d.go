package main

import (
	"context"
	"encoding/base64"
	"fmt"
	"io"
	"log"
	"reflect"
	"sort"
	"strconv"
	"strings"
	"time"

	"cuelabs.dev/go/oci/ociregistry"
	"cuelabs.dev/go/oci/ociregistry/ocidebug"
	"cuelabs.dev/go/oci/ociregistry/ociunify"
)

// C05D (part of C05): the ocidebug wrapper is transparent, and the iterator helpers of
// ociregistry/iter.go follow the iterator protocol. Token "dbg".
//
//	dbg call  <Method> <ok|err|both>     one of the 18 Interface methods through ocidebug.New(recording backend);
//	                                     the backend returns (value, nil) | (nil/zero, error) | (value, error)
//	dbg wcall <Method> <ok|err|both>     a method of the BlobWriter the wrapper's chunked-upload methods hand out
//	dbg compose <Method> <0|1|2>         ociunify over two backends, bare and each behind ocidebug; member 1|2 fails (0: none)
//	dbg iter  <Method> <k|-> <ev>*       a listing method over a backend sequence of the given events; the consumer
//	                                     answers false at its k-th call (and true to everything else, errors included);
//	                                     the returned sequence is iterated twice
//	dbg slice <k|-> <tok>*               ociregistry.SliceSeq, iterated twice
//	dbg errseq <k|-> <0|1>               ociregistry.ErrorSeq(nil | error), iterated twice
//	dbg all <raw|slice|errseq|Method> <ev>*   ociregistry.All over a source of the events
//
// An event is i<tok> (item, nil error) or e<tok> (item beside a non-nil error; the error is a value unique
// to the event's position).
//
// Output:
//
//	calls=<recv>.<Method>(<position of each received argument among the passed ones>) ctx=<0|1>[+…] val=<…> err=<…>
//	    val: - (no value result) | iter | same | nil | wrapped (a writer delegating to the backend's) | wrapped-nil | other
//	    err: - (no error result) | nil | E (the backend's error value itself) | other
//	plain=<ok|err|panic> debug=<ok|err|panic>
//	t1=[<ev>:<answer> …] pulled=<events the backend sequence produced> t2=[…] pulled=<n> logged=<0|1>
//	    <ev>: i<tok> | e<position of the error>/<tok of the item beside it>
//	t1=[…] t2=[…]
//	items=[<tok> …] err=<nil|e<position>>
//
// Every line is run with four log functions (recording, nil = log.Printf, slow, formatting); a result that
// depends on the log function is reported as logger-dependent[…].
func init() {
	engines["C05D"] = func() Engine {
		log.SetOutput(io.Discard) // ocidebug.New(r, nil) logs through log.Printf
		return &c05d{}
	}
}

type c05d struct{}

func (*c05d) UsesModel() bool { return true }

var c05dListing = []string{"Repositories", "Tags", "Referrers"}
var c05dVariants = []string{"ok", "err", "both"}
var c05dLoggers = []string{"rec", "nil", "slow", "fmt"}

func c05dIfaceMethods() []string {
	t := reflect.TypeOf((*ociregistry.Interface)(nil)).Elem()
	var ms []string
	for i := 0; i < t.NumMethod(); i++ {
		if m := t.Method(i); m.PkgPath == "" { // exported
			ms = append(ms, m.Name)
		}
	}
	sort.Strings(ms)
	return ms
}

func c05dWriterMethods() []string {
	t := blobWriterType
	var ms []string
	for i := 0; i < t.NumMethod(); i++ {
		ms = append(ms, t.Method(i).Name)
	}
	sort.Strings(ms)
	return ms
}

func c05dHas(xs []string, x string) bool {
	for _, y := range xs {
		if x == y {
			return true
		}
	}
	return false
}

// ---------------------------------------------------------------- generator

type c05dEv struct {
	item  string
	isErr bool
}

func c05dEvTok(e c05dEv) string {
	if e.isErr {
		return "e" + tok(e.item)
	}
	return "i" + tok(e.item)
}

func c05dEvToks(evs []c05dEv) string {
	var ts []string
	for _, e := range evs {
		ts = append(ts, c05dEvTok(e))
	}
	if len(ts) == 0 {
		return ""
	}
	return " " + strings.Join(ts, " ")
}

func c05dKs(n int) []string {
	ks := []string{"-"}
	for k := 1; k <= n+1; k++ {
		ks = append(ks, strconv.Itoa(k))
	}
	return ks
}

func (*c05d) Gen(rng *RNG, tier string) []Case {
	var cases []Case
	methods := c05dIfaceMethods()
	// every method, every result variant
	for _, m := range methods {
		var ls []string
		for _, v := range c05dVariants {
			ls = append(ls, fmt.Sprintf("dbg call %s %s", m, v))
		}
		cases = append(cases, Case{Tag: "call", Lines: ls})
	}
	for _, m := range c05dWriterMethods() {
		var ls []string
		for _, v := range c05dVariants {
			ls = append(ls, fmt.Sprintf("dbg wcall %s %s", m, v))
		}
		cases = append(cases, Case{Tag: "wcall", Lines: ls})
	}
	for _, m := range []string{"PushBlobChunked", "PushBlobChunkedResume"} {
		for f := 0; f <= 2; f++ {
			cases = append(cases, Case{Tag: "compose", Lines: []string{fmt.Sprintf("dbg compose %s %d", m, f)}})
		}
	}
	// listings: every length 0..5, an error at every position (zero item, non-zero item, with events
	// after it, two errors), the consumer declining at every k
	names := []string{"a", "b/c", "", "zz", "a", "q?&=#%"} // a duplicate, an empty name and URL metacharacters: the wrapper must not care
	var shapes [][]c05dEv
	for n := 0; n <= 5; n++ {
		var items []c05dEv
		for i := 0; i < n; i++ {
			items = append(items, c05dEv{item: names[i]})
		}
		shapes = append(shapes, items)
		for p := 0; p <= n; p++ {
			withErr := func(e c05dEv, cutAfter bool) []c05dEv {
				evs := append([]c05dEv{}, items[:p]...)
				evs = append(evs, e)
				if !cutAfter {
					evs = append(evs, items[p:]...)
				}
				return evs
			}
			shapes = append(shapes, withErr(c05dEv{isErr: true}, true))
			if n <= 3 {
				shapes = append(shapes, withErr(c05dEv{isErr: true}, false))
				shapes = append(shapes, withErr(c05dEv{item: "beside", isErr: true}, p%2 == 0))
			}
		}
	}
	shapes = append(shapes, []c05dEv{{isErr: true}, {isErr: true}}, []c05dEv{{item: "a"}, {isErr: true}, {isErr: true}, {item: "b"}})
	for _, m := range c05dListing {
		for _, evs := range shapes {
			var ls []string
			for _, k := range c05dKs(len(evs)) {
				ls = append(ls, fmt.Sprintf("dbg iter %s %s%s", m, k, c05dEvToks(evs)))
			}
			cases = append(cases, Case{Tag: "iter", Lines: ls})
		}
	}
	// helpers
	for n := 0; n <= 5; n++ {
		var ts []string
		for i := 0; i < n; i++ {
			ts = append(ts, tok(names[i]))
		}
		var ls []string
		for _, k := range c05dKs(n) {
			l := "dbg slice " + k
			if n > 0 {
				l += " " + strings.Join(ts, " ")
			}
			ls = append(ls, l)
		}
		cases = append(cases, Case{Tag: "slice", Lines: ls})
	}
	{
		var ls []string
		for _, e := range []string{"0", "1"} {
			for _, k := range []string{"-", "1", "2", "3"} {
				ls = append(ls, fmt.Sprintf("dbg errseq %s %s", k, e))
			}
		}
		cases = append(cases, Case{Tag: "errseq", Lines: ls})
	}
	for _, evs := range shapes {
		ls := []string{"dbg all raw" + c05dEvToks(evs)}
		for _, m := range c05dListing {
			ls = append(ls, "dbg all "+m+c05dEvToks(evs))
		}
		pure := true
		for _, e := range evs {
			pure = pure && !e.isErr
		}
		if pure {
			ls = append(ls, "dbg all slice"+c05dEvToks(evs))
		}
		cases = append(cases, Case{Tag: "all", Lines: ls})
	}
	cases = append(cases, Case{Tag: "all", Lines: []string{"dbg all errseq ex", "dbg all errseq ix"}})
	// malformed stream: both sides must refuse the same lines
	cases = append(cases, Case{Tag: "malformed", Lines: []string{
		"dbg", "dbg call", "dbg call Nope ok", "dbg call GetBlob maybe", "dbg call GetBlob ok extra", "dbg wcall Descriptor ok",
		"dbg wcall Write", "dbg iter GetBlob 1 ix", "dbg iter Tags 0 ix", "dbg iter Tags z ix", "dbg iter Tags 1 qx", "dbg iter Tags 1 ixz",
		"dbg iter Tags 1 ix6", "dbg iter Tags", "dbg slice", "dbg slice 0", "dbg slice 1 ix61", "dbg errseq 1", "dbg errseq 1 2",
		"dbg errseq 0 1", "dbg all", "dbg all slice ex", "dbg all errseq", "dbg all errseq ix ix", "dbg all errseq ix61", "dbg all Nope ix",
		"dbg frob 1",
	}})
	// random
	n := 400
	if tier == "thorough" {
		n = 20000
	}
	alphabet := []string{"", "a", "b", "a/b", "r1", "x y", "\x00", "é", "latest", "sha256:00"}
	for i := 0; i < n; i++ {
		var evs []c05dEv
		ln := rng.Intn(9)
		errRate := pick(rng, []int{0, 0, 1, 3})
		for j := 0; j < ln; j++ {
			e := c05dEv{item: pick(rng, alphabet)}
			if rng.Chance(errRate, 8) {
				e.isErr = true
				if rng.Chance(3, 4) {
					e.item = ""
				}
			}
			evs = append(evs, e)
		}
		k := pick(rng, c05dKs(len(evs)+1))
		var l string
		switch rng.Intn(10) {
		case 0, 1, 2, 3, 4:
			l = fmt.Sprintf("dbg iter %s %s%s", pick(rng, c05dListing), k, c05dEvToks(evs))
		case 5:
			var ts []string
			for _, e := range evs {
				ts = append(ts, tok(e.item))
			}
			l = strings.TrimSpace("dbg slice " + k + " " + strings.Join(ts, " "))
		case 6:
			l = fmt.Sprintf("dbg errseq %s %d", k, rng.Intn(2))
		case 7, 8:
			l = "dbg all " + pick(rng, append([]string{"raw", "raw"}, c05dListing...)) + c05dEvToks(evs)
		default:
			if rng.Bool() {
				l = fmt.Sprintf("dbg call %s %s", pick(rng, methods), pick(rng, c05dVariants))
			} else {
				l = fmt.Sprintf("dbg wcall %s %s", pick(rng, c05dWriterMethods()), pick(rng, c05dVariants))
			}
		}
		cases = append(cases, Case{Tag: "random", Lines: []string{l}})
	}
	return cases
}

// ---------------------------------------------------------------- recording backend

type c05dCall struct {
	recv   string
	method string
	ctx    context.Context
	args   []reflect.Value
	res    []reflect.Value
}

type c05dWriter struct {
	b       *c05dBackend
	variant string
}

func (w *c05dWriter) err(method string) error {
	if w.variant == "ok" {
		return nil
	}
	return &recErr{"writer " + method}
}

func c05dPick[T any](variant string, v T) T {
	if variant == "err" {
		var zero T
		return zero
	}
	return v
}

func (w *c05dWriter) Write(p []byte) (int, error) {
	n, err := c05dPick(w.variant, 4242), w.err("Write")
	w.b.wcalls = append(w.b.wcalls, c05dCall{recv: "w.w", method: "Write", args: []reflect.Value{reflect.ValueOf(p)},
		res: []reflect.Value{reflect.ValueOf(n), c05dErrValue(err)}})
	return n, err
}
func (w *c05dWriter) Close() error {
	err := w.err("Close")
	w.b.wcalls = append(w.b.wcalls, c05dCall{recv: "w.w", method: "Close", res: []reflect.Value{c05dErrValue(err)}})
	return err
}
func (w *c05dWriter) Cancel() error {
	err := w.err("Cancel")
	w.b.wcalls = append(w.b.wcalls, c05dCall{recv: "w.w", method: "Cancel", res: []reflect.Value{c05dErrValue(err)}})
	return err
}
func (w *c05dWriter) Size() int64 {
	v := c05dPick(w.variant, int64(777))
	w.b.wcalls = append(w.b.wcalls, c05dCall{recv: "w.w", method: "Size", res: []reflect.Value{reflect.ValueOf(v)}})
	return v
}
func (w *c05dWriter) ChunkSize() int {
	v := c05dPick(w.variant, 555)
	w.b.wcalls = append(w.b.wcalls, c05dCall{recv: "w.w", method: "ChunkSize", res: []reflect.Value{reflect.ValueOf(v)}})
	return v
}
func (w *c05dWriter) ID() string {
	v := c05dPick(w.variant, "sentinel-upload-id")
	w.b.wcalls = append(w.b.wcalls, c05dCall{recv: "w.w", method: "ID", res: []reflect.Value{reflect.ValueOf(v)}})
	return v
}
func (w *c05dWriter) Commit(d ociregistry.Digest) (ociregistry.Descriptor, error) {
	desc, err := c05dPick(w.variant, ociregistry.Descriptor{Size: 99, MediaType: "sentinel/commit", Digest: "sha256:commit"}), w.err("Commit")
	w.b.wcalls = append(w.b.wcalls, c05dCall{recv: "w.w", method: "Commit", args: []reflect.Value{reflect.ValueOf(d)},
		res: []reflect.Value{reflect.ValueOf(desc), c05dErrValue(err)}})
	return desc, err
}

func c05dErrValue(err error) reflect.Value {
	v := reflect.New(errorType).Elem()
	if err != nil {
		v.Set(reflect.ValueOf(err))
	}
	return v
}

// c05dBackend is an *ociregistry.Funcs whose 18 functions record their calls and return, per
// variant, results that can be told apart from anything a wrapper could make up.
type c05dBackend struct {
	funcs   *ociregistry.Funcs
	variant string
	calls   []c05dCall
	wcalls  []c05dCall
	evs     []c05dEv
	errs    []error // errs[i]: the error value of event i (nil for item events)
	pulled  []int   // per run of a backend sequence: events produced
	n       int
}

func newC05dBackend(variant string, evs []c05dEv) *c05dBackend {
	b := &c05dBackend{funcs: &ociregistry.Funcs{}, variant: variant, evs: evs}
	for i, e := range evs {
		if e.isErr {
			b.errs = append(b.errs, &recErr{fmt.Sprintf("event %d", i)})
		} else {
			b.errs = append(b.errs, nil)
		}
	}
	fv := reflect.ValueOf(b.funcs).Elem()
	for i := 0; i < fv.NumField(); i++ {
		name := fv.Type().Field(i).Name
		if name == "NewError" || fv.Field(i).Kind() != reflect.Func {
			continue
		}
		method := strings.TrimSuffix(name, "_")
		ft := fv.Field(i).Type()
		fv.Field(i).Set(reflect.MakeFunc(ft, func(args []reflect.Value) []reflect.Value {
			call := c05dCall{recv: "r.r", method: method, ctx: args[0].Interface().(context.Context), args: args[1:]}
			call.res = b.results(ft, method)
			b.calls = append(b.calls, call)
			return call.res
		}))
	}
	return b
}

func c05dItemValue(t reflect.Type, item string) reflect.Value {
	v := reflect.New(t).Elem()
	switch {
	case t.Kind() == reflect.String:
		v.SetString(item)
	case t == descriptorType:
		v.Set(reflect.ValueOf(ociregistry.Descriptor{MediaType: item}))
	default:
		panic("c05d: unhandled item type " + t.String())
	}
	return v
}

func c05dItemString(v reflect.Value) string {
	switch {
	case v.Kind() == reflect.String:
		return tok(v.String())
	case v.Type() == descriptorType:
		d := v.Interface().(ociregistry.Descriptor)
		if !reflect.DeepEqual(d, ociregistry.Descriptor{MediaType: d.MediaType}) {
			return "?"
		}
		return tok(d.MediaType)
	}
	return "?"
}

func (b *c05dBackend) results(ft reflect.Type, method string) []reflect.Value {
	var res []reflect.Value
	for i := 0; i < ft.NumOut(); i++ {
		t := ft.Out(i)
		v := reflect.New(t).Elem()
		b.n++
		has := b.variant != "err" // a value is returned
		switch {
		case t == errorType:
			if b.variant != "ok" {
				v.Set(reflect.ValueOf(&recErr{method}))
			}
		case t == blobReaderType:
			if has {
				v.Set(reflect.ValueOf(&recReader{id: b.n}))
			}
		case t == blobWriterType:
			if has {
				v.Set(reflect.ValueOf(&c05dWriter{b: b, variant: "ok"}))
			}
		case t == descriptorType:
			if has {
				v.Set(reflect.ValueOf(ociregistry.Descriptor{Size: int64(424242 + b.n), MediaType: "sentinel/" + method}))
			}
		case t.Kind() == reflect.Func: // Seq[T]: the backend's events, pushed until the consumer declines
			it := t.In(0).In(0)
			v.Set(reflect.MakeFunc(t, func(a []reflect.Value) []reflect.Value {
				run := len(b.pulled)
				b.pulled = append(b.pulled, 0)
				for j, e := range b.evs {
					b.pulled[run]++
					ok := a[0].Call([]reflect.Value{c05dItemValue(it, e.item), c05dErrValue(b.errs[j])})[0].Bool()
					if !ok {
						break
					}
				}
				return nil
			}))
		default:
			panic("c05d: unhandled result type " + t.String())
		}
		res = append(res, v)
	}
	return res
}

// c05dLogger builds the log function of a mode and a counter of its calls.
func c05dLogger(mode string) (func(string, ...any), *int) {
	n := new(int)
	switch mode {
	case "nil":
		*n = 1 // log.Printf: not observable, taken as called
		return nil, n
	case "slow":
		return func(string, ...any) { *n++; time.Sleep(50 * time.Microsecond) }, n
	case "fmt":
		return func(f string, a ...any) { *n++; _ = fmt.Sprintf(f, a...) }, n
	}
	return func(string, ...any) { *n++ }, n
}

// ---------------------------------------------------------------- interpreter

type c05dCtxKey struct{}

func (*c05d) Impl(c Case) []string {
	out := make([]string, len(c.Lines))
	for i, l := range c.Lines {
		out[i] = c05dLine(l)
	}
	return out
}

// c05dLine runs the line under every log function; the result must not depend on it.
func c05dLine(l string) string {
	var first string
	for i, mode := range c05dLoggers {
		got := guard(func() string { return c05dRun(l, mode) })
		if i == 0 {
			first = got
			if !strings.HasPrefix(l, "dbg call") && !strings.HasPrefix(l, "dbg wcall") && !strings.HasPrefix(l, "dbg iter") &&
				!strings.HasPrefix(l, "dbg all") && !strings.HasPrefix(l, "dbg compose") {
				return first // no log function involved
			}
			continue
		}
		// whether the log function was called is observed with the recording one only
		if strings.TrimSuffix(got, " not-logged") != strings.TrimSuffix(first, " not-logged") {
			return fmt.Sprintf("logger-dependent[rec: %s | %s: %s]", first, mode, got)
		}
	}
	return first
}

func c05dUntok(t string) (string, bool) {
	if len(t) == 0 || t[0] != 'x' || len(t)%2 != 1 {
		return "", false
	}
	for _, c := range t[1:] {
		if !(c >= '0' && c <= '9' || c >= 'a' && c <= 'f') {
			return "", false
		}
	}
	return untok(t)
}

func c05dParseEvs(ts []string) ([]c05dEv, bool) {
	evs := []c05dEv{}
	for _, t := range ts {
		if len(t) < 2 || (t[0] != 'i' && t[0] != 'e') {
			return nil, false
		}
		s, ok := c05dUntok(t[1:])
		if !ok {
			return nil, false
		}
		evs = append(evs, c05dEv{item: s, isErr: t[0] == 'e'})
	}
	return evs, true
}

// c05dParseK: "-" = never declines (0), else a positive decimal number.
func c05dParseK(k string) (int, bool) {
	if k == "-" {
		return 0, true
	}
	for _, c := range k {
		if c < '0' || c > '9' {
			return 0, false
		}
	}
	n, err := strconv.Atoi(k)
	if err != nil || n <= 0 {
		return 0, false
	}
	return n, true
}

func c05dRun(l, mode string) string {
	t := strings.Split(l, " ")
	if len(t) < 2 || t[0] != "dbg" {
		return "bad-op"
	}
	switch t[1] {
	case "call":
		if len(t) != 4 || !c05dHas(c05dIfaceMethods(), t[2]) || !c05dHas(c05dVariants, t[3]) {
			return "bad-op"
		}
		return c05dCallLine(t[2], t[3], mode)
	case "wcall":
		if len(t) != 4 || !c05dHas(c05dWriterMethods(), t[2]) || !c05dHas(c05dVariants, t[3]) {
			return "bad-op"
		}
		a := c05dWCallLine("PushBlobChunked", t[2], t[3], mode)
		b := c05dWCallLine("PushBlobChunkedResume", t[2], t[3], mode)
		if a != b {
			return fmt.Sprintf("constructor-dependent[%s | %s]", a, b)
		}
		return a
	case "compose":
		if len(t) != 4 {
			return "bad-op"
		}
		return c05dCompose(t[2], t[3], mode)
	case "iter":
		if len(t) < 4 || !c05dHas(c05dListing, t[2]) {
			return "bad-op"
		}
		k, ok := c05dParseK(t[3])
		evs, ok2 := c05dParseEvs(t[4:])
		if !ok || !ok2 {
			return "bad-op"
		}
		return c05dIterLine(t[2], k, evs, mode)
	case "slice":
		if len(t) < 3 {
			return "bad-op"
		}
		k, ok := c05dParseK(t[2])
		if !ok {
			return "bad-op"
		}
		items := []string{}
		for _, x := range t[3:] {
			s, ok := c05dUntok(x)
			if !ok {
				return "bad-op"
			}
			items = append(items, s)
		}
		seq := ociregistry.SliceSeq(items)
		return fmt.Sprintf("t1=%s t2=%s", c05dTraceString(seq, k, nil), c05dTraceString(seq, k, nil))
	case "errseq":
		if len(t) != 4 || (t[3] != "0" && t[3] != "1") {
			return "bad-op"
		}
		k, ok := c05dParseK(t[2])
		if !ok {
			return "bad-op"
		}
		var err error
		if t[3] == "1" {
			err = &recErr{"errseq"}
		}
		seq := ociregistry.ErrorSeq[string](err)
		errs := []error{err}
		return fmt.Sprintf("t1=%s t2=%s", c05dTraceString(seq, k, errs), c05dTraceString(seq, k, errs))
	case "all":
		if len(t) < 3 {
			return "bad-op"
		}
		evs, ok := c05dParseEvs(t[3:])
		if !ok {
			return "bad-op"
		}
		return c05dAllLine(t[2], evs, mode)
	}
	return "bad-op"
}

// c05dPositions maps each received argument to the position of the identical passed argument.
func c05dPositions(got, passed []reflect.Value) string {
	var pos []string
	for _, a := range got {
		p := "?"
		for j := range passed {
			if sameValue(a, passed[j]) {
				p = strconv.Itoa(j)
				break
			}
		}
		pos = append(pos, p)
	}
	return strings.Join(pos, ",")
}

func c05dShowCalls(calls []c05dCall, ctx context.Context, passed []reflect.Value) string {
	var cs []string
	for _, c := range calls {
		cx := 0
		if ctx != nil && c.ctx == ctx {
			cx = 1
		}
		cs = append(cs, fmt.Sprintf("%s.%s(%s) ctx=%d", c.recv, c.method, c05dPositions(c.args, passed), cx))
	}
	return strings.Join(cs, "+")
}

// c05dClassify compares the results a wrapper method returned with the wrapped call's.
func c05dClassify(mt reflect.Type, got []reflect.Value, want []reflect.Value) (val, errS string) {
	val, errS = "-", "-"
	nout := mt.NumOut()
	hasErr := nout > 0 && mt.Out(nout-1) == errorType
	if hasErr {
		g := got[nout-1]
		var w reflect.Value
		if len(want) == nout {
			w = want[nout-1]
		}
		switch {
		case g.IsNil() && (!w.IsValid() || w.IsNil()):
			errS = "nil"
		case w.IsValid() && !w.IsNil() && !g.IsNil() && g.Interface() == w.Interface():
			errS = "E"
		default:
			errS = "other"
		}
	}
	if nout == 2 || (nout == 1 && !hasErr) {
		g := got[0]
		if g.Kind() == reflect.Func {
			return "iter", errS
		}
		if len(want) != nout {
			return "other", errS
		}
		w := want[0]
		switch {
		case sameValue(g, w):
			val = "same"
			if w.IsZero() {
				val = "nil"
			}
		case g.IsZero():
			val = "nil"
		case g.Type() == blobWriterType:
			// a writer of the wrapper's own: does it delegate to the backend's?
			id, panicked := func() (id string, panicked bool) {
				defer func() {
					if recover() != nil {
						panicked = true
					}
				}()
				return g.Interface().(ociregistry.BlobWriter).ID(), false
			}()
			switch {
			case panicked && w.IsNil():
				val = "wrapped-nil"
			case !panicked && !w.IsNil() && id == "sentinel-upload-id":
				val = "wrapped"
			default:
				val = "other"
			}
		default:
			val = "other"
		}
	}
	return val, errS
}

func c05dCallLine(method, variant, mode string) string {
	b := newC05dBackend(variant, nil)
	logf, nlog := c05dLogger(mode)
	reg := ocidebug.New(b.funcs, logf)
	ctx := context.WithValue(context.Background(), c05dCtxKey{}, new(int))
	m, args, ok := wrapperArgs(reg, method, ctx, "repo1", "repo2")
	if !ok {
		return "bad-op"
	}
	res := m.Call(args)
	calls := append([]c05dCall{}, b.calls...)
	var want []reflect.Value
	if len(calls) > 0 {
		want = calls[0].res
	}
	val, errS := c05dClassify(m.Type(), res, want)
	out := fmt.Sprintf("calls=%s val=%s err=%s", c05dShowCalls(calls, ctx, args[1:]), val, errS)
	if val != "iter" && *nlog == 0 {
		out += " not-logged"
	}
	return out
}

func c05dWCallLine(ctor, method, variant, mode string) string {
	b := newC05dBackend("ok", nil)
	logf, nlog := c05dLogger(mode)
	reg := ocidebug.New(b.funcs, logf)
	var w ociregistry.BlobWriter
	var err error
	if ctor == "PushBlobChunked" {
		w, err = reg.PushBlobChunked(context.Background(), "repo1", 7)
	} else {
		w, err = reg.PushBlobChunkedResume(context.Background(), "repo1", "id", 3, 7)
	}
	if err != nil || w == nil || len(b.calls) != 1 {
		return "no-writer"
	}
	inner, _ := b.calls[0].res[0].Interface().(*c05dWriter)
	if inner == nil {
		return "no-writer"
	}
	inner.variant = variant
	*nlog = 0
	m := reflect.ValueOf(w).MethodByName(method)
	mt := m.Type()
	var args []reflect.Value
	for i := 0; i < mt.NumIn(); i++ {
		t := mt.In(i)
		v := reflect.New(t).Elem()
		switch {
		case t == reflect.TypeOf([]byte(nil)):
			v.Set(reflect.ValueOf([]byte{1, 2, 3}))
		case t.Kind() == reflect.String:
			v.SetString(fmt.Sprintf("arg%d", i))
		default:
			panic("c05d: unhandled writer parameter type " + t.String())
		}
		args = append(args, v)
	}
	res := m.Call(args)
	calls := append([]c05dCall{}, b.wcalls...)
	var want []reflect.Value
	if len(calls) > 0 {
		want = calls[0].res
	}
	val, errS := c05dClassify(mt, res, want)
	out := fmt.Sprintf("calls=%s val=%s err=%s", c05dShowCalls(calls, nil, args), val, errS)
	if mode != "nil" && method != "ID" && *nlog == 0 {
		out += " not-logged"
	}
	return out
}

// c05dCompose: the same two backends under ociunify, bare and each behind the debug wrapper.
func c05dCompose(method, failing, mode string) string {
	if (method != "PushBlobChunked" && method != "PushBlobChunkedResume") || (failing != "0" && failing != "1" && failing != "2") {
		return "bad-op"
	}
	variant := func(i int) string {
		if strconv.Itoa(i) == failing {
			return "err"
		}
		return "ok"
	}
	run := func(wrap bool) string {
		return guard(func() string {
			var members [2]ociregistry.Interface
			for i := range members {
				members[i] = newC05dBackend(variant(i+1), nil).funcs
				if wrap {
					logf, _ := c05dLogger(mode)
					members[i] = ocidebug.New(members[i], logf)
				}
			}
			u := ociunify.New(members[0], members[1], nil)
			var err error
			if method == "PushBlobChunked" {
				_, err = u.PushBlobChunked(context.Background(), "repo1", 7)
			} else {
				id := base64.RawURLEncoding.EncodeToString([]byte(`["a","b"]`))
				_, err = u.PushBlobChunkedResume(context.Background(), "repo1", id, 0, 7)
			}
			if err != nil {
				return "err"
			}
			return "ok"
		})
	}
	plain := run(false)
	wrapped := run(true)
	if wrapped == "panic" {
		c05dPanicNote = lastPanic
	}
	return fmt.Sprintf("plain=%s debug=%s", plain, wrapped)
}

// c05dPanicNote keeps the text of the last panic seen under the debug wrapper (detail of a failure report only).
var c05dPanicNote string

// c05dTraceString runs seq (a func(yield func(T, error) bool) value of any T) with a fresh consumer that
// answers false at its k-th call (k = 0: never) and true otherwise, errors included, and renders the calls.
func c05dTraceString(seq any, k int, errs []error) string {
	sv := reflect.ValueOf(seq)
	var tr []string
	n := 0
	cb := reflect.MakeFunc(sv.Type().In(0), func(a []reflect.Value) []reflect.Value {
		n++
		ans := n != k
		var ev string
		if e, _ := a[1].Interface().(error); e != nil {
			p := "?"
			for j, be := range errs {
				if be != nil && be == e {
					p = strconv.Itoa(j)
				}
			}
			ev = "e" + p + "/" + c05dItemString(a[0])
		} else {
			ev = "i" + c05dItemString(a[0])
		}
		if ans {
			ev += ":1"
		} else {
			ev += ":0"
		}
		if len(tr) < 64 { // a runaway iterator is cut short in the rendering, not in the run
			tr = append(tr, ev)
		}
		return []reflect.Value{reflect.ValueOf(ans)}
	})
	sv.Call([]reflect.Value{cb})
	return "[" + strings.Join(tr, " ") + "]"
}

func c05dIterLine(method string, k int, evs []c05dEv, mode string) string {
	b := newC05dBackend("ok", evs)
	logf, nlog := c05dLogger(mode)
	reg := ocidebug.New(b.funcs, logf)
	m, args, ok := wrapperArgs(reg, method, context.Background(), "repo1")
	if !ok {
		return "bad-op"
	}
	seq := m.Call(args)[0]
	if len(b.calls) != 1 || b.calls[0].method != method {
		return "listing-not-delegated"
	}
	t1 := c05dTraceString(seq.Interface(), k, b.errs)
	t2 := c05dTraceString(seq.Interface(), k, b.errs)
	if len(b.calls) != 1 {
		return "listing-called-again"
	}
	p := func(i int) string {
		if i < len(b.pulled) {
			return strconv.Itoa(b.pulled[i])
		}
		return "none"
	}
	logged := 0
	if *nlog > 0 {
		logged = 1
	}
	extra := ""
	if len(b.pulled) > 2 {
		extra = fmt.Sprintf(" backend-runs=%d", len(b.pulled))
	}
	return fmt.Sprintf("t1=%s pulled=%s t2=%s pulled=%s logged=%d%s", t1, p(0), t2, p(1), logged, extra)
}

func c05dAllLine(src string, evs []c05dEv, mode string) string {
	var items []string
	var err error
	var errs []error
	render := func() string {
		ts := make([]string, len(items))
		for i, x := range items {
			ts[i] = tok(x)
		}
		e := "nil"
		if err != nil {
			e = "e?"
			for j, be := range errs {
				if be != nil && be == err {
					e = "e" + strconv.Itoa(j)
				}
			}
		}
		return fmt.Sprintf("items=[%s] err=%s", strings.Join(ts, " "), e)
	}
	switch {
	case src == "raw":
		for i, e := range evs {
			if e.isErr {
				errs = append(errs, &recErr{fmt.Sprintf("event %d", i)})
			} else {
				errs = append(errs, nil)
			}
		}
		seq := ociregistry.Seq[string](func(yield func(string, error) bool) {
			for i, e := range evs {
				if !yield(e.item, errs[i]) {
					return
				}
			}
		})
		items, err = ociregistry.All(seq)
	case src == "slice":
		xs := []string{}
		for _, e := range evs {
			if e.isErr {
				return "bad-op"
			}
			xs = append(xs, e.item)
		}
		items, err = ociregistry.All(ociregistry.SliceSeq(xs))
	case src == "errseq":
		if len(evs) != 1 || evs[0].item != "" {
			return "bad-op"
		}
		var e error
		if evs[0].isErr {
			e = &recErr{"errseq"}
		}
		errs = []error{e}
		items, err = ociregistry.All(ociregistry.ErrorSeq[string](e))
	case c05dHas(c05dListing, src):
		b := newC05dBackend("ok", evs)
		errs = b.errs
		logf, _ := c05dLogger(mode)
		reg := ocidebug.New(b.funcs, logf)
		switch src {
		case "Repositories":
			items, err = ociregistry.All(reg.Repositories(context.Background(), "start"))
		case "Tags":
			items, err = ociregistry.All(reg.Tags(context.Background(), "repo1", "start"))
		case "Referrers":
			var ds []ociregistry.Descriptor
			ds, err = ociregistry.All(reg.Referrers(context.Background(), "repo1", "sha256:00", "atype"))
			for _, d := range ds {
				s, _ := untok(c05dItemString(reflect.ValueOf(d)))
				items = append(items, s)
			}
		}
	default:
		return "bad-op"
	}
	return render()
}

// ---------------------------------------------------------------- oracle

// c05dExpectTrace: the property stated directly: the events up to and including the first error, each
// delivered once in order, nothing after the consumer's false answer (its k-th call) or after an error.
// The item beside an error is not constrained.
func c05dCheckTrace(tr string, evs []c05dEv, k int) (class, exp string) {
	if !strings.HasPrefix(tr, "[") || !strings.HasSuffix(tr, "]") {
		return "dbg-iter-events", "a trace"
	}
	var got []string
	if body := tr[1 : len(tr)-1]; body != "" {
		got = strings.Split(body, " ")
	}
	want := []string{}
	for i, e := range evs {
		ans := ":1"
		if i+1 == k {
			ans = ":0"
		}
		if e.isErr {
			want = append(want, fmt.Sprintf("e%d/", i)+"*"+ans)
			break
		}
		want = append(want, "i"+tok(e.item)+ans)
		if i+1 == k {
			break
		}
	}
	match := func(g, w string) bool {
		if i := strings.Index(w, "*"); i >= 0 {
			return strings.HasPrefix(g, w[:i]) && strings.HasSuffix(g, w[i+1:])
		}
		return g == w
	}
	exp = "[" + strings.Join(want, " ") + "]"
	for i := range got {
		if i >= len(want) {
			// called again after the sequence should have ended: why?
			last := want[len(want)-1]
			if len(want) > 0 && strings.HasSuffix(last, ":0") {
				return "dbg-iter-after-decline", exp
			}
			if len(want) > 0 && strings.HasPrefix(last, "e") {
				return "dbg-iter-after-error", exp
			}
			return "dbg-iter-events", exp
		}
		if !match(got[i], want[i]) {
			return "dbg-iter-events", exp
		}
	}
	if len(got) < len(want) {
		return "dbg-iter-shortened", exp
	}
	return "", exp
}

func c05dField(s, key string) string {
	for _, f := range strings.Split(s, " ") {
		if strings.HasPrefix(f, key+"=") {
			return strings.TrimPrefix(f, key+"=")
		}
	}
	return ""
}

// c05dTraceFields splits "t1=[a b] pulled=2 t2=[…] …" (traces contain spaces).
func c05dTraceFields(s string) (t1, t2 string, ok bool) {
	i := strings.Index(s, "t1=[")
	j := strings.Index(s, "t2=[")
	if i != 0 || j < 0 {
		return "", "", false
	}
	e1 := strings.Index(s, "]")
	e2 := strings.Index(s[j:], "]")
	if e1 < 0 || e2 < 0 || e1 > j {
		return "", "", false
	}
	return s[3 : e1+1], s[j+3 : j+e2+1], true
}

func (*c05d) Oracle(c Case, impl []string) []Failure {
	var fs []Failure
	for i, l := range c.Lines {
		if i >= len(impl) {
			break
		}
		got := impl[i]
		t := strings.Split(l, " ")
		fail := func(class, oracle, exp string) {
			fs = append(fs, Failure{Class: class, Oracle: oracle, Index: i, Expected: exp, Observed: got, Detail: "panic value: " + lastPanic})
		}
		if got == "bad-op" || len(t) < 3 {
			continue
		}
		if got == "panic" {
			fail("dbg-panic:"+t[1], "debug_no_panic", "no panic")
			continue
		}
		if strings.HasPrefix(got, "logger-dependent[") {
			fail("dbg-logger-dependent:"+t[1], "debug_logger_independent", "the same result with every log function")
			continue
		}
		switch t[1] {
		case "call", "wcall":
			method, variant := t[2], t[3]
			var mt reflect.Type
			recv, ctx := "r.r", 1
			if t[1] == "call" {
				m, _ := reflect.TypeOf((*ociregistry.Interface)(nil)).Elem().MethodByName(method)
				mt = m.Type
			} else {
				m, _ := blobWriterType.MethodByName(method)
				mt = m.Type
				recv, ctx = "w.w", 0
			}
			// interface method types have no receiver: parameters after ctx
			np := mt.NumIn() - ctx
			var pos []string
			for j := 0; j < np; j++ {
				pos = append(pos, strconv.Itoa(j))
			}
			wantCall := fmt.Sprintf("calls=%s.%s(%s) ctx=%d val=", recv, method, strings.Join(pos, ","), ctx)
			if !strings.HasPrefix(got, wantCall) {
				fail("dbg-"+t[1]+"-args:"+method, "debug_arguments_unchanged", wantCall+"… (one call of the same method, the caller's ctx and arguments in order)")
				continue
			}
			nout := mt.NumOut()
			hasErr := nout > 0 && mt.Out(nout-1) == errorType
			wantErr := "-"
			if hasErr {
				wantErr = "E"
				if variant == "ok" {
					wantErr = "nil"
				}
			}
			if e := c05dField(got, "err"); e != wantErr {
				fail("dbg-"+t[1]+"-error:"+method, "debug_results_unchanged", "err="+wantErr+" (the wrapped call's error value itself)")
				continue
			}
			val := c05dField(got, "val")
			var okVals []string
			switch {
			case nout == 1 && hasErr:
				okVals = []string{"-"}
			case mt.Out(0).Kind() == reflect.Func:
				okVals = []string{"iter"}
			case mt.Out(0) == blobWriterType:
				switch variant {
				case "ok":
					okVals = []string{"wrapped", "same"}
				case "err":
					okVals = []string{"nil"}
				default:
					okVals = []string{"wrapped", "same", "nil"} // a value beside an error may be withheld
				}
			default:
				okVals = []string{"same"}
				if variant == "err" {
					okVals = []string{"nil"}
				}
			}
			if !c05dHas(okVals, val) {
				class := "dbg-" + t[1] + "-result:" + method
				if val == "wrapped-nil" {
					class = "dbg-writer-on-error"
				}
				fail(class, "debug_results_unchanged", "val="+strings.Join(okVals, "|")+" (the wrapped call's value: itself, or for a blob writer a writer around it; nil stays nil)")
				continue
			}
			if strings.Contains(got, "not-logged") {
				fail("dbg-not-logged:"+method, "debug_logs", "the log function is called")
			}
		case "compose":
			if p, d := c05dField(got, "plain"), c05dField(got, "debug"); p != d {
				fail("dbg-compose:"+t[2], "debug_composes", "debug="+p+" (what the same registries do without the debug wrapper)")
				fs[len(fs)-1].Detail = "panic under the debug wrapper: " + c05dPanicNote
			}
		case "iter":
			k, ok := c05dParseK(t[3])
			evs, ok2 := c05dParseEvs(t[4:])
			t1, t2, ok3 := c05dTraceFields(got)
			if !ok || !ok2 {
				continue
			}
			if !ok3 {
				fail("dbg-iter-events", "debug_listing", "two traces")
				continue
			}
			if class, exp := c05dCheckTrace(t1, evs, k); class != "" {
				fail(class, "debug_listing", "t1="+exp)
				continue
			}
			if t2 != t1 {
				fail("dbg-iter-reiterate", "debug_listing_reiterable", "t2="+t1+" (the second iteration of the same sequence value over a re-iterable backend)")
				continue
			}
			if c05dField(got, "logged") != "1" {
				fail("dbg-not-logged:"+t[2], "debug_logs", "logged=1")
			}
		case "slice", "errseq":
			k, ok := c05dParseK(t[2])
			if !ok {
				continue
			}
			var evs []c05dEv
			if t[1] == "slice" {
				for _, x := range t[3:] {
					s, _ := c05dUntok(x)
					evs = append(evs, c05dEv{item: s})
				}
			} else {
				evs = []c05dEv{{isErr: t[3] == "1"}} // one event, whatever the consumer answers
			}
			t1, t2, ok3 := c05dTraceFields(got)
			if !ok3 {
				fail("iter-helper-events:"+t[1], "iter_helpers", "two traces")
				continue
			}
			if class, exp := c05dCheckTrace(t1, evs, k); class != "" {
				fail(strings.Replace(class, "dbg-iter", "iter-helper", 1)+":"+t[1], "iter_helpers", "t1="+exp)
				continue
			}
			if t2 != t1 {
				fail("iter-helper-reiterate:"+t[1], "iter_helpers_reiterable", "t2="+t1+" (the helpers' sequences can be iterated again: ErrorSeq \"always returns the given error\")")
			}
		case "all":
			evs, ok := c05dParseEvs(t[3:])
			if !ok {
				continue
			}
			var items []string
			e := "nil"
			for j, ev := range evs {
				if ev.isErr {
					e = fmt.Sprintf("e%d", j)
					break
				}
				items = append(items, tok(ev.item))
			}
			if t[2] == "errseq" && len(evs) == 1 && e != "nil" {
				e = "e0"
			}
			want := fmt.Sprintf("items=[%s] err=%s", strings.Join(items, " "), e)
			if got != want {
				fail("iter-all:"+map[bool]string{true: "debug", false: t[2]}[c05dHas(c05dListing, t[2])], "all_items_and_first_error", want)
			}
		}
	}
	return fs
}

func (*c05d) NonTrivial(c Case, impl []string) (bool, string) {
	if len(c.Lines) == 0 {
		return false, "empty"
	}
	t := strings.Split(c.Lines[0], " ")
	bucket := "malformed"
	if len(t) >= 2 && c.Tag != "malformed" {
		bucket = t[1]
	}
	for _, o := range impl {
		if o != "bad-op" && o != "panic" {
			return true, bucket
		}
	}
	return false, bucket
}
