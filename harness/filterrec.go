package main

import (
	"errors"
	"context"
	"fmt"
	"io"
	"reflect"
	"strings"

	"cuelabs.dev/go/oci/ociregistry"
)

// A recording backend for the wrapper properties (C12, C13, C14W): an
// *ociregistry.Funcs whose 18 functions record (method, ctx, arguments) and
// return results that can be told apart from anything a wrapper could make up.

type recErr struct{ what string }

func (e *recErr) Error() string { return "sentinel error: " + e.what }

type recReader struct {
	ociregistry.BlobReader
	id int
}

type recWriter struct {
	ociregistry.BlobWriter
	id     int
	writes int
}

func (w *recWriter) Write(p []byte) (int, error) { w.writes++; return len(p), nil }

type recEv struct {
	item  string
	isErr bool
}

type recCall struct {
	Method string
	Ctx    context.Context
	Args   []reflect.Value // ctx excluded
	Res    []reflect.Value
	SeqErr error // for iterator results: the one error event the stub's iterator yields
}

type recBackend struct {
	Funcs *ociregistry.Funcs
	Calls []recCall
	// RepoEvents, when set, is what the Repositories iterator yields for a start point
	// (error events carry ListErr); Pulled counts the events it delivered.
	RepoEvents func(start string) []recEv
	ListErr    *recErr
	Pulled     int
	n          int
}

var (
	errorType      = reflect.TypeOf((*error)(nil)).Elem()
	blobReaderType = reflect.TypeOf((*ociregistry.BlobReader)(nil)).Elem()
	blobWriterType = reflect.TypeOf((*ociregistry.BlobWriter)(nil)).Elem()
	descriptorType = reflect.TypeOf(ociregistry.Descriptor{})
	ioReaderType   = reflect.TypeOf((*io.Reader)(nil)).Elem()
	contextType    = reflect.TypeOf((*context.Context)(nil)).Elem()
)

func newRecBackend() *recBackend {
	b := &recBackend{Funcs: &ociregistry.Funcs{}, ListErr: &recErr{"backend listing"}}
	fv := reflect.ValueOf(b.Funcs).Elem()
	for i := 0; i < fv.NumField(); i++ {
		name := fv.Type().Field(i).Name
		if name == "NewError" || fv.Field(i).Kind() != reflect.Func {
			continue
		}
		method := strings.TrimSuffix(name, "_")
		ft := fv.Field(i).Type()
		fv.Field(i).Set(reflect.MakeFunc(ft, func(args []reflect.Value) []reflect.Value {
			call := recCall{Method: method, Ctx: args[0].Interface().(context.Context), Args: args[1:]}
			call.Res, call.SeqErr = b.results(ft, method, args)
			b.Calls = append(b.Calls, call)
			return call.Res
		}))
	}
	return b
}

func (b *recBackend) results(ft reflect.Type, method string, args []reflect.Value) ([]reflect.Value, error) {
	var res []reflect.Value
	var seqErr error
	for i := 0; i < ft.NumOut(); i++ {
		t := ft.Out(i)
		v := reflect.New(t).Elem()
		b.n++
		id := b.n
		switch {
		case t == errorType:
			v.Set(reflect.ValueOf(&recErr{method}))
		case t == blobReaderType:
			v.Set(reflect.ValueOf(&recReader{id: id}))
		case t == blobWriterType:
			v.Set(reflect.ValueOf(&recWriter{id: id}))
		case t == descriptorType:
			v.Set(reflect.ValueOf(ociregistry.Descriptor{Size: int64(424242 + id), MediaType: "sentinel/" + method}))
		case t.Kind() == reflect.Func: // Seq[T]
			if method == "Repositories" && b.RepoEvents != nil {
				evs := b.RepoEvents(args[1].String())
				v.Set(reflect.ValueOf(ociregistry.Seq[string](func(yield func(string, error) bool) {
					for _, e := range evs {
						b.Pulled++
						var ok bool
						if e.isErr {
							ok = yield("", b.ListErr)
						} else {
							ok = yield(e.item, nil)
						}
						if !ok {
							return
						}
					}
				})))
				break
			}
			e := &recErr{method + " iterator"}
			seqErr = e
			yt := t.In(0)
			v.Set(reflect.MakeFunc(t, func(a []reflect.Value) []reflect.Value {
				a[0].Call([]reflect.Value{reflect.New(yt.In(0)).Elem(), reflect.ValueOf(e).Convert(errorType)})
				return nil
			}))
		default:
			panic("recBackend: unhandled result type " + t.String())
		}
		res = append(res, v)
	}
	return res, seqErr
}

// repoArgPositions: which parameters (ctx excluded) of an Interface method are
// repository names, as interface.go documents them.
func repoArgPositions(method string) []int {
	switch method {
	case "Repositories":
		return nil
	case "MountBlob":
		return []int{0, 1}
	}
	return []int{0}
}

// wrapperArgs builds the argument list (ctx first) for a call of method on reg:
// repository parameters get the given names, every other parameter a value
// unique to its position.
// wrapperArgsBoundary: non-repository parameters get boundary values instead (offsets 0 and -1,
// zero sizes, empty strings and slices): a wrapper's decision may not depend on them.
var wrapperArgsBoundary bool

func wrapperArgs(reg any, method string, ctx context.Context, repos ...string) (reflect.Value, []reflect.Value, bool) {
	m := reflect.ValueOf(reg).MethodByName(method)
	if !m.IsValid() {
		return m, nil, false
	}
	mt := m.Type()
	args := []reflect.Value{reflect.ValueOf(ctx)}
	pos := repoArgPositions(method)
	for i := 1; i < mt.NumIn(); i++ {
		t := mt.In(i)
		v := reflect.New(t).Elem()
		isRepo := -1
		for k, p := range pos {
			if p == i-1 && k < len(repos) {
				isRepo = k
			}
		}
		switch {
		case isRepo >= 0:
			v.SetString(repos[isRepo])
		case wrapperArgsBoundary && t.Kind() == reflect.String:
			v.SetString("")
		case wrapperArgsBoundary && (t.Kind() == reflect.Int64 || t.Kind() == reflect.Int):
			// the first numeric parameter 0, any later one -1: GetBlobRange(…, 0, -1) is "the whole blob"
			first := true
			for j := 1; j < i; j++ {
				if k := mt.In(j).Kind(); k == reflect.Int64 || k == reflect.Int {
					first = false
				}
			}
			if first {
				v.SetInt(0)
			} else {
				v.SetInt(-1)
			}
		case wrapperArgsBoundary && t == descriptorType:
			v.Set(reflect.ValueOf(ociregistry.Descriptor{}))
		case wrapperArgsBoundary && t == reflect.TypeOf([]byte(nil)):
			v.Set(reflect.ValueOf([]byte{}))
		case t.Kind() == reflect.String:
			v.SetString(fmt.Sprintf("arg%d", i-1))
		case t.Kind() == reflect.Int64 || t.Kind() == reflect.Int:
			v.SetInt(int64(1000 + i))
		case t == descriptorType:
			v.Set(reflect.ValueOf(ociregistry.Descriptor{Size: int64(3000 + i), MediaType: "m"}))
		case t == reflect.TypeOf([]byte(nil)):
			v.Set(reflect.ValueOf([]byte{byte(i), 7}))
		case t == ioReaderType:
			v.Set(reflect.ValueOf(strings.NewReader(fmt.Sprintf("reader%d", i))))
		default:
			panic("wrapperArgs: unhandled parameter type " + t.String())
		}
		args = append(args, v)
	}
	return m, args, true
}

func sameValue(a, b reflect.Value) bool {
	if a.Type() != b.Type() {
		return false
	}
	if a.Kind() == reflect.Interface || a.Kind() == reflect.Ptr {
		if a.IsNil() || b.IsNil() {
			return a.IsNil() && b.IsNil()
		}
		if a.Kind() == reflect.Interface && !a.Elem().Type().Comparable() {
			return reflect.DeepEqual(a.Interface(), b.Interface())
		}
		return a.Interface() == b.Interface() // identity for pointers behind interfaces
	}
	return reflect.DeepEqual(a.Interface(), b.Interface())
}

// sameArgs reports whether the backend received exactly the given arguments
// (args includes ctx at index 0, got does not).
func sameArgs(got []reflect.Value, args []reflect.Value) bool {
	if len(got) != len(args)-1 {
		return false
	}
	for i := range got {
		if !sameValue(got[i], args[i+1]) {
			return false
		}
	}
	return true
}

// seqEvents runs an iterator value (func(yield func(T, error) bool)) to the end
// and returns how many events it delivered, the last error and the items.
func seqEvents(seq reflect.Value) (n int, items []reflect.Value, err error) {
	cb := reflect.MakeFunc(seq.Type().In(0), func(a []reflect.Value) []reflect.Value {
		n++
		if e, ok := a[1].Interface().(error); ok && e != nil {
			err = e
		} else {
			items = append(items, a[0])
		}
		return []reflect.Value{reflect.ValueOf(true)}
	})
	seq.Call([]reflect.Value{cb})
	return
}

// resultError extracts the error a wrapper method reported: the error result,
// or for iterator results the single error event (nil when the iterator
// delivers anything else).
// errSeqUnstable: an iterator result that delivers something else when it is iterated again.
var errSeqUnstable = errors.New("the returned sequence differs on its second iteration")

func resultError(res []reflect.Value) error {
	last := res[len(res)-1]
	if last.Kind() == reflect.Func {
		n, items, err := seqEvents(last)
		if n2, items2, err2 := seqEvents(last); n2 != n || len(items2) != len(items) || err2 != err {
			return errSeqUnstable
		}
		if n == 1 && len(items) == 0 {
			return err
		}
		return nil
	}
	err, _ := last.Interface().(error)
	return err
}

// sameAsBackend reports whether the wrapper's results are the backend call's
// results, unchanged.
func sameAsBackend(got []reflect.Value, call recCall) bool {
	if len(got) != len(call.Res) {
		return false
	}
	for i := range got {
		if got[i].Kind() == reflect.Func {
			n, items, err := seqEvents(got[i])
			if n != 1 || len(items) != 0 || err != call.SeqErr {
				return false
			}
			continue
		}
		if !sameValue(got[i], call.Res[i]) {
			return false
		}
	}
	return true
}
