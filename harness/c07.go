package main

import (
	"cuelabs.dev/go/oci/ociregistry/ociserver"
	"cuelabs.dev/go/oci/ociregistry/ociclient"
	"cuelabs.dev/go/oci/ociregistry/ociauth"
	"net/http"
	"bytes"
	"context"
	"encoding/json"
	"errors"
	"fmt"
	"io"
	"strconv"
	"strings"

	"cuelabs.dev/go/oci/ociregistry"
)

// C07: errors keep identity, status and message across the wire.
//
// Line: err hop <n> <carrier> <err…>   with err in prefix notation
//   W code msg detail|-   P msg   N st   H st <err>   F pre post <err>
// Output: <status|-> <code|-> <msg|-> <detail|-> <text> <is-vector over the 15 standard errors>

func init() { engines["C07"] = func() Engine { return newC07() } }

var stdErrs = []ociregistry.Error{
	ociregistry.ErrBlobUnknown, ociregistry.ErrBlobUploadInvalid, ociregistry.ErrBlobUploadUnknown, ociregistry.ErrDigestInvalid,
	ociregistry.ErrManifestBlobUnknown, ociregistry.ErrManifestInvalid, ociregistry.ErrManifestUnknown, ociregistry.ErrNameInvalid,
	ociregistry.ErrNameUnknown, ociregistry.ErrSizeInvalid, ociregistry.ErrUnauthorized, ociregistry.ErrDenied,
	ociregistry.ErrUnsupported, ociregistry.ErrTooManyRequests, ociregistry.ErrRangeInvalid,
}

// specStatus is the status the OCI distribution specification (and, for
// RANGE_INVALID, the Docker registry) assigns to each code: the oracle's own table.
var specStatus = map[string]int{
	"BLOB_UNKNOWN": 404, "BLOB_UPLOAD_INVALID": 416, "BLOB_UPLOAD_UNKNOWN": 404, "DIGEST_INVALID": 400,
	"MANIFEST_BLOB_UNKNOWN": 404, "MANIFEST_INVALID": 400, "MANIFEST_UNKNOWN": 404, "NAME_INVALID": 400,
	"NAME_UNKNOWN": 404, "SIZE_INVALID": 400, "UNAUTHORIZED": 401, "DENIED": 403, "UNSUPPORTED": 400,
	"TOOMANYREQUESTS": 429, "RANGE_INVALID": 416,
}

type c07 struct {
	cur      error
	pageMode bool
	// wmode: "" = starting or resuming an upload fails with cur; "write" = the backend's writer is
	// handed out and its Write fails with cur; "commit" = its Commit fails with cur
	wmode  string
	ch     *chain
	chAuth *chain
	chPage *chain // clients with a list page size of 2: listings take more than one request
	chLoc  *chain // servers that know external locations for descriptors
}

// c07Writer is the backend's upload writer for the Writer* carriers.
type c07Writer struct {
	e  *c07
	id string
	n  int64
}

func (w *c07Writer) Write(p []byte) (int, error) {
	if w.e.wmode == "write" {
		return 0, w.e.cur
	}
	w.n += int64(len(p))
	return len(p), nil
}
func (w *c07Writer) Close() error   { return nil }
func (w *c07Writer) Size() int64    { return w.n }
func (w *c07Writer) ChunkSize() int { return 4 }
func (w *c07Writer) ID() string     { return w.id }
func (w *c07Writer) Cancel() error  { return nil }
func (w *c07Writer) Commit(d ociregistry.Digest) (ociregistry.Descriptor, error) {
	return ociregistry.Descriptor{}, w.e.cur
}

const c07Digest = "sha256:e3b0c44298fc1c149afbf4c8996fb92427ae41e4649b934ca495991b7852b855"

func newC07() *c07 {
	e := &c07{}
	f := &ociregistry.Funcs{NewError: func(ctx context.Context, method, repo string) error { return e.cur }}
	f.PushBlobChunked_ = func(ctx context.Context, repo string, chunkSize int) (ociregistry.BlobWriter, error) {
		if e.wmode == "" {
			return nil, e.cur
		}
		return &c07Writer{e: e, id: "upload-1"}, nil
	}
	f.PushBlobChunkedResume_ = func(ctx context.Context, repo, id string, offset int64, chunkSize int) (ociregistry.BlobWriter, error) {
		if e.wmode == "" {
			return nil, e.cur
		}
		return &c07Writer{e: e, id: id}, nil
	}
	e.ch = newChain(f, 3, nil, nil)
	e.chPage = newChain(f, 3, nil, &ociclient.Options{ListPageSize: 2})
	e.chLoc = newChain(f, 3, &ociserver.Options{
		LocationsForDescriptor: func(isManifest bool, desc ociregistry.Descriptor) ([]string, error) {
			return []string{"https://cdn.example.invalid/" + string(desc.Digest)}, nil
		},
	}, nil)
	// a listing whose first page is fine and whose second request fails with the error of the case
	pageOne := func(start string) ociregistry.Seq[string] {
		if start == "" && e.pageMode {
			return ociregistry.SliceSeq([]string{"a", "b", "c"})
		}
		return ociregistry.ErrorSeq[string](e.cur)
	}
	f.Tags_ = func(ctx context.Context, repo, start string) ociregistry.Seq[string] { return pageOne(start) }
	f.Repositories_ = func(ctx context.Context, start string) ociregistry.Seq[string] { return pageOne(start) }
	// the same chain with registries that challenge (WWW-Authenticate on every 401) and clients that use
	// the standard auth transport without credentials for these hosts
	e.chAuth = newChain(f, 3, &ociserver.Options{
		WriteError: func(w http.ResponseWriter, _ *http.Request, err error) {
			if _, status := ociregistry.MarshalError(err); status == http.StatusUnauthorized {
				w.Header().Set("WWW-Authenticate", `Basic realm="registry"`)
			}
			ociregistry.WriteError(w, err)
		},
	}, &ociclient.Options{Transport: ociauth.NewStdTransport(ociauth.StdTransportParams{})})
	return e
}

func (*c07) UsesModel() bool { return true }

func parseErrExpr(t []string) (error, []string, bool) {
	if len(t) == 0 {
		return nil, nil, false
	}
	switch t[0] {
	case "W":
		if len(t) < 4 {
			return nil, nil, false
		}
		c, _ := untok(t[1])
		m, _ := untok(t[2])
		var d json.RawMessage
		if t[3] != "-" {
			s, _ := untok(t[3])
			d = json.RawMessage(s)
		}
		if d == nil {
			for _, s := range stdErrs {
				if s.Code() == c && m == s.(*ociregistry.WireError).Message {
					return s, t[4:], true
				}
			}
		}
		return ociregistry.NewError(m, c, d), t[4:], true
	case "P":
		if len(t) < 2 {
			return nil, nil, false
		}
		m, _ := untok(t[1])
		return errors.New(m), t[2:], true
	case "N":
		st, _ := strconv.Atoi(t[1])
		return ociregistry.NewHTTPError(nil, st, nil, nil), t[2:], true
	case "H":
		st, _ := strconv.Atoi(t[1])
		in, rest, ok := parseErrExpr(t[2:])
		if !ok {
			return nil, nil, false
		}
		return ociregistry.NewHTTPError(in, st, nil, nil), rest, true
	case "F":
		if len(t) < 3 {
			return nil, nil, false
		}
		pre, _ := untok(t[1])
		post, _ := untok(t[2])
		in, rest, ok := parseErrExpr(t[3:])
		if !ok {
			return nil, nil, false
		}
		return fmt.Errorf("%s%w%s", pre, in, post), rest, true
	}
	return nil, nil, false
}

func observeErr(err error) string {
	if err == nil {
		return "no-error"
	}
	st, code, msg, detail := "-", "-", "-", "-"
	var herr ociregistry.HTTPError
	if errors.As(err, &herr) {
		st = strconv.Itoa(herr.StatusCode())
	}
	var oerr ociregistry.Error
	if errors.As(err, &oerr) {
		code = tok(oerr.Code())
		if d := oerr.Detail(); d != nil {
			detail = tok(string(d))
		}
		if w, ok := oerr.(*ociregistry.WireError); ok {
			msg = tok(w.Message)
		} else {
			msg = "?"
		}
	}
	var isv strings.Builder
	for _, s := range stdErrs {
		if errors.Is(err, s) {
			isv.WriteByte('1')
		} else {
			isv.WriteByte('0')
		}
	}
	return fmt.Sprintf("%s %s %s %s %s %s", st, code, msg, detail, tok(err.Error()), isv.String())
}

// Writer* carriers: the error comes out of the backend's BlobWriter, not out of a registry method.
var c07WriterCarriers = map[string]string{"WriterWriteClose": "write", "WriterWriteCommit": "write", "WriterBigWrite": "write", "WriterCommit": "commit", "WriterWriteThenCommit": "commit"}

var c07Carriers = []string{"WriterResumeExplicit", "PushBlobChunkedResumeAsk", "WriterWriteClose", "WriterWriteCommit", "WriterBigWrite", "WriterCommit", "WriterWriteThenCommit", "GetBlob", "GetBlobRange", "GetManifest", "GetTag", "ResolveBlob", "ResolveManifest", "ResolveTag",
	"PushManifest", "MountBlob", "PushBlob", "PushBlobChunked", "DeleteBlob", "DeleteManifest", "DeleteTag", "Repositories", "Tags", "Referrers"}

func n0(s string) int { n, _ := strconv.Atoi(s); return n }

// c07ResumeID is the upload ID the PushBlobChunkedResume carriers resume.
var c07ResumeID = "someid"

func callCarrier(r ociregistry.Interface, carrier string) error {
	ctx := context.Background()
	closeR := func(rd ociregistry.BlobReader, err error) error {
		if err == nil {
			rd.Close()
		}
		return err
	}
	switch carrier {
	case "WriterWriteClose", "WriterWriteCommit", "WriterBigWrite", "WriterCommit", "WriterWriteThenCommit":
		w, err := r.PushBlobChunked(ctx, "foo/bar", 0)
		if err != nil {
			return fmt.Errorf("unexpected failure to start the upload: %v", err)
		}
		defer w.Close()
		switch carrier {
		case "WriterWriteClose": // the chunk travels with the PATCH that Close sends
			if _, err := w.Write([]byte("x")); err != nil {
				return err
			}
			return w.Close()
		case "WriterBigWrite": // more than a chunk: the PATCH is sent by Write itself
			_, err := w.Write([]byte("0123456789abcdef0123456789abcdef"))
			if err == nil {
				err = w.Close()
			}
			return err
		case "WriterWriteCommit", "WriterWriteThenCommit": // the chunk travels with the committing PUT
			if _, err := w.Write([]byte("x")); err != nil {
				return err
			}
			_, err := w.Commit(c07Digest)
			return err
		default:
			_, err := w.Commit(c07Digest)
			return err
		}
	case "GetBlob":
		return closeR(r.GetBlob(ctx, "foo/bar", c07Digest))
	case "GetBlobRange":
		return closeR(r.GetBlobRange(ctx, "foo/bar", c07Digest, 1, 5))
	case "GetManifest":
		return closeR(r.GetManifest(ctx, "foo/bar", c07Digest))
	case "GetTag":
		return closeR(r.GetTag(ctx, "foo/bar", "latest"))
	case "ResolveBlob":
		_, err := r.ResolveBlob(ctx, "foo/bar", c07Digest)
		return err
	case "ResolveManifest":
		_, err := r.ResolveManifest(ctx, "foo/bar", c07Digest)
		return err
	case "ResolveTag":
		_, err := r.ResolveTag(ctx, "foo/bar", "latest")
		return err
	case "PushManifest":
		_, err := r.PushManifest(ctx, "foo/bar", "latest", []byte("{}"), "application/vnd.oci.image.manifest.v1+json")
		return err
	case "MountBlob":
		_, err := r.MountBlob(ctx, "foo/src", "foo/bar", c07Digest)
		return err
	case "PushBlob":
		_, err := r.PushBlob(ctx, "foo/bar", ociregistry.Descriptor{Digest: c07Digest, Size: 0, MediaType: "application/octet-stream"}, bytes.NewReader(nil))
		return err
	case "PushBlobChunked":
		w, err := r.PushBlobChunked(ctx, "foo/bar", 0)
		if err == nil {
			w.Close()
		}
		return err
	case "PushBlobChunkedResume", "WriterResumeExplicit":
		// with an explicit offset the client makes no request until the first flush: the backend's
		// refusal to resume comes out of the writer (hence a Writer* carrier: identity only)
		w, err := r.PushBlobChunkedResume(ctx, "foo/bar", c07ResumeID, 0, 0)
		if err == nil {
			// over HTTP an explicit offset defers the first request to the first flush
			_, err = w.Write([]byte("x"))
			if err == nil {
				err = w.Close()
			}
		}
		return err
	case "PushBlobChunkedResumeAsk":
		// offset -1: the client asks the registry how far the upload has got
		w, err := r.PushBlobChunkedResume(ctx, "foo/bar", c07ResumeID, -1, 0)
		if err == nil {
			_, err = w.Write([]byte("x"))
			if err == nil {
				err = w.Close()
			}
		}
		return err
	case "DeleteBlob":
		return r.DeleteBlob(ctx, "foo/bar", c07Digest)
	case "DeleteManifest":
		return r.DeleteManifest(ctx, "foo/bar", c07Digest)
	case "DeleteTag":
		return r.DeleteTag(ctx, "foo/bar", "latest")
	case "Repositories":
		_, err := ociregistry.All(r.Repositories(ctx, ""))
		return err
	case "Tags":
		_, err := ociregistry.All(r.Tags(ctx, "foo/bar", ""))
		return err
	case "Referrers":
		_, err := ociregistry.All(r.Referrers(ctx, "foo/bar", c07Digest, ""))
		return err
	}
	return io.ErrUnexpectedEOF
}

func (e *c07) Impl(c Case) []string {
	out := make([]string, len(c.Lines))
	for i, l := range c.Lines {
		out[i] = guard(func() string {
			t := strings.Split(l, " ")
			if len(t) < 5 || t[0] != "err" || (t[1] != "hop" && t[1] != "hopbig" && t[1] != "hopa" && t[1] != "hopp" && t[1] != "hopl") {
				return "bad-op"
			}
			ch := e.ch
			e.pageMode = false
			switch t[1] {
			case "hopa":
				ch = e.chAuth
			case "hopp":
				ch = e.chPage
				e.pageMode = n0(t[2]) > 0 // directly on the backend there are no pages: the error comes first
			case "hopl":
				ch = e.chLoc
			}
			n, _ := strconv.Atoi(t[2])
			err, rest, ok := parseErrExpr(t[4:])
			if !ok || len(rest) != 0 || n < 0 || n >= len(ch.regs) {
				return "bad-op"
			}
			e.cur = err
			e.wmode = c07WriterCarriers[t[3]]
			if strings.HasPrefix(t[3], "PushBlobChunkedResume") || t[3] == "WriterResumeExplicit" {
				// a genuine upload ID for this hop: start an upload while the backend still cooperates
				e.wmode = "commit"
				w, err := ch.regs[n].PushBlobChunked(context.Background(), "foo/bar", 0)
				if err != nil {
					return "harness: cannot start an upload: " + err.Error()
				}
				c07ResumeID = w.ID()
				w.Close()
				e.wmode = ""
			}
			obs := observeErr(callCarrier(ch.regs[n], t[3]))
			if strings.HasPrefix(t[3], "Writer") && n > 0 {
				// BlobWriter methods are not among the property's carriers for the message clause: the
				// client and server add context to the message on purpose ("cannot close BlobWriter: …").
				// Identity (status, code, detail, errors.Is) is compared; message and text are masked.
				if f := strings.Split(obs, " "); len(f) == 6 {
					if f[2] != "-" {
						f[2] = "~"
					}
					f[4] = "~"
					obs = strings.Join(f, " ")
				}
			}
			return obs
		})
	}
	return out
}

// ---- generation ----

func c07ErrExpr(rng *RNG) string {
	msgs := []string{"", "boom", "something: bad", "blob unknown", "blob unknown: x", "404 Not Found: y", "404 Not Found: blob unknown: z",
		"unknown", "unknown: unknown", "500 Internal Server Error: unknown: q", "é<>&\"", "invalid content range", " lead", "a\nb"}
	var base string
	switch rng.Intn(10) {
	case 0, 1:
		base = "P " + tok(pick(rng, msgs))
	case 2, 3, 4, 5:
		s := pick(rng, stdErrs)
		m := s.(*ociregistry.WireError).Message
		if rng.Chance(1, 3) {
			m = pick(rng, msgs)
		}
		d := "-"
		if rng.Chance(1, 4) {
			d = tok(pick(rng, []string{`{"a":1}`, `[1, 2]`, `"s"`, `null`, `{ "x" : [ ] }`, `0`, `{"n":9007199254740993}`, `18446744073709551615`, `[0.1234567890123456789, 1.0, 1e2, -0]`, `{"a":1,"a":2}`, `"\u00e9\ud83d\ude00<>&"`, "\"\u2028 \u2029\u202a\xe2\x80\"", "[\"\\\\<\", \"\\\"\u2029\"]"}))
		}
		base = "W " + tok(s.Code()) + " " + tok(m) + " " + d
	default:
		code := pick(rng, []string{"CUSTOM", "MY_CODE", "", "lower_case", "X", "UNKNOWN", "A_B_C"})
		d := "-"
		if rng.Chance(1, 4) {
			d = tok(pick(rng, []string{`{"a":1}`, `[1, 2]`, `null`, `{"big":123456789012345678901234567890}`, `1.10`}))
		}
		base = "W " + tok(code) + " " + tok(pick(rng, msgs)) + " " + d
	}
	for k := rng.Intn(3); k > 0; k-- {
		if rng.Bool() {
			st := pick(rng, []int{400, 401, 403, 404, 405, 409, 416, 418, 429, 499, 500, 501, 503, 599})
			base = fmt.Sprintf("H %d %s", st, base)
		} else {
			pre, post := pick(rng, []string{"ctx: ", "cannot do x: ", "", "404 Not Found: "}), ""
			if rng.Chance(1, 4) {
				post = ": context at end"
			}
			base = "F " + tok(pre) + " " + tok(post) + " " + base
		}
	}
	return base
}

func (*c07) Gen(rng *RNG, tier string) []Case {
	var cases []Case
	add := func(carrier, expr string) {
		var ls []string
		for n := 0; n <= 3; n++ {
			ls = append(ls, fmt.Sprintf("err hop %d %s %s", n, carrier, expr))
		}
		cases = append(cases, Case{Lines: ls})
	}
	// every standard error, bare, through every carrier
	for _, s := range stdErrs {
		for _, c := range c07Carriers {
			add(c, "W "+tok(s.Code())+" "+tok(s.(*ociregistry.WireError).Message)+" -")
		}
	}
	n := 1500
	if tier == "thorough" {
		n = 40000
	}
	for i := 0; i < n; i++ {
		add(pick(rng, c07Carriers), c07ErrExpr(rng))
	}
	// through registries that challenge and clients with the auth transport (no credentials): errors that
	// travel as 401 meet the auth flow on their way, the others pass it by
	addA := func(carrier, expr string) {
		var ls []string
		for n := 0; n <= 3; n++ {
			ls = append(ls, fmt.Sprintf("err hopa %d %s %s", n, carrier, expr))
		}
		cases = append(cases, Case{Tag: "auth-chain", Lines: ls})
	}
	for _, c := range c07Carriers {
		addA(c, "W "+tok("UNAUTHORIZED")+" "+tok("authentication required")+" -")
		addA(c, "W "+tok("UNAUTHORIZED")+" "+tok("please log in")+" "+tok(`{"need":"pull"}`))
		addA(c, "H 401 W "+tok("TOKEN_EXPIRED")+" "+tok("token expired")+" "+tok(`[1, 2]`))
		addA(c, "W "+tok("DENIED")+" "+tok("requested access to the resource is denied")+" -")
	}
	na := 200
	if tier == "thorough" {
		na = 5000
	}
	for i := 0; i < na; i++ {
		addA(pick(rng, c07Carriers), c07ErrExpr(rng))
	}
	// listings whose error arrives with the second page; reads through servers that know external locations
	addV := func(verb, carrier, expr string) {
		var ls []string
		for n := 0; n <= 3; n++ {
			ls = append(ls, fmt.Sprintf("err %s %d %s %s", verb, n, carrier, expr))
		}
		cases = append(cases, Case{Tag: verb, Lines: ls})
	}
	for _, s := range stdErrs {
		std := "W " + tok(s.Code()) + " " + tok(s.(*ociregistry.WireError).Message) + " -"
		for _, c := range []string{"Tags", "Repositories"} {
			addV("hopp", c, std)
		}
		for _, c := range []string{"GetBlob", "GetBlobRange", "GetManifest", "GetTag", "ResolveBlob", "ResolveTag"} {
			addV("hopl", c, std)
		}
	}
	nv := 150
	if tier == "thorough" {
		nv = 4000
	}
	for i := 0; i < nv; i++ {
		addV("hopp", pick(rng, []string{"Tags", "Repositories"}), c07ErrExpr(rng))
		addV("hopl", pick(rng, []string{"GetBlob", "GetBlobRange", "GetManifest", "GetTag", "ResolveBlob", "ResolveManifest", "ResolveTag"}), c07ErrExpr(rng))
	}
	// error bodies around the client's size limit (8 KiB): up to and including the limit the error must
	// keep its identity; beyond it the client cannot decode the body (recorded finding F24), and the
	// model has no opinion ("hopbig" lines)
	for _, target := range []int{8189, 8190, 8191, 8192, 8193, 8200, 9000} {
		for _, std := range []ociregistry.Error{ociregistry.ErrDenied, ociregistry.ErrBlobUnknown} {
			base, _ := ociregistry.MarshalError(ociregistry.NewError("m", std.Code(), nil))
			msg := strings.Repeat("m", target-len(base)+1)
			body, _ := ociregistry.MarshalError(ociregistry.NewError(msg, std.Code(), nil))
			verb := "hop"
			if len(body) > 8192 {
				verb = "hopbig"
			}
			expr := "W " + tok(std.Code()) + " " + tok(msg) + " -"
			var ls []string
			for h := 0; h <= 3; h++ {
				v := verb
				if h == 0 {
					v = "hop"
				}
				ls = append(ls, fmt.Sprintf("err %s %d %s %s", v, h, pick(rng, []string{"GetBlob", "DeleteTag", "PushManifest", "Tags"}), expr))
			}
			cases = append(cases, Case{Tag: fmt.Sprintf("body-%d", len(body)), Lines: ls})
		}
	}
	return cases
}

// ---- oracle ----

type errObs struct {
	ok                      bool
	status                  int
	hasStatus, hasCode      bool
	code, msg, detail, text string
	isv                     string
}

func parseObs(s string) errObs {
	f := strings.Split(s, " ")
	if len(f) != 6 {
		return errObs{}
	}
	o := errObs{ok: true, isv: f[5]}
	if f[0] != "-" {
		o.status, _ = strconv.Atoi(f[0])
		o.hasStatus = true
	}
	if f[1] != "-" {
		o.hasCode = true
		o.code, _ = untok(f[1])
		o.msg, _ = untok(f[2])
	}
	if f[3] != "-" {
		o.detail, _ = untok(f[3])
	}
	o.text, _ = untok(f[4])
	return o
}

func exprHas416(expr []string) bool {
	for i, t := range expr {
		if (t == "H" || t == "N") && i+1 < len(expr) && expr[i+1] == "416" {
			return true
		}
	}
	return false
}

func (*c07) Oracle(c Case, impl []string) []Failure {
	var fs []Failure
	if len(c.Lines) == 0 || len(impl) != len(c.Lines) {
		return nil
	}
	t0 := strings.Split(c.Lines[0], " ")
	if len(t0) < 5 || t0[2] != "0" {
		return nil
	}
	carrier := t0[3]
	head := strings.HasPrefix(carrier, "Resolve")
	orig := parseObs(impl[0])
	if !orig.ok {
		return []Failure{{Class: "err-orig", Oracle: "observe", Index: 0, Expected: "an error", Observed: impl[0]}}
	}
	has416 := exprHas416(t0[4:])
	wantCode := orig.code
	if wantCode == "" {
		wantCode = "UNKNOWN"
	}
	var hop1 errObs
	for i := 1; i < len(c.Lines); i++ {
		got := impl[i]
		fail := func(class, oracle, exp string) {
			fs = append(fs, Failure{Class: class, Oracle: oracle, Index: i, Expected: exp, Observed: got})
		}
		if got == "panic" {
			fail("err-panic", "no_panic", "an error value")
			continue
		}
		o := parseObs(got)
		if !o.ok {
			fail("err-lost", "error_returned", "an error")
			continue
		}
		if i == 1 {
			hop1 = o
		}
		// a server that knows external locations resolves the blob first (ResolveBlob) before it reads it:
		// from the second hop on that question travels as a HEAD request, so the error of a blob read comes
		// back body-less like that of a resolve (the recorded finding F11 applies to it)
		head := head
		if t0[1] == "hopl" && (carrier == "GetBlob" || carrier == "GetBlobRange") && i >= 2 {
			head = true
		}
		// status: the one the specification assigns to the code, else the error's own, else 500
		wantStatus := 500
		if s, ok := specStatus[wantCode]; ok {
			wantStatus = s
		} else if orig.hasStatus {
			wantStatus = orig.status
		}
		if !o.hasStatus || o.status != wantStatus {
			fail("err-status", "hop_status", strconv.Itoa(wantStatus))
		}
		if head {
			// body-less: only the status class can survive; loss of the code is the recorded finding F11
			if o.isv != orig.isv {
				// the documented fallback: a standard error chosen by status class
				want := strings.Repeat("0", len(stdErrs))
				byStatus := map[int]ociregistry.Error{404: ociregistry.ErrNameUnknown, 401: ociregistry.ErrUnauthorized, 403: ociregistry.ErrDenied, 429: ociregistry.ErrTooManyRequests, 400: ociregistry.ErrUnsupported}
				if se, ok := byStatus[o.status]; ok {
					b := []byte(want)
					for j, s := range stdErrs {
						if s == se {
							b[j] = '1'
						}
					}
					want = string(b)
				}
				if o.status == 416 {
					b := []byte(want)
					b[len(b)-1] = '1' // httpError.Is: any 416 is ErrRangeInvalid (F10)
					want = string(b)
				}
				if o.isv == want {
					fail("err-is-head", "hop_is", orig.isv)
				} else {
					fail("err-is-head-unexpected", "hop_is", orig.isv+" (or, body-less, the standard error for the status class: "+want+")")
				}
			}
			continue
		}
		if !o.hasCode || o.code != wantCode {
			if strings.HasPrefix(c.Tag, "body-") && c.Tag > "body-8192" && len(c.Tag) == len("body-8192") || strings.HasPrefix(c.Tag, "body-9") {
				fail("err-body-over-8KiB", "hop_code", wantCode) // F24: the client refuses error bodies over errorBodySizeLimit
				continue
			}
			fail("err-code", "hop_code", wantCode)
		}
		if !jsonEqual(o.detail, orig.detail) {
			fail("err-detail", "hop_detail", orig.detail)
		}
		if o.isv != orig.isv {
			// the only standard error not identified by its code alone is ErrRangeInvalid (httpError.Is maps 416 to it)
			diffOnlyRange := true
			for j := range o.isv {
				if j < len(orig.isv) && o.isv[j] != orig.isv[j] && stdErrs[j] != ociregistry.ErrRangeInvalid {
					diffOnlyRange = false
				}
			}
			if diffOnlyRange && (has416 || o.status == 416) {
				fail("err-is-416", "hop_is", orig.isv)
			} else if orig.code == "" && orig.hasCode || (!orig.hasCode) {
				// an error without a code becomes UNKNOWN: no standard error has that code, so isv cannot change
				fail("err-is", "hop_is", orig.isv)
			} else {
				fail("err-is", "hop_is", orig.isv)
			}
		}
		if i >= 2 && hop1.ok {
			if o.msg != hop1.msg {
				cl := "err-msg-fixpoint"
				if hop1.msg == "" {
					cl = "err-msg-fixpoint-empty"
				}
				fail(cl, "hop_message_fixpoint", tok(hop1.msg))
			} else if o.text != hop1.text {
				fail("err-text-fixpoint", "hop_text_fixpoint", tok(hop1.text))
			}
		}
	}
	return fs
}

func jsonEqual(a, b string) bool {
	if a == "" || b == "" {
		return a == b
	}
	// Same JSON value: the same token stream, strings compared after unescaping (a hop may write < as \u003c),
	// numbers compared as written (so a hop that re-encodes through float64 is seen), duplicate keys kept.
	ta, ok1 := jsonTokens(a)
	tb, ok2 := jsonTokens(b)
	if !ok1 || !ok2 || len(ta) != len(tb) {
		return false
	}
	for i := range ta {
		if ta[i] != tb[i] {
			return false
		}
	}
	return true
}

func jsonTokens(s string) ([]string, bool) {
	dec := json.NewDecoder(strings.NewReader(s))
	dec.UseNumber()
	var out []string
	for {
		t, err := dec.Token()
		if err == io.EOF {
			return out, true
		}
		if err != nil {
			return nil, false
		}
		switch v := t.(type) {
		case json.Delim:
			out = append(out, "d"+string(rune(v)))
		case json.Number:
			out = append(out, "n"+string(v))
		case string:
			out = append(out, "s"+v)
		case bool:
			out = append(out, fmt.Sprint("b", v))
		case nil:
			out = append(out, "null")
		}
	}
}

func (*c07) NonTrivial(c Case, impl []string) (bool, string) {
	t := strings.Split(c.Lines[0], " ")
	kind := "plain"
	for _, x := range t[4:] {
		if x == "W" {
			kind = "coded"
		}
	}
	wrapped := t[4] == "H" || t[4] == "F"
	if wrapped {
		kind += "+wrapped"
	}
	return true, kind
}
