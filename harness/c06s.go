package main

import (
	"bytes"
	"context"
	"encoding/base64"
	"errors"
	"flag"
	"fmt"
	"io"
	"net/http"
	"net/http/httptest"
	"net/textproto"
	"net/url"
	"os/exec"
	"sort"
	"strconv"
	"strings"

	"cuelabs.dev/go/oci/ociregistry"
	"cuelabs.dev/go/oci/ociregistry/ociref"
	"cuelabs.dev/go/oci/ociregistry/ociserver"
	"cuelabs.dev/go/oci/ociregistry/ociverif"
)

// C06S: the regenerated handler table (lean/OciModel/Generated/SrvHandlers.lean) against the real
// handlers. One request per case is served in-process by ociserver over a recording backend whose
// calls can be made to fail; what is observed — the backend calls in order with their outcome,
// every Close of a reader/writer the backend handed out, whether the handler returned an error,
// and on success the status and the names of the headers — must be one of the outcomes the table's
// execution model (`srvh outcomes`, asked of the Lean driver) allows for the kind the real router
// classified the request as, under the options in force. This validates the TRANSLATOR (that the
// abstraction it extracts is the code's) and the dispatch table. Three direct oracles restate
// C06's clauses on the observation without the model.
//
// Line format:
//
//	srvh req <opts> <fail> <method> <target> <body> (<header> <value>)*
//	  <opts>  six digits: DisableReferrersAPI DisableSinglePostUpload MaxListPageSize(=2) OmitDigestFromTagGetResponse
//	          OmitLinkHeaderFromResponses LocationsForDescriptor(0 nil, 1 no location, 2 one location, 3 error)
//	  <fail>  failAt.write.close.seq: the failAt-th backend call fails (0: none); Write / Close of a writer fail; iterators yield an error
//
// The model answers `skip` to these lines; the comparison is made by the oracle (set membership).

func init() {
	engines["C06S"] = func() Engine { return &c06s{model: map[string]map[string]bool{}, provs: map[string][]c06sSite{}} }
}

type c06s struct {
	model    map[string]map[string]bool // "<Kind> <tag> <opts>" -> normalised outcomes the model allows
	provs    map[string][]c06sSite      // "<Kind> <tag> <opts>" -> call sites with the provenance of their arguments
	modelErr string
}

type c06sSite struct {
	method string
	provs  []string
}

func (*c06s) UsesModel() bool { return true }

// ---- recording backend ----

type c06sBackend struct {
	*ociregistry.Funcs
	failAt              int
	writeFail, closeErr bool
	seqFail             bool
	events              []string
	ncalls              int
	acquired            int
	closes              map[int]int
	badArg              string
	content             []byte
	args                []c06sArgs // per call, in order: the method and its arguments after ctx ("\x00" where the value is not a name)
}

type c06sArgs struct {
	method string
	vals   []string
}

const c06sAny = "\x00"

func (b *c06sBackend) rec(method string, vals ...string) {
	b.args = append(b.args, c06sArgs{method, vals})
}

var errC06sInjected = ociregistry.ErrDenied

func (b *c06sBackend) call(method string, canFail bool) bool {
	b.ncalls++
	fail := canFail && b.ncalls == b.failAt
	if fail {
		b.events = append(b.events, method+"-")
	} else {
		b.events = append(b.events, method+"+")
	}
	return fail
}

func (b *c06sBackend) chk(method, what, v string, ok bool) {
	if !ok && b.badArg == "" {
		b.badArg = method + " got " + what + " " + strconv.Quote(v)
	}
}
func (b *c06sBackend) repo(m, v string) { b.chk(m, "repository", v, ociref.IsValidRepository(v)) }
func (b *c06sBackend) tag(m, v string)  { b.chk(m, "tag", v, ociref.IsValidTag(v)) }
func (b *c06sBackend) dig(m, v string)  { b.chk(m, "digest", v, ociref.IsValidDigest(v)) }

type c06sReader struct {
	io.Reader
	b    *c06sBackend
	n    int
	desc ociregistry.Descriptor
}

func (r *c06sReader) Close() error {
	r.b.closes[r.n]++
	r.b.events = append(r.b.events, "close"+strconv.Itoa(r.n))
	return nil
}
func (r *c06sReader) Descriptor() ociregistry.Descriptor { return r.desc }

type c06sWriter struct {
	b    *c06sBackend
	n    int
	id   string
	size int64
}

func (w *c06sWriter) Write(p []byte) (int, error) {
	if w.b.writeFail {
		return 0, errors.New("injected write failure")
	}
	w.size += int64(len(p))
	return len(p), nil
}
func (w *c06sWriter) Close() error {
	w.b.closes[w.n]++
	w.b.events = append(w.b.events, "close"+strconv.Itoa(w.n))
	if w.b.closeErr {
		return errors.New("injected close failure")
	}
	return nil
}
func (w *c06sWriter) Size() int64    { return w.size }
func (w *c06sWriter) ChunkSize() int { return 16 }
func (w *c06sWriter) ID() string     { return w.id }
func (w *c06sWriter) Cancel() error  { return nil }
func (w *c06sWriter) Commit(d ociregistry.Digest) (ociregistry.Descriptor, error) {
	w.b.rec("BlobWriter.Commit", string(d))
	w.b.dig("BlobWriter.Commit", string(d))
	if w.b.call("BlobWriter.Commit", true) {
		return ociregistry.Descriptor{}, ociregistry.ErrDigestInvalid
	}
	return ociregistry.Descriptor{MediaType: "application/octet-stream", Digest: d, Size: w.size}, nil
}

func newC06sBackend(failAt int, writeFail, closeErr, seqFail bool) *c06sBackend {
	b := &c06sBackend{failAt: failAt, writeFail: writeFail, closeErr: closeErr, seqFail: seqFail, closes: map[int]int{}, content: []byte("0123456789")}
	desc := func(mt string) ociregistry.Descriptor {
		return ociregistry.Descriptor{MediaType: mt, Digest: ociregistry.Digest(sha256Digest(b.content)), Size: int64(len(b.content))}
	}
	reader := func(data []byte) ociregistry.BlobReader {
		b.acquired++
		return &c06sReader{Reader: bytes.NewReader(data), b: b, n: b.acquired, desc: desc("application/octet-stream")}
	}
	writer := func(id string) ociregistry.BlobWriter {
		b.acquired++
		return &c06sWriter{b: b, n: b.acquired, id: id}
	}
	seq := func() ociregistry.Seq[string] {
		if b.seqFail {
			return ociregistry.ErrorSeq[string](ociregistry.ErrNameUnknown)
		}
		return ociregistry.SliceSeq([]string{"a", "b", "c"})
	}
	b.Funcs = &ociregistry.Funcs{
		GetBlob_: func(ctx context.Context, repo string, d ociregistry.Digest) (ociregistry.BlobReader, error) {
			b.rec("GetBlob", repo, string(d))
			b.repo("GetBlob", repo)
			b.dig("GetBlob", string(d))
			if b.call("GetBlob", true) {
				return nil, errC06sInjected
			}
			return reader(b.content), nil
		},
		GetBlobRange_: func(ctx context.Context, repo string, d ociregistry.Digest, o0, o1 int64) (ociregistry.BlobReader, error) {
			b.rec("GetBlobRange", repo, string(d), c06sAny, c06sAny)
			b.repo("GetBlobRange", repo)
			b.dig("GetBlobRange", string(d))
			if b.call("GetBlobRange", true) {
				return nil, errC06sInjected
			}
			// a lenient backend: whatever the range, it hands out a reader describing the whole blob
			// (the server then has to judge the range itself, and still close what it was given)
			n := int64(len(b.content))
			if o1 < 0 || o1 > n {
				o1 = n
			}
			if o0 < 0 || o0 > o1 {
				o0 = o1
			}
			return reader(b.content[o0:o1]), nil
		},
		GetManifest_: func(ctx context.Context, repo string, d ociregistry.Digest) (ociregistry.BlobReader, error) {
			b.rec("GetManifest", repo, string(d))
			b.repo("GetManifest", repo)
			b.dig("GetManifest", string(d))
			if b.call("GetManifest", true) {
				return nil, errC06sInjected
			}
			return reader(b.content), nil
		},
		GetTag_: func(ctx context.Context, repo, tag string) (ociregistry.BlobReader, error) {
			b.rec("GetTag", repo, tag)
			b.repo("GetTag", repo)
			b.tag("GetTag", tag)
			if b.call("GetTag", true) {
				return nil, errC06sInjected
			}
			return reader(b.content), nil
		},
		ResolveBlob_: func(ctx context.Context, repo string, d ociregistry.Digest) (ociregistry.Descriptor, error) {
			b.rec("ResolveBlob", repo, string(d))
			b.repo("ResolveBlob", repo)
			b.dig("ResolveBlob", string(d))
			if b.call("ResolveBlob", true) {
				return ociregistry.Descriptor{}, errC06sInjected
			}
			return desc("application/octet-stream"), nil
		},
		ResolveManifest_: func(ctx context.Context, repo string, d ociregistry.Digest) (ociregistry.Descriptor, error) {
			b.rec("ResolveManifest", repo, string(d))
			b.repo("ResolveManifest", repo)
			b.dig("ResolveManifest", string(d))
			if b.call("ResolveManifest", true) {
				return ociregistry.Descriptor{}, errC06sInjected
			}
			return desc("application/vnd.oci.image.manifest.v1+json"), nil
		},
		ResolveTag_: func(ctx context.Context, repo, tag string) (ociregistry.Descriptor, error) {
			b.rec("ResolveTag", repo, tag)
			b.repo("ResolveTag", repo)
			b.tag("ResolveTag", tag)
			if b.call("ResolveTag", true) {
				return ociregistry.Descriptor{}, errC06sInjected
			}
			return desc("application/vnd.oci.image.manifest.v1+json"), nil
		},
		PushBlob_: func(ctx context.Context, repo string, d ociregistry.Descriptor, r io.Reader) (ociregistry.Descriptor, error) {
			b.rec("PushBlob", repo, string(d.Digest), c06sAny)
			b.repo("PushBlob", repo)
			b.dig("PushBlob", string(d.Digest))
			io.Copy(io.Discard, r)
			if b.call("PushBlob", true) {
				return ociregistry.Descriptor{}, errC06sInjected
			}
			return d, nil
		},
		PushBlobChunked_: func(ctx context.Context, repo string, chunkSize int) (ociregistry.BlobWriter, error) {
			b.rec("PushBlobChunked", repo, c06sAny)
			b.repo("PushBlobChunked", repo)
			if b.call("PushBlobChunked", true) {
				return nil, errC06sInjected
			}
			return writer("upload-1"), nil
		},
		PushBlobChunkedResume_: func(ctx context.Context, repo, id string, offset int64, chunkSize int) (ociregistry.BlobWriter, error) {
			b.rec("PushBlobChunkedResume", repo, id, c06sAny, c06sAny)
			b.repo("PushBlobChunkedResume", repo)
			if b.call("PushBlobChunkedResume", true) {
				return nil, errC06sInjected
			}
			return writer(id), nil
		},
		MountBlob_: func(ctx context.Context, from, to string, d ociregistry.Digest) (ociregistry.Descriptor, error) {
			b.rec("MountBlob", from, to, string(d))
			b.repo("MountBlob", from)
			b.repo("MountBlob", to)
			b.dig("MountBlob", string(d))
			if b.call("MountBlob", true) {
				return ociregistry.Descriptor{}, errC06sInjected
			}
			return desc("application/octet-stream"), nil
		},
		PushManifest_: func(ctx context.Context, repo, tag string, data []byte, mt string) (ociregistry.Descriptor, error) {
			b.rec("PushManifest", repo, tag, c06sAny, c06sAny)
			b.repo("PushManifest", repo)
			if tag != "" {
				b.tag("PushManifest", tag)
			}
			if b.call("PushManifest", true) {
				return ociregistry.Descriptor{}, errC06sInjected
			}
			return ociregistry.Descriptor{MediaType: mt, Digest: ociregistry.Digest(sha256Digest(data)), Size: int64(len(data))}, nil
		},
		DeleteBlob_: func(ctx context.Context, repo string, d ociregistry.Digest) error {
			b.rec("DeleteBlob", repo, string(d))
			b.repo("DeleteBlob", repo)
			b.dig("DeleteBlob", string(d))
			if b.call("DeleteBlob", true) {
				return errC06sInjected
			}
			return nil
		},
		DeleteManifest_: func(ctx context.Context, repo string, d ociregistry.Digest) error {
			b.rec("DeleteManifest", repo, string(d))
			b.repo("DeleteManifest", repo)
			b.dig("DeleteManifest", string(d))
			if b.call("DeleteManifest", true) {
				return errC06sInjected
			}
			return nil
		},
		DeleteTag_: func(ctx context.Context, repo, tag string) error {
			b.rec("DeleteTag", repo, tag)
			b.repo("DeleteTag", repo)
			b.tag("DeleteTag", tag)
			if b.call("DeleteTag", true) {
				return errC06sInjected
			}
			return nil
		},
		Repositories_: func(ctx context.Context, start string) ociregistry.Seq[string] {
			b.rec("Repositories", start)
			b.call("Repositories", false)
			return seq()
		},
		Tags_: func(ctx context.Context, repo, start string) ociregistry.Seq[string] {
			b.rec("Tags", repo, start)
			b.repo("Tags", repo)
			b.call("Tags", false)
			return seq()
		},
		Referrers_: func(ctx context.Context, repo string, d ociregistry.Digest, at string) ociregistry.Seq[ociregistry.Descriptor] {
			b.rec("Referrers", repo, string(d), at)
			b.repo("Referrers", repo)
			b.dig("Referrers", string(d))
			b.call("Referrers", false)
			if b.seqFail {
				return ociregistry.ErrorSeq[ociregistry.Descriptor](ociregistry.ErrNameUnknown)
			}
			return ociregistry.SliceSeq([]ociregistry.Descriptor{desc("application/vnd.oci.image.manifest.v1+json")})
		},
	}
	return b
}

// ---- serving one request ----

var c06sOptNames = []string{"DisableReferrersAPI", "DisableSinglePostUpload", "MaxListPageSize", "OmitDigestFromTagGetResponse", "OmitLinkHeaderFromResponses", "LocationsForDescriptor"}

type c06sObs struct {
	skipped  string
	panicked string
	routed   bool
	kind     string
	tag      bool
	optsOn   []string
	events   []string
	errored  bool
	status   int
	headers  []string // canonical names, sorted
	acquired int
	closes   map[int]int
	badArg   string
	args     []c06sArgs
	parsed   *ociverif.Request
}

func (o *c06sObs) outcome() string {
	ev := strings.Join(o.events, ",")
	if o.errored {
		return ev + ";err"
	}
	return fmt.Sprintf("%s;ok;%d;%s", ev, o.status, strings.Join(o.headers, ","))
}

func (o *c06sObs) summary() string {
	switch {
	case o.skipped != "":
		return "skipped " + o.skipped
	case o.panicked != "":
		return "panic"
	case !o.routed:
		return fmt.Sprintf("unrouted %d calls=%d", o.status, len(o.events))
	}
	opts := "-"
	if len(o.optsOn) > 0 {
		opts = strings.Join(o.optsOn, ",")
	}
	t := "0"
	if o.tag {
		t = "1"
	}
	return fmt.Sprintf("%s %s %s %s", o.kind, t, opts, o.outcome())
}

func c06sServe(t []string) *c06sObs {
	o := &c06sObs{}
	if len(t) < 7 || len(t[2]) != 6 {
		o.skipped = "malformed line"
		return o
	}
	optBits := t[2]
	fl := strings.Split(t[3], ".")
	if len(fl) != 4 {
		o.skipped = "malformed line"
		return o
	}
	failAt, _ := strconv.Atoi(fl[0])
	method, _ := untok(t[4])
	target, _ := untok(t[5])
	body, _ := untok(t[6])
	u, err := url.ParseRequestURI(target)
	if err != nil || strings.ContainsAny(method, " \r\n\t") || method == "" {
		o.skipped = "net/http rejects the request line before any handler runs"
		return o
	}
	req := &http.Request{Method: method, URL: u, Proto: "HTTP/1.1", ProtoMajor: 1, ProtoMinor: 1, Header: http.Header{}, Host: "example.com", RequestURI: target}
	req.Body = io.NopCloser(strings.NewReader(body))
	req.ContentLength = int64(len(body))
	for i := 7; i+1 < len(t); i += 2 {
		k, _ := untok(t[i])
		v, _ := untok(t[i+1])
		if strings.EqualFold(k, "Transfer-Encoding") && v == "chunked" {
			req.ContentLength = -1
			req.TransferEncoding = []string{"chunked"}
			continue
		}
		req.Header.Add(k, v)
	}
	if (method == "GET" || method == "HEAD" || method == "DELETE") && body == "" {
		req.Body = http.NoBody
	}
	if parsed, perr := ociverif.Parse(method, u); perr == nil {
		o.routed = true
		o.parsed = parsed
		o.kind = kindNames[parsed.Kind]
		o.tag = parsed.Tag != ""
	}
	opts := &ociserver.Options{
		DisableReferrersAPI:          optBits[0] == '1',
		DisableSinglePostUpload:      optBits[1] == '1',
		OmitDigestFromTagGetResponse: optBits[3] == '1',
		OmitLinkHeaderFromResponses:  optBits[4] == '1',
	}
	if optBits[2] == '1' {
		opts.MaxListPageSize = 2
	}
	switch optBits[5] {
	case '1':
		opts.LocationsForDescriptor = func(bool, ociregistry.Descriptor) ([]string, error) { return nil, nil }
	case '2':
		opts.LocationsForDescriptor = func(bool, ociregistry.Descriptor) ([]string, error) {
			return []string{"https://blobs.example.com/x"}, nil
		}
	case '3':
		opts.LocationsForDescriptor = func(bool, ociregistry.Descriptor) ([]string, error) {
			return nil, errors.New("injected location failure")
		}
	}
	for i, n := range c06sOptNames {
		if optBits[i] != '0' {
			o.optsOn = append(o.optsOn, n)
		}
	}
	// New always installs a WriteError; ours also records that the handler returned an error
	opts.WriteError = func(w http.ResponseWriter, _ *http.Request, err error) {
		o.errored = true
		ociregistry.WriteError(w, err)
	}
	o.optsOn = append(o.optsOn, "WriteError")
	b := newC06sBackend(failAt, fl[1] == "1", fl[2] == "1", fl[3] == "1")
	h := ociserver.New(b, opts)
	w := httptest.NewRecorder()
	func() {
		defer func() {
			if r := recover(); r != nil {
				o.panicked = fmt.Sprint(r)
				lastPanic = o.panicked
			}
		}()
		h.ServeHTTP(w, req.WithContext(context.Background()))
	}()
	o.status = w.Code
	for k := range w.Result().Header {
		o.headers = append(o.headers, k)
	}
	sort.Strings(o.headers)
	o.events, o.acquired, o.closes, o.badArg, o.args = b.events, b.acquired, b.closes, b.badArg, b.args
	return o
}

func (e *c06s) Impl(c Case) []string {
	out := make([]string, len(c.Lines))
	for i, l := range c.Lines {
		out[i] = guard(func() string {
			t := strings.Split(l, " ")
			if len(t) >= 2 && t[0] == "srvh" && t[1] == "req" {
				return c06sServe(t).summary()
			}
			return "bad-op"
		})
	}
	return out
}

// ---- the model's outcomes ----

// normOutcome puts an outcome of the model in the observation's form: header names in
// canonical MIME form, as a sorted set.
func normOutcome(s string) string {
	f := strings.Split(s, ";")
	if len(f) == 4 && f[1] == "ok" {
		set := map[string]bool{}
		for _, h := range strings.Split(f[3], ",") {
			if h != "" {
				set[textproto.CanonicalMIMEHeaderKey(h)] = true
			}
		}
		var hs []string
		for h := range set {
			hs = append(hs, h)
		}
		sort.Strings(hs)
		f[3] = strings.Join(hs, ",")
	}
	return strings.Join(f, ";")
}

// ask puts two questions about one (kind, tag-ness, options) to the Lean driver.
func (e *c06s) ask(key string) bool {
	if _, ok := e.model[key]; ok {
		return true
	}
	if e.modelErr != "" {
		return false
	}
	driver := ""
	if f := flag.Lookup("driver"); f != nil {
		driver = f.Value.String()
	}
	if driver == "" {
		e.modelErr = "no model driver given: the table is not compared"
		return false
	}
	cmd := exec.Command(driver)
	cmd.Stdin = strings.NewReader("srvh outcomes " + key + "\nsrvh provs " + key + "\n")
	outb, err := cmd.Output()
	lines := strings.Split(string(outb), "\n")
	if err != nil || len(lines) < 2 {
		e.modelErr = fmt.Sprintf("model driver failed: %v", err)
		return false
	}
	m := map[string]bool{}
	for _, oc := range strings.Split(strings.TrimRight(lines[0], "\r"), "|") {
		m[normOutcome(oc)] = true
	}
	var sites []c06sSite
	for _, c := range strings.Split(strings.TrimRight(lines[1], "\r"), "|") {
		i := strings.IndexByte(c, '(')
		if i < 0 || !strings.HasSuffix(c, ")") {
			continue
		}
		site := c06sSite{method: c[:i]}
		if in := c[i+1 : len(c)-1]; in != "" {
			site.provs = strings.Split(in, ",")
		}
		sites = append(sites, site)
	}
	e.model[key] = m
	e.provs[key] = sites
	return true
}

func (e *c06s) allowed(kind, tag, opts string) (map[string]bool, bool) {
	key := kind + " " + tag + " " + opts
	if !e.ask(key) {
		return nil, false
	}
	return e.model[key], true
}

// provMatches: the observed value of an argument agrees with the provenance the table claims.
func provMatches(prov, val string, r *ociverif.Request) bool {
	if prov == "*" || val == c06sAny {
		return true
	}
	prov = strings.TrimPrefix(prov, "desc:")
	if strings.HasPrefix(prov, "=") {
		lit, ok := untok(prov[1:])
		return ok && lit == val
	}
	opt := strings.HasSuffix(prov, "?")
	var want string
	switch strings.TrimSuffix(prov, "?") {
	case "Repo":
		want = r.Repo
	case "Tag":
		want = r.Tag
	case "Digest":
		want = r.Digest
	case "FromRepo":
		want = r.FromRepo
	case "UploadID":
		want = r.UploadID
	case "ListLast":
		want = r.ListLast
	default:
		return false
	}
	return val == want || (opt && val == "")
}

// siteFor finds a call site of the table that explains an observed call.
func (e *c06s) siteFor(key string, a c06sArgs, r *ociverif.Request) bool {
	for _, s := range e.provs[key] {
		if s.method != a.method || len(s.provs) != len(a.vals) {
			continue
		}
		ok := true
		for i := range s.provs {
			if !provMatches(s.provs[i], a.vals[i], r) {
				ok = false
				break
			}
		}
		if ok {
			return true
		}
	}
	return false
}

// ---- oracles ----

// c06sHasBad: the table has an unknown shape on some path of this handler. The obligations then
// fail with the reason the translator gives; the table makes no prediction to compare with.
func c06sHasBad(allowed map[string]bool) bool {
	for k := range allowed {
		if strings.HasSuffix(k, ";bad") {
			return true
		}
	}
	return false
}

// c06sMandatory restates the protocol's header requirements per kind (independently of the Lean file).
func c06sMandatory(kind string, status int, tag bool, optBits string) []string {
	omit, single := optBits[3] == '1', optBits[1] == '1'
	switch kind {
	case "ReqBlobGet":
		if status == 206 {
			return []string{"Docker-Content-Digest", "Content-Length", "Content-Range"}
		}
		return []string{"Docker-Content-Digest", "Content-Length"}
	case "ReqBlobHead":
		return []string{"Docker-Content-Digest", "Content-Length"}
	case "ReqManifestGet":
		if omit {
			return []string{"Content-Length"}
		}
		return []string{"Content-Length", "Docker-Content-Digest"}
	case "ReqManifestHead":
		if omit && !tag {
			return []string{"Content-Length"}
		}
		return []string{"Content-Length", "Docker-Content-Digest"}
	case "ReqBlobStartUpload", "ReqBlobUploadChunk", "ReqBlobUploadInfo":
		return []string{"Location", "Range"}
	case "ReqBlobUploadBlob":
		if single {
			return []string{"Location", "Range"}
		}
		return []string{"Location", "Docker-Content-Digest"}
	case "ReqBlobMount":
		if status == 202 { // the protocol's fallback: an upload session instead of a mount
			return []string{"Location", "Range"}
		}
		return []string{"Location", "Docker-Content-Digest"}
	case "ReqBlobCompleteUpload", "ReqManifestPut":
		return []string{"Location", "Docker-Content-Digest"}
	case "ReqTagsList", "ReqCatalogList", "ReqReferrersList":
		return []string{"Content-Length"}
	}
	return nil
}

func (e *c06s) Oracle(c Case, impl []string) []Failure {
	var fs []Failure
	for i, l := range c.Lines {
		if i >= len(impl) {
			break
		}
		t := strings.Split(l, " ")
		got := impl[i]
		if len(t) < 7 || t[0] != "srvh" || t[1] != "req" || strings.HasPrefix(got, "skipped") {
			continue
		}
		fail := func(class, oracle, exp, detail string) {
			fs = append(fs, Failure{Class: class, Oracle: oracle, Index: i, Expected: exp, Observed: got, Detail: detail})
		}
		o := c06sServe(t) // deterministic: re-run to inspect the whole observation
		if o.panicked != "" {
			fail("c06s-panic", "server_total", "a response", "panic: "+o.panicked)
			continue
		}
		if !o.routed {
			if len(o.events) > 0 {
				fail("c06s-unrouted-backend-call", "dispatch", "no backend call for a request the router rejects", strings.Join(o.events, ","))
			}
			continue
		}
		// 1. the table: the observation is one of the model's outcomes
		f := strings.SplitN(got, " ", 4)
		if len(f) == 4 {
			if allowed, ok := e.allowed(f[0], f[1], f[2]); ok && !allowed[f[3]] && !c06sHasBad(allowed) {
				var all []string
				for k := range allowed {
					all = append(all, k)
				}
				sort.Strings(all)
				fail("c06s-unpredicted:"+o.kind, "generated_table_describes_handlers",
					"one of the outcomes the regenerated table allows: "+strings.Join(all, " | "), "observed "+f[3])
			} else if !ok && e.modelErr != "" && !strings.HasPrefix(e.modelErr, "no model driver") {
				fail("c06s-model-unavailable", "generated_table_describes_handlers", "the model's outcomes", e.modelErr)
			}
		}
		// 1b. the provenance of arguments: every observed call is explained by a call site of the table
		// whose arguments, where the table says "field F of the classified request", equal that field
		if len(f) == 4 {
			key := f[0] + " " + f[1] + " " + f[2]
			if allowed, ok := e.allowed(f[0], f[1], f[2]); ok && !c06sHasBad(allowed) {
				for _, a := range o.args {
					if !e.siteFor(key, a, o.parsed) {
						var vs []string
						for _, v := range a.vals {
							if v == c06sAny {
								v = "_"
							}
							vs = append(vs, strconv.Quote(v))
						}
						fail("c06s-arg-provenance:"+a.method, "generated_table_describes_handlers",
							"a call site of the table whose argument provenances explain the observed values",
							a.method+"("+strings.Join(vs, ", ")+")")
						break
					}
				}
			}
		}
		// 2. every reader/writer handed out was closed exactly once
		for n := 1; n <= o.acquired; n++ {
			switch k := o.closes[n]; {
			case k == 0:
				fail("c06s-unclosed:"+o.kind, "server_handles_closed", "every reader/writer closed exactly once", fmt.Sprintf("reader/writer %d was never closed", n))
			case k > 1:
				fail("c06s-closed-twice:"+o.kind, "server_handles_closed", "every reader/writer closed exactly once", fmt.Sprintf("reader/writer %d was closed %d times", n, k))
			}
		}
		// 3. only valid names reach the backend
		if o.badArg != "" {
			fail("c06s-invalid-backend-arg:"+strings.SplitN(o.badArg, " ", 2)[0], "server_backend_args_valid", "only syntactically valid names reach the backend", o.badArg)
		}
		// 4. mandatory headers of a 2xx success
		if !o.errored && o.status >= 200 && o.status < 300 {
			have := map[string]bool{}
			for _, h := range o.headers {
				have[h] = true
			}
			for _, h := range c06sMandatory(o.kind, o.status, o.tag, t[2]) {
				if !have[h] {
					fail("c06s-missing-header:"+h+":"+o.kind, "server_success_headers", h+" header", "")
				}
			}
		}
	}
	return fs
}

func (*c06s) NonTrivial(c Case, impl []string) (bool, string) {
	if len(impl) == 0 {
		return false, "empty"
	}
	o := impl[0]
	switch {
	case strings.HasPrefix(o, "Req"):
		f := strings.SplitN(o, " ", 4)
		res := "err"
		if len(f) == 4 && strings.Contains(f[3], ";ok;") {
			res = "ok"
		}
		return true, f[0] + ":" + res
	case strings.HasPrefix(o, "unrouted"):
		return false, "unrouted"
	case strings.HasPrefix(o, "skipped"):
		return false, "skipped"
	}
	return true, "other"
}

// ---- generation ----

type c06sReq struct {
	method, target, body string
	hdrs                 []string
}

func c06sLine(opts, fail string, r c06sReq) string {
	l := fmt.Sprintf("srvh req %s %s %s %s %s", opts, fail, tok(r.method), tok(r.target), tok(r.body))
	for _, h := range r.hdrs {
		l += " " + tok(h)
	}
	return l
}

// c06sRequests: for every kind the variants that steer the handler down each of its branches,
// and a stream of requests the router rejects.
func c06sRequests() []c06sReq {
	content := []byte("0123456789")
	dg := sha256Digest(content)
	repo := "foo/bar"
	id := base64.RawURLEncoding.EncodeToString([]byte("upload-1"))
	manifest := `{"schemaVersion":2}`
	subject := `{"schemaVersion":2,"subject":{"mediaType":"application/vnd.oci.image.manifest.v1+json","digest":"` + dg + `","size":10}}`
	mtManifest := "application/vnd.oci.image.manifest.v1+json"
	mtIndex := "application/vnd.oci.image.index.v1+json"
	var rs []c06sReq
	add := func(method, target, body string, hdrs ...string) {
		rs = append(rs, c06sReq{method, target, body, hdrs})
	}
	add("GET", "/v2/", "")
	add("GET", "/v2", "")
	blob := "/v2/" + repo + "/blobs/" + dg
	add("GET", blob, "")
	for _, rg := range []string{"bytes=0-4", "bytes=2-", "bytes=20-30", "bytes=10-", "bytes=11-", "bytes=5-2", "bytes=0-1,3-4", "junk", "bytes=-3", "bytes=0-0"} {
		add("GET", blob, "", "Range", rg)
	}
	add("HEAD", blob, "")
	add("DELETE", blob, "")
	up := "/v2/" + repo + "/blobs/uploads/"
	add("POST", up, "")
	add("POST", "/v2/"+repo+"/blobs/uploads", "")
	add("POST", up+"?digest="+url.QueryEscape(dg), string(content))
	add("POST", up+"?digest="+url.QueryEscape(dg), "")
	add("POST", up+"?mount="+url.QueryEscape(dg)+"&from=other/repo", "")
	add("POST", up+"?mount="+url.QueryEscape(dg), "")
	add("GET", up+id, "")
	for _, cr := range []string{"", "0-4", "5-9", "junk", "0-9", "0-0"} {
		if cr == "" {
			add("PATCH", up+id, "01234")
			add("PATCH", up+id, "01234", "Transfer-Encoding", "chunked")
		} else {
			add("PATCH", up+id, "01234", "Content-Range", cr)
		}
	}
	add("PATCH", up+id, "")
	add("PUT", up+id+"?digest="+url.QueryEscape(dg), "")
	add("PUT", up+id+"?digest="+url.QueryEscape(dg), "01234")
	add("PUT", up+id+"?digest="+url.QueryEscape(dg), "01234", "Content-Range", "5-9")
	add("PUT", up+id+"?digest="+url.QueryEscape(dg), "01234", "Content-Range", "junk")
	for _, ref := range []string{"latest", "v1.0", dg} {
		m := "/v2/" + repo + "/manifests/" + ref
		add("GET", m, "")
		add("HEAD", m, "")
		add("DELETE", m, "")
	}
	for _, body := range []string{manifest, subject, "{"} {
		for _, ct := range []string{mtManifest, mtIndex, ""} {
			for _, ref := range []string{"latest", "v1.0", sha256Digest([]byte(body)), dg} {
				if ct == "" {
					add("PUT", "/v2/"+repo+"/manifests/"+ref, body)
				} else {
					add("PUT", "/v2/"+repo+"/manifests/"+ref, body, "Content-Type", ct)
				}
			}
		}
	}
	for _, q := range []string{"", "?n=1", "?n=2", "?n=3", "?n=0", "?n=100", "?last=a", "?n=1&last=b", "?n=-1"} {
		add("GET", "/v2/"+repo+"/tags/list"+q, "")
		add("GET", "/v2/_catalog"+q, "")
	}
	add("GET", "/v2/"+repo+"/referrers/"+dg, "")
	add("GET", "/v2/"+repo+"/referrers/"+dg+"?artifactType=x", "")
	// what the router rejects: no handler may run
	for _, r := range []c06sReq{
		{"GET", "/v1/", "", nil}, {"GET", "/v2/Foo/blobs/" + dg, "", nil}, {"GET", "/v2/" + repo + "/blobs/sha256:abc", "", nil},
		{"DELETE", "/v2/_catalog", "", nil}, {"PUT", "/v2/" + repo + "/manifests/", "{}", nil}, {"POST", blob, "", nil},
		{"POST", up + "?mount=" + url.QueryEscape(dg) + "&from=BAD", "", nil}, {"POST", up + "?mount=bogus&from=other/repo", "", nil},
		{"GET", up + "!!!", "", nil}, {"PUT", up + id, "", nil}, {"PUT", up + id + "?digest=bogus", "", nil},
		{"GET", "/v2/" + repo + "/manifests/-bad", "", nil}, {"GET", "/v2/" + repo + "/tags/list?n=x", "", nil},
		{"GET", "/v2/" + repo + "/referrers/bogus", "", nil}, {"PATCH", "/v2/" + repo + "/tags/list", "", nil},
		{"GET", "/v2/a//b/blobs/" + dg, "", nil}, {"TRACE", "/v2/", "", nil},
	} {
		rs = append(rs, r)
	}
	return rs
}

func (*c06s) Gen(rng *RNG, tier string) []Case {
	reqs := c06sRequests()
	var cases []Case
	add := func(opts, fail string, r c06sReq) {
		cases = append(cases, Case{Lines: []string{c06sLine(opts, fail, r)}})
	}
	// systematic: every request, with no option and with each option alone, each call failing in turn,
	// writer Write/Close failures, iterator failure
	optSets := []string{"000000", "100000", "010000", "001000", "000100", "000010", "000001", "000002", "000003", "010002", "000102"}
	fails := []string{"0.0.0.0", "1.0.0.0", "2.0.0.0", "3.0.0.0", "0.1.0.0", "0.0.1.0", "0.1.1.0", "0.0.0.1"}
	for _, r := range reqs {
		for _, o := range optSets {
			for _, f := range fails {
				add(o, f, r)
			}
		}
	}
	n := 4000
	if tier == "thorough" {
		n = 150000
	}
	for i := 0; i < n; i++ {
		r := pick(rng, reqs)
		opts := fmt.Sprintf("%d%d%d%d%d%d", rng.Intn(2), rng.Intn(2), rng.Intn(2), rng.Intn(2), rng.Intn(2), rng.Intn(4))
		fail := fmt.Sprintf("%d.%d.%d.%d", rng.Intn(4), b2i(rng.Chance(1, 4)), b2i(rng.Chance(1, 4)), b2i(rng.Chance(1, 4)))
		if rng.Chance(1, 3) {
			// perturb: another method, a header from another template
			r.method = pick(rng, []string{"GET", "HEAD", "PUT", "POST", "PATCH", "DELETE"})
		}
		if rng.Chance(1, 5) {
			o := pick(rng, reqs)
			r.hdrs = append(append([]string{}, r.hdrs...), o.hdrs...)
		}
		add(opts, fail, r)
	}
	return cases
}

func b2i(b bool) int {
	if b {
		return 1
	}
	return 0
}
