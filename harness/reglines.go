package main

import (
	"bytes"
	"context"
	"crypto/sha256"
	"encoding/hex"
	"encoding/json"
	"errors"
	"fmt"
	"io"
	"strconv"
	"strings"

	"cuelabs.dev/go/oci/ociregistry"
	ocispec "github.com/opencontainers/image-spec/specs-go/v1"
)

// regInterp interprets "mem …" protocol lines against any ociregistry.Interface
// (ocimem directly, or a client/server/wrapper stack in front of one) and prints
// canonical results. Fresh upload IDs, which are random, are mapped to "@<n>" in
// order of creation.
type regInterp struct {
	reg     ociregistry.Interface
	writers map[string]ociregistry.BlobWriter // "repo\x00canonical id" -> writer
	realID  map[string]string                 // canonical "@n" -> real id
	canonID map[string]string                 // real id -> canonical
	nFresh  int
}

func newRegInterp(reg ociregistry.Interface) *regInterp {
	return &regInterp{reg: reg, writers: map[string]ociregistry.BlobWriter{}, realID: map[string]string{}, canonID: map[string]string{}}
}

func sha256Digest(data []byte) string {
	h := sha256.Sum256(data)
	return "sha256:" + hex.EncodeToString(h[:])
}

// errClass is the canonical class of an error: its OCI code if it has one.
func errClass(err error) string {
	var oerr ociregistry.Error
	if errors.As(err, &oerr) && oerr.Code() != "" {
		return oerr.Code()
	}
	return "ERR"
}

func showDesc(d ociregistry.Descriptor) string {
	return tok(d.MediaType) + " " + tok(string(d.Digest)) + " " + strconv.FormatInt(d.Size, 10)
}

func readResult(r ociregistry.BlobReader, err error) string {
	if err != nil {
		return "err " + errClass(err)
	}
	defer r.Close()
	data, err := io.ReadAll(r)
	if err != nil {
		return "err READ:" + errClass(err)
	}
	return "read " + showDesc(r.Descriptor()) + " " + tok(string(data))
}

// scribble overwrites a buffer the harness handed to the registry, as a caller that reuses
// its buffers would.
func scribble(p []byte) {
	for i := range p {
		p[i] ^= 0xA5
	}
}

func descResult(d ociregistry.Descriptor, err error) string {
	if err != nil {
		return "err " + errClass(err)
	}
	return "desc " + showDesc(d)
}

func listResult(it ociregistry.Seq[string]) string {
	first := listResult1(it)
	// the same sequence value iterated again is another iteration of the same listing
	if again := listResult1(it); again != first {
		return first + " again: " + again
	}
	return first
}

func listResult1(it ociregistry.Seq[string]) string {
	items, err := ociregistry.All(it)
	if err != nil {
		if len(items) > 0 {
			return fmt.Sprintf("err-after %d %s", len(items), errClass(err))
		}
		return "err " + errClass(err)
	}
	ts := make([]string, len(items))
	for i, s := range items {
		ts[i] = tok(s)
	}
	return "list [" + strings.Join(ts, " ") + "]"
}

func (ri *regInterp) canon(real string, callerGave bool) string {
	if c, ok := ri.canonID[real]; ok {
		return c
	}
	if callerGave {
		return real
	}
	c := "@" + strconv.Itoa(ri.nFresh)
	ri.nFresh++
	ri.canonID[real] = c
	ri.realID[c] = real
	return c
}

func (ri *regInterp) real(canon string) string {
	if r, ok := ri.realID[canon]; ok {
		return r
	}
	return canon
}

func (ri *regInterp) do(l string) string {
	t := strings.Split(l, " ")
	if len(t) < 2 || t[0] != "mem" {
		return "bad-op"
	}
	ctx := context.Background()
	arg := func(i int) string {
		if i >= len(t) {
			return ""
		}
		s, _ := untok(t[i])
		return s
	}
	num := func(i int) int64 {
		if i >= len(t) {
			return 0
		}
		n, _ := strconv.ParseInt(t[i], 10, 64)
		return n
	}
	dg := func(i int) ociregistry.Digest { return ociregistry.Digest(arg(i)) }
	switch t[1] {
	case "getblob":
		return readResult(ri.reg.GetBlob(ctx, arg(2), dg(3)))
	case "getblobrange":
		return readResult(ri.reg.GetBlobRange(ctx, arg(2), dg(3), num(4), num(5)))
	case "getmanifest":
		return readResult(ri.reg.GetManifest(ctx, arg(2), dg(3)))
	case "gettag":
		return readResult(ri.reg.GetTag(ctx, arg(2), arg(3)))
	case "resolveblob":
		return descResult(ri.reg.ResolveBlob(ctx, arg(2), dg(3)))
	case "resolvemanifest":
		return descResult(ri.reg.ResolveManifest(ctx, arg(2), dg(3)))
	case "resolvetag":
		return descResult(ri.reg.ResolveTag(ctx, arg(2), arg(3)))
	case "pushblob":
		desc := ociregistry.Descriptor{MediaType: arg(3), Digest: dg(4), Size: num(5)}
		return descResult(ri.reg.PushBlob(ctx, arg(2), desc, strings.NewReader(arg(6))))
	case "pushchunked":
		w, err := ri.reg.PushBlobChunked(ctx, arg(2), 0)
		if err != nil {
			return "err " + errClass(err)
		}
		c := ri.canon(w.ID(), false)
		ri.writers[arg(2)+"\x00"+c] = w
		return "writer " + tok(c)
	case "resume":
		id := arg(3)
		w, err := ri.reg.PushBlobChunkedResume(ctx, arg(2), ri.real(id), num(4), 0)
		if err != nil {
			return "err " + errClass(err)
		}
		c := ri.canon(w.ID(), id != "")
		ri.writers[arg(2)+"\x00"+c] = w
		return "writer " + tok(c)
	case "wwrite", "wsize", "wcancel", "wcommit", "wclose":
		w := ri.writers[arg(2)+"\x00"+arg(3)]
		if w == nil {
			return "err NO-WRITER"
		}
		switch t[1] {
		case "wwrite":
			p := []byte(arg(4))
			n, err := w.Write(p)
			scribble(p) // io.Writer: Write must not retain p; the caller reuses its buffer
			if err != nil {
				return "err " + errClass(err)
			}
			return "n " + strconv.Itoa(n)
		case "wsize":
			return "n " + strconv.FormatInt(w.Size(), 10)
		case "wcancel":
			if err := w.Cancel(); err != nil {
				return "err " + errClass(err)
			}
			return "ok"
		case "wclose":
			if err := w.Close(); err != nil {
				return "err " + errClass(err)
			}
			return "ok"
		case "wcommit":
			return descResult(w.Commit(dg(4)))
		}
	case "mount":
		return descResult(ri.reg.MountBlob(ctx, arg(2), arg(3), dg(4)))
	case "pushmanifest":
		data := []byte(arg(4))
		d, err := ri.reg.PushManifest(ctx, arg(2), arg(3), data, arg(5))
		scribble(data) // the caller reuses its buffer after the push
		return descResult(d, err)
	case "deleteblob":
		return unitResult(ri.reg.DeleteBlob(ctx, arg(2), dg(3)))
	case "deletemanifest":
		return unitResult(ri.reg.DeleteManifest(ctx, arg(2), dg(3)))
	case "deletetag":
		return unitResult(ri.reg.DeleteTag(ctx, arg(2), arg(3)))
	case "repositories":
		return listResult(ri.reg.Repositories(ctx, arg(2)))
	case "tags":
		return listResult(ri.reg.Tags(ctx, arg(2), arg(3)))
	case "referrers":
		items, err := ociregistry.All(ri.reg.Referrers(ctx, arg(2), dg(3), ""))
		if err != nil {
			return "err " + errClass(err)
		}
		ts := make([]string, len(items))
		for i, d := range items {
			ts[i] = tok(d.MediaType) + ":" + tok(string(d.Digest)) + ":" + strconv.FormatInt(d.Size, 10)
		}
		return "descs [" + strings.Join(ts, " ") + "]"
	}
	return "bad-op"
}

func unitResult(err error) string {
	if err != nil {
		return "err " + errClass(err)
	}
	return "ok"
}

// ---- line builders (generators share them) ----

type refTok struct {
	kind      int
	mediaType string
	digest    string
	size      int64
}

// decodeManifest mirrors the decoding ocimem applies to a pushed manifest: the
// harness performs it with the same json.Unmarshal into the ocispec types and
// hands the result to the model (the JSON decoder is a parameter of the model).
func decodeManifest(mediaType string, data []byte) string {
	var refs []refTok
	add := func(kind int, d ocispec.Descriptor) {
		refs = append(refs, refTok{kind, d.MediaType, string(d.Digest), d.Size})
	}
	switch mediaType {
	case ocispec.MediaTypeImageManifest:
		var m ocispec.Manifest
		if err := json.Unmarshal(data, &m); err != nil {
			return "malformed"
		}
		for _, l := range m.Layers {
			add(0, l)
		}
		add(0, m.Config)
		if m.Subject != nil {
			add(2, *m.Subject)
		}
	case ocispec.MediaTypeImageIndex:
		var m ocispec.Index
		if err := json.Unmarshal(data, &m); err != nil {
			return "malformed"
		}
		for _, l := range m.Manifests {
			add(1, l)
		}
		if m.Subject != nil {
			add(2, *m.Subject)
		}
	default:
		return "opaque"
	}
	var b strings.Builder
	fmt.Fprintf(&b, "refs %d", len(refs))
	for _, r := range refs {
		fmt.Fprintf(&b, " %d %s %s %d", r.kind, tok(r.mediaType), tok(r.digest), r.size)
	}
	return b.String()
}

func linePushManifest(repo, tag string, data []byte, mt string) string {
	return fmt.Sprintf("mem pushmanifest %s %s %s %s %s", tok(repo), tok(tag), tok(string(data)), tok(mt), decodeManifest(mt, data))
}

func linePushBlob(repo, mt, digest string, size int64, data []byte) string {
	return fmt.Sprintf("mem pushblob %s %s %s %d %s", tok(repo), tok(mt), tok(digest), size, tok(string(data)))
}

func descJSON(mt, digest string, size int64) ocispec.Descriptor {
	return ocispec.Descriptor{MediaType: mt, Digest: ociregistry.Digest(digest), Size: size}
}

func mustJSON(v any) []byte {
	var b bytes.Buffer
	enc := json.NewEncoder(&b)
	enc.SetEscapeHTML(false)
	if err := enc.Encode(v); err != nil {
		panic(err)
	}
	return bytes.TrimSpace(b.Bytes())
}
