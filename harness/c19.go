package main

import (
	"encoding/base64"
	"encoding/json"
	"errors"
	"fmt"
	"os"
	"path/filepath"
	"reflect"
	"regexp"
	"sort"
	"strconv"
	"strings"

	"cuelabs.dev/go/oci/ociregistry/ociauth"
)

// C19: credential lookup from a Docker-style config file is deterministic with
// fixed precedence. Public API only: ociauth.LoadWithEnv + (*ConfigFile).EntryForRegistry
// with an injected HelperRunner.
//
// Lines (engine "authfile"):
//   authfile json <raw>              start a document; <raw> is the text written to the config file
//   authfile nofile                  start a case in which no config file exists
//   authfile parsed err | parsed ok <credsStore>     what encoding/json (a parameter of the model)
//   authfile auth <key> <username> <password> <auth> <identitytoken> <registrytoken>   makes of <raw>,
//   authfile helper <host> <name>                    keys in sorted order
//   authfile run <name> <host> ok <user> <pass> <refresh> <access> | notfound | missing | error
//                                    helper runner behaviour (default notfound = zero entry, nil error)
//   authfile order <key>*            visiting order for the model's loop over the map (the
//                                    implementation uses Go's own randomised order)
//   authfile b64 <user> <pass>       -> base64(user ":" pass)
//   authfile load <docker|home|xdg> <seed>   -> ok | err             (c19Loads decodings must agree)
//   authfile get <host>              -> ok <user> <pass> <refresh> <access> | err | noload
//   authfile exec <name> <host> missing | noexec | fail <code> <output> | done <output> bad
//                | done <output> creds <Username> <Secret> | echo
//                                    runs ociauth.ExecHelperWithEnv(env)(name, host) against a real
//                                    docker-credential-<name> program (absent / not executable / a script
//                                    that prints <output> and exits <code> or 0 / a script that prints its
//                                    standard input as Username); `done` carries encoding/json's reading
//                                    of <output>  -> ok <user> <pass> <refresh> <access> | missing | err
//
// One `load` decodes the document c19Loads times: half from <raw> itself, half from four
// re-serialisations of the parsed document with the object keys in shuffled order (Go
// randomises iteration per range statement, the insertion order varies the rest), and the
// `get` lines that follow are evaluated on every decoding in a different order each time,
// some of them twice. An output "nondet …" lists the distinct outcomes when they disagree.

func init() { engines["C19"] = func() Engine { return &c19{} } }

type c19 struct{}

func (*c19) UsesModel() bool { return true }

const c19Loads = 32

type c19Auth struct {
	Username      string `json:"username,omitempty"`
	Password      string `json:"password,omitempty"`
	Auth          string `json:"auth,omitempty"`
	IdentityToken string `json:"identitytoken,omitempty"`
	RegistryToken string `json:"registrytoken,omitempty"`
}

// c19Doc is the harness's own reading of the file format (the documented
// ~/.docker/config.json fields); it is what the protocol lines carry.
type c19Doc struct {
	Auths       map[string]c19Auth `json:"auths"`
	CredsStore  string             `json:"credsStore,omitempty"`
	CredHelpers map[string]string  `json:"credHelpers,omitempty"`
}

type c19Beh struct {
	kind  string // ok | notfound | missing | error
	entry ociauth.ConfigEntry
}

// c19State is what the lines of one document have built so far.
type c19State struct {
	raw      string
	started  bool // a json or nofile line has been seen
	noFile   bool
	parsed   bool
	parseErr bool
	doc      c19Doc
	dupLine  bool
	runs     map[[2]string]c19Beh
	b64      map[string][][2]string // encoded text -> declared (user, pass) pairs
	// after load
	loaded  bool
	loadOK  bool
	cfs     []*ociauth.ConfigFile
	runsAt  map[[2]string]c19Beh
	seed    uint64
	pending []int // indices of get lines waiting to be evaluated
}

func newC19State() *c19State {
	return &c19State{doc: c19Doc{Auths: map[string]c19Auth{}, CredHelpers: map[string]string{}}, runs: map[[2]string]c19Beh{}, b64: map[string][][2]string{}}
}

func untoks(ts []string) ([]string, bool) {
	out := make([]string, len(ts))
	for i, t := range ts {
		s, ok := untok(t)
		if !ok {
			return nil, false
		}
		out[i] = s
	}
	return out, true
}

// c19Config applies a configuration line (everything but load and get) to st.
// It is shared by Impl and Oracle. It returns the output of the line.
func c19Config(st *c19State, t []string) string {
	switch {
	case t[1] == "json" && len(t) == 3:
		raw, ok := untok(t[2])
		if !ok {
			return "bad-op"
		}
		*st = *newC19State()
		st.started = true
		st.raw = raw
		return "ok"
	case t[1] == "nofile" && len(t) == 2:
		*st = *newC19State()
		st.started = true
		st.noFile = true
		return "ok"
	case t[1] == "parsed" && len(t) == 3 && t[2] == "err":
		st.parsed, st.parseErr = true, true
		return "ok"
	case t[1] == "parsed" && len(t) == 4 && t[2] == "ok":
		s, ok := untok(t[3])
		if !ok {
			return "bad-op"
		}
		st.parsed, st.parseErr = true, false
		st.doc.CredsStore = s
		return "ok"
	case t[1] == "auth" && len(t) == 8:
		f, ok := untoks(t[2:])
		if !ok {
			return "bad-op"
		}
		if _, dup := st.doc.Auths[f[0]]; dup {
			st.dupLine = true
		}
		st.doc.Auths[f[0]] = c19Auth{Username: f[1], Password: f[2], Auth: f[3], IdentityToken: f[4], RegistryToken: f[5]}
		return "ok"
	case t[1] == "helper" && len(t) == 4:
		f, ok := untoks(t[2:])
		if !ok {
			return "bad-op"
		}
		if _, dup := st.doc.CredHelpers[f[0]]; dup {
			st.dupLine = true
		}
		st.doc.CredHelpers[f[0]] = f[1]
		return "ok"
	case t[1] == "run" && len(t) >= 5:
		nh, ok := untoks(t[2:4])
		if !ok {
			return "bad-op"
		}
		var b c19Beh
		switch {
		case len(t) == 5 && (t[4] == "notfound" || t[4] == "missing" || t[4] == "error"):
			b.kind = t[4]
		case len(t) == 9 && t[4] == "ok":
			f, ok := untoks(t[5:])
			if !ok {
				return "bad-op"
			}
			b = c19Beh{kind: "ok", entry: ociauth.ConfigEntry{Username: f[0], Password: f[1], RefreshToken: f[2], AccessToken: f[3]}}
		default:
			return "bad-op"
		}
		k := [2]string{nh[0], nh[1]}
		if _, dup := st.runs[k]; !dup { // first line wins, as in the model
			st.runs[k] = b
		}
		return "ok"
	case t[1] == "order":
		if _, ok := untoks(t[2:]); !ok {
			return "bad-op"
		}
		return "ok" // the implementation follows Go's map order
	case t[1] == "b64" && len(t) == 4:
		f, ok := untoks(t[2:])
		if !ok {
			return "bad-op"
		}
		enc := base64.StdEncoding.EncodeToString([]byte(f[0] + ":" + f[1]))
		st.b64[enc] = append(st.b64[enc], [2]string{f[0], f[1]})
		return tok(enc)
	}
	return "bad-op"
}

var errC19Helper = errors.New("helper failed")

func c19Runner(runs map[[2]string]c19Beh) ociauth.HelperRunner {
	return func(name, host string) (ociauth.ConfigEntry, error) {
		b, ok := runs[[2]string{name, host}]
		if !ok {
			return ociauth.ConfigEntry{}, nil
		}
		switch b.kind {
		case "ok":
			return b.entry, nil
		case "missing":
			// as ExecHelperWithEnv does for exec.ErrNotFound
			return ociauth.ConfigEntry{}, fmt.Errorf("%w: %v", ociauth.ErrHelperNotFound, "executable file not found in $PATH")
		case "error":
			return ociauth.ConfigEntry{}, fmt.Errorf("error getting credentials: %w", errC19Helper)
		}
		return ociauth.ConfigEntry{}, nil // credentials not found in native keychain
	}
}

func c19Root() string {
	d := os.Getenv("VERIF_DIR")
	if d == "" {
		d, _ = os.Getwd()
	}
	return filepath.Join(d, ".build", "c19")
}

var c19DirSeq int

// c19Shuffled re-serialises a parsed document with object keys in an order drawn from rng.
func c19Shuffled(d c19Doc, rng *RNG) string {
	obj := func(n int, key func(i int) string, val func(i int) any) string {
		var b strings.Builder
		b.WriteByte('{')
		for j, i := range rng.Perm(n) {
			if j > 0 {
				b.WriteByte(',')
			}
			k, _ := json.Marshal(key(i))
			v, _ := json.Marshal(val(i))
			b.Write(k)
			b.WriteByte(':')
			b.Write(v)
		}
		b.WriteByte('}')
		return b.String()
	}
	ak := sortedKeys(d.Auths)
	hk := sortedKeys(d.CredHelpers)
	parts := []string{
		`"auths":` + obj(len(ak), func(i int) string { return ak[i] }, func(i int) any { return d.Auths[ak[i]] }),
		`"credHelpers":` + obj(len(hk), func(i int) string { return hk[i] }, func(i int) any { return d.CredHelpers[hk[i]] }),
	}
	cs, _ := json.Marshal(d.CredsStore)
	parts = append(parts, `"credsStore":`+string(cs))
	var b strings.Builder
	b.WriteByte('{')
	for j, i := range rng.Perm(len(parts)) {
		if j > 0 {
			b.WriteByte(',')
		}
		b.WriteString(parts[i])
	}
	b.WriteByte('}')
	return b.String()
}

func sortedKeys[V any](m map[string]V) []string {
	ks := make([]string, 0, len(m))
	for k := range m {
		ks = append(ks, k)
	}
	sort.Strings(ks)
	return ks
}

func c19ParseOwn(raw string) (c19Doc, error) {
	var d c19Doc
	if err := json.Unmarshal([]byte(raw), &d); err != nil {
		return c19Doc{}, err
	}
	return d, nil
}

func c19SameDoc(a, b c19Doc) bool {
	norm := func(d c19Doc) c19Doc {
		if d.Auths == nil {
			d.Auths = map[string]c19Auth{}
		}
		if d.CredHelpers == nil {
			d.CredHelpers = map[string]string{}
		}
		return d
	}
	return reflect.DeepEqual(norm(a), norm(b))
}

// c19Load performs the decodings of one load line.
func c19Load(st *c19State, loc string, seed uint64) string {
	if loc != "docker" && loc != "home" && loc != "xdg" {
		return "bad-op"
	}
	if !st.started {
		return "nodoc"
	}
	st.loaded, st.loadOK, st.cfs, st.seed = true, false, nil, seed
	st.runsAt = map[[2]string]c19Beh{}
	for k, v := range st.runs {
		st.runsAt[k] = v
	}
	runner := c19Runner(st.runsAt)
	c19DirSeq++
	runDir := filepath.Join(c19Root(), fmt.Sprintf("run-%d", os.Getpid()))
	dir := filepath.Join(runDir, strconv.Itoa(c19DirSeq))
	defer func() {
		os.RemoveAll(dir)
		os.Remove(runDir) // succeeds when it is empty
		os.Remove(c19Root())
	}()
	var file, env string
	switch loc {
	case "docker":
		file, env = filepath.Join(dir, "config.json"), "DOCKER_CONFIG="+dir
	case "home":
		file, env = filepath.Join(dir, ".docker", "config.json"), "HOME="+dir
	case "xdg":
		file, env = filepath.Join(dir, "containers", "auth.json"), "XDG_RUNTIME_DIR="+dir
	default:
		return "bad-op"
	}
	if err := os.MkdirAll(filepath.Dir(file), 0o755); err != nil {
		return "harness-error " + err.Error()
	}
	variants := false
	if !st.noFile {
		// the protocol lines must say what encoding/json makes of the raw text
		if !st.parsed || st.dupLine {
			return "bad-doc"
		}
		own, err := c19ParseOwn(st.raw)
		if (err != nil) != st.parseErr {
			return "bad-doc"
		}
		if err == nil {
			if !c19SameDoc(own, st.doc) {
				return "bad-doc"
			}
			variants = true
		}
	} else if st.parsed || len(st.doc.Auths) > 0 || len(st.doc.CredHelpers) > 0 {
		return "bad-doc"
	}
	rng := NewRNG(seed ^ 0xC19C19)
	outcomes := map[string]int{}
	written := ""
	for i := 0; i < c19Loads; i++ {
		if !st.noFile {
			// first half: the text as given; second half: four re-serialisations, each decoded
			// several times (few distinct texts keep the number of file writes down)
			text := written
			if i == 0 {
				text = st.raw
			} else if variants && i >= c19Loads/2 && i%(c19Loads/8) == 0 {
				text = c19Shuffled(st.doc, rng)
			}
			if i == 0 || text != written {
				if err := os.WriteFile(file, []byte(text), 0o644); err != nil {
					return "harness-error " + err.Error()
				}
				written = text
			}
		}
		cf, err := ociauth.LoadWithEnv(runner, []string{env})
		if err != nil {
			outcomes["err"]++
			continue
		}
		outcomes["ok"]++
		st.cfs = append(st.cfs, cf)
	}
	if len(outcomes) != 1 {
		return fmt.Sprintf("nondet ok=%d err=%d", outcomes["ok"], outcomes["err"])
	}
	if outcomes["ok"] > 0 {
		st.loadOK = true
		return "ok"
	}
	return "err"
}

func c19ShowEntry(e ociauth.ConfigEntry, err error) string {
	if err != nil {
		return "err"
	}
	return "ok " + tok(e.Username) + " " + tok(e.Password) + " " + tok(e.RefreshToken) + " " + tok(e.AccessToken)
}

// c19Flush evaluates the pending get lines on every decoding, in a different
// order for each decoding, every third decoding asking each host twice.
func c19Flush(st *c19State, lines []string, out []string) {
	if len(st.pending) == 0 {
		return
	}
	defer func() { st.pending = nil }()
	hosts := make([]string, len(st.pending))
	for j, i := range st.pending {
		hosts[j], _ = untok(strings.Split(lines[i], " ")[2])
	}
	if !st.loaded || !st.loadOK {
		for _, i := range st.pending {
			out[i] = "noload"
		}
		return
	}
	rng := NewRNG(st.seed ^ 0x6E7)
	seen := make([]map[string]bool, len(st.pending))
	for j := range seen {
		seen[j] = map[string]bool{}
	}
	for d, cf := range st.cfs {
		order := rng.Perm(len(hosts))
		if d%3 == 2 {
			order = append(order, rng.Perm(len(hosts))...)
		}
		for _, j := range order {
			seen[j][guard(func() string { return c19ShowEntry(cf.EntryForRegistry(hosts[j])) })] = true
		}
	}
	for j, i := range st.pending {
		vals := sortedKeys(seen[j])
		if len(vals) == 1 {
			out[i] = vals[0]
		} else {
			out[i] = "nondet [" + strings.Join(vals, " | ") + "]"
		}
	}
}

// c19CaseRunner is the exec runner of the case being run: one runner serves all its lookups, as the
// one a ConfigFile holds does (a runner may not carry anything over from one lookup to the next).
var c19CaseRunner ociauth.HelperRunner

func (*c19) Impl(c Case) []string {
	out := make([]string, len(c.Lines))
	st := newC19State()
	c19CaseRunner = ociauth.ExecHelperWithEnv([]string{"PATH=/usr/bin:/bin"})
	for i, l := range c.Lines {
		t := strings.Split(l, " ")
		if len(t) < 2 || t[0] != "authfile" {
			out[i] = "bad-op"
			continue
		}
		switch {
		case t[1] == "get" && len(t) == 3:
			if _, ok := untok(t[2]); !ok {
				out[i] = "bad-op"
				continue
			}
			st.pending = append(st.pending, i)
		case t[1] == "load" && len(t) == 4:
			c19Flush(st, c.Lines, out)
			seed, err := strconv.ParseUint(t[3], 10, 64)
			if err != nil { // the seed only varies the harness's own shuffles
				seed = uint64(len(t[3]))
			}
			out[i] = guard(func() string { return c19Load(st, t[2], seed) })
		case t[1] == "json" || t[1] == "nofile":
			c19Flush(st, c.Lines, out)
			out[i] = c19Config(st, t)
		case t[1] == "exec":
			out[i] = guard(func() string { return c19Exec(t) })
		default:
			out[i] = c19Config(st, t)
		}
	}
	c19Flush(st, c.Lines, out)
	return out
}

// ---- the real helper runner ----

var c19SafeName = regexp.MustCompile(`^[A-Za-z0-9._-]+$`)
var c19SafeHost = regexp.MustCompile(`^[A-Za-z0-9.:-]*$`)

type c19HelperCreds struct {
	Username string
	Secret   string
}

// c19ExecScenario is the parsed tail of an exec line.
type c19ExecScenario struct {
	kind   string // missing | noexec | fail | done | echo
	code   int
	out    string
	bad    bool   // done: the output is not JSON for {Username, Secret}
	user   string // done creds
	secret string
}

func c19ParseExec(t []string) (name, host string, sc c19ExecScenario, ok bool) {
	if len(t) < 5 {
		return
	}
	nh, ok1 := untoks(t[2:4])
	if !ok1 || !c19SafeName.MatchString(nh[0]) {
		return
	}
	name, host = nh[0], nh[1]
	r := t[4:]
	switch {
	case len(r) == 1 && (r[0] == "missing" || r[0] == "noexec"):
		sc.kind = r[0]
	case len(r) == 1 && r[0] == "echo" && c19SafeHost.MatchString(host):
		sc.kind = "echo"
	case len(r) == 3 && r[0] == "fail":
		n, err := strconv.ParseUint(r[1], 10, 32) // digits only, as the model's toNat?
		out, ok2 := untok(r[2])
		if err != nil || !ok2 || n < 1 || n > 255 {
			return
		}
		sc = c19ExecScenario{kind: "fail", code: int(n), out: out}
	case len(r) == 3 && r[0] == "done" && r[2] == "bad":
		out, ok2 := untok(r[1])
		if !ok2 {
			return
		}
		sc = c19ExecScenario{kind: "done", out: out, bad: true}
	case len(r) == 5 && r[0] == "done" && r[2] == "creds":
		f, ok2 := untoks([]string{r[1], r[3], r[4]})
		if !ok2 {
			return
		}
		sc = c19ExecScenario{kind: "done", out: f[0], user: f[1], secret: f[2]}
	default:
		return
	}
	ok = true
	return
}

func c19Exec(t []string) string {
	name, host, sc, ok := c19ParseExec(t)
	if !ok {
		return "bad-op"
	}
	if sc.kind == "done" {
		// the line must say what encoding/json makes of the output
		var cr c19HelperCreds
		err := json.Unmarshal([]byte(sc.out), &cr)
		if (err != nil) != sc.bad || (err == nil && (cr.Username != sc.user || cr.Secret != sc.secret)) {
			return "bad-doc"
		}
	}
	c19DirSeq++
	runDir := filepath.Join(c19Root(), fmt.Sprintf("run-%d", os.Getpid()))
	dir := filepath.Join(runDir, fmt.Sprintf("bin%d", c19DirSeq))
	defer func() {
		os.RemoveAll(dir)
		os.Remove(runDir)
		os.Remove(c19Root())
	}()
	if err := os.MkdirAll(dir, 0o755); err != nil {
		return "harness-error " + err.Error()
	}
	prog := filepath.Join(dir, "docker-credential-"+name)
	var script string
	switch sc.kind {
	case "missing":
	case "noexec":
		script = "\x00\x01\x02 not a program\n"
	case "fail", "done":
		if err := os.WriteFile(prog+".out", []byte(sc.out), 0o644); err != nil {
			return "harness-error " + err.Error()
		}
		script = fmt.Sprintf("#!/bin/sh\ncat >/dev/null\ncat \"$0.out\"\nexit %d\n", sc.code)
	case "echo":
		script = "#!/bin/sh\nin=$(cat)\nprintf '{\"ServerURL\":\"%s\",\"Username\":\"%s\",\"Secret\":\"echo-secret\"}' \"$in\" \"$in\"\n"
	}
	if script != "" {
		if err := os.WriteFile(prog, []byte(script), 0o755); err != nil {
			return "harness-error " + err.Error()
		}
	}
	// exec.Command resolves the program through the PATH of this process
	old := os.Getenv("PATH")
	os.Setenv("PATH", dir)
	defer os.Setenv("PATH", old)
	if c19CaseRunner == nil {
		c19CaseRunner = ociauth.ExecHelperWithEnv([]string{"PATH=/usr/bin:/bin"})
	}
	e, err := c19CaseRunner(name, host)
	if err != nil {
		if errors.Is(err, ociauth.ErrHelperNotFound) {
			return "missing"
		}
		return "err"
	}
	return c19ShowEntry(e, nil)
}

// ---- oracle: the property stated directly on documents and outcomes ----

var c19HostRE = regexp.MustCompile(`^(?:http://|https://)?([^/]*)`)

// c19URLKeysFor lists the URL-form keys of the document for a host: keys that contain
// "//" and whose host part (an optional http:// or https:// stripped, up to the first
// "/") is the host.
func c19URLKeysFor(d c19Doc, host string) []string {
	var ks []string
	for _, k := range sortedKeys(d.Auths) {
		if strings.Contains(k, "//") && c19HostRE.FindStringSubmatch(k)[1] == host {
			ks = append(ks, k)
		}
	}
	return ks
}

// c19Expect is the property's answer for one lookup. known=false: the property does not
// determine the outcome (or only part of it: see partial).
type c19Expect struct {
	known   bool
	out     string // full expected output when known
	class   string
	oracle  string
	partial []string // when !known and non-nil: if the outcome is ok, fields 3 and 4 must be these
}

func c19ZeroOut() string { return c19ShowEntry(ociauth.ConfigEntry{}, nil) }

// c19DeclaredPair reports whether auth is the standard encoding of a declared (user, pass)
// pair that meets the side conditions of the round-trip clause.
func c19DeclaredPair(st *c19State, auth string) bool {
	for _, p := range st.b64[auth] {
		if p[0] != "" && !strings.Contains(p[0], ":") && !strings.HasPrefix(p[1], "\x00") && !strings.HasSuffix(p[1], "\x00") {
			return true
		}
	}
	return false
}

func c19EntryExpect(st *c19State, e c19Auth, class, oracle string) c19Expect {
	user, pass := e.Username, e.Password
	if e.Auth != "" {
		// Only a declared pair meeting the side conditions of the round-trip clause fixes
		// the decoded user and password.
		found := false
		for _, p := range st.b64[e.Auth] {
			u, pw := p[0], p[1]
			if u != "" && !strings.Contains(u, ":") && !strings.HasPrefix(pw, "\x00") && !strings.HasSuffix(pw, "\x00") {
				user, pass, found = u, pw, true
				class, oracle = class+"+auth", oracle+"+auth_roundtrip"
				break
			}
		}
		if !found {
			// a password that BEGINS with a NUL byte is inside the property's quantifier (only a trailing NUL is excluded):
			// the decoder strips leading NULs as well (finding F35, a class of its own so that nothing else hides behind it)
			for _, p := range st.b64[e.Auth] {
				u, pw := p[0], p[1]
				if u != "" && !strings.Contains(u, ":") && strings.HasPrefix(pw, "\x00") && !strings.HasSuffix(pw, "\x00") {
					user, pass, found = u, pw, true
					class, oracle = "c19-auth-leading-nul", "auth_roundtrip"
					break
				}
			}
		}
		if !found {
			return c19Expect{class: class, oracle: oracle, partial: []string{tok(e.IdentityToken), tok(e.RegistryToken)}}
		}
	}
	if e.IdentityToken != "" && user != "" {
		return c19Expect{class: class, oracle: oracle} // ambiguous credentials: not part of the property
	}
	return c19Expect{known: true, class: class, oracle: oracle,
		out: c19ShowEntry(ociauth.ConfigEntry{Username: user, Password: pass, RefreshToken: e.IdentityToken, AccessToken: e.RegistryToken}, nil)}
}

func c19TableExpect(st *c19State, host, prefix string) c19Expect {
	urls := c19URLKeysFor(st.doc, host)
	if e, ok := st.doc.Auths[host]; ok {
		if len(urls) > 0 {
			return c19EntryExpect(st, e, prefix+"c19-explicit-wins", "explicit_wins")
		}
		return c19EntryExpect(st, e, prefix+"c19-explicit", "explicit_entry")
	}
	switch len(urls) {
	case 0:
		return c19Expect{known: true, out: c19ZeroOut(), class: prefix + "c19-absent", oracle: "absent_host_zero_entry"}
	case 1:
		return c19EntryExpect(st, st.doc.Auths[urls[0]], prefix+"c19-derived", "single_url_key")
	}
	return c19Expect{known: true, out: "err", class: prefix + "c19-collision", oracle: "collision_fails"}
}

func c19BehOut(b c19Beh) string {
	switch b.kind {
	case "ok":
		return c19ShowEntry(b.entry, nil)
	case "missing", "error":
		return "err"
	}
	return c19ZeroOut()
}

func c19LookupExpect(st *c19State, host string) c19Expect {
	beh := func(name string) c19Beh {
		if b, ok := st.runsAt[[2]string{name, host}]; ok {
			return b
		}
		return c19Beh{kind: "notfound"}
	}
	if name, ok := st.doc.CredHelpers[host]; ok {
		if name == "" {
			return c19Expect{class: "c19-perhost-empty-name"} // the property does not say
		}
		return c19Expect{known: true, out: c19BehOut(beh(name)), class: "c19-precedence-perhost:" + beh(name).kind, oracle: "per_host_helper_is_final"}
	}
	if st.doc.CredsStore != "" {
		b := beh(st.doc.CredsStore)
		if b.kind != "missing" {
			return c19Expect{known: true, out: c19BehOut(b), class: "c19-precedence-store:" + b.kind, oracle: "default_store_is_final"}
		}
		return c19TableExpect(st, host, "c19-store-fallback:")
	}
	return c19TableExpect(st, host, "")
}

// c19Stats counts oracle evaluations per clause when VERIF_C19_STATS is set (debugging aid:
// the table is printed to stderr after every 1000 cases).
var c19Stats = func() map[string]int {
	if os.Getenv("VERIF_C19_STATS") != "" {
		return map[string]int{}
	}
	return nil
}()
var c19StatsN int

func (*c19) Oracle(c Case, impl []string) []Failure {
	var fs []Failure
	if c19Stats != nil {
		c19StatsN++
		if c19StatsN%1000 == 0 {
			for _, k := range sortedKeys(c19Stats) {
				fmt.Fprintf(os.Stderr, "c19stats %6d %s\n", c19Stats[k], k)
			}
			fmt.Fprintln(os.Stderr, "c19stats ----", c19StatsN)
		}
	}
	st := newC19State()
	for i, l := range c.Lines {
		if i >= len(impl) {
			break
		}
		got := impl[i]
		fail := func(class, oracle, exp, detail string) {
			fs = append(fs, Failure{Class: class, Oracle: oracle, Index: i, Expected: exp, Observed: got, Detail: detail})
		}
		if got == "panic" {
			fail("c19-panic", "total", "no panic", lastPanic)
		}
		t := strings.Split(l, " ")
		if len(t) < 2 || t[0] != "authfile" {
			continue
		}
		switch {
		case t[1] == "load" && len(t) == 4:
			st.loaded, st.loadOK = true, got == "ok"
			st.runsAt = map[[2]string]c19Beh{}
			for k, v := range st.runs {
				st.runsAt[k] = v
			}
			if strings.HasPrefix(got, "nondet") {
				fail("c19-nondeterministic-load", "load_deterministic", "the same outcome for every decoding", "")
			} else if got == "err" && st.started && !st.noFile && st.parsed && !st.parseErr {
				// every auth field is base64(user:pass) for a declared pair meeting the side
				// conditions of the round-trip clause: each decodes, so the file must load
				valid := true
				for _, e := range st.doc.Auths {
					if e.Auth != "" && !c19DeclaredPair(st, e.Auth) {
						valid = false
					}
				}
				if valid {
					fail("c19-load-valid-auth", "auth_roundtrip_loads", "ok", "")
				}
			}
		case t[1] == "get" && len(t) == 3:
			host, ok := untok(t[2])
			if !ok {
				continue
			}
			if strings.HasPrefix(got, "nondet") {
				fail("c19-nondeterministic-lookup", "lookup_deterministic", "the same outcome for every decoding and lookup order", "")
				continue
			}
			if !st.loaded || !st.loadOK || got == "noload" || got == "bad-doc" {
				continue
			}
			exp := c19LookupExpect(st, host)
			if c19Stats != nil {
				k := exp.class
				if !exp.known {
					k += " (not determined)"
					if exp.partial != nil {
						k += " tokens only"
					}
				}
				c19Stats[k+" -> "+strings.SplitN(got, " ", 2)[0]]++
			}
			switch {
			case exp.known && got != exp.out:
				fail(exp.class, exp.oracle, exp.out, "")
			case !exp.known && exp.partial != nil && strings.HasPrefix(got, "ok "):
				f := strings.Split(got, " ")
				if len(f) != 5 || f[3] != exp.partial[0] || f[4] != exp.partial[1] {
					fail(exp.class+":tokens", exp.oracle, "ok * * "+exp.partial[0]+" "+exp.partial[1], "")
				}
			}
		case t[1] == "exec":
			// the helper protocol as HelperRunner documents it
			_, host, sc, ok := c19ParseExec(t)
			if !ok || got == "bad-doc" {
				continue
			}
			switch {
			case sc.kind == "missing" && got != "missing":
				fail("c19-exec-missing", "missing_helper_is_ErrHelperNotFound", "missing", "")
			case sc.kind != "missing" && got == "missing":
				fail("c19-exec-not-missing", "only_a_missing_helper_is_ErrHelperNotFound", "not missing", "")
			case sc.kind == "echo" && got != c19ShowEntry(ociauth.ConfigEntry{Username: host, Password: "echo-secret"}, nil):
				fail("c19-exec-stdin", "helper_receives_the_host", c19ShowEntry(ociauth.ConfigEntry{Username: host, Password: "echo-secret"}, nil), "")
			case sc.kind == "fail" && sc.out == "credentials not found in native keychain" && got != c19ZeroOut():
				fail("c19-exec-notfound", "credentials_not_found_is_zero_entry", c19ZeroOut(), "")
			case sc.kind == "done" && !sc.bad && sc.user == "<token>" && got != c19ShowEntry(ociauth.ConfigEntry{RefreshToken: sc.secret}, nil):
				fail("c19-exec-token", "token_user_is_refresh_token", c19ShowEntry(ociauth.ConfigEntry{RefreshToken: sc.secret}, nil), "")
			case sc.kind == "done" && !sc.bad && sc.user != "<token>" && got != c19ShowEntry(ociauth.ConfigEntry{Username: sc.user, Password: sc.secret}, nil):
				fail("c19-exec-creds", "credentials_are_user_and_secret", c19ShowEntry(ociauth.ConfigEntry{Username: sc.user, Password: sc.secret}, nil), "")
			}
		default:
			c19Config(st, t)
		}
	}
	return fs
}

func (*c19) NonTrivial(c Case, impl []string) (bool, string) {
	bucket := c.Tag
	if i := strings.IndexByte(bucket, ':'); i >= 0 && !strings.HasPrefix(bucket, "corpus") {
		bucket = bucket[:i]
	}
	if bucket == "" {
		bucket = "untagged"
	}
	loaded, interesting := false, false
	for i, l := range c.Lines {
		if i >= len(impl) {
			break
		}
		if strings.HasPrefix(l, "authfile load ") && impl[i] == "ok" {
			loaded = true
		}
		if strings.HasPrefix(l, "authfile get ") && impl[i] != "noload" && impl[i] != c19ZeroOut() {
			interesting = true
		}
		if strings.HasPrefix(l, "authfile exec ") && impl[i] != "bad-op" && impl[i] != "bad-doc" {
			loaded, interesting = true, true
		}
	}
	return loaded && interesting, bucket
}

// ---- generation ----

// c19GenEntry is one member of the "auths" object as it will be written.
type c19GenEntry struct {
	key    string
	fields [][2]string // (JSON field name as written, value)
	rawVal string      // when non-empty: written instead of an object (malformed stream)
}

type c19Gen struct {
	rng     *RNG
	entries []c19GenEntry
	store   string
	helpers [][2]string
	runs    []string // "run" lines
	b64s    [][2]string
	hosts   []string
	quirks  bool
}

var c19Hosts = []string{"h.example", "g.example:5000", "localhost", "a", "docker.io", "index.docker.io", "H.example", "reg.example.com", "10.0.0.1:443", "x"}
var c19Users = []string{"u", "user", "alice", "a b", "ü", "u\x00", "_json_key", "<token>", "u/v", "\xff\xfe"}
var c19Passes = []string{"p", "", "pass:word", "p\x00q", "secret/+=", "päss", "pw ", ":", "\xff", "a\x00\x00b"}
var c19HelperNames = []string{"store", "osxkeychain", "ecr-login", "gcloud", "s"}

// c19URLForms returns the key spellings that derive (or look as if they derive) host.
func c19URLForms(host string) []string {
	return []string{
		"https://" + host, "http://" + host, "https://" + host + "/", "https://" + host + "/v1/", "http://" + host + "/v2/x",
		"https://" + host + "//", host + "//x", host + "//", "https://" + host + "/a//b",
	}
}

// keys containing "//" whose host is not what a reader might expect
func c19OddForms(host string) []string {
	return []string{"//" + host, "ftp://" + host + "/x", "HTTP://" + host, "http://https://" + host, "https:///" + host, "https://", "//", host + "/", host + "/v1", " https://" + host}
}

func (g *c19Gen) fieldName(n string) string {
	if g.quirks && g.rng.Chance(1, 6) {
		switch g.rng.Intn(3) {
		case 0:
			return strings.ToUpper(n)
		case 1:
			return strings.ToUpper(n[:1]) + n[1:]
		}
		return strings.ToLower(n)
	}
	return n
}

// creds appends credential fields of a random kind; valid says whether the load can succeed.
func (g *c19Gen) creds(kind int) [][2]string {
	r := g.rng
	user, pass := pick(r, c19Users), pick(r, c19Passes)
	enc := func(s string) string { return base64.StdEncoding.EncodeToString([]byte(s)) }
	cleanUser := func() string {
		for {
			u := pick(r, c19Users)
			if !strings.Contains(u, ":") {
				return u
			}
		}
	}
	cleanPass := func() string {
		for {
			p := pick(r, c19Passes)
			if !strings.HasPrefix(p, "\x00") && !strings.HasSuffix(p, "\x00") {
				return p
			}
		}
	}
	var f [][2]string
	add := func(n, v string) { f = append(f, [2]string{g.fieldName(n), v}) }
	switch kind {
	case 0: // username/password
		add("username", user)
		add("password", pass)
	case 1: // auth, round-trip side conditions hold
		u, p := cleanUser(), cleanPass()
		g.b64s = append(g.b64s, [2]string{u, p})
		add("auth", enc(u+":"+p))
	case 2: // auth edge cases that still decode
		var u, p string
		switch r.Intn(6) {
		case 0:
			u, p = cleanUser(), ""
		case 1:
			u, p = cleanUser(), "\x00"+pick(r, c19Passes)
		case 2:
			u, p = cleanUser(), pick(r, c19Passes)+"\x00\x00"
		case 3:
			u, p = cleanUser(), "\x00\x00"
		case 4:
			u, p = cleanUser(), "a:b:c"
		default:
			u, p = cleanUser(), string(r.Bytes(1+r.Intn(5)))
		}
		g.b64s = append(g.b64s, [2]string{u, p})
		a := enc(u + ":" + p)
		switch r.Intn(5) {
		case 0: // newlines are skipped by Go's decoder
			k := r.Intn(len(a) + 1)
			a = a[:k] + "\n" + a[k:]
		case 1:
			a += "\r\n"
		case 2: // non-canonical trailing bits before padding are accepted (StdEncoding is not strict)
			const alpha = "ABCDEFGHIJKLMNOPQRSTUVWXYZabcdefghijklmnopqrstuvwxyz0123456789+/"
			if strings.HasSuffix(a, "==") {
				i := strings.IndexByte(alpha, a[len(a)-3])
				a = a[:len(a)-3] + string(alpha[i|r.Intn(16)]) + "=="
			} else if strings.HasSuffix(a, "=") {
				i := strings.IndexByte(alpha, a[len(a)-2])
				a = a[:len(a)-2] + string(alpha[i|r.Intn(4)]) + "="
			}
		}
		add("auth", a)
	case 3: // auth that must not decode
		bad := []string{enc("nocolon"), enc(":pw"), enc(":"), "!!!!", "dTpw=", "dTp", "dTpwx", "d=pw", "dTpw====", "=", "dT pw", enc("u:p") + "x", "dTpw\x00", "ZHRw*A=="}
		add("auth", pick(r, bad))
	case 4: // identity token
		add("identitytoken", "idtok-"+pick(r, c19Users))
	case 5: // registry token
		add("registrytoken", "regtok")
	case 6: // identity token + username: ambiguous
		add("identitytoken", "idtok")
		add("username", user)
		if r.Bool() {
			add("password", pass)
		}
	case 7: // identity token + auth: ambiguous once decoded
		u, p := cleanUser(), cleanPass()
		g.b64s = append(g.b64s, [2]string{u, p})
		add("auth", enc(u+":"+p))
		add("identitytoken", "idtok")
	case 8: // auth overrides username/password
		u, p := cleanUser(), cleanPass()
		g.b64s = append(g.b64s, [2]string{u, p})
		add("username", user)
		add("password", pass)
		add("auth", enc(u+":"+p))
	case 9: // empty entry
	case 10: // everything but identity token
		add("username", user)
		add("password", pass)
		add("registrytoken", "regtok2")
	case 11: // password only, tokens
		add("password", pass)
		add("identitytoken", "idtok3")
		add("registrytoken", "regtok3")
	}
	if g.quirks && r.Chance(1, 8) {
		f = append(f, [2]string{"email", "x@example.com"})
	}
	if g.quirks && r.Chance(1, 10) {
		f = append(f, [2]string{"derivedFrom", "zzz"})
	}
	return f
}

var c19GoodKinds = []int{0, 0, 0, 1, 1, 1, 2, 4, 5, 8, 9, 10, 11}
var c19AnyKinds = []int{0, 0, 1, 1, 2, 2, 3, 4, 5, 6, 7, 8, 9, 10, 11}

func (g *c19Gen) add(key string, kinds []int) {
	g.entries = append(g.entries, c19GenEntry{key: key, fields: g.creds(pick(g.rng, kinds))})
}

func (g *c19Gen) lookup(hosts ...string) { g.hosts = append(g.hosts, hosts...) }

func (g *c19Gen) behaviour(name, host string, kind int) {
	r := g.rng
	l := "authfile run " + tok(name) + " " + tok(host) + " "
	switch kind {
	case 0:
		l += "ok " + tok(pick(r, c19Users)) + " " + tok(pick(r, c19Passes)) + " x x"
	case 1: // "<token>" user: the secret is a refresh token
		l += "ok x x " + tok("refresh-"+pick(r, c19Passes)) + " x"
	case 2:
		l += "notfound"
	case 3:
		l += "missing"
	case 4:
		l += "error"
	default: // a runner may fill every field
		l += "ok " + tok(pick(r, c19Users)) + " " + tok(pick(r, c19Passes)) + " " + tok("r") + " " + tok("a")
	}
	g.runs = append(g.runs, l)
}

// raw writes the document text.
func (g *c19Gen) raw() string {
	r := g.rng
	str := func(s string) string {
		b, _ := json.Marshal(s)
		if g.quirks && r.Chance(1, 10) { // \u escapes for every byte of an ASCII string
			ascii := true
			for i := 0; i < len(s); i++ {
				if s[i] >= 0x80 {
					ascii = false
				}
			}
			if ascii {
				var sb strings.Builder
				sb.WriteByte('"')
				for i := 0; i < len(s); i++ {
					fmt.Fprintf(&sb, "\\u%04x", s[i])
				}
				sb.WriteByte('"')
				return sb.String()
			}
		}
		return string(b)
	}
	sp := func() string {
		if g.quirks && r.Chance(1, 4) {
			return pick(r, []string{" ", "\n", "\t", "  "})
		}
		return ""
	}
	var members []string
	for _, e := range g.entries {
		if e.rawVal != "" {
			members = append(members, str(e.key)+":"+e.rawVal)
			continue
		}
		var fs []string
		for _, f := range e.fields {
			fs = append(fs, sp()+str(f[0])+sp()+":"+sp()+str(f[1]))
		}
		members = append(members, sp()+str(e.key)+":"+sp()+"{"+strings.Join(fs, ",")+sp()+"}")
	}
	var top []string
	if len(members) > 0 || r.Chance(3, 4) {
		top = append(top, str(g.fieldName("auths"))+":{"+strings.Join(members, ",")+"}")
	}
	if g.store != "" || r.Chance(1, 10) {
		top = append(top, str(g.fieldName("credsStore"))+":"+sp()+str(g.store))
	}
	if len(g.helpers) > 0 || r.Chance(1, 10) {
		var hs []string
		for _, h := range g.helpers {
			hs = append(hs, str(h[0])+":"+str(h[1]))
		}
		top = append(top, str(g.fieldName("credHelpers"))+":{"+strings.Join(hs, ",")+"}")
	}
	if g.quirks && r.Chance(1, 3) {
		top = append(top, pick(r, []string{`"HttpHeaders":{"User-Agent":"x"}`, `"experimental":"enabled"`, `"currentContext":null`, `"psFormat":[1,2,{"a":null}]`}))
	}
	// member order is part of the input: it decides the map insertion order
	p := r.Perm(len(top))
	ordered := make([]string, len(top))
	for i, j := range p {
		ordered[i] = top[j]
	}
	return sp() + "{" + strings.Join(ordered, ","+sp()) + "}" + sp()
}

// c19Case turns a raw text plus the rest of the scenario into protocol lines.
func c19Case(rng *RNG, tag, raw string, runs []string, b64s [][2]string, hosts []string, withOrder bool) Case {
	ls := []string{"authfile json " + tok(raw)}
	doc, err := c19ParseOwn(raw)
	if err != nil {
		ls = append(ls, "authfile parsed err")
	} else {
		ls = append(ls, "authfile parsed ok "+tok(doc.CredsStore))
		keys := sortedKeys(doc.Auths)
		for _, k := range keys {
			a := doc.Auths[k]
			ls = append(ls, "authfile auth "+tok(k)+" "+tok(a.Username)+" "+tok(a.Password)+" "+tok(a.Auth)+" "+tok(a.IdentityToken)+" "+tok(a.RegistryToken))
		}
		for _, h := range sortedKeys(doc.CredHelpers) {
			ls = append(ls, "authfile helper "+tok(h)+" "+tok(doc.CredHelpers[h]))
		}
		if withOrder && len(keys) > 0 {
			// an admissible visiting sequence for the model: a permutation of the keys, with
			// hosts the loop may have inserted sprinkled in (before or after their insertion)
			var seq []string
			for _, i := range rng.Perm(len(keys)) {
				seq = append(seq, keys[i])
			}
			extra := rng.Intn(4)
			for j := 0; j < extra; j++ {
				h := c19HostRE.FindStringSubmatch(pick(rng, keys))[1]
				if _, isKey := doc.Auths[h]; isKey {
					continue
				}
				at := rng.Intn(len(seq) + 1)
				seq = append(seq[:at], append([]string{h}, seq[at:]...)...)
			}
			l := "authfile order"
			for _, k := range seq {
				l += " " + tok(k)
			}
			ls = append(ls, l)
		}
	}
	ls = append(ls, runs...)
	for _, p := range b64s {
		ls = append(ls, "authfile b64 "+tok(p[0])+" "+tok(p[1]))
	}
	ls = append(ls, fmt.Sprintf("authfile load %s %d", pick(rng, []string{"docker", "docker", "docker", "home", "xdg"}), rng.Uint64()>>1))
	seen := map[string]bool{}
	for _, h := range hosts {
		if !seen[h] {
			seen[h] = true
			ls = append(ls, "authfile get "+tok(h))
		}
	}
	return Case{Tag: tag, Lines: ls}
}

func (g *c19Gen) finish(tag string) Case {
	r := g.rng
	// entries in shuffled order
	p := r.Perm(len(g.entries))
	es := make([]c19GenEntry, len(g.entries))
	for i, j := range p {
		es[i] = g.entries[j]
	}
	g.entries = es
	// always look up something that is not there, and a URL-form key itself now and then
	g.lookup("absent.example")
	if len(g.entries) > 0 && r.Chance(1, 3) {
		g.lookup(pick(r, g.entries).key)
	}
	return c19Case(r, tag, g.raw(), g.runs, g.b64s, g.hosts, r.Bool())
}

func (g *c19Gen) helperSetup(hosts []string) {
	r := g.rng
	switch r.Intn(4) {
	case 0:
		g.store = pick(r, c19HelperNames)
	case 1:
		g.store = pick(r, c19HelperNames)
		fallthrough
	case 2:
		for _, h := range hosts {
			if r.Chance(1, 2) {
				name := pick(r, c19HelperNames)
				if r.Chance(1, 8) {
					name = ""
				}
				g.helpers = append(g.helpers, [2]string{h, name})
			}
		}
	}
	names := map[string]bool{}
	if g.store != "" {
		if r.Chance(1, 3) { // the default store's helper binary is missing: the table is used
			for _, h := range hosts {
				g.behaviour(g.store, h, 3)
			}
		} else {
			names[g.store] = true
		}
	}
	for _, h := range g.helpers {
		if h[1] != "" {
			names[h[1]] = true
		}
	}
	for _, n := range sortedKeys(names) {
		for _, h := range hosts {
			if r.Chance(4, 5) {
				g.behaviour(n, h, r.Intn(6))
			}
		}
	}
}

func (*c19) Gen(rng *RNG, tier string) []Case {
	var cases []Case
	scale := 2
	if tier == "thorough" {
		scale = 30
	}
	newGen := func() *c19Gen { return &c19Gen{rng: rng, quirks: rng.Chance(1, 3)} }
	hostPick := func(n int) []string {
		p := rng.Perm(len(c19Hosts))
		var hs []string
		for i := 0; i < n && i < len(p); i++ {
			hs = append(hs, c19Hosts[p[i]])
		}
		return hs
	}

	// No config file at all: the zero entry for everything, helpers never consulted.
	cases = append(cases, Case{Tag: "nofile", Lines: []string{"authfile nofile", "authfile load docker 1", "authfile get " + tok("h.example"), "authfile get x"}})
	cases = append(cases, Case{Tag: "nofile", Lines: []string{"authfile get " + tok("h.example"), "authfile nofile", "authfile load xdg 2", "authfile get " + tok("h.example")}})

	// 0. a default store next to a host mapped to the empty helper (the docker CLI's way of saying "no helper
	// for this host"): that host is answered from the table, whatever the store would say
	for i := 0; i < 10*scale; i++ {
		g := newGen()
		hs := hostPick(2 + rng.Intn(2))
		for _, h := range hs {
			g.add(h, c19GoodKinds)
		}
		g.store = pick(rng, c19HelperNames)
		g.helpers = append(g.helpers, [2]string{hs[0], ""})
		for _, h := range hs {
			g.behaviour(g.store, h, pick(rng, []int{0, 0, 1, 5}))
		}
		g.lookup(hs...)
		cases = append(cases, g.finish("empty-helper"))
	}
	// 1. plain host keys
	for i := 0; i < 250*scale; i++ {
		g := newGen()
		hs := hostPick(1 + rng.Intn(4))
		for _, h := range hs {
			g.add(h, c19GoodKinds)
		}
		if rng.Chance(1, 2) {
			// the same host name with another port (or none): another registry, which has no entry of its own unless it
			// happens to be in the file too (seed C11-16: a fallback from host:port to the bare host)
			sib := hs[0] + ":5000"
			if i := strings.LastIndexByte(hs[0], ':'); i >= 0 {
				sib = hs[0][:i]
				if rng.Bool() {
					sib += ":8443"
				}
			}
			hs = append(hs, sib)
		}
		g.lookup(hs...)
		cases = append(cases, g.finish("plain"))
	}
	// 2. one URL-form key per host
	for i := 0; i < 300*scale; i++ {
		g := newGen()
		hs := hostPick(1 + rng.Intn(3))
		for _, h := range hs {
			g.add(pick(rng, c19URLForms(h)), c19GoodKinds)
		}
		g.lookup(hs...)
		cases = append(cases, g.finish("derived"))
	}
	// 3. colliding URL-form keys, no explicit entry
	for i := 0; i < 400*scale; i++ {
		g := newGen()
		hs := hostPick(1 + rng.Intn(3))
		for j, h := range hs {
			forms := c19URLForms(h)
			n := 2 + rng.Intn(3)
			if j > 0 && rng.Bool() {
				n = 1
			}
			for _, k := range rng.Perm(len(forms))[:n] {
				g.add(forms[k], c19GoodKinds)
			}
		}
		g.lookup(hs...)
		cases = append(cases, g.finish("collision"))
	}
	// 4. explicit entry next to URL-form keys
	for i := 0; i < 400*scale; i++ {
		g := newGen()
		hs := hostPick(1 + rng.Intn(3))
		for j, h := range hs {
			forms := c19URLForms(h)
			n := 1 + rng.Intn(3)
			for _, k := range rng.Perm(len(forms))[:n] {
				g.add(forms[k], c19GoodKinds)
			}
			if j == 0 || rng.Bool() {
				g.add(h, c19GoodKinds)
			}
		}
		g.lookup(hs...)
		cases = append(cases, g.finish("explicit+url"))
	}
	// 5. helpers: per-host, default store, the five behaviours, with a table underneath
	for i := 0; i < 600*scale; i++ {
		g := newGen()
		hs := hostPick(1 + rng.Intn(4))
		for _, h := range hs {
			switch rng.Intn(5) {
			case 0:
			case 1:
				g.add(h, c19GoodKinds)
			case 2:
				g.add(pick(rng, c19URLForms(h)), c19GoodKinds)
			case 3:
				forms := c19URLForms(h)
				for _, k := range rng.Perm(len(forms))[:2] {
					g.add(forms[k], c19GoodKinds)
				}
			case 4:
				g.add(h, c19GoodKinds)
				g.add(pick(rng, c19URLForms(h)), c19GoodKinds)
			}
		}
		g.helperSetup(append(hs, "absent.example"))
		g.lookup(hs...)
		cases = append(cases, g.finish("helpers"))
	}
	// 6. auth edge cases (some make the load fail), ambiguous entries, odd key spellings
	for i := 0; i < 500*scale; i++ {
		g := newGen()
		hs := hostPick(1 + rng.Intn(3))
		for _, h := range hs {
			switch rng.Intn(4) {
			case 0:
				g.add(h, c19AnyKinds)
			case 1:
				g.add(pick(rng, c19URLForms(h)), c19AnyKinds)
			case 2:
				k := pick(rng, c19OddForms(h))
				g.add(k, c19GoodKinds)
				g.lookup(c19HostRE.FindStringSubmatch(k)[1])
			case 3:
				g.add(h, c19GoodKinds)
				g.add(pick(rng, c19URLForms(h)), c19AnyKinds)
			}
		}
		if rng.Chance(1, 4) {
			g.helperSetup(hs)
		}
		g.lookup(hs...)
		g.lookup("", "https:", "ftp:", "HTTP:")
		cases = append(cases, g.finish("edge"))
	}
	// 7. many keys: the map has several buckets and grows while it is ranged over
	for i := 0; i < 150*scale; i++ {
		g := newGen()
		hs := hostPick(3 + rng.Intn(7))
		for _, h := range hs {
			forms := c19URLForms(h)
			n := rng.Intn(4)
			for _, k := range rng.Perm(len(forms))[:n] {
				g.add(forms[k], c19GoodKinds)
			}
			if rng.Chance(1, 3) {
				g.add(h, c19GoodKinds)
			}
		}
		for j := rng.Intn(12); j > 0; j-- {
			g.add(fmt.Sprintf("https://extra%d.example/v%d/", j, rng.Intn(3)), c19GoodKinds)
			g.lookup(fmt.Sprintf("extra%d.example", j))
		}
		if rng.Chance(1, 5) {
			g.helperSetup(hs)
		}
		g.lookup(hs...)
		cases = append(cases, g.finish("big"))
	}
	// 8. malformed stream: broken JSON, wrong types, mutated text, duplicate members
	for i := 0; i < 300*scale; i++ {
		g := newGen()
		g.quirks = true
		hs := hostPick(1 + rng.Intn(3))
		for _, h := range hs {
			g.add(h, c19AnyKinds)
			if rng.Bool() {
				g.add(pick(rng, c19URLForms(h)), c19AnyKinds)
			}
		}
		switch rng.Intn(6) {
		case 0: // a member that is not an object
			g.entries = append(g.entries, c19GenEntry{key: pick(rng, hs), rawVal: pick(rng, []string{"null", "5", `"str"`, "[]", "true", `{"auth":5}`, `{"username":null}`, `{"auth":null,"identitytoken":"t"}`})})
		case 1: // duplicate member (the later one wins in encoding/json)
			g.add(g.entries[0].key, c19AnyKinds)
		case 2: // duplicate field inside an entry
			e := &g.entries[0]
			e.fields = append(e.fields, [2]string{"username", "second"})
		}
		if rng.Chance(1, 3) {
			g.helperSetup(hs)
		}
		g.lookup(hs...)
		c := g.finish("malformed")
		raw, _ := untok(strings.Split(c.Lines[0], " ")[2])
		switch rng.Intn(5) {
		case 0: // truncate
			raw = raw[:rng.Intn(len(raw)+1)]
		case 1: // flip a byte
			if len(raw) > 0 {
				b := []byte(raw)
				b[rng.Intn(len(b))] = byte(rng.Uint64())
				raw = string(b)
			}
		case 2:
			raw = pick(rng, []string{"", "null", "[]", "{", `{"auths":[]}`, `{"auths":null}`, `{"auths":{"h":null}}`, `{"credsStore":5}`, `{"credHelpers":{"h":5}}`, `{"auths":{}}{}`, "\xef\xbb\xbf{}", `{"auths":{"h.example":{"auth":"dTpw"}},"auths":{"g":{"username":"x"}}}`})
		}
		// the parsed lines must describe the final text: rebuild them
		var runs []string
		var b64s [][2]string
		var hosts []string
		for _, l := range c.Lines {
			switch {
			case strings.HasPrefix(l, "authfile run "):
				runs = append(runs, l)
			case strings.HasPrefix(l, "authfile b64 "):
				t := strings.Split(l, " ")
				u, _ := untok(t[2])
				p, _ := untok(t[3])
				b64s = append(b64s, [2]string{u, p})
			case strings.HasPrefix(l, "authfile get "):
				h, _ := untok(strings.Split(l, " ")[2])
				hosts = append(hosts, h)
			}
		}
		cases = append(cases, c19Case(rng, "malformed", raw, runs, b64s, hosts, rng.Bool()))
	}
	// 9. the real helper runner against real programs
	execOuts := []string{"credentials not found in native keychain", "credentials not found in native keychain\n", " \tcredentials not found in native keychain\r\n",
		"credentials not found in native keychain\u00a0", "\u2003credentials not found in native keychain\u3000\u0085", "credentials not found in native keychain\x85",
		"credentials not found in native keychainx", "Error: credentials not found in native keychain", "", "boom", "credentials not found", "\xe2\x80credentials not found in native keychain",
		"credentials not found in native keychain\xe2\x80\xa8\n", "credentials not found in native keychain\xc2"}
	doneOuts := []string{`{"Username":"u","Secret":"p"}`, `{"ServerURL":"h","Username":"<token>","Secret":"tok"}`, `{"username":"alice","secret":"s3"}`, `{}`, "not json", "",
		`{"Username":5}`, `{"Username":"u","Secret":"p"} x`, "null", `{"Username":"<token>"}`, `{"Username":"","Secret":"only"}`, `{"Username":"<Token>","Secret":"t"}`, `{"Username":"a\u0000b","Secret":"p\n"}`, "[]",
		`{"Username":"u","Secret":"p"}` + "\n"}
	doneLine := func(out string) string {
		var cr c19HelperCreds
		if err := json.Unmarshal([]byte(out), &cr); err != nil {
			return "done " + tok(out) + " bad"
		}
		return "done " + tok(out) + " creds " + tok(cr.Username) + " " + tok(cr.Secret)
	}
	// every listed output once, whatever the seed
	for _, o := range execOuts {
		cases = append(cases, Case{Tag: "exec", Lines: []string{"authfile exec " + tok("store") + " " + tok("h.example") + " fail 1 " + tok(o)}})
	}
	for _, o := range doneOuts {
		cases = append(cases, Case{Tag: "exec", Lines: []string{"authfile exec " + tok("store") + " " + tok("h.example") + " " + doneLine(o)}})
	}
	cases = append(cases, Case{Tag: "exec", Lines: []string{"authfile exec x73 x68 missing", "authfile exec x73 x68 noexec", "authfile exec x73 " + tok("g.example:5000") + " echo", "authfile exec x73 x echo"}})
	// one runner, several lookups: each outcome followed by each other one
	seqOuts := []string{"fail 1 " + tok("credentials not found in native keychain"), "fail 2 " + tok("boom"), doneLine(`{"Username":"u","Secret":"p"}`), doneLine("not json"), "missing", "echo"}
	for _, a := range seqOuts {
		for _, b := range seqOuts {
			pre := "authfile exec " + tok("store") + " " + tok("h.example") + " "
			cases = append(cases, Case{Tag: "exec-seq", Lines: []string{pre + a, pre + b, pre + a}})
		}
	}
	for i := 0; i < 15*scale; i++ {
		var ls []string
		for j := 1 + rng.Intn(4); j > 0; j-- {
			l := "authfile exec " + tok(pick(rng, c19HelperNames)) + " " + tok(pick(rng, c19Hosts)) + " "
			switch rng.Intn(6) {
			case 0:
				l += "missing"
			case 1:
				l += "echo"
			case 2, 3:
				l += fmt.Sprintf("fail %d %s", 1+rng.Intn(3), tok(pick(rng, execOuts)))
			case 4:
				if rng.Chance(1, 4) {
					l += "noexec"
					break
				}
				fallthrough
			default:
				l += doneLine(pick(rng, doneOuts))
			}
			ls = append(ls, l)
		}
		cases = append(cases, Case{Tag: "exec", Lines: ls})
	}
	// malformed protocol lines: both sides must refuse them the same way
	cases = append(cases, Case{Tag: "malformed", Lines: []string{"authfile", "authfile get", "authfile get zz", "authfile auth x x", "authfile run x x maybe", "authfile load docker", "authfile load docker x1", "authfile b64 x", "authfile helper x", "authfile parsed", "authfile order q", "authfile json",
		"authfile exec x2f x missing", "authfile exec x73 x2f echo", "authfile exec x73 x fail 0 x", "authfile exec x73 x fail 256 x", "authfile exec x73 x fail +1 x", "authfile exec x73 x done x", "authfile exec x73 x", "authfile exec x x missing"}})
	return cases
}
