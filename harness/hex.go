package main

import "encoding/hex"

// tok encodes an arbitrary Go string as a protocol token.
func tok(s string) string { return "x" + hex.EncodeToString([]byte(s)) }

func untok(t string) (string, bool) {
	if len(t) == 0 || t[0] != 'x' {
		return "", false
	}
	b, err := hex.DecodeString(t[1:])
	if err != nil {
		return "", false
	}
	return string(b), true
}
