package main

import (
	"fmt"
)

// C14 (in-memory part): immutable-tags mode holds for every history. The engine
// is the ocimem engine restricted to ImmutableTags, plus directed histories that
// build tagged reference chains and then try every delete.

func init() { engines["C14"] = func() Engine { return &memEngine{prop: "C14"} } }

func c14Directed(rng *RNG) []Case {
	var cases []Case
	u := newMemUniverse(rng, false)
	byName := map[string]memManifest{}
	for _, m := range u.manifests {
		byName[m.name] = m
	}
	pushBlobs := func(repo string) []string {
		var ls []string
		for _, b := range u.blobs {
			ls = append(ls, linePushBlob(repo, "application/octet-stream", sha256Digest(b), int64(len(b)), b))
		}
		return ls
	}
	// chains: which manifests to push (in order), which one gets the tag
	chains := [][]string{
		{"m1"}, {"m1", "i1"}, {"m1", "m2", "i1", "i2"}, {"m1", "i3-wrongtype"}, {"m1", "m2"}, {"m3-layer3", "m1", "i1"}, {"opaque"},
		{"docker-child", "opaque", "m1", "i-foreign"},
		{"m1", "m4-layers-subject"},
		{"m1", "art-carrying-m1", "i-shared-bytes"},
		{"artifact-empty-config"},
		{"artifact-empty-config-only", "artifact-empty-config"},
	}
	for _, chain := range chains {
		for tagged := range chain {
			lines := []string{"mem init 1"}
			lines = append(lines, pushBlobs("a")...)
			for j, name := range chain {
				m := byName[name]
				tag := ""
				if j == tagged {
					tag = "latest"
				}
				lines = append(lines, linePushManifest("a", tag, m.data, m.mt))
			}
			// try to delete everything, twice, then read everything back
			for round := 0; round < 2; round++ {
				for _, b := range u.blobs {
					lines = append(lines, fmt.Sprintf("mem deleteblob %s %s", tok("a"), tok(sha256Digest(b))))
				}
				for _, name := range chain {
					lines = append(lines, fmt.Sprintf("mem deletemanifest %s %s", tok("a"), tok(sha256Digest(byName[name].data))))
				}
				lines = append(lines, fmt.Sprintf("mem deletetag %s %s", tok("a"), tok("latest")))
			}
			// re-pushing the tagged content under another media type (untagged, or under a new tag)
			// must not change what the existing tag means (F19)
			{
				tm := byName[chain[tagged]]
				lines = append(lines, linePushManifest("a", "", tm.data, mtOpaque))
				lines = append(lines, linePushManifest("a", "other", tm.data, mtOpaque))
				for _, b := range u.blobs {
					lines = append(lines, fmt.Sprintf("mem deleteblob %s %s", tok("a"), tok(sha256Digest(b))))
				}
				lines = append(lines, fmt.Sprintf("mem gettag %s %s", tok("a"), tok("latest")))
			}
			// re-tagging with other content must be refused; same content allowed
			other := byName["opaque"]
			lines = append(lines, linePushManifest("a", "latest", other.data, other.mt))
			tm := byName[chain[tagged]]
			lines = append(lines, linePushManifest("a", "latest", tm.data, tm.mt))
			lines = append(lines, linePushManifest("a", "latest", tm.data, mtOpaque))
			lines = append(lines, fmt.Sprintf("mem resolvetag %s %s", tok("a"), tok("latest")), fmt.Sprintf("mem gettag %s %s", tok("a"), tok("latest")))
			for _, b := range u.blobs {
				lines = append(lines, fmt.Sprintf("mem getblob %s %s", tok("a"), tok(sha256Digest(b))))
			}
			for _, name := range chain {
				lines = append(lines, fmt.Sprintf("mem getmanifest %s %s", tok("a"), tok(sha256Digest(byName[name].data))))
			}
			cases = append(cases, Case{Tag: "directed", Lines: lines})
		}
	}
	// F42: a child manifest re-pushed under an opaque media type BEFORE any tag leads to it (allowed), then tagged
	// through an index that lists it as an image: its layers must stay (the statement: everything a tagged manifest
	// transitively references remains retrievable), but the reachability walk followed the stored media type only (repaired: it now also reads the child as the parent declares it)
	{
		m1, i1 := byName["m1"], byName["i1"]
		lines := []string{"mem init 1"}
		lines = append(lines, pushBlobs("a")...)
		lines = append(lines, linePushManifest("a", "", m1.data, m1.mt), linePushManifest("a", "", m1.data, mtOpaque), linePushManifest("a", "v1", i1.data, i1.mt))
		n0 := len(lines)
		for _, bi := range []int{1, 2, 4} { // m1's layers and config
			lines = append(lines, fmt.Sprintf("mem deleteblob %s %s", tok("a"), tok(sha256Digest(u.blobs[bi]))))
		}
		for _, bi := range []int{1, 2, 4} {
			lines = append(lines, fmt.Sprintf("mem getblob %s %s", tok("a"), tok(sha256Digest(u.blobs[bi]))))
		}
		lines = append(lines, fmt.Sprintf("mem gettag %s %s", tok("a"), tok("v1")))
		cases = append(cases, Case{Tag: fmt.Sprintf("directed:retype-before-tag:%d", n0), Lines: lines})
	}
	// one stored manifest listed twice by a tagged index, once as what it is stored as and once as an index: read as an
	// index it leads to m1, which nothing else keeps (a walk that visits each stored manifest once only stops short: seed C14-15)
	for _, order := range [][2]string{{ocispecImg, ocispecIdx}, {ocispecIdx, ocispecImg}} {
		m1 := byName["m1"]
		cfg := descJSON("application/vnd.oci.image.config.v1+json", sha256Digest(u.blobs[4]), int64(len(u.blobs[4])))
		pdata := mustJSON(map[string]any{"schemaVersion": 2, "mediaType": ocispecImg, "config": cfg, "layers": []any{},
			"manifests": []any{descJSON(m1.mt, sha256Digest(m1.data), int64(len(m1.data)))}})
		idata := mustJSON(map[string]any{"schemaVersion": 2, "mediaType": ocispecIdx, "manifests": []any{
			descJSON(order[0], sha256Digest(pdata), int64(len(pdata))), descJSON(order[1], sha256Digest(pdata), int64(len(pdata)))}})
		lines := []string{"mem init 1"}
		lines = append(lines, pushBlobs("a")...)
		lines = append(lines, linePushManifest("a", "", m1.data, m1.mt), linePushManifest("a", "", pdata, ocispecImg), linePushManifest("a", "v1", idata, ocispecIdx))
		lines = append(lines, fmt.Sprintf("mem deletemanifest %s %s", tok("a"), tok(sha256Digest(m1.data))))
		for _, bi := range []int{1, 2, 4} {
			lines = append(lines, fmt.Sprintf("mem deleteblob %s %s", tok("a"), tok(sha256Digest(u.blobs[bi]))))
		}
		lines = append(lines, fmt.Sprintf("mem getmanifest %s %s", tok("a"), tok(sha256Digest(m1.data))))
		for _, bi := range []int{1, 2, 4} {
			lines = append(lines, fmt.Sprintf("mem getblob %s %s", tok("a"), tok(sha256Digest(u.blobs[bi]))))
		}
		lines = append(lines, fmt.Sprintf("mem gettag %s %s", tok("a"), tok("v1")))
		cases = append(cases, Case{Tag: "directed:declared-twice", Lines: lines})
	}
	return cases
}

const (
	ocispecImg = "application/vnd.oci.image.manifest.v1+json"
	ocispecIdx = "application/vnd.oci.image.index.v1+json"
)
