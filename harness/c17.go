package main

import (
	"context"
	"fmt"
	"net/http"
	"net/http/httptest"
	"net/url"
	"strings"
	"sync"

	"cuelabs.dev/go/oci/ociregistry"
	"cuelabs.dev/go/oci/ociregistry/ociref"
	"cuelabs.dev/go/oci/ociregistry/ociserver"
	"cuelabs.dev/go/oci/ociregistry/ociverif"
)

// C17: reference parsing is a total, exact partition consistent with the validators.
//
// Lines (engine "ref"):
//   ref host|repo|tag|digest <s>         -> 0|1
//   ref parserel|parse <s>               -> err | ok <host> <repo> <tag> <digest>
//   ref print <h> <r> <t> <d>            -> <string>
//   ref roundtrip <h> <r> <t> <d>        -> ParseRelative(Reference{…}.String())

func init() { engines["C17"] = func() Engine { return &c17{} } }

type c17 struct{}

func (*c17) UsesModel() bool { return true }

func showRef(r ociref.Reference, err error) string {
	if err != nil {
		return "err"
	}
	return "ok " + tok(r.Host) + " " + tok(r.Repository) + " " + tok(r.Tag) + " " + tok(string(r.Digest))
}

func c17Line(l string) string {
	t := strings.Split(l, " ")
	b01 := func(b bool) string {
		if b {
			return "1"
		}
		return "0"
	}
	if len(t) == 3 && t[0] == "ref" {
		s, ok := untok(t[2])
		if !ok {
			return "bad-op"
		}
		switch t[1] {
		case "host":
			return b01(ociref.IsValidHost(s))
		case "repo":
			v := ociref.IsValidRepository(s)
			if d := routerDiffers("repo", s, v); d != "" {
				return d
			}
			return b01(v)
		case "tag":
			a, b := ociref.IsValidTag(s), ociregistry.IsValidTag(s)
			if a != b {
				return "deprecated-alias-differs"
			}
			if d := routerDiffers("tag", s, a || ociref.IsValidDigest(s)); d != "" {
				return d
			}
			return b01(a)
		case "digest":
			a, b := ociref.IsValidDigest(s), ociregistry.IsValidDigest(s)
			if a != b {
				return "deprecated-alias-differs"
			}
			if d := routerDiffers("digest", s, a); d != "" {
				return d
			}
			return b01(a)
		case "parserel":
			return showRef(ociref.ParseRelative(s))
		case "parse":
			return showRef(ociref.Parse(s))
		}
	}
	if len(t) == 6 && t[0] == "ref" {
		var p [4]string
		for i := range p {
			s, ok := untok(t[2+i])
			if !ok {
				return "bad-op"
			}
			p[i] = s
		}
		ref := ociref.Reference{Host: p[0], Repository: p[1], Tag: p[2], Digest: ociref.Digest(p[3])}
		switch t[1] {
		case "print":
			return tok(ref.String())
		case "roundtrip":
			return showRef(ociref.ParseRelative(ref.String()))
		}
	}
	return "bad-op"
}

// routerDiffers asks the HTTP routing layer about s in every URL position where the answer
// cannot depend on anything but s, and reports a disagreement with the predicate's answer.
func routerDiffers(pos, s string, valid bool) string {
	parse := func(method, path, query string) *ociverif.Request {
		r, err := ociverif.Parse(method, &url.URL{Path: path, RawQuery: query})
		if err != nil {
			return nil
		}
		return r
	}
	elems := strings.Split(s, "/")
	switch pos {
	case "repo":
		// as the source of a mount: a query parameter, no ambiguity at all (empty = no mount)
		if s != "" {
			q := url.Values{"mount": {"sha256:" + strings.Repeat("0", 64)}, "from": {s}}.Encode()
			r := parse("POST", "/v2/foo/blobs/uploads/", q)
			if (r != nil && r.Kind == ociverif.ReqBlobMount && r.FromRepo == s) != valid {
				return "router-differs:mount-from"
			}
		}
		// as the repository of an upload: the routing words come last in the path, whatever the name holds
		if s != "" {
			r := parse("POST", "/v2/"+s+"/blobs/uploads/", "")
			if acc := r != nil && r.Kind == ociverif.ReqBlobStartUpload; acc != valid || (acc && r.Repo != s) {
				return "router-differs:repo-of-upload"
			}
			r = parse("POST", "/v2/"+s+"/blobs/uploads/", "digest=sha256:"+strings.Repeat("0", 64))
			if acc := r != nil && r.Kind == ociverif.ReqBlobUploadBlob; acc != valid || (acc && r.Repo != s) {
				return "router-differs:repo-of-post-upload"
			}
		}
		// as the repository of a path, when no element could be taken for a routing word
		for _, e := range elems {
			for _, w := range routingWords {
				if e == w {
					return ""
				}
			}
		}
		// accepted at all (under whatever name) only if valid; and if valid, under exactly this name
		r := parse("GET", "/v2/"+s+"/tags/list", "")
		if acc := r != nil && r.Kind == ociverif.ReqTagsList; acc != valid || (acc && r.Repo != s) {
			return "router-differs:repo"
		}
		r = parse("GET", "/v2/"+s+"/blobs/sha256:"+strings.Repeat("0", 64), "")
		if acc := r != nil && r.Kind == ociverif.ReqBlobGet; acc != valid || (acc && r.Repo != s) {
			return "router-differs:repo-of-blob"
		}
		r = parse("DELETE", "/v2/"+s+"/manifests/latest", "")
		if acc := r != nil && r.Kind == ociverif.ReqManifestDelete; acc != valid || (acc && r.Repo != s) {
			return "router-differs:repo-of-manifest"
		}
		if d := c17ServerSees("HEAD", "/v2/", s, "/blobs/sha256:"+strings.Repeat("0", 64), valid, "ResolveBlob"); d != "" {
			return d
		}
	case "tag": // valid = a tag or a digest
		if len(elems) != 1 || s == "" {
			return ""
		}
		r := parse("GET", "/v2/foo/manifests/"+s, "")
		if (r != nil && r.Kind == ociverif.ReqManifestGet && (r.Tag == s || r.Digest == s)) != valid {
			return "router-differs:manifest-reference"
		}
		if d := c17ServerSees("HEAD", "/v2/foo/manifests/", s, "", valid, "Resolve"); d != "" {
			return d
		}
	case "digest":
		if len(elems) != 1 || s == "" || s == "uploads" {
			return ""
		}
		r := parse("GET", "/v2/foo/blobs/"+s, "")
		if (r != nil && r.Kind == ociverif.ReqBlobGet && r.Digest == s) != valid {
			return "router-differs:blob-digest"
		}
		r = parse("GET", "/v2/foo/referrers/"+s, "")
		if (r != nil && r.Kind == ociverif.ReqReferrersList && r.Digest == s) != valid {
			return "router-differs:referrers-digest"
		}
		if d := c17ServerSees("HEAD", "/v2/foo/blobs/", s, "", valid, "ResolveBlob"); d != "" {
			return d
		}
	}
	return ""
}

// ---- the real server: the same question asked over HTTP, with the value percent-encoded in places ----

type c17Seen struct {
	method string
	value  string
}

var (
	c17SrvOnce sync.Once
	c17Srv     http.Handler
	c17SrvMu   sync.Mutex
	c17SrvSeen []c17Seen
)

func c17Server() http.Handler {
	c17SrvOnce.Do(func() {
		see := func(m, v string) { c17SrvSeen = append(c17SrvSeen, c17Seen{m, v}) }
		d := ociregistry.Descriptor{MediaType: "application/octet-stream", Digest: "sha256:" + ociregistry.Digest(strings.Repeat("0", 64)), Size: 1}
		c17Srv = ociserver.New(&ociregistry.Funcs{
			ResolveBlob_: func(ctx context.Context, repo string, dg ociregistry.Digest) (ociregistry.Descriptor, error) {
				see("ResolveBlob", repo+" "+string(dg))
				return d, nil
			},
			ResolveManifest_: func(ctx context.Context, repo string, dg ociregistry.Digest) (ociregistry.Descriptor, error) {
				see("Resolve", repo+" "+string(dg))
				return d, nil
			},
			ResolveTag_: func(ctx context.Context, repo string, tag string) (ociregistry.Descriptor, error) {
				see("Resolve", repo+" "+tag)
				return d, nil
			},
		}, nil)
	})
	return c17Srv
}

// c17Escape writes s for a URL path with every byte that needs it percent-encoded, and every third
// byte that does not need it as well (a client is free to: %62 is b); '/' stays a separator.
func c17Escape(s string) string {
	var sb strings.Builder
	for i := 0; i < len(s); i++ {
		c := s[i]
		plain := c >= 'a' && c <= 'z' || c >= 'A' && c <= 'Z' || c >= '0' && c <= '9' || c == '-' || c == '.' || c == '_' || c == '~'
		switch {
		case c == '/':
			sb.WriteByte(c)
		case plain && i%3 != 1:
			sb.WriteByte(c)
		default:
			fmt.Fprintf(&sb, "%%%02X", c)
		}
	}
	return sb.String()
}

// c17ServerSees sends method prefix+s+suffix to a real ociserver, s percent-encoded in places, and
// compares what the backend is asked with the predicate: asked (about exactly s) iff valid.
func c17ServerSees(method, prefix, s, suffix string, valid bool, want string) string {
	if s == "" || strings.Contains(s, "//") || strings.HasPrefix(s, "/") || strings.HasSuffix(s, "/") || len(s) > 4096 {
		return "" // net/http cleans such paths before the server sees them
	}
	for _, e := range strings.Split(s, "/") {
		if e == "." || e == ".." {
			return ""
		}
	}
	req, err := http.NewRequest(method, "http://registry.example"+prefix+c17Escape(s)+suffix, nil)
	if err != nil {
		return ""
	}
	h := c17Server()
	c17SrvMu.Lock()
	defer c17SrvMu.Unlock()
	c17SrvSeen = nil
	rec := httptest.NewRecorder()
	h.ServeHTTP(rec, req)
	asked := false
	for _, x := range c17SrvSeen {
		if x.method != want {
			continue
		}
		var exact bool
		if suffix != "" {
			exact = strings.HasPrefix(x.value, s+" ")
		} else {
			exact = strings.HasSuffix(x.value, " "+s)
		}
		if !exact {
			return "router-differs:server-passes-another-value"
		}
		asked = true
	}
	if asked != valid {
		if valid {
			return "router-differs:server-refuses-valid-value-when-encoded"
		}
		return "router-differs:server-accepts-invalid-value"
	}
	return ""
}

func (*c17) Impl(c Case) []string {
	out := make([]string, len(c.Lines))
	for i, l := range c.Lines {
		out[i] = guard(func() string { return c17Line(l) })
	}
	return out
}

// ---- generators ----

func genAlnumLower(rng *RNG, n int) string {
	const cs = "abcdefghijklmnopqrstuvwxyz0123456789"
	b := make([]byte, n)
	for i := range b {
		b[i] = cs[rng.Intn(len(cs))]
	}
	return string(b)
}

func genPathComponent(rng *RNG) string {
	var sb strings.Builder
	sb.WriteString(genAlnumLower(rng, 1+rng.Intn(4)))
	for k := rng.Intn(3); k > 0; k-- {
		sb.WriteString(pick(rng, []string{".", "_", "__", "-", "--", "---"}))
		sb.WriteString(genAlnumLower(rng, 1+rng.Intn(3)))
	}
	return sb.String()
}

// genDirtyRepo builds names that are *nearly* valid: wrong separator runs between otherwise valid pieces.
func genDirtyRepo(rng *RNG) string {
	var sb strings.Builder
	sb.WriteString(genAlnumLower(rng, 1+rng.Intn(3)))
	for k := 1 + rng.Intn(3); k > 0; k-- {
		sb.WriteString(pick(rng, []string{"___", "____", "..", "_.", "-_", "._", "__-", "/", "//", ".", "_", "__", "--"}))
		sb.WriteString(genAlnumLower(rng, 1+rng.Intn(3)))
	}
	return sb.String()
}

var routingWords = []string{"blobs", "manifests", "uploads", "tags", "referrers", "list", "_catalog", "v2"}

func genRepo(rng *RNG) string {
	n := 1 + rng.Intn(3)
	var parts []string
	for i := 0; i < n; i++ {
		if rng.Chance(1, 5) {
			parts = append(parts, strings.TrimLeft(pick(rng, routingWords), "_"))
		} else {
			parts = append(parts, genPathComponent(rng))
		}
	}
	return strings.Join(parts, "/")
}

func genDomainComponent(rng *RNG) string {
	const cs = "abcdefghijklmnopqrstuvwxyzABCDEFGHIJKLMNOPQRSTUVWXYZ0123456789"
	n := 1 + rng.Intn(5)
	b := make([]byte, n)
	for i := range b {
		if i > 0 && i < n-1 && rng.Chance(1, 4) {
			b[i] = '-'
		} else {
			b[i] = cs[rng.Intn(len(cs))]
		}
	}
	return string(b)
}

func genHost(rng *RNG) string {
	switch rng.Intn(5) {
	case 0:
		return genDomainComponent(rng) + ":" + pick(rng, []string{"0", "80", "5000", "65536"})
	case 1:
		h := "[" + pick(rng, []string{"::1", "2001:db8::1", "fe80::1", "ABCD:ef01::", ":"}) + "]"
		if rng.Bool() {
			h += ":" + pick(rng, []string{"443", "5000"})
		}
		return h
	}
	n := 2 + rng.Intn(3)
	var parts []string
	for i := 0; i < n; i++ {
		parts = append(parts, genDomainComponent(rng))
	}
	h := strings.Join(parts, ".")
	if rng.Chance(1, 3) {
		h += ":" + pick(rng, []string{"80", "5000"})
	}
	return h
}

func genTag(rng *RNG) string {
	const first = "abcdefghijklmnopqrstuvwxyzABCDEFGHIJKLMNOPQRSTUVWXYZ0123456789_"
	const rest = first + ".-"
	var n int
	switch rng.Intn(8) {
	case 0:
		n = 128
	case 1:
		n = 127
	case 2:
		n = 129
	case 3:
		n = 1
	default:
		n = 1 + rng.Intn(12)
	}
	if rng.Chance(1, 6) {
		return pick(rng, routingWords)
	}
	b := make([]byte, n)
	b[0] = first[rng.Intn(len(first))]
	for i := 1; i < n; i++ {
		b[i] = rest[rng.Intn(len(rest))]
	}
	return string(b)
}

func genDigest(rng *RNG) string {
	algs := []struct {
		name string
		n    int
	}{{"sha256", 64}, {"sha384", 96}, {"sha512", 128}}
	a := pick(rng, algs)
	const hx = "0123456789abcdef"
	b := make([]byte, a.n)
	for i := range b {
		b[i] = hx[rng.Intn(16)]
	}
	return a.name + ":" + string(b)
}

// mutate applies a small random corruption to a valid string.
func mutate(rng *RNG, s string) string {
	if s == "" {
		return pick(rng, []string{"", "/", ":", "@", " "})
	}
	b := []byte(s)
	switch rng.Intn(8) {
	case 0: // delete a byte
		i := rng.Intn(len(b))
		return string(append(b[:i:i], b[i+1:]...))
	case 1: // insert a special byte
		i := rng.Intn(len(b) + 1)
		c := pick(rng, []byte("/:@.-_[]A \n\x00\xffé+"))
		return string(b[:i]) + string(c) + string(b[i:])
	case 2: // replace a byte
		b[rng.Intn(len(b))] = pick(rng, []byte("/:@.-_[]AZz09 \n\xff"))
		return string(b)
	case 3: // duplicate a byte
		i := rng.Intn(len(b))
		return string(b[:i+1]) + string(b[i:])
	case 4:
		return strings.ToUpper(s)
	case 5:
		return s + pick(rng, []string{"/", ":", "@", ".", "-", "_", "\n"})
	case 6:
		return pick(rng, []string{"/", ":", "@", ".", "-", "_"}) + s
	}
	return s[:rng.Intn(len(s)+1)]
}

func (*c17) Gen(rng *RNG, tier string) []Case {
	var cases []Case
	add := func(lines ...string) { cases = append(cases, Case{Lines: lines}) }
	// fixed edge cases first
	for _, s := range []string{"", "a", "/", ":", "@", "a/", "/a", "a//b", "a:", "a@", "a:@", "a:b@", "a@sha256:", ":justtag",
		"localhost:5000/foo", "a:5000/B", "a:5/b@c", "foo.com/bar", "foo.com", "test.com:5000", "foo_bar.com:8080", "[::1]:5000/repo",
		"a\n", "a:b\n", "a@b\nc", "a:b\nc", "a.b/c:t\n@sha256:" + strings.Repeat("a", 64), "a__b", "a___b", "a_.b", "a--b", "a-", "-a", "a..b", "a.-b",
		strings.Repeat("a", 255), strings.Repeat("a", 256), "h.com/" + strings.Repeat("a", 255), "h.com/" + strings.Repeat("a", 256),
		"a:" + strings.Repeat("t", 128), "a:" + strings.Repeat("t", 129),
		"foo/blobs/uploads", "foo/blobs/uploads/cache", "foo/blobs/uploads-cache", "blobs/uploads/blobs/uploads", "a/manifests/b/tags/list", "x/referrers/y/blobs"} {
		add("ref host "+tok(s), "ref repo "+tok(s), "ref tag "+tok(s), "ref digest "+tok(s), "ref parserel "+tok(s), "ref parse "+tok(s))
	}
	// every part at, just below and just above its length limit, together
	for _, h := range []string{"", "h.com", "registry.example.com:5000", "[::1]:5000"} {
		for _, rl := range []int{254, 255, 256} {
			for _, tl := range []int{0, 127, 128, 129} {
				for _, alg := range []struct {
					name string
					n    int
				}{{"", 0}, {"sha256", 64}, {"sha384", 96}, {"sha512", 128}} {
					r := strings.Repeat("r", rl-2) + "/x"
					tg := strings.Repeat("t", tl)
					d := ""
					if alg.name != "" {
						d = alg.name + ":" + strings.Repeat("a", alg.n)
					}
					s := r
					if h != "" {
						s = h + "/" + r
					}
					if tg != "" {
						s += ":" + tg
					}
					if d != "" {
						s += "@" + d
					}
					add("ref parse "+tok(s), "ref parserel "+tok(s), fmt.Sprintf("ref roundtrip %s %s %s %s", tok(h), tok(r), tok(tg), tok(d)), fmt.Sprintf("ref print %s %s %s %s", tok(h), tok(r), tok(tg), tok(d)))
				}
			}
		}
	}
	n := 6000
	if tier == "thorough" {
		n = 150000
	}
	for i := 0; i < n; i++ {
		h, r, tg, d := genHost(rng), genRepo(rng), genTag(rng), genDigest(rng)
		if rng.Chance(1, 4) {
			h = ""
		}
		if rng.Chance(1, 3) {
			tg = ""
		}
		if rng.Chance(1, 2) {
			d = ""
		}
		switch rng.Intn(10) {
		case 0:
			h = mutate(rng, h)
		case 1:
			r = mutate(rng, r)
		case 5:
			r = genDirtyRepo(rng)
		case 2:
			tg = mutate(rng, tg)
		case 3:
			d = mutate(rng, d)
		case 4:
			d = pick(rng, []string{"sha256:abc", "md5:" + strings.Repeat("a", 32), "sha256:" + strings.Repeat("A", 64), "sha512:" + strings.Repeat("a", 64), ":" + strings.Repeat("a", 64), "sha256" + strings.Repeat("a", 64), "sha256:" + strings.Repeat("a", 63) + "\n"})
		}
		s := h
		if h != "" {
			s += "/"
		}
		s += r
		if tg != "" {
			s += ":" + tg
		}
		if d != "" {
			s += "@" + d
		}
		if rng.Chance(1, 8) {
			s = mutate(rng, s)
		}
		add("ref parserel "+tok(s), "ref parse "+tok(s),
			"ref host "+tok(h), "ref repo "+tok(r), "ref tag "+tok(tg), "ref digest "+tok(d),
			"ref roundtrip "+tok(h)+" "+tok(r)+" "+tok(tg)+" "+tok(d),
			"ref print "+tok(h)+" "+tok(r)+" "+tok(tg)+" "+tok(d))
	}
	// unstructured fuzz over the alphabet that matters
	m := 3000
	if tier == "thorough" {
		m = 100000
	}
	alpha := []byte("ab09AZ./:@-_[] \n\xff")
	for i := 0; i < m; i++ {
		k := rng.Intn(12)
		b := make([]byte, k)
		for j := range b {
			b[j] = alpha[rng.Intn(len(alpha))]
		}
		s := string(b)
		add("ref parserel "+tok(s), "ref host "+tok(s), "ref repo "+tok(s), "ref tag "+tok(s), "ref digest "+tok(s))
	}
	return cases
}

// ---- oracle ----

func parseRefOut(s string) (ok bool, parts [4]string) {
	f := strings.Split(s, " ")
	if len(f) != 5 || f[0] != "ok" {
		return false, parts
	}
	for i := range parts {
		parts[i], _ = untok(f[1+i])
	}
	return true, parts
}

func (*c17) Oracle(c Case, impl []string) []Failure {
	var fs []Failure
	for i, l := range c.Lines {
		if i >= len(impl) {
			break
		}
		got := impl[i]
		t := strings.Split(l, " ")
		fail := func(class, oracle, exp string) {
			fs = append(fs, Failure{Class: class, Oracle: oracle, Index: i, Expected: exp, Observed: got, Detail: lastPanicFor(got)})
		}
		if got == "panic" {
			cl := "ref-panic:" + t[1]
			if s, _ := untok(t[2]); s == "" && t[1] == "tag" {
				cl = "ref-panic:tag-empty"
			}
			fail(cl, "predicates_total", "no panic")
			continue
		}
		if got == "deprecated-alias-differs" {
			fail("ref-alias", "aliases_agree", "ociregistry.IsValidX == ociref.IsValidX")
			continue
		}
		if strings.HasPrefix(got, "router-differs:") {
			fail("ref-"+got, "predicates_agree_with_router", "the routing layer accepts the string in that position exactly when the predicate does")
			continue
		}
		switch t[1] {
		case "repo":
			s, _ := untok(t[2])
			if (got == "1") != refRepoValid(s) {
				fail("ref-repo-grammar", "repository_grammar", map[bool]string{true: "1", false: "0"}[refRepoValid(s)]+" (path components [a-z0-9]+ joined by one of . _ __ or dashes, components joined by /)")
			}
		case "tag":
			s, _ := untok(t[2])
			if (got == "1") != refTagValid(s) {
				fail("ref-tag-grammar", "tag_grammar", map[bool]string{true: "1", false: "0"}[refTagValid(s)])
			}
		case "parserel", "parse":
			s, _ := untok(t[2])
			ok, p := parseRefOut(got)
			if !ok {
				continue
			}
			ref := ociref.Reference{Host: p[0], Repository: p[1], Tag: p[2], Digest: ociref.Digest(p[3])}
			if ref.String() != s {
				fail("ref-parse-print", "parse_print", tok(s))
			}
			if t[1] == "parse" && p[0] == "" {
				fail("ref-parse-nohost", "parse_requires_host", "err")
			}
			bad := ""
			if p[0] != "" && !ociref.IsValidHost(p[0]) {
				bad = "host"
			}
			if !ociref.IsValidRepository(p[1]) || len(p[1]) > 255 {
				bad = "repository"
			}
			if p[2] != "" && (!ociref.IsValidTag(p[2]) || len(p[2]) > 128) {
				bad = "tag"
			}
			if p[3] != "" && !ociref.IsValidDigest(p[3]) {
				bad = "digest"
			}
			if bad != "" {
				fail("ref-parts-valid:"+bad, "parse_parts_valid", "every part satisfies its predicate and length limit")
			}
		case "roundtrip":
			var p [4]string
			for j := range p {
				p[j], _ = untok(t[2+j])
			}
			valid := p[0] != "" && ociref.IsValidHost(p[0]) && ociref.IsValidRepository(p[1]) && len(p[1]) <= 255 &&
				(p[2] == "" || ociref.IsValidTag(p[2])) && (p[3] == "" || ociref.IsValidDigest(p[3]))
			if valid {
				ok, q := parseRefOut(got)
				if !ok || q != p {
					fail("ref-print-parse", "print_parse", "ok with the same parts")
				}
			}
		}
	}
	return fs
}

// refRepoValid is the documented repository grammar, written independently of the regular
// expression: slash-separated components; a component is runs of [a-z0-9] separated by exactly one
// of ".", "_", "__" or one or more dashes.
func refRepoValid(s string) bool {
	if s == "" {
		return false
	}
	for _, comp := range strings.Split(s, "/") {
		if comp == "" {
			return false
		}
		alnum := func(c byte) bool { return c >= 'a' && c <= 'z' || c >= '0' && c <= '9' }
		i := 0
		if !alnum(comp[0]) || !alnum(comp[len(comp)-1]) {
			return false
		}
		for i < len(comp) {
			if alnum(comp[i]) {
				i++
				continue
			}
			j := i
			for j < len(comp) && !alnum(comp[j]) {
				j++
			}
			sep := comp[i:j]
			okSep := sep == "." || sep == "_" || sep == "__" || strings.Trim(sep, "-") == ""
			if !okSep {
				return false
			}
			i = j
		}
	}
	return true
}

func refTagValid(s string) bool {
	if len(s) == 0 || len(s) > 128 {
		return false
	}
	word := func(c byte) bool {
		return c == '_' || c >= 'a' && c <= 'z' || c >= 'A' && c <= 'Z' || c >= '0' && c <= '9'
	}
	if !word(s[0]) {
		return false
	}
	for i := 1; i < len(s); i++ {
		if !word(s[i]) && s[i] != '.' && s[i] != '-' {
			return false
		}
	}
	return true
}

func lastPanicFor(got string) string {
	if got == "panic" {
		return "panic value: " + lastPanic
	}
	return ""
}

func (*c17) NonTrivial(c Case, impl []string) (bool, string) {
	for i, l := range c.Lines {
		if i < len(impl) && strings.HasPrefix(l, "ref parserel") {
			if strings.HasPrefix(impl[i], "ok") {
				return true, "parses"
			}
			return true, "rejected"
		}
	}
	return true, "predicates"
}
