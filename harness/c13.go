package main

import (
	"context"
	"fmt"
	"reflect"
	"sort"
	"strconv"
	"strings"

	"cuelabs.dev/go/oci/ociregistry"
	"cuelabs.dev/go/oci/ociregistry/ociauth"
	"cuelabs.dev/go/oci/ociregistry/ocifilter"
	"cuelabs.dev/go/oci/ociregistry/ocimem"
	"cuelabs.dev/go/oci/ociregistry/ociref"
)

// C13: ocifilter.Sub.
//
//	sub call <prefix> <Method> <n1> <n2> absent|unlimited|new <t r a>*    recording backend; n1 is the (first) repository
//	                                                                       argument (the start point for Repositories), n2 the target of a mount
//	sub list <prefix> <start> <stop> <errAt|-1> <names|->                  a backend lister over arbitrary names that meets the listing
//	                                                                       contract; an error event is inserted at index errAt of its stream
//	sub meminit <prefix> · sub memraw <mem op…> · sub mem <mem op…>        histories on Sub(ocimem, prefix); memraw acts on the ocimem itself
//
// Output:  call=<Method>(<arg>,…) scope=-|*|[t:r:a …] [res=other]     string arguments as tokens, others "=" (unchanged) or "!"
//          start=<tok> events=[<tok>|!b …]
//          the regInterp outputs for mem lines

func init() { engines["C13"] = func() Engine { return &c13{} } }

type c13 struct{}

func (*c13) UsesModel() bool { return true }

var stringType = reflect.TypeOf("")

func c13Scope(spec []string) (ctx context.Context, ok bool) {
	ctx = context.Background()
	switch {
	case len(spec) == 1 && spec[0] == "absent":
		return ctx, true
	case len(spec) == 1 && spec[0] == "unlimited":
		return ociauth.ContextWithScope(ctx, ociauth.UnlimitedScope()), true
	case len(spec) >= 1 && spec[0] == "new":
		rs, ok := parseTriples(spec[1:])
		if !ok {
			return nil, false
		}
		sc := ociauth.NewScope(rs...)
		// every other case carries the same scope as ParseScope makes it (it remembers the text it was parsed from): what a
		// wrapper hands on must not only BE the rewritten scope but also print as it (String() is what a token request sends)
		if len(strings.Join(spec, " "))%2 == 1 {
			if p := ociauth.ParseScope(sc.String()); p.Equal(sc) {
				sc = p
			}
		}
		return ociauth.ContextWithScope(ctx, sc), true
	}
	return nil, false
}

func showScopeOf(ctx context.Context) string {
	s := ociauth.ScopeFromContext(ctx)
	if s.IsUnlimited() {
		return "*"
	}
	var items []string
	s.Iter()(func(r rsT) bool {
		items = append(items, rsShow(r))
		return true
	})
	if len(items) == 0 {
		return "-"
	}
	var rs []rsT
	s.Iter()(func(r rsT) bool { rs = append(rs, r); return true })
	if txt := s.String(); txt != ociauth.NewScope(rs...).String() { // every scope in this engine is built from, or parsed from, the canonical text
		return "[" + strings.Join(items, " ") + "]!prints-as=" + tok(txt) // the scope and its text have come apart
	}
	return "[" + strings.Join(items, " ") + "]"
}

type c13State struct {
	under  *ocimem.Registry
	raw    *regInterp
	viaSub *regInterp
}

func (*c13) Impl(c Case) []string {
	out := make([]string, len(c.Lines))
	st := &c13State{}
	for i, l := range c.Lines {
		out[i] = guard(func() string { return c13Line(st, l) })
	}
	return out
}

// c13Nested: build Sub(r, "a/b/c") as Sub(Sub(Sub(r, "a"), "b"), "c"). A view of a view is the
// view of the joined prefix; stateless lines are run both ways and must agree.
var c13Nested bool

func c13MkSub(r ociregistry.Interface, prefix string) ociregistry.Interface {
	if !c13Nested {
		return ocifilter.Sub(r, prefix)
	}
	for _, p := range strings.Split(prefix, "/") {
		r = ocifilter.Sub(r, p)
	}
	return r
}

func c13Line(st *c13State, l string) string {
	out := c13Line1(st, l)
	t := strings.Split(l, " ")
	if len(t) > 2 && (t[1] == "call" || t[1] == "list") && out != "bad-op" {
		if prefix, ok := untok(t[2]); ok && strings.Contains(prefix, "/") && !strings.Contains(prefix, "//") && !strings.HasPrefix(prefix, "/") && !strings.HasSuffix(prefix, "/") {
			c13Nested = true
			nested := func() string {
				defer func() { c13Nested = false }()
				return c13Line1(st, l)
			}()
			if nested != out {
				return "nested-differs flat{" + out + "} nested{" + nested + "}"
			}
		}
	}
	return out
}

func c13Line1(st *c13State, l string) string {
	t := strings.Split(l, " ")
	if len(t) < 2 || t[0] != "sub" {
		return "bad-op"
	}
	switch {
	case t[1] == "uploadid" && len(t) == 3:
		// sub uploadid <prefix>: the view laid over an HTTP client (whose upload IDs are upload URLs). An upload ID that
		// the registry issued for a repository OUTSIDE the prefix is handed to the view under an inside name. Where does
		// the blob land? (F45)
		prefix, ok := untok(t[2])
		if !ok {
			return "bad-op"
		}
		mem := ocimem.New()
		ch := newChain(mem, 1, nil, nil)
		defer ch.Close()
		cl := ch.regs[1]
		ctx := context.Background()
		w0, err := cl.PushBlobChunked(ctx, "secret", 0)
		if err != nil {
			return "setup " + errClass(err)
		}
		id := w0.ID()
		w0.Close()
		view := c13MkSub(cl, prefix)
		data := []byte("smuggled")
		w, err := view.PushBlobChunkedResume(ctx, "x", id, 0, 0)
		if err != nil {
			return "refused-at-resume"
		}
		if _, err := w.Write(data); err != nil {
			return "refused-at-write"
		}
		if _, err := w.Commit(ociregistry.Digest(sha256Digest(data))); err != nil {
			return "refused-at-commit"
		}
		_, errIn := mem.ResolveBlob(ctx, prefix+"/x", ociregistry.Digest(sha256Digest(data)))
		_, errOut := mem.ResolveBlob(ctx, "secret", ociregistry.Digest(sha256Digest(data)))
		return fmt.Sprintf("committed inside=%v outside=%v", errIn == nil, errOut == nil)
	case t[1] == "call" && len(t) >= 7:
		prefix, ok0 := untok(t[2])
		n1, ok1 := untok(t[4])
		n2, ok2 := untok(t[5])
		ctx, ok3 := c13Scope(t[6:])
		if !ok0 || !ok1 || !ok2 || !ok3 {
			return "bad-op"
		}
		before := showScopeOf(ctx)
		once := func() string {
			b := newRecBackend()
			reg := c13MkSub(b.Funcs, prefix)
			m, args, ok := wrapperArgs(reg, t[3], ctx, n1, n2)
			if !ok {
				return "bad-op"
			}
			if t[3] == "Repositories" {
				args[1] = reflect.ValueOf(n1)
			}
			res := m.Call(args)
			if t[3] == "Repositories" || t[3] == "Tags" || t[3] == "Referrers" {
				// the wrapped registry is consulted when the iterator runs
				seqEvents(res[0])
			}
			if len(b.Calls) != 1 {
				return fmt.Sprintf("calls=%d", len(b.Calls))
			}
			call := b.Calls[0]
			var as []string
			for i, a := range call.Args {
				switch {
				case a.Type() == stringType:
					as = append(as, tok(a.String()))
				case i+1 < len(args) && sameValue(a, args[i+1]):
					as = append(as, "=")
				default:
					as = append(as, "!")
				}
			}
			s := fmt.Sprintf("call=%s(%s) scope=%s", call.Method, strings.Join(as, ","), showScopeOf(call.Ctx))
			if t[3] != "Repositories" && !sameAsBackendOnce(res, call) {
				s += " res=other"
			}
			return s
		}
		first := once()
		// a caller that keeps its context and calls again: the same call is made again, and the scope the
		// caller put into its context is still the one it put there
		if second := once(); second != first {
			return "reuse-differs first{" + first + "} second{" + second + "}"
		}
		if after := showScopeOf(ctx); after != before {
			return "caller-scope-changed " + before + " -> " + after
		}
		return first
	case t[1] == "list" && len(t) == 7:
		prefix, ok0 := untok(t[2])
		start, ok1 := untok(t[3])
		stop, err1 := strconv.Atoi(t[4])
		errAt, err2 := strconv.Atoi(t[5])
		if !ok0 || !ok1 || err1 != nil || err2 != nil || stop < 0 {
			return "bad-op"
		}
		set := map[string]bool{}
		for _, x := range commaList(t[6]) {
			s, ok := untok(x)
			if !ok {
				return "bad-op"
			}
			set[s] = true
		}
		b := newRecBackend()
		b.RepoEvents = func(from string) []recEv {
			var names []string
			for n := range set {
				if n > from {
					names = append(names, n)
				}
			}
			sort.Strings(names)
			var evs []recEv
			for i, n := range names {
				if i == errAt {
					evs = append(evs, recEv{isErr: true})
				}
				evs = append(evs, recEv{item: n})
			}
			if errAt == len(names) {
				evs = append(evs, recEv{isErr: true})
			}
			return evs
		}
		reg := c13MkSub(b.Funcs, prefix)
		var got []string
		n := 0
		reg.Repositories(context.Background(), start)(func(name string, err error) bool {
			n++
			switch {
			case err == nil:
				got = append(got, tok(name))
			case err == error(b.ListErr):
				got = append(got, "!b")
			default:
				got = append(got, "!?")
			}
			return stop == 0 || n < stop
		})
		if len(b.Calls) != 1 {
			return fmt.Sprintf("calls=%d", len(b.Calls))
		}
		return fmt.Sprintf("start=%s events=[%s]", tok(b.Calls[0].Args[0].String()), strings.Join(got, " "))
	case t[1] == "meminit" && len(t) == 3:
		prefix, ok := untok(t[2])
		if !ok {
			return "bad-op"
		}
		st.under = ocimem.New()
		st.raw = newRegInterp(st.under)
		st.viaSub = newRegInterp(ocifilter.Sub(st.under, prefix))
		return "ok"
	case t[1] == "memraw" || t[1] == "mem":
		if st.under == nil {
			st.under = ocimem.New()
			st.raw = newRegInterp(st.under)
			st.viaSub = newRegInterp(st.under)
		}
		ri := st.viaSub
		if t[1] == "memraw" {
			ri = st.raw
		}
		return ri.do("mem " + strings.Join(t[2:], " "))
	}
	return "bad-op"
}

// sameAsBackendOnce is sameAsBackend for results whose iterators may already
// have been run once (the stub's iterator yields its one event every time).
func sameAsBackendOnce(got []reflect.Value, call recCall) bool { return sameAsBackend(got, call) }

// ---- generation ----

var c13Prefixes = []string{"a", "foo", "foo/bar", "a/b/c"}

// dirty caller-supplied names: empty, dot and dot-dot segments, leading,
// trailing and double slashes, upper case, siblings' names
var c13Names = []string{
	"x", "y/z", "", ".", "..", "../secret", "../../secret", "../fooey/y", "x/../../secret", "x/..", "./x", "x/.",
	"/x", "x/", "x//y", "//", "/", "X", "ey/y", "../foo/x", "../a", "..x", "x..", "a/b/../../../secret", "\xff", "x y", "*",
}

func c13RandName(rng *RNG) string {
	if rng.Chance(1, 3) {
		return pick(rng, c13Names)
	}
	segs := []string{"x", "y", "..", ".", "", "A", "secret", "foo", "fooey", "x-y", "a", "b"}
	var parts []string
	for i := 1 + rng.Intn(4); i > 0; i-- {
		parts = append(parts, pick(rng, segs))
	}
	s := strings.Join(parts, "/")
	if rng.Chance(1, 6) {
		s = "/" + s
	}
	if rng.Chance(1, 6) {
		s += "/"
	}
	return s
}

func c13ScopeSpecs(rng *RNG, n1 string) []string {
	trip := func(rs ...rsT) string {
		parts := []string{"new"}
		for _, r := range rs {
			parts = append(parts, rsTok(r))
		}
		return strings.Join(parts, " ")
	}
	return []string{
		"absent", "new", "unlimited",
		trip(rsT{"repository", n1, "pull"}),
		trip(rsT{"repository", "x", "pull"}, rsT{"repository", "x", "push"}, rsT{"registry", "catalog", "*"}, rsT{"foo", "bar", "baz"}),
		trip(rsT{"repository", "../secret", "pull"}, rsT{"repository", "", "pull"}, rsT{"repository", "x", "delete"}, rsT{"opaque", "", ""}),
		trip(rsT{"registry", "catalog", "*"}),
		trip(rsT{"repository", "y", "push"}, rsT{"repository", "b", "pull"}, rsT{"repository", "y", "pull"}, rsT{"repositoryx", "y", "pull"}),
	}
}

func (*c13) Gen(rng *RNG, tier string) []Case {
	var cases []Case
	add := func(format string, a ...any) {
		cases = append(cases, Case{Lines: []string{fmt.Sprintf(format, a...)}})
	}
	for _, pre := range []string{"a", "a/b", "p"} {
		cases = append(cases, Case{Tag: "upload-id", Lines: []string{"sub uploadid " + tok(pre)}})
	}
	methods, _ := ifaceMethodKinds()
	// every method × prefixes × dirty names, with a rotating scope; and every scope kind on every method
	for _, m := range methods {
		for pi, p := range c13Prefixes {
			for ni, n := range c13Names {
				specs := c13ScopeSpecs(rng, n)
				add("sub call %s %s %s %s %s", tok(p), m, tok(n), tok(c13Names[(ni*7+3)%len(c13Names)]), specs[(pi+ni)%len(specs)])
			}
		}
		for _, sp := range c13ScopeSpecs(rng, "x") {
			add("sub call %s %s %s %s %s", tok("foo"), m, tok("x"), tok("y/z"), sp)
		}
		add("sub call %s %s %s %s absent", tok(""), m, tok("x"), tok("../y"))
		add("sub call %s %s %s %s unlimited", tok(""), m, tok("x"), tok("y"))
	}
	// listings: siblings sharing a textual prefix, every start point, consumers declining at every k
	for _, p := range c13Prefixes {
		names := []string{p + "/b", p + "/c", p + "/d", p + "/b/c", p + "ey/y", "secret", p, p + "/", "zz", "0", p + "0", p + "/B", strings.ToUpper(p) + "/q"}
		starts := []string{"", "b", "c", "d", "a", "zz", "b/c", "b/", "B", "..", "../secret", "/", "bb", "\xff", p, p + "/b"}
		all := make([]string, len(names))
		for i, n := range names {
			all[i] = tok(n)
		}
		for _, s := range starts {
			add("sub list %s %s 0 -1 %s", tok(p), tok(s), strings.Join(all, ","))
			add("sub list %s %s 0 -1 %s", tok(p), tok(s), strings.Join(all[:3], ","))
			for k := 1; k <= 4; k++ {
				add("sub list %s %s %d -1 %s", tok(p), tok(s), k, strings.Join(all, ","))
			}
			for e := 0; e <= 4; e++ {
				add("sub list %s %s %d %d %s", tok(p), tok(s), e%3, e, strings.Join(all, ","))
			}
		}
		add("sub list %s %s 0 -1 -", tok(p), tok(""))
	}
	add("sub list %s %s 0 -1 %s", tok(""), tok("a"), tok("a")+","+tok("b")+","+tok("a/b"))
	n := 1500
	if tier == "thorough" {
		n = 60000
	}
	for i := 0; i < n; i++ {
		p := pick(rng, c13Prefixes)
		if rng.Chance(1, 2) {
			n1, n2 := c13RandName(rng), c13RandName(rng)
			add("sub call %s %s %s %s %s", tok(p), pick(rng, methods), tok(n1), tok(n2), pick(rng, c13ScopeSpecs(rng, n1)))
			continue
		}
		var names []string
		for j := rng.Intn(10); j > 0; j-- {
			switch rng.Intn(4) {
			case 0:
				names = append(names, tok(c13RandName(rng)))
			case 1:
				names = append(names, tok(p+pick(rng, []string{"", "ey", "/", "0", "-x"})+c13RandName(rng)))
			default:
				names = append(names, tok(p+"/"+c13RandName(rng)))
			}
		}
		add("sub list %s %s %d %d %s", tok(p), tok(c13RandName(rng)), rng.Intn(5), rng.Intn(8)-3, joinOrDash(names))
	}
	// histories on Sub(ocimem, prefix) with siblings underneath
	nh, maxLen := 250, 30
	if tier == "thorough" {
		nh, maxLen = 4000, 120
	}
	for i := 0; i < nh; i++ {
		cases = append(cases, c13History(rng, maxLen))
	}
	for _, l := range []string{"sub call x61 NoSuchMethod x62 x63 absent", "sub call zz GetBlob x62 x63 absent", "sub call x61 GetBlob x62 x63 new x61",
		"sub list x61 x62 -1 0 -", "sub frob", "sub list x61 x62 0 0 ??"} {
		cases = append(cases, Case{Tag: "malformed", Lines: []string{l}})
	}
	return cases
}

func c13History(rng *RNG, maxLen int) Case {
	p := pick(rng, []string{"foo", "a", "foo/bar"})
	u := newMemUniverse(rng, false)
	siblings := []string{p + "/x", p + "ey/y", "secret", p}
	lines := []string{"sub meminit " + tok(p)}
	raw := func(l string) { lines = append(lines, "sub memraw "+strings.TrimPrefix(l, "mem ")) }
	via := func(l string) { lines = append(lines, "sub "+l) }
	for _, r := range siblings {
		for j, b := range u.blobs {
			if j < 3 || rng.Chance(1, 3) {
				raw(linePushBlob(r, "application/octet-stream", sha256Digest(b), int64(len(b)), b))
			}
		}
		m := u.manifests[4] // opaque
		raw(linePushManifest(r, "latest", m.data, m.mt))
	}
	// view names: clean ones, and dirty ones aimed at the siblings
	u.repos = []string{"x", "x", "y/z", "x", "../secret", "../" + strings.TrimPrefix(p, "foo/") + "ey/y", "x/../../secret", "", ".", "..", "/x", "x/", "X", "./x", "x//y"}
	if rng.Chance(1, 2) {
		u.repos = append(u.repos, c13RandName(rng), c13RandName(rng))
	}
	var writers []string
	for j, b := range u.blobs {
		if rng.Chance(2, 3) {
			via(linePushBlob("x", "application/octet-stream", sha256Digest(b), int64(len(b)), b))
		}
		if j%2 == 0 && rng.Chance(1, 2) {
			via(linePushBlob("y/z", "application/octet-stream", sha256Digest(b), int64(len(b)), b))
		}
	}
	for _, m := range u.manifests[:4] {
		if rng.Chance(2, 3) {
			via(linePushManifest("x", pick(rng, append([]string{""}, u.tags...)), m.data, m.mt))
		}
	}
	for k := 5 + rng.Intn(maxLen); k > 0; k-- {
		if rng.Chance(1, 8) {
			via(fmt.Sprintf("mem repositories %s", tok(pick(rng, []string{"", "x", "y", "w", "y/z", "zz", "..", "x/"}))))
			continue
		}
		via(u.genOp(rng, &writers))
	}
	// inspect the underlying registry
	raw("mem repositories " + tok(""))
	for _, r := range append(siblings, p+"/y/z") {
		raw(fmt.Sprintf("mem tags %s %s", tok(r), tok("")))
		raw(fmt.Sprintf("mem resolvetag %s %s", tok(r), tok("latest")))
		for _, b := range u.blobs[:3] {
			raw(fmt.Sprintf("mem resolveblob %s %s", tok(r), tok(sha256Digest(b))))
		}
	}
	via("mem repositories " + tok(""))
	return Case{Tag: "history", Lines: lines}
}

// ---- oracle ----

func c13NameClass(n string) string {
	for _, seg := range strings.Split(n, "/") {
		if seg == ".." {
			return "dotdot"
		}
	}
	if n == "" {
		return "empty"
	}
	if !ociref.IsValidRepository(n) {
		return "dirty"
	}
	return "clean"
}

func (*c13) Oracle(c Case, impl []string) []Failure {
	var fs []Failure
	fail := func(i int, class, oracle, exp string) {
		fs = append(fs, Failure{Class: class, Oracle: oracle, Index: i, Expected: exp, Observed: impl[i], Detail: "panic value: " + lastPanic})
	}
	// twin: the underlying registry driven directly with prefixed names
	var twin *regInterp
	prefix := ""
	diverged := false
	for i, l := range c.Lines {
		if i >= len(impl) {
			break
		}
		t := strings.Split(l, " ")
		got := impl[i]
		if len(t) >= 2 && t[1] == "uploadid" {
			if strings.HasSuffix(got, "outside=true") {
				fail(i, "c13-escapes-prefix:upload-id", "sub_confined", "the upload refused, or the blob stored under the prefix only")
			}
			continue
		}
		if c.Tag == "malformed" || len(t) < 2 {
			continue
		}
		if strings.HasPrefix(got, "nested-differs ") {
			fail(i, "sub-nested-differs", "sub_of_sub_is_sub_of_joined_prefix", "Sub(Sub(r, a), b) behaves as Sub(r, a/b)")
			continue
		}
		switch t[1] {
		case "call":
			if len(t) < 7 {
				continue
			}
			p, _ := untok(t[2])
			m := t[3]
			n1, _ := untok(t[4])
			n2, _ := untok(t[5])
			if got == "panic" {
				cls := "c13-panic:" + t[6]
				fail(i, cls, "no_panic", "a call on the wrapped registry")
				continue
			}
			full := func(n string) string {
				if p == "" {
					return n
				}
				return p + "/" + n
			}
			// expected arguments
			var want []string
			reg := ocifilter.Sub(newRecBackend().Funcs, "q")
			mv := reflect.ValueOf(reg).MethodByName(m)
			if !mv.IsValid() {
				continue
			}
			for k := 1; k < mv.Type().NumIn(); k++ {
				switch {
				case mv.Type().In(k) != stringType:
					want = append(want, "=")
				case m == "MountBlob" && k == 2:
					want = append(want, tok(full(n2)))
				case k == 1:
					want = append(want, tok(full(n1))) // the repository, or the start point of a repository listing
				default:
					want = append(want, tok(fmt.Sprintf("arg%d", k-1)))
				}
			}
			// expected scope: the naive set image
			wantScope := "-"
			switch t[6] {
			case "unlimited":
				wantScope = "*"
			case "new":
				rs, _ := parseTriples(t[7:])
				set := map[rsT]bool{}
				for _, r := range rs {
					if r.ResourceType == ociauth.TypeRepository && p != "" {
						r.Resource = full(r.Resource)
					}
					set[r] = true
				}
				var items []rsT
				for r := range set {
					items = append(items, r)
				}
				sort.Slice(items, func(a, b int) bool { return rsLess(items[a], items[b]) })
				var ss []string
				for _, r := range items {
					ss = append(ss, rsShow(r))
				}
				if len(ss) > 0 {
					wantScope = "[" + strings.Join(ss, " ") + "]"
				}
			}
			exp := fmt.Sprintf("call=%s(%s) scope=%s", m, strings.Join(want, ","), wantScope)
			if got == exp {
				continue
			}
			// classify
			gotArgs := ""
			if a := strings.Index(got, "("); a >= 0 {
				if b := strings.Index(got, ")"); b > a {
					gotArgs = got[a+1 : b]
				}
			}
			switch {
			case !strings.HasPrefix(got, "call="+m+"("):
				fail(i, "c13-wrong-call:"+m, "sub_name_map", exp)
			case gotArgs != strings.Join(want, ","):
				escaped := false
				ga := strings.Split(gotArgs, ",")
				for k, w := range want {
					if k < len(ga) && w != ga[k] && p != "" && strings.HasPrefix(w, "x") {
						if g, ok := untok(ga[k]); ok && !strings.HasPrefix(g, p+"/") && (k == 0 || m == "MountBlob" && k == 1) {
							escaped = true
						}
					}
				}
				cls := "c13-name-map:"
				if escaped {
					cls = "c13-escapes-prefix:"
				}
				which := n1
				if m == "MountBlob" && len(ga) > 1 && len(want) > 1 && ga[0] == want[0] {
					which = n2
				}
				if m == "Repositories" {
					fail(i, cls+"Repositories-start", "sub_listing", exp)
				} else {
					fail(i, cls+c13NameClass(which), "sub_confined", exp)
				}
			case strings.HasSuffix(got, " res=other"):
				fail(i, "c13-result-changed:"+m, "sub_name_map", exp)
			default:
				fail(i, "c13-scope-map:"+m, "sub_scopes", exp)
			}
		case "list":
			if len(t) != 7 {
				continue
			}
			p, _ := untok(t[2])
			start, _ := untok(t[3])
			stop, _ := strconv.Atoi(t[4])
			errAt, _ := strconv.Atoi(t[5])
			if got == "panic" {
				fail(i, "c13-panic:list", "no_panic", "a listing")
				continue
			}
			var want []string
			seen := map[string]bool{}
			for _, x := range commaList(t[6]) {
				n, _ := untok(x)
				if seen[n] {
					continue
				}
				seen[n] = true
				if p == "" {
					if n > start {
						want = append(want, n)
					}
				} else if s, ok := strings.CutPrefix(n, p+"/"); ok && s > start {
					want = append(want, s)
				}
			}
			// The empty stripped name (a backend entry "prefix/") is not a repository:
			// whether a view lists it is not judged here.
			sort.Strings(want)
			for k := range want {
				want[k] = tok(want[k])
			}
			a := strings.Index(got, "events=[")
			if a < 0 || !strings.HasSuffix(got, "]") {
				fail(i, "c13-listing-shape", "sub_listing", "start=… events=[…]")
				continue
			}
			var gotEv []string
			listsEmpty := false
			for _, e := range strings.Fields(got[a+8 : len(got)-1]) {
				if e == "x" && p != "" {
					listsEmpty = true
					continue
				}
				gotEv = append(gotEv, e)
			}
			if listsEmpty && stop != 0 {
				continue // the consumer's count included the unjudged entry
			}
			cls := "c13-listing"
			if start != "" {
				cls = "c13-listing-from-start"
			}
			if errAt < 0 {
				if stop != 0 && len(want) > stop {
					want = want[:stop]
				}
				if strings.Join(gotEv, " ") != strings.Join(want, " ") {
					fail(i, cls, "sub_listing", "events=["+strings.Join(want, " ")+"]")
				}
				continue
			}
			// with a backend error somewhere: what is delivered before it is a prefix of the full listing
			for k, e := range gotEv {
				if e == "!b" {
					if k != len(gotEv)-1 {
						fail(i, "c13-listing-after-error", "sub_listing_events", "the backend error is the last event")
					}
					break
				}
				if k >= len(want) || want[k] != e {
					fail(i, cls, "sub_listing", "a prefix of ["+strings.Join(want, " ")+"] then !b")
					break
				}
			}
		case "meminit":
			prefix, _ = untok(t[2])
			twin = newRegInterp(ocimem.New())
			diverged = false
		case "memraw", "mem":
			if twin == nil || diverged || len(t) < 3 {
				continue
			}
			if got == "panic" {
				fail(i, "c13-panic:"+t[2], "no_panic", "a result")
				diverged = true
				continue
			}
			tt := append([]string{"mem"}, t[2:]...)
			cls := "c13-raw-state-differs:" + t[2]
			if t[1] == "mem" {
				name := ""
				if t[2] == "mount" && len(tt) > 3 {
					from, _ := untok(tt[2])
					to, _ := untok(tt[3])
					tt[2], tt[3] = tok(prefix+"/"+from), tok(prefix+"/"+to)
					name = to
					if c13NameClass(from) != "clean" {
						name = from
					}
				} else {
					name, _ = untok(tt[2])
					tt[2] = tok(prefix + "/" + name)
				}
				cls = "c13-view-differs:" + t[2] + ":" + c13NameClass(name)
				if t[2] == "repositories" {
					cls = "c13-view-differs:repositories"
					if name != "" {
						cls += "-from-start"
					}
				}
			}
			exp := guard(func() string { return twin.do(strings.Join(tt, " ")) })
			if t[1] == "mem" && t[2] == "repositories" {
				if items, ok := parseListOut(exp); ok {
					var vs []string
					for _, it := range items {
						if s, ok := strings.CutPrefix(it, prefix+"/"); ok {
							vs = append(vs, tok(s))
						}
					}
					exp = "list [" + strings.Join(vs, " ") + "]"
				}
			}
			if exp != got {
				fail(i, cls, "view_equals_restricted_registry", exp)
				diverged = true
			}
		}
	}
	return fs
}

func (*c13) NonTrivial(c Case, impl []string) (bool, string) {
	if len(c.Lines) == 0 || len(impl) == 0 {
		return false, "empty"
	}
	t := strings.Split(c.Lines[0], " ")
	if len(t) < 2 {
		return false, "malformed"
	}
	switch t[1] {
	case "call":
		return strings.HasPrefix(impl[0], "call="), "call"
	case "list":
		return strings.Contains(impl[0], "events=[x"), "list"
	case "meminit":
		ok := 0
		for _, o := range impl {
			if strings.HasPrefix(o, "read ") || strings.HasPrefix(o, "desc ") {
				ok++
			}
		}
		return ok >= 3, "history"
	}
	return false, "malformed"
}

var _ ociregistry.Interface = (*ocimem.Registry)(nil)
