package main

import (
	"context"
	"encoding/json"
	"fmt"
	"io"
	"math"
	"net/http"
	"net/url"
	"strconv"
	"strings"
	"time"

	"cuelabs.dev/go/oci/ociregistry/ociauth"
)

// C10T (part of C10 and C11): the token-response decoder of ociauth and its consumer.
//
// Until now the engine of C10/C11 (cauth*.go) wrote every token answer itself from four
// fields and told the model the fields; here the DOCUMENT is the input, and three parties must
// agree on it:
//   * the model         decodeToken / consume (lean/OciModel/TokenDecode.lean on top of Json.lean),
//   * encoding/json     json.Unmarshal into a struct declared like ociauth's wireToken
//                       (the declaration is pinned by the regenerated fact Generated/WireToken.lean),
//   * the transport     ociauth.NewStdTransport, public API only: which bearer token the retried
//                       request carries, whether the next request reuses it, which refresh token the
//                       next token request carries.
//
// Lines:
//   tokdec doc <body>                    impl: encoding/json on the mirror struct     model: decodeToken
//   tokdec use <body> <elapsedMs> <old>  impl: two calls through the real transport   model: decodeToken ∘ consume ∘ prune
// (formats: lean/OciModel/Driver/TokenDecode.lean)
//
// model vs encoding/json: the diff on "doc"; model vs transport: the diff on "use"; encoding/json vs
// transport and the clauses of C10 that depend on the decoder: the oracle (no Lean model involved).

func init() { engines["C10T"] = func() Engine { return &c10t{} } }

type c10t struct{}

func (*c10t) UsesModel() bool { return true }

// c10tWire is declared exactly like ociauth.wireToken.
type c10tWire struct {
	Token        string `json:"token"`
	AccessToken  string `json:"access_token,omitempty"`
	RefreshToken string `json:"refresh_token"`
	ExpiresIn    int    `json:"expires_in"`
}

func c10tDecode(body []byte) (c10tWire, string) {
	var w c10tWire
	err := json.Unmarshal(body, &w)
	switch err.(type) {
	case nil:
		return w, ""
	case *json.SyntaxError:
		return c10tWire{}, "err-syntax"
	case *json.UnmarshalTypeError:
		return c10tWire{}, "err-type"
	}
	return c10tWire{}, fmt.Sprintf("err-other:%T", err)
}

func c10tDoc(body []byte) string {
	w, e := c10tDecode(body)
	if e != "" {
		return e
	}
	return fmt.Sprintf("ok %s %s %s %d", tok(w.Token), tok(w.AccessToken), tok(w.RefreshToken), w.ExpiresIn)
}

// ---- the scripted registry and token server ----

const (
	c10tRegHost = "reg.example"
	c10tTokHost = "tok.example"
	c10tScope   = "repository:foo/bar:pull"
	c10tSecond  = `{"token":"second-answer","expires_in":3600}`
)

type c10tEvent struct {
	kind    byte   // 'r' request to the registry, 't' token request
	auth    string // r: the Authorization header
	method  string // t
	refresh string // t: refresh_token of a POST
	call    int
}

type c10tWorld struct {
	body      []byte
	tokenReqs int
	call      int
	events    []c10tEvent
}

func (w *c10tWorld) RoundTrip(req *http.Request) (*http.Response, error) {
	mk := func(code int, hdr http.Header, body string) *http.Response {
		return &http.Response{StatusCode: code, Status: strconv.Itoa(code) + " " + http.StatusText(code), Header: hdr,
			Body: io.NopCloser(strings.NewReader(body)), ContentLength: int64(len(body)), Request: req, Proto: "HTTP/1.1", ProtoMajor: 1, ProtoMinor: 1}
	}
	var form string
	if req.Body != nil {
		d, _ := io.ReadAll(req.Body)
		req.Body.Close()
		form = string(d)
	}
	switch req.URL.Host {
	case c10tTokHost:
		ev := c10tEvent{kind: 't', method: req.Method, call: w.call}
		if req.Method == "POST" {
			v, _ := url.ParseQuery(form)
			ev.refresh = v.Get("refresh_token")
		}
		w.events = append(w.events, ev)
		w.tokenReqs++
		if w.tokenReqs == 1 {
			return mk(200, http.Header{"Content-Type": {"application/json"}}, string(w.body)), nil
		}
		return mk(200, http.Header{"Content-Type": {"application/json"}}, c10tSecond), nil
	case c10tRegHost:
		a := req.Header.Get("Authorization")
		w.events = append(w.events, c10tEvent{kind: 'r', auth: a, call: w.call})
		if a == "" {
			return mk(401, http.Header{"Www-Authenticate": {`Bearer realm="http://` + c10tTokHost + `/token",service="svc",scope="` + c10tScope + `"`}}, `{"errors":[{"code":"UNAUTHORIZED"}]}`), nil
		}
		return mk(200, http.Header{}, "{}"), nil
	}
	return nil, fmt.Errorf("no such host %q", req.URL.Host)
}

type c10tConfig struct{ refresh string }

func (c c10tConfig) EntryForRegistry(host string) (ociauth.ConfigEntry, error) {
	if host != c10tRegHost {
		return ociauth.ConfigEntry{}, nil
	}
	return ociauth.ConfigEntry{RefreshToken: c.refresh}, nil
}

// c10tLate is the lateness of the second call (over the declared time) beyond which a line is
// withdrawn from the comparison: the model's own tolerance is 600 ms.
const c10tLate = 500 * time.Millisecond

func c10tUse(body []byte, elapsedMs int, old string) string {
	w := &c10tWorld{body: body}
	tr := ociauth.NewStdTransport(ociauth.StdTransportParams{Config: c10tConfig{refresh: old}, Transport: w})
	call := func() (int, error) {
		ctx := ociauth.ContextWithRequestInfo(context.Background(), ociauth.RequestInfo{RequiredScope: ociauth.ParseScope(c10tScope)})
		req, err := http.NewRequestWithContext(ctx, "GET", "http://"+c10tRegHost+"/v2/foo/bar/manifests/latest", nil)
		if err != nil {
			return 0, err
		}
		resp, err := tr.RoundTrip(req)
		if err != nil {
			return 0, err
		}
		resp.Body.Close()
		return resp.StatusCode, nil
	}
	bearer := func(a string) (string, bool) {
		if !strings.HasPrefix(a, "Bearer ") {
			return "", false
		}
		return a[len("Bearer "):], true
	}
	start := time.Now()
	w.call = 1
	status, err := call()
	first := "err"
	if err == nil {
		first = "odd-first:" + strconv.Itoa(status)
		for _, ev := range w.events {
			if ev.kind == 'r' && ev.auth != "" {
				if t, ok := bearer(ev.auth); ok && status == 200 {
					first = "sent:" + tok(t)
				} else {
					first = "odd-auth:" + tok(ev.auth)
				}
			}
		}
	}
	if elapsedMs > 0 {
		time.Sleep(time.Duration(elapsedMs) * time.Millisecond)
	}
	late := time.Since(start) - time.Duration(elapsedMs)*time.Millisecond
	w.call = 2
	n1 := len(w.events)
	status, err = call()
	second := "odd-second"
	if err != nil {
		second = "odd-second-err"
	}
	for _, ev := range w.events[n1:] {
		if ev.kind == 't' {
			second = "ask:-"
			if ev.method == "POST" {
				second = "ask:" + tok(ev.refresh)
				if ev.refresh == "" {
					second = "ask:empty-post"
				}
			}
			break
		}
		if ev.kind == 'r' && ev.auth != "" {
			if t, ok := bearer(ev.auth); ok {
				second = "reuse:" + tok(t)
			}
			break
		}
	}
	if late > c10tLate && strings.HasPrefix(first, "sent:") {
		return "skip"
	}
	return first + " " + second
}

func (*c10t) Impl(c Case) []string {
	out := make([]string, len(c.Lines))
	for i, l := range c.Lines {
		t := strings.Split(l, " ")
		out[i] = guard(func() string {
			if t[0] != "tokdec" || len(t) < 3 {
				return "bad-op"
			}
			body, ok := untok(t[2])
			if !ok {
				return "bad-op"
			}
			switch {
			case t[1] == "doc" && len(t) == 3:
				return c10tDoc([]byte(body))
			case t[1] == "use" && len(t) == 5:
				ms, err := strconv.Atoi(t[3])
				old, ok := untok(t[4])
				if err != nil || !ok || ms < 0 || ms > 5000 {
					return "bad-op"
				}
				return c10tUse([]byte(body), ms, old)
			}
			return "bad-op"
		})
	}
	return out
}

// ---- generators ----

type c10tGen struct {
	*c02jGen
}

var c10tTokens = []string{"T", "tok-1", "eyJhbGciOiJSUzI1NiJ9.eyJzdWIiOiIifQ.c2ln", "a b", " lead", "é", "日本", "\U0001F600", "q\"b\\c/d", "\x7f", "x y", "ſK", "0", "null", "token"}
var c10tBadBytes = []string{"\xff", "a\xc3", "\xed\xa0\x80", "\xc0\x80z", "\xf4\x90\x80\x80", "\xe2\x82"}

// c10tExpiry: the values on which the lifetime rule, the int range and int64-nanosecond arithmetic turn
// (F41: ±9223372036 is where the code saturates; the multiples of 2^64 ns around ±18446744073 are where the
// product it used to compute came back into range).
var c10tExpiry = []string{"0", "-0", "1", "2", "3", "59", "60", "61", "300", "3600", "86400", "-1", "-2", "-5", "-60", "-3600",
	"9223372036", "9223372037", "-9223372036", "-9223372037", "18446744073", "18446744074", "-18446744073", "-18446744074", "27670116110", "-27670116111",
	"2147483647", "2147483648", "-2147483648", "-2147483649", "4294967296", "9223372036854775807", "-9223372036854775808", "9223372036854775806", "4611686018427387904", "-4611686018427387904",
	"9223372036854775808", "-9223372036854775809", "18446744073709551616", "123456789012345678901234567890",
	"1.0", "60.0", "1e2", "1E0", "6e1", "0.5", "-1.5", "1e400", "0e0", "-0.0", "1e-2"}

func (g *c10tGen) strField(name string, val string) jkv {
	return jkv{g.key(name), g.strVal(val)}
}

func (g *c10tGen) expiryVal() *jn {
	switch {
	case g.rng.Chance(1, 12):
		return jraw(pick(g.rng, []string{`"60"`, `"1"`, `""`, "true", "false", "[]", "[60]", "{}", `{"expires_in":60}`}))
	case g.rng.Chance(1, 14):
		return jraw("null")
	case g.rng.Chance(1, 6):
		return jraw(strconv.FormatInt(int64(g.rng.Uint64()), 10))
	case g.rng.Chance(1, 8):
		return jraw(strconv.Itoa(g.rng.Intn(8) - 2))
	}
	return jraw(pick(g.rng, c10tExpiry))
}

func (g *c10tGen) tokenVal() string {
	if g.rng.Chance(1, 10) {
		return pick(g.rng, c10tBadBytes)
	}
	if g.rng.Chance(1, 8) {
		return ""
	}
	return pick(g.rng, c10tTokens)
}

// document is a token answer: each field present or not, in any order, possibly repeated (under the
// same or another spelling), next to members no field takes.
func (g *c10tGen) document() *jn {
	var m []jkv
	if g.rng.Chance(3, 4) {
		m = append(m, g.strField("token", g.tokenVal()))
	}
	if g.rng.Chance(1, 2) {
		m = append(m, g.strField("access_token", g.tokenVal()))
	}
	if g.rng.Chance(1, 2) {
		m = append(m, g.strField("refresh_token", pick(g.rng, []string{"R1", "refresh é", "", "r\"t", "R1"})))
	}
	if g.rng.Chance(2, 3) {
		m = append(m, jkv{g.key("expires_in"), g.expiryVal()})
	}
	if g.rng.Chance(1, 3) {
		m = append(m, jkv{g.lit("issued_at", false), jraw(g.lit("2026-09-30T12:00:00Z", false))})
	}
	for g.q() || g.rng.Chance(1, 10) {
		m = append(m, g.unknownMember())
	}
	for g.rng.Chance(1, 6) { // a repeated member: the last one wins, whatever the spelling
		switch g.rng.Intn(4) {
		case 0:
			m = append(m, g.strField("token", g.tokenVal()))
		case 1:
			m = append(m, g.strField("access_token", g.tokenVal()))
		case 2:
			m = append(m, g.strField("refresh_token", pick(g.rng, []string{"R2", ""})))
		default:
			m = append(m, jkv{g.key("expires_in"), g.expiryVal()})
		}
	}
	if g.rng.Chance(1, 2) {
		m = g.shuffle(m)
	}
	return jobj(m...)
}

// nested: the fields are there, but not where the struct has them.
func (g *c10tGen) nested() *jn {
	inner := g.document()
	switch g.rng.Intn(5) {
	case 0:
		return jobj(jkv{g.lit(pick(g.rng, []string{"data", "result", "token_response", ""}), false), inner})
	case 1:
		return jarr(inner)
	case 2:
		return jobj(jkv{g.key("token"), inner})
	case 3:
		return jobj(jkv{g.key("token"), jarr(jraw(`"T"`))}, jkv{g.key("expires_in"), jobj(jkv{`"seconds"`, jraw("60")})})
	default:
		return jobj(jkv{g.key("access_token"), jraw(g.lit("A", false))}, jkv{g.lit("extra", false), g.anyValue(3)}, jkv{g.key("token"), jraw("null")})
	}
}

func c10tCase(tag string, body []byte, elapsedMs int, old string) Case {
	return Case{Tag: tag, Lines: []string{"tokdec doc " + tok(string(body)), fmt.Sprintf("tokdec use %s %d %s", tok(string(body)), elapsedMs, tok(old))}}
}

func c10tDirected() []Case {
	docs := []string{
		`{"token":"T"}`, `{"access_token":"A"}`, `{"token":"T","access_token":"A"}`, `{"token":"","access_token":"A"}`, `{"access_token":"A","token":"T"}`,
		`{"token":"T","expires_in":0}`, `{"token":"T","expires_in":1}`, `{"token":"T","expires_in":2}`, `{"token":"T","expires_in":3}`, `{"token":"T","expires_in":60}`,
		`{"token":"T","expires_in":-1}`, `{"token":"T","expires_in":-5}`, `{"token":"T","expires_in":-9223372036}`, `{"token":"T","expires_in":-9223372037}`,
		`{"token":"T","expires_in":9223372036}`, `{"token":"T","expires_in":9223372037}`, `{"token":"T","expires_in":9223372036854775807}`, `{"token":"T","expires_in":-9223372036854775808}`,
		`{"token":"T","expires_in":18446744074}`, `{"token":"T","expires_in":9223372036854775808}`, `{"token":"T","expires_in":1.0}`, `{"token":"T","expires_in":6e1}`, `{"token":"T","expires_in":"60"}`,
		`{"token":"T","expires_in":null}`, `{"token":null,"access_token":"A"}`, `{"token":"T","token":null}`, `{"token":"T","token":""}`, `{"token":"T","token":"U"}`,
		`{"Token":"a","token":"b","TOKEN":"c"}`, `{"token":"b","Token":"a"}`, `{"TOKEN":"T","EXPIRES_IN":2,"Refresh_Token":"R"}`, "{\"acceſſ_toKen\":\"A\"}", "{\"toKen\":\"T\",\"expireſ_in\":1}",
		`{"token ":"T"}`, `{"tok":"T"}`, `{"accesstoken":"A"}`, `{"access-token":"A"}`, `{"expires_in":60}`, `{"refresh_token":"R"}`, `{"refresh_token":"R","token":""}`,
		`{"token":"T","refresh_token":"R"}`, `{"token":"T","refresh_token":""}`, `{"token":"T","refresh_token":null}`, `{"token":"T","refresh_token":"R","refresh_token":""}`, `{"token":"T","refresh_token":7}`,
		`{"token":7}`, `{"token":true}`, `{"token":["T"]}`, `{"token":{"token":"T"}}`, `{"data":{"token":"T"}}`, `[{"token":"T"}]`, `"T"`, `60`, `true`, `null`, ` null `, `{}`, ``, ` `,
		"\xef\xbb\xbf" + `{"token":"T"}`, `{"token":"T"}` + "\xef\xbb\xbf", `{"token":"T"}x`, `{"token":"T"}{"token":"U"}`, `{"token":"T"} ` + "\n", `{"token":"T",}`, `{"token":"T"`, `{'token':'T'}`, `{"token":"T"}//`,
		`{"token":"` + "\xff" + `"}`, `{"token":"a` + "\xc3" + `"}`, `{"token":"\ud800"}`, `{"token":"😀"}`, `{"token":"\u0000"}`, `{"token":"a\nb"}`, `{"token":"a` + "\n" + `b"}`,
		`{"token":"T","x":{"token":"U"},"y":[{"expires_in":1}]}`, `{"x":1e400,"token":"T"}`, `{"expires_in":1e400,"token":"T"}`, `{"token":"T","expires_in":-0}`, `{"token":"T","expires_in":00}`, `{"token":"T","expires_in":+1}`,
		`{"token":"T","expires_in":1,"expires_in":3600}`, `{"token":"T","expires_in":3600,"expires_in":-1}`, `{"token":"T","expires_in":3600,"Expires_In":null}`, `{"token":"T","expires_in":3600,"expires_in":"x"}`,
	}
	var cases []Case
	for i, d := range docs {
		old := ""
		if i%3 == 1 {
			old = "R0"
		}
		cases = append(cases, c10tCase("directed", []byte(d), 0, old))
	}
	// refresh-token carry-over with a configured one
	for _, d := range []string{`{"token":"T","expires_in":1}`, `{"token":"T","refresh_token":"R","expires_in":1}`, `{"token":"T","refresh_token":"","expires_in":1}`, `{"refresh_token":"R"}`, `{"refresh_token":"R","token":7}`, `{"refresh_token":"R"}x`, `null`} {
		cases = append(cases, c10tCase("directed:refresh", []byte(d), 0, "R0"))
	}
	return cases
}

func (e *c10t) Gen(rng *RNG, tier string) []Case {
	g := &c10tGen{&c02jGen{rng: rng}}
	cases := c10tDirected()
	// real time: a second request 1.3 s later (dead: 1 and 2 s; alive: 3 s and more)
	timed := []string{"1", "2", "3", "60", "-1", "0"}
	if tier == "thorough" {
		timed = append(timed, "4", "-9223372037", "9223372037", "2", "3")
	}
	for _, x := range timed {
		cases = append(cases, c10tCase("timed", []byte(`{"token":"T","expires_in":`+x+`}`), 1300, pick(rng, []string{"", "R0"})))
	}
	n := 2400
	if tier == "thorough" {
		n = 60000
	}
	for i := 0; i < n; i++ {
		g.quirk = pick(rng, []int{0, 0, 0, 5, 5, 12, 25, 40})
		var data []byte
		tag := "gen:doc"
		switch k := rng.Intn(20); {
		case k < 13:
			data = g.text(g.document())
		case k < 15:
			data, tag = g.text(g.nested()), "gen:nested"
		case k < 16:
			data, tag = g.text(g.anyValue(3)), "gen:any-value"
		case k < 17:
			data, tag = g.randString(), "gen:string"
		case k < 18: // the lifetime alone, every listed value
			data, tag = []byte(`{"token":"T","expires_in":`+pick(rng, c10tExpiry)+`}`), "gen:expiry"
		default: // bytes of the JSON alphabet at random
			tag = "gen:bytes"
			alphabet := "{}[]:,\"\\ \n\t\r0123456789-+.eEtruefalsnu/bx\x00\x1f\xc3\xa9\xfftokenacs_"
			for k := rng.Intn(24); k > 0; k-- {
				data = append(data, alphabet[rng.Intn(len(alphabet))])
			}
		}
		if g.quirk > 0 && tag == "gen:doc" {
			tag = "gen:doc-quirks"
		}
		if rng.Chance(1, 4) {
			var what string
			data, what = g.damage(data)
			tag += ":" + what
		}
		cases = append(cases, c10tCase(tag, data, 0, pick(rng, []string{"", "", "R0"})))
	}
	return cases
}

// ---- oracle: encoding/json and the clauses of C10 against the transport (no Lean model involved) ----

func (*c10t) Oracle(c Case, impl []string) []Failure {
	var fs []Failure
	for i, l := range c.Lines {
		t := strings.Split(l, " ")
		if i >= len(impl) || len(t) != 5 || t[1] != "use" || impl[i] == "skip" {
			continue
		}
		bodyS, _ := untok(t[2])
		elapsedMs, _ := strconv.Atoi(t[3])
		old, _ := untok(t[4])
		fail := func(class, oracle, exp string, detail string) {
			fs = append(fs, Failure{Class: class, Oracle: oracle, Index: i, Expected: exp, Observed: impl[i], Detail: detail})
		}
		if impl[i] == "panic" {
			fail("c10t-panic", "token_answer_never_panics", "no panic", lastPanic)
			continue
		}
		parts := strings.Split(impl[i], " ")
		if len(parts) != 2 || strings.HasPrefix(parts[0], "odd") || strings.HasPrefix(parts[1], "odd") {
			fail("c10t-flow", "challenge_token_retry_flow", "err|sent:<tok> reuse:<tok>|ask:<rt>", "the conversation did not have the scripted shape")
			continue
		}
		first, second := parts[0], parts[1]
		w, derr := c10tDecode([]byte(bodyS))
		named := w.Token
		if named == "" {
			named = w.AccessToken
		}
		// the token presented is the one the document names; a document naming none is an error
		if derr != "" || named == "" {
			if first != "err" {
				fail("c10t-presented-token", "undecodable_or_tokenless_answer_is_an_error", "err", "encoding/json: "+derr+c10tDocNote(w))
			}
		} else if first != "sent:"+tok(named) {
			fail("c10t-presented-token", "presented_token_is_the_one_the_document_names", "sent:"+tok(named), "encoding/json: "+c10tDocNote(w))
		}
		// the refresh token of the answer is kept iff it is non-empty (also when the answer names no access token)
		if strings.HasPrefix(second, "ask:") {
			want := old
			if derr == "" && w.RefreshToken != "" {
				want = w.RefreshToken
			}
			exp := "ask:-"
			if want != "" {
				exp = "ask:" + tok(want)
			}
			if second != exp {
				fail("c10t-refresh-token", "refresh_token_kept_iff_nonempty", exp, "encoding/json: "+derr+c10tDocNote(w))
			}
		}
		if derr != "" || named == "" {
			if strings.HasPrefix(second, "reuse:") {
				fail("c10t-token-from-nowhere", "no_token_cached_from_a_failed_answer", "ask:…", "")
			}
			continue
		}
		// freshness, as the SERVER stated it: expiry = acquisition + expires_in seconds (60 when 0). The second call
		// starts at least elapsedMs after the acquisition.
		// F41: expires_in of EVERY magnitude is judged by the same two clauses - values whose nanoseconds leave int64
		// used to get classes of their own (":int64-overflow", known findings F41 / F41b); the stated lifetime is
		// computed in saturating milliseconds here so that the oracle itself cannot wrap.
		life := int64(w.ExpiresIn)
		if life == 0 {
			life = 60
		}
		lifeMs := c10tSatMul1000(life)
		expired := lifeMs < int64(elapsedMs)
		if expired && strings.HasPrefix(second, "reuse:") {
			fail("c10t-expired-token-reused", "token_past_its_stated_lifetime_is_not_presented_later", "ask:…",
				fmt.Sprintf("expires_in=%d, second request %d ms after the answer", w.ExpiresIn, elapsedMs))
		}
		// silent cache hit: a token with more than 2 s to live (1 s margin + tolerance) is reused without a token request
		live := life > 0 && lifeMs-int64(elapsedMs) >= 2000
		if live && !strings.HasPrefix(second, "reuse:") {
			fail("c10t-live-token-not-reused", "cached_unexpired_token_means_no_token_request", "reuse:"+tok(named),
				fmt.Sprintf("expires_in=%d, second request %d ms after the answer", w.ExpiresIn, elapsedMs))
		}
		if strings.HasPrefix(second, "reuse:") && second != "reuse:"+tok(named) {
			fail("c10t-presented-token", "reused_token_is_the_one_the_document_names", "reuse:"+tok(named), "")
		}
	}
	return fs
}

// c10tSatMul1000 is seconds in milliseconds, saturating at the ends of int64.
func c10tSatMul1000(sec int64) int64 {
	switch {
	case sec > math.MaxInt64/1000:
		return math.MaxInt64
	case sec < math.MinInt64/1000:
		return math.MinInt64
	}
	return sec * 1000
}

func c10tDocNote(w c10tWire) string {
	return fmt.Sprintf(" token=%q access_token=%q refresh_token=%q expires_in=%d", w.Token, w.AccessToken, w.RefreshToken, w.ExpiresIn)
}

func (*c10t) NonTrivial(c Case, impl []string) (bool, string) {
	bucket := c.Tag
	if strings.HasPrefix(bucket, "gen:") {
		if parts := strings.SplitN(bucket, ":", 3); len(parts) == 3 {
			bucket = parts[0] + ":" + parts[1] + ":damaged"
		}
	} else if i := strings.Index(bucket, ":"); i >= 0 {
		bucket = bucket[:i]
	}
	if bucket == "" {
		bucket = "replay"
	}
	outcome := "undecodable"
	nt := false
	for i, l := range c.Lines {
		if i >= len(impl) {
			break
		}
		if strings.HasPrefix(l, "tokdec doc ") && strings.HasPrefix(impl[i], "ok ") {
			nt = true
			outcome = "decoded"
		}
		if strings.HasPrefix(l, "tokdec use ") {
			switch {
			case strings.HasPrefix(impl[i], "sent:") && strings.Contains(impl[i], " reuse:"):
				outcome = "sent+reused"
			case strings.HasPrefix(impl[i], "sent:"):
				outcome = "sent+asked-again"
			case outcome == "decoded":
				outcome = "decoded-no-token"
			}
		}
	}
	return nt, bucket + "/" + outcome
}
