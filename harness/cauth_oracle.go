package main

import (
	"fmt"
	"sort"
	"strings"
)

// Oracles for C10 and C11, stated on the implementation trace alone: the case
// lines (configuration, scripts) and the messages the fake transport saw. They
// share nothing with the Lean model.

// ---- a reference reading of Www-Authenticate values (RFC 7235 challenge with
// auth-params), written from the grammar; used to construct inputs (which realm
// does a generated header name?) and, for C10, to know the scope a challenge asks for.

type refChal struct {
	scheme string
	params map[string]string
}

func refIsTokenChar(c byte) bool {
	if c <= 32 || c >= 127 {
		return false
	}
	return !strings.ContainsRune("\"(),/:;<=>?@[]\\{}", rune(c))
}

func refIsWS(c byte) bool { return c == ' ' || c == '\t' || c == '\r' || c == '\n' }

func refParseChallenge(h string) (*refChal, bool) {
	pos := 0
	readToken := func() string {
		start := pos
		for pos < len(h) && refIsTokenChar(h[pos]) {
			pos++
		}
		return h[start:pos]
	}
	skipWS := func() {
		for pos < len(h) && refIsWS(h[pos]) {
			pos++
		}
	}
	scheme := readToken()
	if scheme == "" {
		return nil, false
	}
	c := &refChal{scheme: strings.ToLower(scheme), params: map[string]string{}}
	skipWS()
	for pos < len(h) {
		skipWS()
		key := readToken()
		if key == "" || pos >= len(h) || h[pos] != '=' {
			return nil, false
		}
		pos++
		var val string
		if pos < len(h) && h[pos] == '"' {
			pos++
			var sb strings.Builder
			closed := false
			for pos < len(h) {
				ch := h[pos]
				pos++
				if ch == '\\' {
					if pos >= len(h) {
						break
					}
					sb.WriteByte(h[pos])
					pos++
					continue
				}
				if ch == '"' {
					closed = true
					break
				}
				sb.WriteByte(ch)
			}
			if !closed {
				return nil, false
			}
			val = sb.String()
		} else {
			val = readToken()
		}
		if val == "" {
			return nil, false
		}
		c.params[strings.ToLower(key)] = val
		skipWS()
		if pos < len(h) && h[pos] == ',' {
			pos++
			continue
		}
		break
	}
	if pos != len(h) {
		return nil, false
	}
	return c, true
}

// refSelect: Basic is preferred over Bearer, anything else is ignored.
func refSelect(values []string) *refChal {
	var firstBearer *refChal
	for _, v := range values {
		c, ok := refParseChallenge(v)
		if !ok {
			continue
		}
		if c.scheme == "basic" {
			return c
		}
		if c.scheme == "bearer" && firstBearer == nil {
			firstBearer = c
		}
	}
	return firstBearer
}

// ---- naive scope sets ----

type scopeSet map[[3]string]bool

func naiveScope(text string) scopeSet {
	s := scopeSet{}
	for _, f := range strings.Fields(text) {
		p := strings.Split(f, ":")
		if len(p) != 3 {
			s[[3]string{f, "", ""}] = true
			continue
		}
		for _, a := range strings.Split(p[2], ",") {
			s[[3]string{p[0], p[1], a}] = true
		}
	}
	return s
}

func (a scopeSet) subsetOf(b scopeSet) bool {
	for k := range a {
		if !b[k] {
			return false
		}
	}
	return true
}

func (a scopeSet) union(b scopeSet) scopeSet {
	u := scopeSet{}
	for k := range a {
		u[k] = true
	}
	for k := range b {
		u[k] = true
	}
	return u
}

func scopeTokText(s string) (text string, unlimited bool) {
	switch s {
	case "-":
		return "", false
	case "*":
		return "", true
	}
	t, _ := untok(s)
	return t, false
}

// ---- the observed trace ----

type obsMsg struct {
	kind    byte   // 'R', 'P', 'G'
	dest    string // registry host, or realm as the token server saw it
	authz   string // "-" | "B" | "U" | "O"
	bearer  string
	user    string
	pass    string
	other   string
	refresh string
	scope   string
	service string
	extra   string
	// position in the call's script, for token messages
	phase, attempt, method int
	reply                  *tokReply
}

type obsCall struct {
	idx     int // line index
	req     *authReq
	result  string
	bodyObs string
	reqObs  string
	msgs    []obsMsg
	bad     string // output that could not be read
}

func parseObsAuthz(p []string) (authz, a, b string, rest []string, ok bool) {
	if len(p) == 0 {
		return "", "", "", nil, false
	}
	switch p[0] {
	case "-":
		return "-", "", "", p[1:], true
	case "B", "O":
		if len(p) < 2 {
			return "", "", "", nil, false
		}
		v, k := untok(p[1])
		return p[0], v, "", p[2:], k
	case "U":
		if len(p) < 3 {
			return "", "", "", nil, false
		}
		u, k1 := untok(p[1])
		pw, k2 := untok(p[2])
		return "U", u, pw, p[3:], k1 && k2
	}
	return "", "", "", nil, false
}

func parseObsMsg(s string) (obsMsg, bool) {
	p := strings.Split(s, ",")
	var m obsMsg
	if len(p) < 2 {
		return m, false
	}
	if last := p[len(p)-1]; strings.HasPrefix(last, "X") {
		m.extra, _ = untok("x" + last[1:])
		if m.extra == "" {
			m.extra = "?"
		}
		p = p[:len(p)-1]
	}
	m.kind = p[0][0]
	var ok bool
	if m.dest, ok = untok(p[1]); !ok {
		return m, false
	}
	switch p[0] {
	case "R", "G":
		var a, b string
		var rest []string
		m.authz, a, b, rest, ok = parseObsAuthz(p[2:])
		if !ok {
			return m, false
		}
		switch m.authz {
		case "B":
			m.bearer = a
		case "U":
			m.user, m.pass = a, b
		case "O":
			m.other = a
		}
		if p[0] == "R" {
			return m, len(rest) == 0
		}
		if len(rest) != 2 {
			return m, false
		}
		var k1, k2 bool
		m.scope, k1 = untok(rest[0])
		m.service, k2 = untok(rest[1])
		return m, k1 && k2
	case "P":
		if len(p) != 5 {
			return m, false
		}
		var k1, k2, k3 bool
		m.authz = "-"
		m.refresh, k1 = untok(p[2])
		m.scope, k2 = untok(p[3])
		m.service, k3 = untok(p[4])
		return m, k1 && k2 && k3
	}
	return m, false
}

// parseObsCall reads one output line of a req and places every token message in
// the call's script (the same way the fake did: phase by registry requests seen,
// attempt by a 401 already answered in the phase, method by the verb).
func parseObsCall(idx int, a *authReq, out string) obsCall {
	c := obsCall{idx: idx, req: a}
	f := strings.Split(out, " ")
	if len(f) < 3 || !(f[0] == "err" || f[0] == "denied" || strings.HasPrefix(f[0], "resp:")) {
		c.bad = out
		return c
	}
	c.result, c.bodyObs, c.reqObs = f[0], f[1], f[2]
	regSeen := 0
	var saw401 [2]bool
	for _, s := range f[3:] {
		m, ok := parseObsMsg(s)
		if !ok {
			c.bad = out
			return c
		}
		if m.kind == 'R' {
			regSeen++
		} else {
			if regSeen > 0 {
				m.phase = 1
			}
			if saw401[m.phase] {
				m.attempt = 1
			}
			if m.kind == 'G' {
				m.method = 1
			}
			r := a.tok[m.phase][m.attempt][m.method]
			m.reply = &r
			if r.kind == 's' && r.status == 401 {
				saw401[m.phase] = true
			}
		}
		c.msgs = append(c.msgs, m)
	}
	return c
}

func (m *obsMsg) fields() []string {
	return []string{m.dest, m.bearer, m.user, m.pass, m.other, m.refresh, m.scope, m.service, m.extra}
}

// ---- what each host owns and has said ----

type hostFacts struct {
	user, pass, refresh, access string
	refreshes                   map[string]bool // refresh tokens: configured or issued to calls on this host
	grants                      map[string][]grantInfo
	named                       map[string]bool // realms (of the generator's table) this host's 401 responses mentioned
	basicChallenged             bool
}

// F39: a grant is what was asked of the token server, read by the documented grammar; a token server cannot
// be asked for "everything" (there is no such scope text), so no grant is unlimited: a request for the literal
// "*" is a grant for the opaque word "*" and covers no resource scope. Only the configured access token
// (hostFacts.access) is good for every scope.
type grantInfo struct {
	call      int // index among the calls
	now       int
	life      int // seconds
	scopeText string
}

// covers: the grant's scope text names every resource scope of the required scope. An unlimited required
// scope is covered by no grant.
func (g grantInfo) covers(required scopeSet, requiredUnlimited bool) bool {
	return !requiredUnlimited && required.subsetOf(naiveScope(g.scopeText))
}

func unescapeBackslashes(s string) string {
	var sb strings.Builder
	for i := 0; i < len(s); i++ {
		if s[i] == '\\' && i+1 < len(s) {
			i++
		}
		sb.WriteByte(s[i])
	}
	return sb.String()
}

func (h *hostFacts) noteChallenge(r regReply) {
	if r.fail || r.status != 401 {
		return
	}
	for _, v := range r.hdrs {
		low := strings.ToLower(strings.TrimLeft(v, " \t\r\n"))
		if strings.HasPrefix(low, "basic") {
			h.basicChallenged = true
		}
		un := unescapeBackslashes(v)
		for _, realm := range authRealmTable {
			if realm != "" && (strings.Contains(v, realm) || strings.Contains(un, realm)) {
				h.named[realm] = true
				h.named[authRealmText(realm)] = true
			}
		}
	}
}

type authOracle struct {
	prop    string
	ordered bool
	hosts   map[string]*hostFacts
	fails   []Failure
}

func newAuthOracle(prop string, ordered bool) *authOracle {
	return &authOracle{prop: prop, ordered: ordered, hosts: map[string]*hostFacts{}}
}

func (o *authOracle) host(h string) *hostFacts {
	if f, ok := o.hosts[h]; ok {
		return f
	}
	f := &hostFacts{refreshes: map[string]bool{}, grants: map[string][]grantInfo{}, named: map[string]bool{}}
	o.hosts[h] = f
	return f
}

func (o *authOracle) cfgLine(t []string) {
	if len(t) != 7 {
		return
	}
	h, _ := untok(t[2])
	f := o.host(h)
	f.user, _ = untok(t[3])
	f.pass, _ = untok(t[4])
	f.refresh, _ = untok(t[5])
	f.access, _ = untok(t[6])
	if f.refresh != "" {
		f.refreshes[f.refresh] = true
	}
}

func (o *authOracle) fail(idx int, class, oracle, exp, obs string) {
	o.fails = append(o.fails, Failure{Class: class, Oracle: oracle, Index: idx, Expected: exp, Observed: obs})
}

func (o *authOracle) want(p string) bool { return o.prop == p }

// noteGrants records what the token server handed out during a call: those
// tokens now belong to the call's host.
func (o *authOracle) noteGrants(k int, c *obsCall) {
	f := o.host(c.req.host)
	for i := range c.msgs {
		m := &c.msgs[i]
		if m.kind == 'R' || m.reply == nil || m.reply.kind != 'j' {
			continue
		}
		r := m.reply
		if r.refresh != "" {
			f.refreshes[r.refresh] = true
		}
		life := r.exp
		if life == 0 {
			life = 60
		}
		g := grantInfo{call: k, now: c.req.now, life: life, scopeText: m.scope}
		for _, t := range []string{r.token, r.access} {
			if t != "" {
				f.grants[t] = append(f.grants[t], g)
			}
		}
	}
}

// check evaluates every clause on one call. In ordered mode the facts hold what
// happened before the call and are updated as the call's messages go by; in
// unordered mode (concurrent batches) the facts already hold everything.
func (o *authOracle) check(k int, c *obsCall) {
	idx := c.idx
	if c.bad != "" {
		cls := "auth-unreadable-output"
		if c.bad == "panic" {
			cls = "auth-panic"
		}
		o.fail(idx, cls, "transport_total", "a result", c.bad)
		return
	}
	a := c.req
	h := o.host(a.host)
	// F39: an unlimited required or desired scope has no text: it contributes no resource scope to what a token
	// request must name (the request still names the challenge scope and the limited ones), and an unlimited
	// required scope is covered only by the configured access token.
	reqText, reqUnl := scopeTokText(a.required)
	wantText, _ := scopeTokText(a.want)
	required := naiveScope(reqText)

	// the cache as the statement sees it, at the start of the call
	type cached struct {
		name string
		g    grantInfo
	}
	var alive []cached
	if o.ordered {
		for name, gs := range h.grants {
			for _, g := range gs {
				if g.now+g.life*1000 >= a.now+1000 && g.covers(required, reqUnl) {
					alive = append(alive, cached{name, g})
				}
			}
		}
	}
	cacheCovers := h.access != "" || len(alive) > 0

	if o.ordered {
		// grants of this call become visible as its messages go by; to keep the
		// bookkeeping simple they are recorded up front with their call index and
		// looked at with `g.call < k` where "earlier call" matters.
		o.noteGrants(k, c)
	}

	regs := 0
	tokenMsgsBeforeFirstR := 0
	var chal *refChal
	for i := range c.msgs {
		m := &c.msgs[i]
		if m.extra != "" {
			cls := "auth-unexpected-field"
			if strings.Contains(m.extra, "wallclock:bearer-expired") {
				cls = "auth-bearer-expired-wallclock" // the fake registry's own clock: the token's lifetime was over when it arrived
			}
			if strings.Contains(m.dest, "//"+authRedirectHost+"/") {
				cls = "auth-unexpected-field:token-server-redirect" // net/http adds a Referer when it follows a redirect (finding F28)
			}
			o.fail(idx, cls, "requests_carry_only_documented_fields", "no extra field", m.extra)
		}
		if m.kind == 'R' {
			regs++
		} else if regs == 0 {
			tokenMsgsBeforeFirstR++
		}

		// ---- C10 ----
		if o.want("C10") && m.kind == 'R' && m.authz == "B" && m.bearer != h.access {
			gs := h.grants[m.bearer]
			var usable []grantInfo
			for _, g := range gs {
				if !o.ordered || g.call <= k {
					usable = append(usable, g)
				}
			}
			if len(usable) == 0 {
				o.fail(idx, "auth-bearer-provenance", "bearer_was_issued_to_this_host", "a token configured for or issued to "+a.host, m.bearer)
			} else if o.ordered {
				fresh, covering := false, false
				inThisCall := false
				for _, g := range usable {
					if g.call == k {
						inThisCall = true
					}
					if g.call == k || a.now < g.now+g.life*1000 {
						fresh = true
					}
					if g.covers(required, reqUnl) {
						covering = true
					}
				}
				if !fresh {
					o.fail(idx, "auth-bearer-expired", "bearer_not_expired_when_sent", "an unexpired token", m.bearer)
				}
				if !inThisCall && !covering {
					o.fail(idx, "auth-bearer-not-covering", "cached_bearer_covers_required_scope", "scope ⊇ "+reqText, m.bearer)
				}
				if inThisCall && regs == 1 && !reqUnl {
					// acquired before the first attempt (no challenge in this call yet): it was asked
					// for on behalf of this request, so it has to cover what the request requires
					// (F39: whatever the desired scope; an unlimited required scope cannot be asked for)
					ok := false
					for _, g := range usable {
						if g.call == k && g.covers(required, false) {
							ok = true
						}
					}
					if !ok {
						fail := o.fail
						fail(idx, "auth-preemptive-bearer-not-covering", "preemptive_bearer_covers_required_scope", "scope ⊇ "+reqText, m.bearer)
					}
				}
				if inThisCall && regs == 2 && chal != nil && chal.scheme == "bearer" {
					cs := naiveScope(chal.params["scope"])
					ok := false
					for _, g := range usable {
						if g.call == k && g.covers(cs, false) {
							ok = true
						}
					}
					if !ok {
						o.fail(idx, "auth-fresh-bearer-not-covering", "fresh_bearer_covers_challenge_scope", "scope ⊇ "+chal.params["scope"], m.bearer)
					}
				}
			}
		}
		if o.want("C10") && o.ordered && m.kind != 'R' && m.phase == 1 && m.attempt == 0 && chal != nil && chal.scheme == "bearer" {
			// F39: demanded for every desired and required scope, unlimited ones included: the request names the
			// challenge scope and the (limited) required and desired scopes, and nothing else; in particular it is
			// never the literal "*", which names none of them
			cs := naiveScope(chal.params["scope"])
			extra := required.union(naiveScope(wantText))
			wantSet := cs.union(extra)
			got := naiveScope(m.scope)
			if !got.subsetOf(wantSet) || !wantSet.subsetOf(got) {
				o.fail(idx, "auth-token-request-scope", "token_request_asks_challenge_required_desired", showScopeSet(wantSet), m.scope)
			} else if extra.subsetOf(cs) && m.scope != chal.params["scope"] {
				o.fail(idx, "auth-token-request-text", "token_request_keeps_challenge_text", chal.params["scope"], m.scope)
			}
		}

		// ---- C11 ----
		if o.want("C11") {
			o.confinement(idx, a.host, m)
			if m.kind == 'R' && m.authz == "U" && o.ordered && !(h.basicChallenged) {
				o.fail(idx, "auth-basic-before-challenge", "no_basic_auth_before_a_basic_challenge", "no Basic credentials", "Basic sent to "+m.dest)
			}
		}
		// the answer to the first forwarded request becomes known after it was sent
		if m.kind == 'R' && regs == 1 && o.ordered {
			h.noteChallenge(a.reg[0])
			if !a.reg[0].fail && a.reg[0].status == 401 {
				chal = refSelect(a.reg[0].hdrs)
			}
		}
	}

	if o.want("C10") && o.ordered && cacheCovers {
		first := obsMsg{}
		if len(c.msgs) > 0 {
			first = c.msgs[0]
		}
		quiet := a.reg[0].fail || a.reg[0].status != 401 || len(a.reg[0].hdrs) == 0
		if tokenMsgsBeforeFirstR > 0 || first.kind != 'R' || first.authz != "B" || (quiet && len(c.msgs) != 1) {
			o.fail(idx, "auth-cache-hit-not-silent", "cached_covering_token_means_no_token_request", "exactly the forwarded request, with a bearer token", fmt.Sprintf("%d messages", len(c.msgs)))
		}
	}

	if o.want("C11") {
		if regs > 2 {
			o.fail(idx, "auth-attempts", "at_most_two_attempts", "≤ 2 registry requests", fmt.Sprint(regs))
		}
		if regs == 2 && !a.reg[1].fail && a.reg[1].status == 401 {
			// was the token on the second attempt issued during this call, after the first attempt?
			freshly := false
			seenR := false
			for i := range c.msgs {
				m := &c.msgs[i]
				if m.kind == 'R' {
					if seenR && m.authz == "B" {
						for j := 0; j < i; j++ {
							p := &c.msgs[j]
							if p.kind != 'R' && p.phase == 1 && p.reply != nil && p.reply.kind == 'j' && (p.reply.token == m.bearer || p.reply.access == m.bearer) {
								freshly = true
							}
						}
					}
					seenR = true
				}
			}
			if freshly && c.result != "denied" {
				o.fail(idx, "auth-fresh-401-not-403", "fresh_token_401_is_surfaced_as_403_denied", "denied", c.result)
			}
		}
		if c.reqObs != "same" {
			o.fail(idx, "auth-request-modified", "caller_request_unmodified", "same", c.reqObs)
		}
		if a.body != "n" && c.bodyObs != "closed" {
			o.fail(idx, "auth-body-unclosed", "request_body_closed_on_every_path", "closed", c.bodyObs)
		}
	}
}

func showScopeSet(s scopeSet) string {
	var xs []string
	for k := range s {
		xs = append(xs, k[0]+":"+k[1]+":"+k[2])
	}
	sort.Strings(xs)
	return strings.Join(xs, " ")
}

// confinement scans every field of a message sent during a call to `callHost`
// for every secret of every host.
func (o *authOracle) confinement(idx int, callHost string, m *obsMsg) {
	fields := m.fields()
	contains := func(secret string) bool {
		if secret == "" {
			return false
		}
		for _, f := range fields {
			if strings.Contains(f, secret) {
				return true
			}
		}
		return false
	}
	hostNames := make([]string, 0, len(o.hosts))
	for name := range o.hosts {
		hostNames = append(hostNames, name)
	}
	sort.Strings(hostNames)
	for _, owner := range hostNames {
		f := o.hosts[owner]
		realmNamed := m.kind != 'R' && f.named[m.dest]
		// passwords (and the user names that go with them)
		if contains(f.pass) || contains(f.user) {
			okPlace := false
			switch {
			case m.kind == 'G' && m.authz == "U" && m.user == f.user && m.pass == f.pass && realmNamed:
				okPlace = true
			case m.kind == 'R' && m.authz == "U" && m.user == f.user && m.pass == f.pass && m.dest == owner:
				okPlace = true
			}
			crossHost := owner != callHost || (m.kind == 'R' && m.dest != owner)
			switch {
			case okPlace:
			case contains(f.pass) && crossHost:
				o.fail(idx, "auth-cross-host", "credentials_of_one_host_stay_with_it", "password of "+owner+" confined", fmt.Sprintf("%c to %s", m.kind, m.dest))
			case contains(f.pass):
				o.fail(idx, "auth-password-leak", "password_only_to_named_realm_or_basic_challenger", "password of "+owner+" confined", fmt.Sprintf("%c to %s", m.kind, m.dest))
			case crossHost:
				o.fail(idx, "auth-cross-host", "credentials_of_one_host_stay_with_it", "user name of "+owner+" confined", fmt.Sprintf("%c to %s", m.kind, m.dest))
			}
		}
		// refresh tokens
		rts := make([]string, 0, len(f.refreshes))
		for rt := range f.refreshes {
			rts = append(rts, rt)
		}
		sort.Strings(rts)
		for _, rt := range rts {
			if !contains(rt) {
				continue
			}
			if !(m.kind == 'P' && m.refresh == rt && realmNamed) {
				cls := "auth-refresh-leak"
				if owner != callHost {
					cls = "auth-cross-host"
				} else if m.kind == 'P' && strings.Contains(m.dest, "//"+authRedirectHost+"/") {
					cls = "auth-refresh-leak:token-server-redirect" // net/http re-sends the form on 307/308 (finding F28)
				}
				o.fail(idx, cls, "refresh_token_only_to_named_realm", "refresh token of "+owner+" confined", fmt.Sprintf("%c to %s", m.kind, m.dest))
			}
		}
		// access tokens
		ats := make([]string, 0, len(f.grants)+1)
		for at := range f.grants {
			ats = append(ats, at)
		}
		if f.access != "" {
			ats = append(ats, f.access)
		}
		sort.Strings(ats)
		for _, at := range ats {
			if !contains(at) {
				continue
			}
			if !(m.kind == 'R' && m.authz == "B" && m.bearer == at && m.dest == owner) {
				cls := "auth-token-leak"
				if owner != callHost || (m.kind == 'R' && m.dest != owner) {
					cls = "auth-cross-host"
				}
				o.fail(idx, cls, "tokens_of_one_host_stay_with_it", "access token of "+owner+" confined", fmt.Sprintf("%c to %s", m.kind, m.dest))
			}
		}
	}
}

// ---- Engine.Oracle ----

func (e *cauth) Oracle(c Case, impl []string) []Failure {
	o := newAuthOracle(e.prop, true)
	k := 0
	for i, l := range c.Lines {
		if i >= len(impl) {
			break
		}
		t := strings.Split(l, " ")
		if len(t) < 2 || t[0] != "auth" {
			continue
		}
		switch t[1] {
		case "cfg":
			o.cfgLine(t)
		case "batch":
			// the calls of the batch happened, in some order, before what follows: what they were
			// granted and which challenges they saw is known from here on (they are judged by batchOracle)
			e.mu.Lock()
			outs := e.batchOuts[caseKey(c)][i]
			e.mu.Unlock()
			for j, out := range outs {
				if i+1+j >= len(c.Lines) {
					break
				}
				a, ok := parseAuthReq(strings.Split(c.Lines[i+1+j], " "))
				if !ok {
					continue
				}
				oc := parseObsCall(i+1+j, a, out)
				if oc.bad == "" {
					o.noteGrants(k, &oc)
					h := o.host(a.host)
					h.noteChallenge(a.reg[0])
					h.noteChallenge(a.reg[1])
				}
				k++
			}
		case "req", "areq":
			a, ok := parseAuthReq(t)
			if !ok {
				continue
			}
			oc := parseObsCall(i, a, impl[i])
			o.check(k, &oc)
			k++
		case "parse":
			if impl[i] == "panic" || strings.HasPrefix(impl[i], "probe-") {
				o.fail(i, "auth-panic", "challenge_parser_total", "an answer", impl[i])
			}
		}
	}
	fs := o.fails
	e.mu.Lock()
	fs = append(fs, e.side[caseKey(c)]...)
	e.mu.Unlock()
	return fs
}

// batchOracle: the calls of a batch ran concurrently; the same clauses are
// checked on the merged log, with the facts of the whole batch known up front
// (no order between calls is assumed).
func (e *cauth) batchOracle(c Case, at int, reqs []*authReq, outs []string) []Failure {
	o := newAuthOracle(e.prop, false)
	for _, l := range c.Lines[:at] {
		t := strings.Split(l, " ")
		if len(t) >= 2 && t[1] == "cfg" {
			o.cfgLine(t)
		}
	}
	calls := make([]obsCall, len(reqs))
	for j, a := range reqs {
		calls[j] = parseObsCall(at+1+j, a, outs[j])
		if calls[j].bad == "" {
			o.noteGrants(j, &calls[j])
			h := o.host(a.host)
			h.noteChallenge(a.reg[0])
			h.noteChallenge(a.reg[1])
		}
	}
	for j := range calls {
		o.check(j, &calls[j])
	}
	for i := range o.fails {
		o.fails[i].Class = "batch:" + o.fails[i].Class
		o.fails[i].Detail = strings.Join(outs, " | ")
	}
	return o.fails
}

func (e *cauth) NonTrivial(c Case, impl []string) (bool, string) {
	feats := map[string]bool{}
	for i, l := range c.Lines {
		if i >= len(impl) {
			break
		}
		switch {
		case strings.HasPrefix(l, "auth parse"):
			if impl[i] != "none" {
				feats["parse"] = true
			} else {
				feats["parse-none"] = true
			}
		case strings.HasPrefix(l, "auth batch"):
			feats["batch"] = true
		case strings.HasPrefix(l, "auth req"):
			out := impl[i]
			if strings.Contains(out, " P,") || strings.Contains(out, " G,") {
				feats["token-request"] = true
			}
			f := strings.Split(out, " ")
			if len(f) >= 4 && strings.Contains(f[3], ",B,") {
				feats["cached-bearer"] = true
			}
			if strings.Contains(out, ",U,") {
				feats["basic"] = true
			}
			if strings.HasPrefix(out, "denied") {
				feats["denied"] = true
			}
			if strings.HasPrefix(out, "err") {
				feats["error"] = true
			}
		}
	}
	if len(feats) == 0 {
		return false, "no-auth"
	}
	var ks []string
	for k := range feats {
		ks = append(ks, k)
	}
	sort.Strings(ks)
	return true, strings.Join(ks, "+")
}
