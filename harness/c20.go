package main

import (
	"context"
	"errors"
	"fmt"
	"io"
	"reflect"
	"sort"
	"strings"

	"cuelabs.dev/go/oci/ociregistry"
)

// C20: reflection-built *Funcs values. Line format:
//   funcs <method> <nilRecv 0|1> <hasNewError 0|1> <set fields comma-separated | ->
// Output: delegated <field> <arg positions> | unset <errName> <repo position|literal> <custom 0|1> <shape> | panic

func init() { engines["C20"] = func() Engine { return &c20{} } }

type c20 struct{}

func (*c20) UsesModel() bool { return true }

func funcsMethods() []string {
	t := reflect.TypeOf((*ociregistry.Funcs)(nil))
	var ms []string
	for i := 0; i < t.NumMethod(); i++ {
		ms = append(ms, t.Method(i).Name)
	}
	sort.Strings(ms)
	return ms
}

func funcsFields() []string {
	t := reflect.TypeOf(ociregistry.Funcs{})
	var fs []string
	for i := 0; i < t.NumField(); i++ {
		// the function fields a user of the table can set (unexported bookkeeping is not the user's)
		if f := t.Field(i); f.Name != "NewError" && f.IsExported() && f.Type.Kind() == reflect.Func {
			fs = append(fs, f.Name)
		}
	}
	return fs
}

func (*c20) Gen(rng *RNG, tier string) []Case {
	methods := funcsMethods()
	fields := funcsFields()
	var cases []Case
	add := func(m string, nilRecv, newErr bool, set []string) {
		s := "-"
		if len(set) > 0 {
			s = strings.Join(set, ",")
		}
		cases = append(cases, Case{Lines: []string{fmt.Sprintf("funcs %s %s %s %s", m, b01(nilRecv), b01(newErr), s)}})
	}
	for _, m := range methods {
		for _, ne := range []bool{false, true} {
			add(m, true, ne, nil)    // nil receiver
			add(m, false, ne, nil)   // none
			add(m, false, ne, fields) // all
			for _, f := range fields {
				add(m, false, ne, []string{f}) // each alone
				var rest []string
				for _, g := range fields {
					if g != f {
						rest = append(rest, g)
					}
				}
				add(m, false, ne, rest) // all but one
			}
		}
	}
	n := 2000
	if tier == "thorough" {
		// every subset of fields for every method would be 18*2^18*2; sample densely
		// and enumerate all subsets of the method's own field plus three others.
		n = 200000
	}
	for i := 0; i < n; i++ {
		var set []string
		mask := rng.Uint64()
		for j, f := range fields {
			if mask>>uint(j)&1 == 1 {
				set = append(set, f)
			}
		}
		add(pick(rng, methods), false, rng.Bool(), set)
	}
	return cases
}

func b01(b bool) string {
	if b {
		return "1"
	}
	return "0"
}

type c20Rec struct {
	field string
	args  []reflect.Value
	ctx   context.Context // the context the set function received
}

var errC20Sentinel = errors.New("sentinel-result")

type c20Reader struct{ ociregistry.BlobReader }
type c20Writer struct{ ociregistry.BlobWriter }

func (*c20) Impl(c Case) []string {
	out := make([]string, len(c.Lines))
	for i, l := range c.Lines {
		out[i] = guard(func() string { return c20Line(l) })
	}
	return out
}

// c20Line calls the method twice: with distinguishable arguments (to check their order) and
// with boundary values (zero offsets, -1, empty strings): which function is called, or which
// refusal is returned, must not depend on the argument values.
func c20Line(l string) string {
	a := c20Call(l, false)
	b := c20Call(l, true)
	kind := func(s string) string {
		f := strings.Split(s, " ")
		if len(f) >= 2 && (f[0] == "delegated" || f[0] == "unset") {
			return f[0] + " " + f[1]
		}
		return s
	}
	if kind(a) != kind(b) {
		return "argument-dependent[" + kind(a) + " | " + kind(b) + "]"
	}
	return a
}

func c20Call(l string, boundary bool) string {
	t := strings.Split(l, " ")
	if len(t) != 5 || t[0] != "funcs" {
		return "bad-op"
	}
	method, nilRecv, newErr := t[1], t[2] == "1", t[3] == "1"
	set := map[string]bool{}
	if t[4] != "-" {
		for _, f := range strings.Split(t[4], ",") {
			set[f] = true
		}
	}
	var rec []c20Rec
	var ctorCtxs []context.Context // the contexts the error constructor was given, call by call
	sentinels := map[string][]reflect.Value{}
	var f *ociregistry.Funcs
	if !nilRecv {
		f = &ociregistry.Funcs{}
		fv := reflect.ValueOf(f).Elem()
		for name := range set {
			fld := fv.FieldByName(name)
			if !fld.IsValid() {
				return "bad-field"
			}
			name := name
			ft := fld.Type()
			fld.Set(reflect.MakeFunc(ft, func(args []reflect.Value) []reflect.Value {
				c, _ := args[0].Interface().(context.Context)
				rec = append(rec, c20Rec{name, args[1:], c})
				res := c20Results(ft, name)
				sentinels[name] = res
				return res
			}))
		}
		if newErr {
			f.NewError = func(ctx context.Context, methodName, repo string) error {
				ctorCtxs = append(ctorCtxs, ctx)
				return fmt.Errorf("custom|%s|%s", methodName, repo)
			}
		}
	}
	m := reflect.ValueOf(f).MethodByName(method)
	if !m.IsValid() {
		return "no-such-method"
	}
	mt := m.Type()
	ctx := context.Background()
	if boundary {
		// boundary value of the context: already cancelled (the table neither looks at it nor waits on it)
		c, cancel := context.WithCancel(ctx)
		cancel()
		ctx = c
	}
	args := []reflect.Value{reflect.ValueOf(ctx)}
	for i := 1; i < mt.NumIn(); i++ {
		if boundary {
			args = append(args, c20BoundaryArg(mt.In(i), i-1))
		} else {
			args = append(args, c20Arg(mt.In(i), i-1))
		}
	}
	res := m.Call(args)
	if len(rec) > 1 {
		return "delegated-more-than-once"
	}
	if len(rec) == 1 && rec[0].ctx != ctx {
		// "the same arguments" starts with the context: a derived one has another lifetime (one cancelled
		// on return kills a reader that goes on using it)
		return "delegated-context-changed"
	}
	if len(rec) == 1 {
		// map each received argument to the position of the identical passed argument
		var pos []string
		for _, a := range rec[0].args {
			p := "?"
			for j := 1; j < len(args); j++ {
				if a.Type() == args[j].Type() && reflect.DeepEqual(a.Interface(), args[j].Interface()) {
					p = fmt.Sprint(j - 1)
					break
				}
			}
			pos = append(pos, p)
		}
		if !c20SameResults(res, sentinels[rec[0].field]) {
			return "delegated-result-changed"
		}
		return fmt.Sprintf("delegated %s %s", rec[0].field, strings.Join(pos, ","))
	}
	// unset path: classify the result shape and the error
	var err error
	shape := "?"
	last := res[len(res)-1]
	switch {
	case last.Type().Kind() == reflect.Func: // Seq[T]
		n := 0
		var zeroItem bool
		cb := reflect.MakeFunc(last.Type().In(0), func(a []reflect.Value) []reflect.Value {
			n++
			zeroItem = a[0].IsZero()
			if e, ok := a[1].Interface().(error); ok {
				err = e
			}
			return []reflect.Value{reflect.ValueOf(true)}
		})
		last.Call([]reflect.Value{cb})
		first := n
		// "always returns the given error": iterating the sequence again delivers it again
		last.Call([]reflect.Value{cb})
		if n != 2*first {
			shape = fmt.Sprintf("seq-events=%d-then-%d", first, n-first)
		} else if n = first; n == 1 && zeroItem && err != nil {
			shape = "errorSeq"
		} else {
			shape = fmt.Sprintf("seq-events=%d", n)
		}
	case len(res) == 1:
		err, _ = last.Interface().(error)
		shape = "err"
	case len(res) == 2:
		err, _ = last.Interface().(error)
		if res[0].Kind() == reflect.Interface {
			if res[0].IsNil() {
				shape = "nil,err"
			}
		} else if res[0].IsZero() {
			shape = "zero,err"
		}
	}
	if err == nil {
		return "unset-no-error"
	}
	msg := err.Error()
	if strings.HasPrefix(msg, "custom|") {
		// the constructor supplies the error of each call: it is asked with that call's context, and asked
		// again when the same table refuses again under another context
		if len(ctorCtxs) == 0 || ctorCtxs[len(ctorCtxs)-1] != ctx {
			return "unset-constructor-not-given-the-call's-context"
		}
		type again struct{}
		ctx2 := context.WithValue(context.Background(), again{}, 1)
		args2 := append([]reflect.Value{reflect.ValueOf(ctx2)}, args[1:]...)
		before := len(ctorCtxs)
		res2 := m.Call(args2)
		if last2 := res2[len(res2)-1]; last2.Type().Kind() == reflect.Func {
			last2.Call([]reflect.Value{reflect.MakeFunc(last2.Type().In(0), func(a []reflect.Value) []reflect.Value {
				return []reflect.Value{reflect.ValueOf(true)}
			})})
		}
		if len(ctorCtxs) != before+1 || ctorCtxs[before] != ctx2 {
			return "unset-constructor-not-consulted-for-the-second-call"
		}
		p := strings.SplitN(msg, "|", 3)
		return fmt.Sprintf("unset %s %s 1 %s", p[1], c20RepoPos(p[2], args), shape)
	}
	if !errors.Is(err, ociregistry.ErrUnsupported) {
		return "unset-not-ErrUnsupported " + tok(msg)
	}
	name, rest, ok := strings.Cut(msg, ": ")
	if !ok || rest != ociregistry.ErrUnsupported.Error() {
		return "unset-odd-message " + tok(msg)
	}
	// the default constructor does not reveal the repo argument: the model's
	// value is echoed from the custom run of the same configuration.
	return fmt.Sprintf("unset %s * 0 %s", name, shape)
}

func c20RepoPos(repo string, args []reflect.Value) string {
	if repo == "" {
		return `""`
	}
	for j := 1; j < len(args); j++ {
		if args[j].Kind() == reflect.String && args[j].String() == repo {
			return fmt.Sprint(j - 1)
		}
	}
	return "?" + repo
}

func c20Arg(t reflect.Type, i int) reflect.Value {
	v := reflect.New(t).Elem()
	switch {
	case t.Kind() == reflect.String:
		v.SetString(fmt.Sprintf("arg%d", i))
	case t.Kind() == reflect.Int64 || t.Kind() == reflect.Int:
		v.SetInt(int64(1000 + i))
	case t == reflect.TypeOf(ociregistry.Descriptor{}):
		v.Set(reflect.ValueOf(ociregistry.Descriptor{Size: int64(3000 + i), MediaType: "m"}))
	case t == reflect.TypeOf([]byte(nil)):
		v.Set(reflect.ValueOf([]byte{byte(i), 7}))
	case t.Kind() == reflect.Interface && t.Implements(reflect.TypeOf((*io.Reader)(nil)).Elem()) || t == reflect.TypeOf((*io.Reader)(nil)).Elem():
		v.Set(reflect.ValueOf(strings.NewReader(fmt.Sprintf("reader%d", i))))
	default:
		panic("c20: unhandled parameter type " + t.String())
	}
	return v
}

func c20BoundaryArg(t reflect.Type, i int) reflect.Value {
	v := reflect.New(t).Elem()
	switch {
	case t.Kind() == reflect.Int64 || t.Kind() == reflect.Int:
		v.SetInt(int64(-(i % 2))) // 0, -1, 0, -1 …
	case t.Kind() == reflect.Interface:
		return c20Arg(t, i)
	}
	return v // zero value: "", Descriptor{}, nil slice
}

// c20Results builds distinguishable results for a stub of type ft.
func c20Results(ft reflect.Type, name string) []reflect.Value {
	var res []reflect.Value
	for i := 0; i < ft.NumOut(); i++ {
		t := ft.Out(i)
		v := reflect.New(t).Elem()
		switch {
		case t == reflect.TypeOf((*error)(nil)).Elem():
			v.Set(reflect.ValueOf(fmt.Errorf("%s: %w", name, errC20Sentinel)))
		case t == reflect.TypeOf((*ociregistry.BlobReader)(nil)).Elem():
			v.Set(reflect.ValueOf(&c20Reader{}))
		case t == reflect.TypeOf((*ociregistry.BlobWriter)(nil)).Elem():
			v.Set(reflect.ValueOf(&c20Writer{}))
		case t == reflect.TypeOf(ociregistry.Descriptor{}):
			v.Set(reflect.ValueOf(ociregistry.Descriptor{Size: 424242, MediaType: name}))
		case t.Kind() == reflect.Func: // Seq[T]: yields one sentinel error event
			v.Set(reflect.MakeFunc(t, func(a []reflect.Value) []reflect.Value {
				yt := t.In(0)
				a[0].Call([]reflect.Value{reflect.New(yt.In(0)).Elem(), reflect.ValueOf(fmt.Errorf("%s: %w", name, errC20Sentinel))})
				return nil
			}))
		default:
			panic("c20: unhandled result type " + t.String())
		}
		res = append(res, v)
	}
	return res
}

func c20SameResults(got, want []reflect.Value) bool {
	if len(got) != len(want) {
		return false
	}
	for i := range got {
		if got[i].Kind() == reflect.Func {
			// run it: it must produce the stub's sentinel event
			ok := false
			cb := reflect.MakeFunc(got[i].Type().In(0), func(a []reflect.Value) []reflect.Value {
				if e, _ := a[1].Interface().(error); e != nil && errors.Is(e, errC20Sentinel) {
					ok = true
				}
				return []reflect.Value{reflect.ValueOf(false)}
			})
			got[i].Call([]reflect.Value{cb})
			if !ok {
				return false
			}
			continue
		}
		g, w := got[i].Interface(), want[i].Interface()
		if ge, ok := g.(error); ok {
			we, _ := w.(error)
			if ge != we {
				return false
			}
			continue
		}
		if !reflect.DeepEqual(g, w) {
			return false
		}
	}
	return true
}

// Oracle: the property stated directly on what the implementation did.
func (*c20) Oracle(c Case, impl []string) []Failure {
	var fs []Failure
	for i, l := range c.Lines {
		t := strings.Split(l, " ")
		if len(t) != 5 || i >= len(impl) {
			continue
		}
		method, nilRecv, newErr := t[1], t[2] == "1", t[3] == "1"
		own := false
		if t[4] != "-" {
			for _, f := range strings.Split(t[4], ",") {
				if f == method+"_" {
					own = true
				}
			}
		}
		got := impl[i]
		fail := func(exp string) {
			fs = append(fs, Failure{Class: "funcs:" + method, Oracle: "funcs_total", Index: i, Expected: exp, Observed: got,
				Detail: "panic value: " + lastPanic})
		}
		switch {
		case got == "panic":
			fail("no panic")
		case !nilRecv && own:
			if !strings.HasPrefix(got, "delegated "+method+"_ ") || strings.Contains(got, "?") {
				fail("delegated " + method + "_ with the caller's arguments in order")
				continue
			}
			pos := strings.Split(strings.TrimPrefix(got, "delegated "+method+"_ "), ",")
			for j, p := range pos {
				if p != fmt.Sprint(j) {
					fail("arguments passed in order")
					break
				}
			}
		default:
			want := fmt.Sprintf("unset %s ", method)
			if !strings.HasPrefix(got, want) {
				fail(want + "… (clean refusal naming the method)")
				continue
			}
			f := strings.Split(got, " ")
			if len(f) != 5 || (f[3] == "1") != (newErr && !nilRecv) || strings.HasPrefix(f[4], "seq-events") || f[4] == "?" {
				fail("constructor's error or <method>: unsupported, zero result")
			} else if f[3] == "1" {
				// the constructor is asked about the repository the call acts on: the method's repository
				// argument, the one written to for a mount (toRepo), none for the catalogue
				wantRepo := "0"
				switch method {
				case "MountBlob":
					wantRepo = "1"
				case "Repositories":
					wantRepo = `""`
				}
				if c.Tag != "boundary" && !strings.HasPrefix(c.Tag, "boundary") && f[2] != wantRepo {
					fs = append(fs, Failure{Class: "funcs-error-repo:" + method, Oracle: "constructor_asked_about_the_repository_acted_on", Index: i,
						Expected: "repository argument " + wantRepo, Observed: got})
				}
			}
		}
	}
	return fs
}

func (*c20) NonTrivial(c Case, impl []string) (bool, string) {
	if len(impl) == 0 {
		return false, "empty"
	}
	b := strings.SplitN(impl[0], " ", 2)[0]
	return true, b
}
