package main

import (
	"context"
	"encoding/base64"
	"encoding/json"
	"fmt"
	"net/http/httptest"
	"net/url"
	"os"
	"os/exec"
	"sort"
	"strings"
	"sync"
	"unicode/utf8"

	"cuelabs.dev/go/oci/ociregistry"
	"cuelabs.dev/go/oci/ociregistry/ociclient"
	"cuelabs.dev/go/oci/ociregistry/ociserver"
	"cuelabs.dev/go/oci/ociregistry/ociunify"
)

// C15I (sub-check of C15): the composite upload ID of ociunify with its real encoding
// (base64url(JSON [id0,id1])). Line protocol (see lean/OciModel/Driver/UnifyID.lean):
//
//	uid enc <a> <b>           ociunify.New(m0, m1).PushBlobChunked over members handing out the upload IDs a, b: the writer's ID
//	uid json <a> <b>          the JSON text inside that ID
//	uid dec <id>              PushBlobChunkedResume(id): which member is resumed with which ID, or "malformed" (no member is called)
//	uid rt <a> <b>            a fresh upload, then a resumption with the ID it reported
//	uid http <repo> <a> <b>   the same through ociclient -> ociserver -> unifier (start, info, chunk, complete):
//	                          id <id> got <id the unifier is resumed with> then <id of the later requests> pair …
//	uid httpres <repo> <id>   a client resumes with <id> through ociclient -> ociserver -> unifier
//
// Members are recorders: they hand out the chosen IDs and log every resumption.

func init() {
	engines["C15I"] = func() Engine { return &c15i{} }
	// child mode (see decIsolated): one resumption in a process of its own
	if line, ok := os.LookupEnv("VERIF_UID_CHILD"); ok {
		uidInChild = true
		fmt.Println((&c15i{}).Impl(Case{Lines: []string{line}})[0])
		os.Exit(0)
	}
}

type c15i struct{}

func (*c15i) UsesModel() bool { return true }

// ---- recording members ----

type uidCall struct {
	member int
	id     string
}

type uidLog struct {
	mu      sync.Mutex
	starts  int
	resumes []uidCall
}

func (l *uidLog) reset() {
	l.mu.Lock()
	l.starts, l.resumes = 0, nil
	l.mu.Unlock()
}

type uidWriter struct {
	id   string
	size int64
}

func (w *uidWriter) Write(p []byte) (int, error) { w.size += int64(len(p)); return len(p), nil }
func (w *uidWriter) Close() error                { return nil }
func (w *uidWriter) Size() int64                 { return w.size }
func (w *uidWriter) ChunkSize() int              { return 1 }
func (w *uidWriter) ID() string                  { return w.id }
func (w *uidWriter) Cancel() error               { return nil }
func (w *uidWriter) Commit(d ociregistry.Digest) (ociregistry.Descriptor, error) {
	return ociregistry.Descriptor{MediaType: "application/octet-stream", Digest: d, Size: w.size}, nil
}

type uidMember struct {
	*ociregistry.Funcs
	idx   int
	log   *uidLog
	fresh *[2]string
}

func (m *uidMember) PushBlobChunked(ctx context.Context, repo string, chunkSize int) (ociregistry.BlobWriter, error) {
	m.log.mu.Lock()
	m.log.starts++
	id := m.fresh[m.idx]
	m.log.mu.Unlock()
	return &uidWriter{id: id}, nil
}

func (m *uidMember) PushBlobChunkedResume(ctx context.Context, repo, id string, offset int64, chunkSize int) (ociregistry.BlobWriter, error) {
	m.log.mu.Lock()
	m.log.resumes = append(m.log.resumes, uidCall{m.idx, id})
	m.log.mu.Unlock()
	if offset < 0 {
		offset = 0
	}
	return &uidWriter{id: id, size: offset}, nil
}

// uidFront sits between ociserver and the unifier and records the IDs the HTTP layer delivers.
type uidFront struct {
	ociregistry.Interface
	mu     sync.Mutex
	starts int
	got    []string
}

func (f *uidFront) PushBlobChunked(ctx context.Context, repo string, chunkSize int) (ociregistry.BlobWriter, error) {
	f.mu.Lock()
	f.starts++
	f.mu.Unlock()
	return f.Interface.PushBlobChunked(ctx, repo, chunkSize)
}

func (f *uidFront) PushBlobChunkedResume(ctx context.Context, repo, id string, offset int64, chunkSize int) (ociregistry.BlobWriter, error) {
	f.mu.Lock()
	f.got = append(f.got, id)
	f.mu.Unlock()
	return f.Interface.PushBlobChunkedResume(ctx, repo, id, offset, chunkSize)
}

type uidState struct {
	log    uidLog
	fresh  [2]string
	u      ociregistry.Interface
	front  *uidFront
	srv    *httptest.Server
	client ociregistry.Interface
}

func newUIDState() *uidState {
	s := &uidState{}
	m0 := &uidMember{idx: 0, log: &s.log, fresh: &s.fresh}
	m1 := &uidMember{idx: 1, log: &s.log, fresh: &s.fresh}
	s.u = ociunify.New(m0, m1, nil)
	return s
}

func (s *uidState) http() {
	if s.srv != nil {
		return
	}
	s.front = &uidFront{Interface: s.u}
	s.srv = httptest.NewServer(ociserver.New(s.front, nil))
	cl, err := ociclient.New(strings.TrimPrefix(s.srv.URL, "http://"), &ociclient.Options{Insecure: true})
	if err != nil {
		panic(err)
	}
	s.client = cl
}

func (s *uidState) close() {
	if s.srv != nil {
		s.srv.Close()
	}
}

// summary of the resumptions logged: "pair <id0> <id1>" when every call to member 0 carried one ID and
// every call to member 1 one ID, and both were called equally often; "none" when no member was called.
func (s *uidState) pair() string {
	s.log.mu.Lock()
	defer s.log.mu.Unlock()
	if len(s.log.resumes) == 0 {
		return "none"
	}
	var ids [2][]string
	for _, c := range s.log.resumes {
		ids[c.member] = append(ids[c.member], c.id)
	}
	same := func(xs []string) bool {
		for _, x := range xs {
			if x != xs[0] {
				return false
			}
		}
		return len(xs) > 0
	}
	if same(ids[0]) && same(ids[1]) && len(ids[0]) == len(ids[1]) {
		return "pair " + tok(ids[0][0]) + " " + tok(ids[1][0])
	}
	var parts []string
	for _, c := range s.log.resumes {
		parts = append(parts, fmt.Sprintf("%d:%s", c.member, tok(c.id)))
	}
	sort.Strings(parts)
	return "calls " + strings.Join(parts, ",")
}

// decOutcome is the canonical result of a resumption: "malformed" = an error and no member was called.
func (s *uidState) decOutcome(err error) string {
	p := s.pair()
	switch {
	case err != nil && p == "none":
		return "malformed"
	case err != nil:
		return "err-after " + p
	case p == "none":
		return "ok-without-calls"
	}
	return p
}

func (s *uidState) dec(id string) (string, ociregistry.BlobWriter) {
	s.log.reset()
	w, err := s.u.PushBlobChunkedResume(context.Background(), "r", id, 0, 0)
	return s.decOutcome(err), w
}

// uidShort: does the ID hold a JSON array of fewer than two strings (or null) under any base64 variant?
// The unifier indexes the decoded slice in goroutines of its own: were the length check missing, the
// panic would take the whole harness down, so these resumptions run in a child process.
func uidShort(id string) bool {
	for _, enc := range []*base64.Encoding{base64.RawURLEncoding, base64.URLEncoding, base64.StdEncoding, base64.RawStdEncoding} {
		data, err := enc.DecodeString(id)
		if err != nil {
			continue
		}
		var ids []string
		if json.Unmarshal(data, &ids) == nil && len(ids) < 2 {
			return true
		}
	}
	return false
}

var uidInChild bool

func uidIsolated(line string) string {
	exe, err := os.Executable()
	if err != nil {
		return "child-not-started"
	}
	cmd := exec.Command(exe)
	cmd.Env = append(os.Environ(), "VERIF_UID_CHILD="+line)
	out, err := cmd.Output()
	if err != nil {
		return "panic"
	}
	return strings.TrimSpace(string(out))
}

func (s *uidState) enc(a, b string) (string, bool) {
	s.fresh = [2]string{a, b}
	s.log.reset()
	w, err := s.u.PushBlobChunked(context.Background(), "r", 0)
	if err != nil {
		return "", false
	}
	return w.ID(), true
}

func uidLastSegment(loc string) (string, bool) {
	u, err := url.Parse(loc)
	if err != nil {
		return "", false
	}
	i := strings.LastIndex(u.Path, "/")
	if i < 0 {
		return "", false
	}
	data, err := base64.RawURLEncoding.DecodeString(u.Path[i+1:])
	if err != nil {
		return "", false
	}
	return string(data), true
}

func (s *uidState) httpResume(repo, loc string) string {
	ctx := context.Background()
	s.log.reset()
	s.front.mu.Lock()
	s.front.got = nil
	s.front.mu.Unlock()
	w, err := s.client.PushBlobChunkedResume(ctx, repo, loc, -1, 0)
	var err2 error
	if err == nil {
		// a chunk and the completion go to the same sessions
		if _, err2 = w.Write([]byte("xy")); err2 == nil {
			_, err2 = w.Commit(ociregistry.Digest(sha256Digest([]byte("xy"))))
		}
	}
	s.front.mu.Lock()
	got := append([]string(nil), s.front.got...)
	s.front.mu.Unlock()
	if len(got) == 0 {
		return "refused"
	}
	// the first request carries the client's ID; the later ones the ID the server answered with
	// (the ID of the resumed unified writer), which must not change any more
	out := "got " + tok(got[0]) + " "
	if err != nil {
		return out + s.decOutcome(err)
	}
	for _, g := range got[1:] {
		if g != got[1] {
			return out + "then-differ"
		}
	}
	if len(got) < 2 {
		return out + "then-nothing"
	}
	out += "then " + tok(got[1]) + " "
	if err2 != nil {
		return out + "err-later " + s.pair()
	}
	return out + s.pair()
}

func (*c15i) Impl(c Case) []string {
	out := make([]string, len(c.Lines))
	s := newUIDState()
	defer s.close()
	for i, l := range c.Lines {
		t := strings.Split(l, " ")
		out[i] = guard(func() string {
			if t[0] != "uid" {
				return "bad-engine"
			}
			args := make([]string, 0, 3)
			for _, x := range t[min(2, len(t)):] {
				v, ok := untok(x)
				if !ok {
					return "bad-op"
				}
				args = append(args, v)
			}
			if len(t) < 2 {
				return "bad-op"
			}
			switch {
			case t[1] == "enc" && len(args) == 2:
				id, ok := s.enc(args[0], args[1])
				if !ok {
					return "err-start"
				}
				return "id " + tok(id)
			case t[1] == "json" && len(args) == 2:
				id, ok := s.enc(args[0], args[1])
				if !ok {
					return "err-start"
				}
				data, err := base64.RawURLEncoding.DecodeString(id)
				if err != nil {
					return "id-not-base64url"
				}
				return "json " + tok(string(data))
			case t[1] == "dec" && len(args) == 1:
				if uidShort(args[0]) && !uidInChild {
					return uidIsolated(l)
				}
				res, _ := s.dec(args[0])
				return res
			case t[1] == "rt" && len(args) == 2:
				id, ok := s.enc(args[0], args[1])
				if !ok {
					return "err-start"
				}
				res, _ := s.dec(id)
				return "id " + tok(id) + " " + res
			case t[1] == "http" && len(args) == 3:
				s.http()
				s.fresh = [2]string{args[1], args[2]}
				s.front.mu.Lock()
				s.front.starts = 0
				s.front.mu.Unlock()
				w, err := s.client.PushBlobChunked(context.Background(), args[0], 0)
				if err != nil {
					if s.front.starts == 0 {
						return "refused"
					}
					return "err-start"
				}
				loc := w.ID()
				id, ok := uidLastSegment(loc)
				if !ok {
					return "location-without-id"
				}
				return "id " + tok(id) + " " + s.httpResume(args[0], loc)
			case t[1] == "httpres" && len(args) == 2:
				if uidShort(args[1]) && !uidInChild {
					return uidIsolated(l)
				}
				s.http()
				loc := s.srv.URL + "/v2/" + args[0] + "/blobs/uploads/" + base64.RawURLEncoding.EncodeToString([]byte(args[1]))
				return s.httpResume(args[0], loc)
			}
			return "bad-op"
		})
	}
	return out
}

// ---- generator ----

const uidBS = "\\"

// member upload IDs: the edge cases the property text lists
func uidMemberIDs() []string {
	return []string{
		"", "a", "upload-1", "myid", "other-id", "0123456789abcdef0123456789abcdef", "@0", "@17",
		`say "hi"`, `back` + uidBS + `slash`, uidBS, `"`, "a<b", "a>b", "a&b", "<>&", "&a&b", "x&",
		"caf\xc3\xa9", "\xe6\x97\xa5\xe6\x9c\xac", "\xf0\x9f\x98\x80", "\xc2\x80", "\xef\xbf\xbd", "\xef\xbb\xbf",
		"\xe2\x80\xa8", "\xe2\x80\xa9", "a\xe2\x80\xa8b\xe2\x80\xa9", "\xe2\x80\xa7", "\xe2\x80\xaa", "\xe2\x81\xa8",
		"\xff", "\x80", "a\xffb", "\xe2\x80", "\xe2", "\xc0\x80", "\xed\xa0\x80", "\xf5\x80\x80\x80", "\xf4\x90\x80\x80", "\xe2\x80\xff", "\xff\xfe\xfd",
		"a/b", "a?b", "/", "?", "a/b?c#d", "%2F", "a%", "a+b", "a b", " ", "a=b", "==", "-_", "~",
		"\n", "\t", "\r\n", "\x00", "\x1f", "\x7f", "\b", "\f", "a\x00b", "\x01\x02",
		"[]", `["a","b"]`, "null", "WyJhIiwiYiJd", "{", ",",
		strings.Repeat("a", 3000), strings.Repeat("\xc3\xa9", 700), strings.Repeat("<", 500), strings.Repeat("\xff", 300),
	}
}

func uidRandomID(rng *RNG) string {
	pieces := []string{"a", "Z", "0", "-", "_", `"`, uidBS, "<", ">", "&", "/", "?", "\n", "\x00", "\x7f", " ",
		"\xc3\xa9", "\xe2\x80\xa8", "\xe2\x80\xa9", "\xe2\x80", "\xf0\x9f\x98\x80", "\xff", "\x80", "\xed\xa0\x80", "\xef\xbf\xbd", "\xe2"}
	n := rng.Intn(8)
	var b strings.Builder
	for i := 0; i < n; i++ {
		if rng.Chance(1, 6) {
			b.Write(rng.Bytes(1 + rng.Intn(3)))
		} else {
			b.WriteString(pick(rng, pieces))
		}
	}
	return b.String()
}

func uidB64(s string) string { return base64.RawURLEncoding.EncodeToString([]byte(s)) }

func uidGoodID(a, b string) string {
	data, _ := json.Marshal([]string{a, b})
	return base64.RawURLEncoding.EncodeToString(data)
}

// JSON texts for the inside of an ID: well-formed pairs written in other ways, and every malformation
func uidJSONTexts() []string {
	u := uidBS + "u"
	deep := strings.Repeat("[", 10001) + strings.Repeat("]", 10001)
	deepOK := strings.Repeat("[", 9999) + strings.Repeat("]", 9999)
	return []string{
		// well-formed, not the canonical spelling
		` [ "a" , "b" ] `, "\n[\"a\",\r\n\t\"b\"]\n", `["` + u + `0041","` + u + `00e9"]`, `["` + u + `d83d` + u + `de00","x"]`,
		`["` + u + `D83D` + u + `DE00","x"]`, `["a` + uidBS + `/b","` + uidBS + `b` + uidBS + `f` + uidBS + `n` + uidBS + `r` + uidBS + `t"]`,
		`["` + uidBS + `"","` + uidBS + uidBS + `"]`, `["",""]`, `["<>&","` + u + `003c"]`, "[\"\xe2\x80\xa8\",\"\xc3\xa9\"]",
		// strings the decoder repairs
		`["` + u + `d800","x"]`, `["` + u + `dc00` + u + `d800","x"]`, `["` + u + `d83d","` + u + `de00"]`, "[\"\xff\",\"a\xe2\x80\"]", "[\"\xc0\x80\",\"\xed\xa0\x80\"]",
		`["` + u + `d83dx","x"]`, `["` + u + `0000","` + u + `001f"]`,
		// null elements
		`[null,"a"]`, `["a",null]`, `[null,null]`,
		// not JSON
		``, ` `, `[`, `]`, `["a","b"`, `["a","b"]]`, `["a","b"],`, `["a" "b"]`, `["a",,"b"]`, `["a","b",]`, `[,"a","b"]`, `['a','b']`, `["a","b"]x`,
		`["a","b"] ["c","d"]`, `[a,b]`, `["a` + "\n" + `","b"]`, "[\"a\x00\",\"b\"]", "[\"a\x1f\",\"b\"]", `["` + uidBS + `x","b"]`, `["` + u + `12","b"]`, `["` + u + `12g4","b"]`,
		`["a","b` + uidBS + `"]`, `["a","b]`, "\xef\xbb\xbf[\"a\",\"b\"]", `[01,"b"]`, `[-,"b"]`, `[1.,"b"]`, `[tru,"b"]`, `[nul,"b"]`, "\x00[\"a\",\"b\"]", `["a","b"]` + "\x00", "\x0b[\"a\",\"b\"]",
		deep,
		// not an array
		`null`, `true`, `false`, `0`, `-1.5e3`, `"a"`, `"ab"`, `{}`, `{"0":"a","1":"b"}`, `{"a":"b"}`, `""`,
		// wrong length
		`[]`, `[ ]`, `["a"]`, `["a","b","c"]`, `["a","b","c","d"]`, `["a","b",null]`, `[null]`, `["a","b",1]`, `[[],[],[]]`,
		// non-strings
		`[1,"b"]`, `["a",2]`, `[1,2]`, `[true,"b"]`, `["a",false]`, `[["a"],"b"]`, `["a",["b"]]`, `[{},"b"]`, `["a",{"b":"c"}]`, `[[],[]]`, `[{},{}]`, `[0.5,-0]`, `[1e400,"b"]`, `["a",1E+2]`,
		deepOK, `[` + deepOK + `,"b"]`,
	}
}

// wrappings of a good JSON text that are not (or not quite) its raw base64url encoding
func uidBadB64(rng *RNG, text string) []string {
	raw := uidB64(text)
	std := base64.StdEncoding.EncodeToString([]byte(text))
	rawStd := base64.RawStdEncoding.EncodeToString([]byte(text))
	padURL := base64.URLEncoding.EncodeToString([]byte(text))
	k := 0
	if len(raw) > 0 {
		k = rng.Intn(len(raw))
	}
	out := []string{
		std, rawStd, padURL, raw + "=", raw + "==", raw + "A", raw + "AA", raw + "AAA", raw + "B", raw + "_", raw + "\n", "\r\n" + raw, raw + " ", " " + raw,
		raw[:k] + "\n" + raw[k:], raw[:k] + "\r" + raw[k:], raw[:k] + " " + raw[k:], raw[:k] + "=" + raw[k:], raw[:k] + "+" + raw[k:], raw[:k] + "/" + raw[k:], raw[:k] + "." + raw[k:],
		raw[:k] + "%" + raw[k:], raw[:k] + "\x00" + raw[k:], raw[:k] + "\xff" + raw[k:], raw[:k], raw[k:], strings.ToUpper(raw), uidB64(raw),
	}
	if len(raw) > 0 {
		// the last character with other trailing bits (the decoder is not strict)
		last := raw[len(raw)-1]
		const alpha = "ABCDEFGHIJKLMNOPQRSTUVWXYZabcdefghijklmnopqrstuvwxyz0123456789-_"
		if i := strings.IndexByte(alpha, last); i >= 0 {
			out = append(out, raw[:len(raw)-1]+string(alpha[i^1]), raw[:len(raw)-1]+string(alpha[i^3]))
		}
	}
	return out
}

var uidRepos = []string{"r", "a/b", "foo/blobs/uploads", "blobs/uploads/x", "v2/uploads"}

func (*c15i) Gen(rng *RNG, tier string) []Case {
	var cases []Case
	ids := uidMemberIDs()
	texts := uidJSONTexts()
	add := func(tag string, lines []string) { cases = append(cases, Case{Tag: tag, Lines: lines}) }
	line := func(op string, args ...string) string {
		ts := make([]string, len(args))
		for i, a := range args {
			ts[i] = tok(a)
		}
		return "uid " + op + " " + strings.Join(ts, " ")
	}
	// 1. every listed member ID on either side, against a plain and against itself: ID, JSON text, round trip
	for i, a := range ids {
		b := ids[(i*7+3)%len(ids)]
		add("pair:listed", []string{line("json", a, "plain"), line("enc", a, "plain"), line("rt", a, "plain"),
			line("json", "plain", a), line("rt", "plain", a), line("rt", a, a), line("json", a, b), line("rt", a, b), line("rt", b, a),
			line("dec", uidGoodID(a, b)), line("dec", uidGoodID(b, a)), line("dec", a)})
	}
	// 2. every JSON text as the inside of an ID
	{
		var lines []string
		for _, tx := range texts {
			lines = append(lines, line("dec", uidB64(tx)))
			if len(lines) >= 12 || len(tx) > 5000 {
				add("resume:json-texts", lines)
				lines = nil
			}
		}
		if len(lines) > 0 {
			add("resume:json-texts", lines)
		}
	}
	// 3. base64 malformations of good and bad insides
	for _, tx := range []string{`["a","b"]`, `["myid","other-id"]`, `["a","b","c"]`, `["a"]`, `["` + "\xc3\xa9\xc3\xa9\xc3\xbf" + `","??>>"]`, `["~~~","???"]`, `[">>>?","b"]`, `null`, ``} {
		var lines []string
		for _, id := range uidBadB64(rng, tx) {
			lines = append(lines, line("dec", id))
		}
		lines = append(lines, line("dec", uidB64(tx)))
		add("resume:base64", lines)
	}
	nRand, nMut, nHTTP := 150, 150, 25
	if tier == "thorough" {
		nRand, nMut, nHTTP = 20000, 20000, 1500
	}
	// 4. random member IDs
	for i := 0; i < nRand; i++ {
		var lines []string
		for j := 0; j < 6; j++ {
			a, b := uidRandomID(rng), uidRandomID(rng)
			if rng.Chance(1, 4) {
				a = pick(rng, ids)
			}
			if rng.Chance(1, 8) {
				b = a
			}
			lines = append(lines, line("json", a, b), line("rt", a, b), line("dec", uidGoodID(b, a)))
		}
		// what a client holding a member's own ID, or junk, might resume with
		lines = append(lines, line("dec", uidRandomID(rng)), line("dec", uidB64(uidRandomID(rng))))
		add("pair:random", lines)
	}
	// 5. mutated IDs: a good ID with one edit, a JSON text with one edit
	for i := 0; i < nMut; i++ {
		var lines []string
		for j := 0; j < 12; j++ {
			a, b := pick(rng, ids[:40]), uidRandomID(rng)
			var id string
			switch rng.Intn(6) {
			case 0: // an edit of the ID itself
				id = uidGoodID(a, b)
				if len(id) > 0 {
					k := rng.Intn(len(id))
					switch rng.Intn(4) {
					case 0:
						id = id[:k] + id[k+1:]
					case 1:
						id = id[:k] + string(rune("AQgw-_=+/\n"[rng.Intn(10)])) + id[k:]
					case 2:
						id = id[:k] + string(rune("AQgw-_9z"[rng.Intn(8)])) + id[k+1:]
					default:
						id = id[:k]
					}
				}
			case 1: // an edit of the JSON text
				data, _ := json.Marshal([]string{a, b})
				tx := string(data)
				k := rng.Intn(len(tx))
				switch rng.Intn(3) {
				case 0:
					tx = tx[:k] + tx[k+1:]
				case 1:
					tx = tx[:k] + pick(rng, []string{`"`, `,`, `[`, `]`, uidBS, " ", "null", "1", `"x",`, "\xff", "\n"}) + tx[k:]
				default:
					tx = tx[:k]
				}
				id = uidB64(tx)
			case 2: // arrays of other lengths and element kinds
				n := rng.Intn(5)
				elems := make([]string, n)
				for e := range elems {
					switch rng.Intn(7) {
					case 0:
						elems[e] = "null"
					case 1:
						elems[e] = pick(rng, []string{"1", "true", "{}", "[]", `["x"]`, "-0.5"})
					default:
						d, _ := json.Marshal(uidRandomID(rng))
						elems[e] = string(d)
					}
				}
				sep := pick(rng, []string{",", ",", " , ", ",\n"})
				id = uidB64("[" + strings.Join(elems, sep) + "]")
			case 3:
				id = pick(rng, uidBadB64(rng, string(mustJSON([]string{a, b}))))
			case 4:
				id = uidB64(pick(rng, texts[:len(texts)-3]))
			default:
				id = uidGoodID(a, b)
			}
			lines = append(lines, line("dec", id))
		}
		add("resume:mutated", lines)
	}
	// 6. through ociclient and ociserver
	for i := 0; i < nHTTP; i++ {
		var lines []string
		for j := 0; j < 4; j++ {
			a, b := pick(rng, ids), uidRandomID(rng)
			if len(a) > 1000 {
				a = a[:1000]
			}
			if rng.Bool() {
				a, b = b, a
			}
			repo := pick(rng, uidRepos)
			lines = append(lines, line("http", repo, a, b))
			switch rng.Intn(5) {
			case 0:
				lines = append(lines, line("httpres", repo, uidGoodID(b, a)))
			case 1:
				lines = append(lines, line("httpres", repo, uidB64(pick(rng, texts[:len(texts)-3]))))
			case 2:
				lines = append(lines, line("httpres", repo, pick(rng, []string{"", "\xff", "myid", "a/b?c", "%%", "\n", "WyJhIiwiYiJd\n", uidRandomID(rng)})))
			case 3:
				lines = append(lines, line("httpres", repo, pick(rng, uidBadB64(rng, `["a","b"]`))))
			}
		}
		add("http", lines)
	}
	add("http:directed", []string{
		line("http", "r", "a", "b"), line("http", "foo/blobs/uploads", `a"b`, "a/b?c"), line("http", "r", "\xff", ""), line("http", "r", strings.Repeat("x", 2000), "\xe2\x80\xa8"),
		line("http", "BAD", "a", "b"), line("httpres", "r", uidGoodID("a", "b")), line("httpres", "r", uidGoodID("b", "a")), line("httpres", "r", uidB64(`["a","b","c"]`)),
		line("httpres", "r", ""), line("httpres", "r", "\xff"), line("httpres", "r", "myid"), line("httpres", "r", base64.StdEncoding.EncodeToString([]byte(`["a","b"]`))),
	})
	// 7. malformed stream
	add("malformed", []string{"uid", "uid enc", "uid enc " + tok("a"), "uid enc a b", "uid dec", "uid dec zz", "uid bogus " + tok("a"), "uid rt " + tok("a") + " " + tok("b") + " " + tok("c"),
		"uid http " + tok("r") + " " + tok("a"), "uid httpres " + tok("r"), "uid json " + tok("a"), line("rt", "a", "b"), line("dec", "????")})
	return cases
}

// ---- oracles (independent of the Lean model) ----

// uidSanitize: what survives json.Marshal followed by json.Unmarshal: every byte that is not part of a
// well-formed UTF-8 sequence becomes U+FFFD.
func uidSanitize(s string) string {
	var b strings.Builder
	for i := 0; i < len(s); {
		r, n := utf8.DecodeRuneInString(s[i:])
		if r == utf8.RuneError && n == 1 {
			b.WriteString("\xef\xbf\xbd")
		} else {
			b.WriteString(s[i : i+n])
		}
		i += n
	}
	return b.String()
}

// uidExpect reads an ID the way the property describes it: base64url without padding of a JSON array of
// exactly two strings. lenient: an element is null (the code takes it as ""; refusing it would be as good).
func uidExpect(id string) (a, b string, ok, lenient bool) {
	data, err := base64.RawURLEncoding.DecodeString(id)
	if err != nil {
		return "", "", false, false
	}
	var v any
	if err := json.Unmarshal(data, &v); err != nil {
		return "", "", false, false
	}
	arr, isArr := v.([]any)
	if !isArr || len(arr) != 2 {
		return "", "", false, false
	}
	var out [2]string
	for i, e := range arr {
		switch e := e.(type) {
		case string:
			out[i] = e
		case nil:
			lenient = true
		default:
			return "", "", false, false
		}
	}
	return out[0], out[1], true, lenient
}

func uidURLSafe(id string) bool {
	if id == "" {
		return false
	}
	for i := 0; i < len(id); i++ {
		c := id[i]
		if !(c >= 'A' && c <= 'Z' || c >= 'a' && c <= 'z' || c >= '0' && c <= '9' || c == '-' || c == '_') {
			return false
		}
	}
	return true
}

func (*c15i) Oracle(c Case, impl []string) []Failure {
	var fs []Failure
	for i, l := range c.Lines {
		if i >= len(impl) {
			break
		}
		got := impl[i]
		fail := func(class, oracle, exp string) {
			fs = append(fs, Failure{Class: class, Oracle: oracle, Index: i, Expected: exp, Observed: got})
		}
		if got == "panic" {
			fail("uid-panic", "no_panic", "a result")
			continue
		}
		if got == "bad-op" || got == "bad-engine" {
			continue
		}
		t := strings.Split(l, " ")
		var args []string
		for _, x := range t[2:] {
			v, _ := untok(x)
			args = append(args, v)
		}
		f := strings.Split(got, " ")
		field := func(k int) string {
			if k < len(f) {
				v, _ := untok(f[k])
				return v
			}
			return ""
		}
		// the ID reported for members a, b: URL-safe, and an encoding of exactly [a', b']
		checkID := func(id, a, b string) bool {
			if !uidURLSafe(id) {
				fail("uid-id-not-url-safe", "id_is_path_segment", "a non-empty ID over A-Z a-z 0-9 - _")
				return false
			}
			x, y, ok, _ := uidExpect(id)
			if !ok || x != uidSanitize(a) || y != uidSanitize(b) {
				fail("uid-id-encoding", "id_encodes_pair", "base64url(JSON ["+tok(uidSanitize(a))+","+tok(uidSanitize(b))+"])")
				return false
			}
			return true
		}
		wantPair := func(a, b string) string { return "pair " + tok(uidSanitize(a)) + " " + tok(uidSanitize(b)) }
		switch t[1] {
		case "enc":
			if f[0] != "id" {
				fail("uid-start-failed", "start", "id …")
				break
			}
			checkID(field(1), args[0], args[1])
		case "rt":
			if f[0] != "id" || len(f) < 3 {
				fail("uid-start-failed", "start", "id …")
				break
			}
			if !checkID(field(1), args[0], args[1]) {
				break
			}
			if rest := strings.Join(f[2:], " "); rest != wantPair(args[0], args[1]) {
				cls := "uid-roundtrip"
				if uidSanitize(args[0]) != args[0] || uidSanitize(args[1]) != args[1] {
					cls = "uid-roundtrip-illformed"
				}
				fs = append(fs, Failure{Class: cls, Oracle: "resume_reaches_sessions", Index: i, Expected: wantPair(args[0], args[1]), Observed: rest})
			}
		case "dec":
			a, b, ok, lenient := uidExpect(args[0])
			switch {
			case !ok && got != "malformed":
				fail("uid-accepts-malformed", "only_two_string_arrays", "malformed")
			case ok && !lenient && got != "pair "+tok(a)+" "+tok(b):
				if got == "pair "+tok(b)+" "+tok(a) && a != b {
					fail("uid-members-swapped", "resume_reaches_sessions", "pair "+tok(a)+" "+tok(b))
				} else {
					fail("uid-refuses-or-misreads-wellformed", "resume_reaches_sessions", "pair "+tok(a)+" "+tok(b))
				}
			case ok && lenient && got != "malformed" && got != "pair "+tok(a)+" "+tok(b):
				fail("uid-misreads-null", "resume_reaches_sessions", "malformed, or pair "+tok(a)+" "+tok(b))
			}
		case "http":
			// a valid repository name: the upload starts, and every later request reaches the two sessions
			if args[0] == "BAD" {
				break
			}
			if f[0] != "id" || len(f) < 7 || f[2] != "got" || f[4] != "then" {
				fail("uid-http-lost", "id_survives_http", "id … got … then … pair …")
				break
			}
			if !checkID(field(1), args[1], args[2]) {
				break
			}
			if field(3) != field(1) {
				fail("uid-http-id-changed", "id_survives_http", "got "+f[1])
				break
			}
			// the later requests carry an ID of the same two sessions (the same ID when the member IDs are well-formed UTF-8)
			if x, y, ok, _ := uidExpect(field(5)); !ok || x != uidSanitize(args[1]) || y != uidSanitize(args[2]) ||
				(uidSanitize(args[1]) == args[1] && uidSanitize(args[2]) == args[2] && field(5) != field(1)) {
				fail("uid-http-id-changed", "id_survives_http", "then an ID of "+wantPair(args[1], args[2]))
				break
			}
			if rest := strings.Join(f[6:], " "); rest != wantPair(args[1], args[2]) {
				fs = append(fs, Failure{Class: "uid-http-roundtrip", Oracle: "resume_reaches_sessions", Index: i, Expected: wantPair(args[1], args[2]), Observed: rest})
			}
		case "httpres":
			id := args[1]
			if id == "" || !utf8.ValidString(id) {
				break // not an upload ID the HTTP layer carries
			}
			if f[0] != "got" || len(f) < 3 {
				fail("uid-http-lost", "id_survives_http", "got "+tok(id)+" …")
				break
			}
			if field(1) != id {
				fail("uid-http-id-changed", "id_survives_http", "got "+tok(id))
				break
			}
			rest := strings.Join(f[2:], " ")
			if f[2] == "then" && len(f) >= 4 {
				rest = strings.Join(f[4:], " ")
			}
			a, b, ok, lenient := uidExpect(id)
			switch {
			case !ok && rest != "malformed":
				fs = append(fs, Failure{Class: "uid-accepts-malformed", Oracle: "only_two_string_arrays", Index: i, Expected: "malformed", Observed: rest})
			case ok && !lenient && rest != "pair "+tok(a)+" "+tok(b):
				fs = append(fs, Failure{Class: "uid-http-roundtrip", Oracle: "resume_reaches_sessions", Index: i, Expected: "pair " + tok(a) + " " + tok(b), Observed: rest})
			}
		}
	}
	return fs
}

func (*c15i) NonTrivial(c Case, impl []string) (bool, string) {
	pairs, refused := 0, 0
	for _, o := range impl {
		if strings.Contains(o, "pair ") {
			pairs++
		}
		if strings.HasSuffix(o, "malformed") || o == "refused" {
			refused++
		}
	}
	b := c.Tag
	if b == "" {
		b = "replay"
	}
	if i := strings.Index(b, ":"); i > 0 && strings.HasPrefix(b, "corpus") {
		b = "corpus"
	}
	return pairs >= 1 && (refused >= 1 || pairs >= 3), b
}
