package main

import (
	"context"
	"crypto/sha512"
	"encoding/hex"
	"fmt"
	"io"
	"net/http"
	"strconv"
	"strings"

	"cuelabs.dev/go/oci/ociregistry"
	"cuelabs.dev/go/oci/ociregistry/ociclient"
)

// C01b: a read through the HTTP client of content that does not match its descriptor ends in
// an error, never in a clean end-of-stream.
//
//   rd <verify 0|1> <declared size> <declared digest> <chunk>*
// verify=1: GetBlob (a verifying reader); verify=0: GetBlobRange (unverified, size still enforced
// against over-long bodies). The body is served by a scripted transport in exactly these chunks,
// with Content-Length = declared size and Docker-Content-Digest = declared digest.
// Output: eof <data> | err <bytes relayed before the error>

func init() { engines["C01b"] = func() Engine { return &c01b{} } }

type c01b struct{}

func (*c01b) UsesModel() bool { return true }

type chunkReader struct {
	chunks [][]byte
	// eofWithLast: the last chunk is delivered together with io.EOF, as io.Reader allows and as net/http's bodies of
	// known length do (lines "re …")
	eofWithLast bool
}

func (r *chunkReader) Read(p []byte) (int, error) {
	for len(r.chunks) > 0 && len(r.chunks[0]) == 0 {
		r.chunks = r.chunks[1:]
		if len(r.chunks) > 0 {
			return 0, nil // an empty chunk is a zero-length read
		}
	}
	if len(r.chunks) == 0 {
		return 0, io.EOF
	}
	n := copy(p, r.chunks[0])
	r.chunks[0] = r.chunks[0][n:]
	if len(r.chunks[0]) == 0 {
		r.chunks = r.chunks[1:]
	}
	if r.eofWithLast && len(r.chunks) == 0 {
		return n, io.EOF
	}
	return n, nil
}
func (r *chunkReader) Close() error { return nil }

type chunkTransport struct {
	size   int64
	digest string
	chunks [][]byte
	status int
	crange string
	eofWithLast bool
	// adaptive: answer 206 with the full Content-Range when the request carries a Range header, 200 otherwise
	adaptive bool
}

func (t *chunkTransport) RoundTrip(req *http.Request) (*http.Response, error) {
	if t.adaptive {
		// whichever way the client asks for the whole blob, it gets the whole blob
		t.status, t.crange = 200, ""
		if req.Header.Get("Range") != "" {
			t.status = 206
			t.crange = fmt.Sprintf("bytes 0-%d/%d", t.size-1, t.size)
			if t.size == 0 {
				t.crange = "bytes */0"
			}
		}
	}
	h := http.Header{}
	if t.digest != "" {
		h.Set("Docker-Content-Digest", t.digest)
	}
	h.Set("Content-Type", "application/octet-stream")
	if t.crange != "" {
		h.Set("Content-Range", t.crange)
	}
	return &http.Response{StatusCode: t.status, Status: strconv.Itoa(t.status), Proto: "HTTP/1.1", ProtoMajor: 1, ProtoMinor: 1,
		Header: h, Request: req, ContentLength: t.size, Body: &chunkReader{chunks: t.chunks, eofWithLast: t.eofWithLast}}, nil
}

func (*c01b) Impl(c Case) []string {
	out := make([]string, len(c.Lines))
	for i, l := range c.Lines {
		out[i] = guard(func() string {
			t := strings.Split(l, " ")
			if len(t) < 4 || (t[0] != "rd" && t[0] != "rq" && t[0] != "re") {
				return "bad-op"
			}
			size, _ := strconv.ParseInt(t[2], 10, 64)
			dg, _ := untok(t[3])
			tr := &chunkTransport{size: size, digest: dg, status: 200, eofWithLast: t[0] == "re"}
			if t[0] == "rq" {
				// rq <mode> <size> <digest in the response header, may be empty> <digest asked for> <chunk>*
				if len(t) < 5 {
					return "bad-op"
				}
				dg, _ = untok(t[4]) // what the caller asks for
				t = append(t[:4:4], t[5:]...)
			}
			for _, ct := range t[4:] {
				s, _ := untok(ct)
				tr.chunks = append(tr.chunks, []byte(s))
			}
			cl, err := ociclient.New("registry.example", &ociclient.Options{Transport: tr})
			if err != nil {
				return "setup"
			}
			var rd ociregistry.BlobReader
			if t[1] == "1" {
				rd, err = cl.GetBlob(context.Background(), "foo", ociregistry.Digest(dg))
			} else if t[1] == "2" {
				tr.adaptive = true
				rd, err = cl.GetBlobRange(context.Background(), "foo", ociregistry.Digest(dg), 0, -1)
			} else if t[1] == "3" {
				// a manifest read through its tag: the digest the registry declares (Docker-Content-Digest)
				// is what the content is verified against
				rd, err = cl.GetTag(context.Background(), "foo", "latest")
			} else if t[1] == "4" {
				rd, err = cl.GetManifest(context.Background(), "foo", ociregistry.Digest(dg))
			} else {
				tr.status = 206
				tr.crange = fmt.Sprintf("bytes 1-%d/%d", size, size) // the reader's size comes from Content-Range's total
				rd, err = cl.GetBlobRange(context.Background(), "foo", ociregistry.Digest(dg), 1, size+1)
			}
			if err != nil {
				return "open-error"
			}
			defer rd.Close()
			var got []byte
			buf := make([]byte, 7)
			for {
				n, err := rd.Read(buf)
				got = append(got, buf[:n]...)
				if err == io.EOF {
					return "eof " + tok(string(got))
				}
				if err != nil {
					return "err " + tok(string(got))
				}
			}
		})
	}
	return out
}

func (*c01b) Gen(rng *RNG, tier string) []Case {
	var cases []Case
	n := 3000
	if tier == "thorough" {
		n = 60000
	}
	for i := 0; i < n; i++ {
		content := rng.Bytes(rng.Intn(20))
		if i < 3 {
			content = append(content, 0, 0)[:i] // lengths 0, 1, 2 whatever the generator drew
		}
		size := int64(len(content))
		dg := sha256Digest(content)
		if rng.Chance(1, 4) {
			dg = otherDigest(rng, content) // sha384 / sha512: the reader must hash with the descriptor's own algorithm
		}
		body := append([]byte{}, content...)
		switch rng.Intn(8) {
		case 0: // flip a byte
			if len(body) > 0 {
				body[rng.Intn(len(body))] ^= 0x01
			}
		case 1: // truncate
			if len(body) > 0 {
				body = body[:rng.Intn(len(body))]
			}
		case 2: // extend
			body = append(body, rng.Bytes(1+rng.Intn(3))...)
		case 3: // wrong declared size
			size += int64(rng.Intn(3)) - 1
			if size < 0 {
				size = 0
			}
		case 4: // wrong declared digest
			if strings.HasPrefix(dg, "sha256:") {
				dg = sha256Digest(append([]byte("x"), content...))
			} else {
				dg = otherDigest(rng, append([]byte("x"), content...))
			}
		}
		line := fmt.Sprintf("rd %d %d %s", rng.Intn(4)/3^1, size, tok(dg))
		if rng.Chance(1, 4) {
			line = fmt.Sprintf("rd 0 %d %s", size, tok(dg))
		} else if rng.Chance(1, 3) {
			line = fmt.Sprintf("rd %d %d %s", 2+rng.Intn(3), size, tok(dg)) // the whole blob through the range call; a manifest by tag, by digest
		} else {
			line = fmt.Sprintf("rd 1 %d %s", size, tok(dg))
		}
		for _, p := range partitions(rng, body, 5) {
			line += " " + tok(string(p))
		}
		if rng.Chance(1, 3) {
			line = "re" + line[2:] // the last chunk arrives together with io.EOF
		}
		cases = append(cases, Case{Lines: []string{line}})
	}
	// What the caller asked for against what the registry claims to send (F31): the caller names a digest, the
	// response carries content and a Docker-Content-Digest header of its own - consistent with each other or not,
	// equal to the requested digest or not, or no header at all.
	nq := n / 6
	for i := 0; i < nq; i++ {
		asked := rng.Bytes(rng.Intn(12))
		other := append(rng.Bytes(1+rng.Intn(12)), 'x')
		body := asked
		if rng.Chance(1, 2) {
			body = other
		}
		hdr := ""
		switch rng.Intn(4) {
		case 0:
			hdr = sha256Digest(asked)
		case 1, 2:
			hdr = sha256Digest(body)
		}
		size := len(body)
		if rng.Chance(1, 8) {
			size = len(asked)
		}
		line := fmt.Sprintf("rq %d %d %s %s", []int{1, 2, 4}[rng.Intn(3)], size, tok(hdr), tok(sha256Digest(asked)))
		for _, p := range partitions(rng, body, 4) {
			line += " " + tok(string(p))
		}
		cases = append(cases, Case{Tag: "asked-vs-claimed", Lines: []string{line}})
	}
	return cases
}

func (*c01b) Oracle(c Case, impl []string) []Failure {
	var fs []Failure
	for i, l := range c.Lines {
		if i >= len(impl) {
			break
		}
		t := strings.Split(l, " ")
		got := impl[i]
		size, _ := strconv.ParseInt(t[2], 10, 64)
		dg, _ := untok(t[3])
		if t[0] == "rq" {
			// a complete read by digest yields bytes whose hash is the REQUESTED digest, whatever the response claims
			asked, _ := untok(t[4])
			var body []byte
			for _, ct := range t[5:] {
				s, _ := untok(ct)
				body = append(body, s...)
			}
			ok := int64(len(body)) == size && sha256Digest(body) == asked
			switch {
			case got == "panic":
				fs = append(fs, Failure{Class: "reader-panic", Oracle: "requested_digest_verified", Index: i, Expected: "an error or a clean end", Observed: got})
			case strings.HasPrefix(got, "eof") && !ok:
				fs = append(fs, Failure{Class: "reader-clean-eof-not-the-requested-digest", Oracle: "requested_digest_verified", Index: i,
					Expected: "err (the content read does not hash to the digest that was asked for)", Observed: got})
			case ok && (dg == "" || dg == asked || dg == sha256Digest(body)) && got != "eof "+tok(string(body)):
				fs = append(fs, Failure{Class: "reader-rejects-matching", Oracle: "requested_digest_verified", Index: i, Expected: "eof with exactly the body", Observed: got})
			}
			continue
		}
		var body []byte
		for _, ct := range t[4:] {
			s, _ := untok(ct)
			body = append(body, s...)
		}
		matches := int64(len(body)) == size && digestWithAlgOf(dg, body) == dg
		fail := func(class, exp string) {
			fs = append(fs, Failure{Class: class, Oracle: "mismatch_never_clean", Index: i, Expected: exp, Observed: got})
		}
		switch {
		case got == "panic":
			fail("reader-panic", "an error or a clean end")
		case t[1] != "0" && !matches && strings.HasPrefix(got, "eof"):
			cl := "reader-clean-eof-on-mismatch"
			switch {
			case int64(len(body)) < size:
				cl += ":short"
			case int64(len(body)) > size:
				cl += ":long"
			default:
				cl += ":bytes"
			}
			fail(cl, "err (content does not match its descriptor)")
		case t[1] != "0" && matches && got != "eof "+tok(string(body)):
			fail("reader-rejects-matching", "eof with exactly the body")
		case t[1] == "0" && int64(len(body)) > size && strings.HasPrefix(got, "eof"):
			fail("reader-clean-eof-on-mismatch:long-unverified", "err (body longer than the descriptor size)")
		}
	}
	return fs
}

func otherDigest(rng *RNG, data []byte) string {
	if rng.Bool() {
		h := sha512.Sum384(data)
		return "sha384:" + hex.EncodeToString(h[:])
	}
	h := sha512.Sum512(data)
	return "sha512:" + hex.EncodeToString(h[:])
}

func digestWithAlgOf(dg string, data []byte) string {
	switch {
	case strings.HasPrefix(dg, "sha384:"):
		h := sha512.Sum384(data)
		return "sha384:" + hex.EncodeToString(h[:])
	case strings.HasPrefix(dg, "sha512:"):
		h := sha512.Sum512(data)
		return "sha512:" + hex.EncodeToString(h[:])
	}
	return sha256Digest(data)
}

func (*c01b) NonTrivial(c Case, impl []string) (bool, string) {
	if len(impl) > 0 && strings.HasPrefix(impl[0], "eof") {
		return true, "clean"
	}
	return true, "error"
}
