package main

import (
	"context"
	"fmt"
	"reflect"
	"sort"
	"strconv"
	"strings"

	"cuelabs.dev/go/oci/ociregistry"
	"cuelabs.dev/go/oci/ociregistry/ocifilter"
)

// C12: access-checking / selecting wrappers in front of a recording backend.
//
//	ac  call <Method> <repo1> <repo2> <denied cells | ->       ocifilter.AccessChecker
//	sel call <Method> <repo1> <repo2> <allowed names | ->      ocifilter.Select
//	ac|sel list <start> <stop> <backend events | -> <policy>    Repositories, consumer declines on its stop-th event (0: never)
//
// A denied cell is <nametok>.<r|w|d|l>; the policy's error for a cell is a value
// unique to the cell. Backend events are name tokens, or "!" for an error.
//
// Output:  rejected <cell|code> calls=<…>  |  returned backend|other calls=<…>
//          events=[<tok>|!b|!p:<cell|code> …] pulled=<n> call=<…>

func init() { engines["C12"] = func() Engine { return &c12{} } }

type c12 struct{}

func (*c12) UsesModel() bool { return true }

var kindLetter = map[ocifilter.AccessKind]string{
	ocifilter.AccessRead: "r", ocifilter.AccessWrite: "w", ocifilter.AccessDelete: "d", ocifilter.AccessList: "l",
}

func commaList(s string) []string {
	if s == "-" {
		return nil
	}
	return strings.Split(s, ",")
}

// c12Wrap builds the wrapper around backend and a function naming the policy
// error a result carries ("" when it is not one of the policy's errors).
func c12Wrap(wrapper, pol string, backend ociregistry.Interface) (ociregistry.Interface, func(error) string) {
	if wrapper == "sel" {
		allowed := map[string]bool{}
		for _, t := range commaList(pol) {
			allowed[t] = true
		}
		reg := ocifilter.Select(backend, func(name string) bool { return allowed[tok(name)] })
		return reg, func(err error) string {
			switch err {
			case ociregistry.ErrDenied:
				return "DENIED"
			case ociregistry.ErrNameUnknown:
				return "NAME_UNKNOWN"
			}
			return ""
		}
	}
	deny := map[string]*recErr{}
	for _, c := range commaList(pol) {
		deny[c] = &recErr{"policy " + c}
	}
	reg := ocifilter.AccessChecker(backend, func(name string, kind ocifilter.AccessKind) error {
		if e, ok := deny[tok(name)+"."+kindLetter[kind]]; ok {
			return e
		}
		return nil
	})
	return reg, func(err error) string {
		for c, e := range deny {
			if err == error(e) {
				return c
			}
		}
		return ""
	}
}

// c12Inst is one wrapper instance with its recording backend. Within a case, lines with the
// same wrapper and policy share one instance (a wrapper must not remember earlier decisions:
// the property is about every call); each line starts with an empty call log.
type c12Inst struct {
	b         *recBackend
	reg       ociregistry.Interface
	policyErr func(error) string
}

func (*c12) Impl(c Case) []string {
	out := make([]string, len(c.Lines))
	insts := map[string]*c12Inst{}
	for i, l := range c.Lines {
		out[i] = guard(func() string { return c12Line(l, insts) })
	}
	return out
}

func c12Instance(insts map[string]*c12Inst, wrapper, pol string) *c12Inst {
	key := wrapper + " " + pol
	if in, ok := insts[key]; ok {
		in.b.Calls, in.b.Pulled, in.b.RepoEvents = nil, 0, nil
		return in
	}
	in := &c12Inst{b: newRecBackend()}
	in.reg, in.policyErr = c12Wrap(wrapper, pol, in.b.Funcs)
	insts[key] = in
	return in
}

func showRecCalls(calls []recCall, args []reflect.Value) string {
	if len(calls) == 0 {
		return "-"
	}
	var cs []string
	for _, c := range calls {
		s := "(differ)"
		if sameArgs(c.Args, args) {
			s = "(same)"
		}
		cs = append(cs, c.Method+s)
	}
	return strings.Join(cs, "+")
}

// c12Nest: `ac|sel nest <Method> <r1> <r2> <outer policy> <inner policy>`. The wrapped registry of the
// outer wrapper is the inner wrapper. The line is run three ways - stacked, the outer wrapper alone and
// the inner wrapper alone, each over its own recording backend - and the stacked result has to be the
// outer one's when the outer policy rejects (and then the inner policy function is never consulted),
// the inner one's otherwise.
func c12Nest(t []string) string {
	r1, ok1 := untok(t[3])
	r2, ok2 := untok(t[4])
	if !ok1 || !ok2 || t[2] == "Repositories" {
		return "bad-op"
	}
	type run struct {
		out         string
		innerAsked  int
		backendHits int
	}
	do := func(outerPol, innerPol string) run {
		b := newRecBackend()
		var reg ociregistry.Interface = b.Funcs
		asked := 0
		var errOf []func(error) string
		if innerPol != "" {
			var pe func(error) string
			if t[0] == "sel" {
				allowed := map[string]bool{}
				for _, x := range commaList(innerPol) {
					allowed[x] = true
				}
				reg = ocifilter.Select(reg, func(name string) bool { asked++; return allowed[tok(name)] })
				pe = func(err error) string {
					switch err {
					case ociregistry.ErrDenied:
						return "DENIED"
					case ociregistry.ErrNameUnknown:
						return "NAME_UNKNOWN"
					}
					return ""
				}
			} else {
				deny := map[string]*recErr{}
				for _, c := range commaList(innerPol) {
					deny[c] = &recErr{"inner policy " + c}
				}
				reg = ocifilter.AccessChecker(reg, func(name string, kind ocifilter.AccessKind) error {
					asked++
					if e, ok := deny[tok(name)+"."+kindLetter[kind]]; ok {
						return e
					}
					return nil
				})
				pe = func(err error) string {
					for c, e := range deny {
						if err == error(e) {
							return "inner:" + c
						}
					}
					return ""
				}
			}
			errOf = append(errOf, pe)
		}
		if outerPol != "" {
			w, pe := c12Wrap(t[0], outerPol, reg)
			reg = w
			errOf = append(errOf, func(err error) string {
				if c := pe(err); c != "" {
					return "outer:" + c
				}
				return ""
			})
		}
		m, args, ok := wrapperArgs(reg, t[2], context.Background(), r1, r2)
		if !ok {
			return run{out: "bad-op"}
		}
		res := m.Call(args)
		out := "returned"
		if e := resultError(res); e != nil {
			for i := len(errOf) - 1; i >= 0; i-- {
				if c := errOf[i](e); c != "" {
					out = "rejected " + c
					break
				}
			}
		}
		if t[0] == "sel" {
			out = strings.Replace(strings.Replace(out, "outer:", "", 1), "inner:", "", 1)
		}
		return run{out, asked, len(b.Calls)}
	}
	both, outer, inner := do(t[5], t[6]), do(t[5], ""), do("", t[6])
	if both.out == "bad-op" {
		return "bad-op"
	}
	if strings.HasPrefix(outer.out, "rejected") {
		if both.out != outer.out || both.innerAsked != 0 || both.backendHits != 0 {
			return fmt.Sprintf("nested-differs: outer alone {%s}; stacked {%s inner-policy-consulted=%d backend-calls=%d}", outer.out, both.out, both.innerAsked, both.backendHits)
		}
		return "nested ok: " + both.out
	}
	innerOut := inner.out
	if t[0] != "sel" {
		innerOut = strings.Replace(innerOut, "rejected ", "rejected ", 1)
	}
	if both.out != innerOut || both.backendHits != inner.backendHits {
		return fmt.Sprintf("nested-differs: inner alone {%s backend-calls=%d}; stacked {%s backend-calls=%d}", inner.out, inner.backendHits, both.out, both.backendHits)
	}
	return "nested ok: " + both.out
}

func c12Line(l string, insts map[string]*c12Inst) string {
	out := c12Line1(l, insts)
	t := strings.Split(l, " ")
	if len(t) == 6 && t[1] == "call" && out != "bad-op" {
		// the same call with boundary values for everything that is not a repository name, on a fresh
		// wrapper: the decision and the forwarding are the same
		wrapperArgsBoundary = true
		b := func() string {
			defer func() { wrapperArgsBoundary = false }()
			return c12Line1(l, map[string]*c12Inst{})
		}()
		if b != out {
			return "boundary-differs: {" + out + "} with boundary arguments {" + b + "}"
		}
	}
	if len(t) == 6 && t[1] == "list" && strings.Contains(out, "events=[!p:") {
		_ = out
	}
	return out
}

func c12Line1(l string, insts map[string]*c12Inst) string {
	t := strings.Split(l, " ")
	if len(t) == 7 && (t[0] == "ac" || t[0] == "sel") && t[1] == "nest" {
		return c12Nest(t)
	}
	if len(t) != 6 || (t[0] != "ac" && t[0] != "sel") {
		return "bad-op"
	}
	switch t[1] {
	case "call":
		r1, ok1 := untok(t[3])
		r2, ok2 := untok(t[4])
		if !ok1 || !ok2 || t[2] == "Repositories" {
			return "bad-op"
		}
		in := c12Instance(insts, t[0], t[5])
		b, reg, policyErr := in.b, in.reg, in.policyErr
		m, args, ok := wrapperArgs(reg, t[2], context.Background(), r1, r2)
		if !ok {
			return "bad-op"
		}
		res := m.Call(args)
		calls := showRecCalls(b.Calls, args)
		if e := resultError(res); e != nil {
			if e == errSeqUnstable {
				return "seq-unstable calls=" + calls
			}
			if c := policyErr(e); c != "" {
				return "rejected " + c + " calls=" + calls
			}
		}
		if len(b.Calls) > 0 && sameAsBackend(res, b.Calls[len(b.Calls)-1]) {
			if w, ok := res[0].Interface().(ociregistry.BlobWriter); ok {
				// the writer handed back is the backend's, usable as such
				rw, isRec := w.(*recWriter)
				if _, err := w.Write([]byte("z")); err != nil || !isRec || rw.writes != 1 {
					return "returned other-writer calls=" + calls
				}
			}
			return "returned backend calls=" + calls
		}
		return "returned other calls=" + calls
	case "list":
		start, ok1 := untok(t[2])
		stop, err := strconv.Atoi(t[3])
		if !ok1 || err != nil || stop < 0 {
			return "bad-op"
		}
		var evs []recEv
		for _, e := range commaList(t[4]) {
			if e == "!" {
				evs = append(evs, recEv{isErr: true})
				continue
			}
			s, ok := untok(e)
			if !ok {
				return "bad-op"
			}
			evs = append(evs, recEv{item: s})
		}
		in := c12Instance(insts, t[0], t[5])
		b, reg, policyErr := in.b, in.reg, in.policyErr
		b.RepoEvents = func(string) []recEv { return evs }
		var got []string
		n := 0
		reg.Repositories(context.Background(), start)(func(name string, err error) bool {
			n++
			switch {
			case err == nil:
				got = append(got, tok(name))
			case err == error(b.ListErr):
				got = append(got, "!b")
			case policyErr(err) != "":
				got = append(got, "!p:"+policyErr(err))
			default:
				got = append(got, "!?")
			}
			return stop == 0 || n < stop
		})
		call := "-"
		if len(b.Calls) > 0 {
			call = showRecCalls(b.Calls, []reflect.Value{{}, reflect.ValueOf(start)})
		}
		return fmt.Sprintf("events=[%s] pulled=%d call=%s", strings.Join(got, " "), b.Pulled, call)
	}
	return "bad-op"
}

// ---- generation ----

// the 18 methods, from the real interface types
func ifaceMethodKinds() (methods []string, kind map[string]string) {
	kind = map[string]string{}
	for _, g := range []struct {
		t reflect.Type
		k string
	}{
		{reflect.TypeOf((*ociregistry.Reader)(nil)).Elem(), "r"},
		{reflect.TypeOf((*ociregistry.Writer)(nil)).Elem(), "w"},
		{reflect.TypeOf((*ociregistry.Deleter)(nil)).Elem(), "d"},
		{reflect.TypeOf((*ociregistry.Lister)(nil)).Elem(), "l"},
	} {
		for i := 0; i < g.t.NumMethod(); i++ {
			methods = append(methods, g.t.Method(i).Name)
			kind[g.t.Method(i).Name] = g.k
		}
	}
	sort.Strings(methods)
	return
}

var dirtyNames = []string{"", "*", "a", "b", "a/b", "A", "..", "a/../b", "/a", "a/", "a//b", ".", "é", "\xff", "a b", "foo", "fooey", "x,y", "a.r"}

func subsetOf(xs []string, mask int) []string {
	var out []string
	for i, x := range xs {
		if mask>>uint(i)&1 == 1 {
			out = append(out, x)
		}
	}
	return out
}

func joinOrDash(xs []string) string {
	if len(xs) == 0 {
		return "-"
	}
	return strings.Join(xs, ",")
}

func (*c12) Gen(rng *RNG, tier string) []Case {
	var cases []Case
	add := func(format string, a ...any) {
		cases = append(cases, Case{Lines: []string{fmt.Sprintf(format, a...)}})
	}
	methods, _ := ifaceMethodKinds()
	a, b := tok("a"), tok("b")
	cellsOf := func(names ...string) []string {
		var cs []string
		for _, n := range names {
			for _, k := range []string{"r", "w", "d", "l"} {
				cs = append(cs, n+"."+k)
			}
		}
		return cs
	}
	// every allow/deny assignment to the two repositories × four kinds, every method
	ab := cellsOf(a, b)
	for _, m := range methods {
		if m == "Repositories" {
			continue
		}
		for mask := 0; mask < 1<<8; mask++ {
			add("ac call %s %s %s %s", m, a, b, joinOrDash(subsetOf(ab, mask)))
		}
		// the same repository in both positions, and cells of the "*" pseudo-name
		for mask := 0; mask < 1<<4; mask++ {
			add("ac call %s %s %s %s", m, a, a, joinOrDash(subsetOf(cellsOf(a), mask)))
			add("ac call %s %s %s %s", m, a, b, joinOrDash(subsetOf(cellsOf(tok("*")), mask)))
		}
		for mask := 0; mask < 1<<3; mask++ {
			al := joinOrDash(subsetOf([]string{a, b, tok("*")}, mask))
			add("sel call %s %s %s %s", m, a, b, al)
			add("sel call %s %s %s %s", m, a, a, al)
			add("sel call %s %s %s %s", m, b, a, al)
		}
	}
	// listings: every deny assignment over the listed names, an error at every
	// position, a consumer declining at every k
	names := []string{tok("a"), tok("b"), tok("c"), tok("d")}
	for errPos := -1; errPos <= 4; errPos++ {
		var evs []string
		for i, n := range names {
			if i == errPos {
				evs = append(evs, "!")
			}
			evs = append(evs, n)
		}
		if errPos == 4 {
			evs = append(evs, "!")
		}
		for mask := 0; mask < 1<<4; mask++ {
			for k := 0; k <= 6; k++ {
				var deny []string
				for _, n := range subsetOf(names, mask) {
					deny = append(deny, n+".r")
				}
				add("ac list %s %d %s %s", tok(""), k, strings.Join(evs, ","), joinOrDash(deny))
				add("sel list %s %d %s %s", tok(""), k, strings.Join(evs, ","), joinOrDash(subsetOf(names, mask)))
				if k < 2 && mask%5 == 0 {
					add("ac list %s %d %s %s", tok("b"), k, strings.Join(evs, ","), joinOrDash(append(deny, tok("*")+".l")))
					add("sel list %s %d %s %s", tok("b"), k, strings.Join(evs, ","), joinOrDash(append(subsetOf(names, mask), tok("*"))))
				}
			}
		}
	}
	add("ac list %s 0 - -", tok(""))
	add("sel list %s 3 - -", tok("zz"))
	// random pure policies over names from a grammar (well-formed or not), random backends
	n := 3000
	if tier == "thorough" {
		n = 150000
	}
	randName := func() string {
		if rng.Chance(1, 6) {
			return string(rng.Bytes(rng.Intn(4)))
		}
		return pick(rng, dirtyNames)
	}
	for i := 0; i < n; i++ {
		r1, r2 := randName(), randName()
		if rng.Chance(1, 5) {
			r2 = r1
		}
		pool := []string{r1, r2, "*", randName(), randName()}
		if rng.Chance(1, 3) { // listing
			k := rng.Intn(8)
			var evs []string
			for j := rng.Intn(9); j > 0; j-- {
				if rng.Chance(1, 10) {
					evs = append(evs, "!")
				} else {
					evs = append(evs, tok(pick(rng, pool)))
				}
			}
			if rng.Bool() {
				var deny []string
				for j := rng.Intn(6); j > 0; j-- {
					deny = append(deny, tok(pick(rng, pool))+"."+pick(rng, []string{"r", "r", "r", "w", "d", "l"}))
				}
				add("ac list %s %d %s %s", tok(randName()), k, joinOrDash(evs), joinOrDash(deny))
			} else {
				var al []string
				for j := rng.Intn(5); j > 0; j-- {
					al = append(al, tok(pick(rng, pool)))
				}
				add("sel list %s %d %s %s", tok(randName()), k, joinOrDash(evs), joinOrDash(al))
			}
			continue
		}
		m := pick(rng, methods)
		if m == "Repositories" {
			m = "Tags"
		}
		if rng.Bool() {
			var deny []string
			for j := rng.Intn(7); j > 0; j-- {
				deny = append(deny, tok(pick(rng, pool))+"."+pick(rng, []string{"r", "w", "d", "l"}))
			}
			add("ac call %s %s %s %s", m, tok(r1), tok(r2), joinOrDash(deny))
		} else {
			var al []string
			for j := rng.Intn(4); j > 0; j-- {
				al = append(al, tok(pick(rng, pool)))
			}
			add("sel call %s %s %s %s", m, tok(r1), tok(r2), joinOrDash(al))
		}
	}
	// one wrapper instance used for several calls: different methods (so different access
	// kinds) on the same repositories, listings in between
	nseq := 400
	if tier == "thorough" {
		nseq = 20000
	}
	for i := 0; i < nseq; i++ {
		r1, r2 := pick(rng, []string{"a", "b", "c"}), pick(rng, []string{"a", "b", "c"})
		wrapper := pick(rng, []string{"ac", "sel"})
		var pol string
		if wrapper == "ac" {
			var deny []string
			for j := rng.Intn(5); j > 0; j-- {
				deny = append(deny, tok(pick(rng, []string{r1, r2, "*"}))+"."+pick(rng, []string{"r", "w", "d", "l"}))
			}
			pol = joinOrDash(deny)
		} else {
			var al []string
			for j := rng.Intn(3); j > 0; j-- {
				al = append(al, tok(pick(rng, []string{r1, r2, "c", "*"})))
			}
			pol = joinOrDash(al)
		}
		var lines []string
		for k := 3 + rng.Intn(5); k > 0; k-- {
			if rng.Chance(1, 5) {
				lines = append(lines, fmt.Sprintf("%s list %s %d %s %s", wrapper, tok(""), rng.Intn(4), strings.Join([]string{tok("a"), tok("b"), tok("c")}, ","), pol))
				continue
			}
			m := pick(rng, methods)
			if m == "Repositories" {
				m = "DeleteTag"
			}
			x, y := r1, r2
			if rng.Bool() {
				x, y = y, x
			}
			lines = append(lines, fmt.Sprintf("%s call %s %s %s %s", wrapper, m, tok(x), tok(y), pol))
		}
		cases = append(cases, Case{Tag: "reuse", Lines: lines})
	}
	// two wrappers stacked: every method, every outer/inner assignment over the two repositories
	for _, m := range methods {
		if m == "Repositories" {
			continue
		}
		for mask := 0; mask < 1<<4; mask++ {
			cells := []string{a + ".r", a + ".w", b + ".r", b + ".w"}
			if m == "DeleteBlob" || m == "DeleteManifest" || m == "DeleteTag" {
				cells = []string{a + ".d", a + ".r", b + ".d", b + ".w"}
			} else if m == "Tags" || m == "Referrers" {
				cells = []string{a + ".l", a + ".r", b + ".l", b + ".r"}
			}
			for imask := 0; imask < 1<<4; imask += 3 {
				cases = append(cases, Case{Tag: "nested", Lines: []string{fmt.Sprintf("ac nest %s %s %s %s %s", m, a, b, joinOrDash(subsetOf(cells, mask)), joinOrDash(subsetOf(cells, imask)))}})
			}
		}
		for mask := 0; mask < 1<<2; mask++ {
			for imask := 0; imask < 1<<2; imask++ {
				cases = append(cases, Case{Tag: "nested", Lines: []string{fmt.Sprintf("sel nest %s %s %s %s %s", m, a, b, joinOrDash(subsetOf([]string{a, b}, mask)), joinOrDash(subsetOf([]string{a, b}, imask)))}})
			}
		}
	}
	// malformed lines
	for _, l := range []string{"ac call NoSuchMethod x61 x62 -", "ac call GetBlob zz x62 -", "ac call Repositories x61 x62 -",
		"sel list x61 -1 - -", "ac list x61 1 x61,?? -", "ac frob x x x x", "sel call GetBlob x61"} {
		cases = append(cases, Case{Tag: "malformed", Lines: []string{l}})
	}
	return cases
}

// ---- oracle: the property stated directly on what the implementation did ----

func (*c12) Oracle(c Case, impl []string) []Failure {
	var fs []Failure
	_, kindOf := ifaceMethodKinds()
	for i, l := range c.Lines {
		if i >= len(impl) {
			break
		}
		t := strings.Split(l, " ")
		got := impl[i]
		if got == "bad-op" && c.Tag == "malformed" {
			continue
		}
		fail := func(class, oracle, exp string) {
			fs = append(fs, Failure{Class: class, Oracle: oracle, Index: i, Expected: exp, Observed: got, Detail: "panic value: " + lastPanic})
		}
		if len(t) == 7 && t[1] == "nest" {
			if got == "panic" {
				fail("c12-panic:nest", "no_panic", "a result")
			} else if !strings.HasPrefix(got, "nested ok: ") {
				fail("c12-nested-differs:"+t[2], "stacked_wrappers_compose", "the outer wrapper's rejection (inner policy not consulted), else the inner wrapper's behaviour")
			}
			continue
		}
		if len(t) != 6 {
			continue
		}
		if strings.HasPrefix(got, "seq-unstable") {
			fail("c12-seq-unstable:"+t[2], "rejection_is_delivered_on_every_iteration", "the same events each time the returned sequence is iterated")
			continue
		}
		if strings.HasPrefix(got, "boundary-differs: ") {
			fail("c12-boundary-differs:"+t[2], "decision_independent_of_other_arguments", "the same rejection / forwarding whatever the non-repository arguments are")
			continue
		}
		if got == "panic" {
			fail("c12-panic:"+t[1], "no_panic", "a result")
			continue
		}
		pol := map[string]bool{}
		for _, x := range commaList(t[5]) {
			pol[x] = true
		}
		// rejection(name, kind): "" when the policy allows, else the error it must surface
		rejection := func(name, kind string) string {
			if t[0] == "ac" {
				if pol[name+"."+kind] {
					return name + "." + kind
				}
				return ""
			}
			if pol[name] {
				return ""
			}
			if kind == "w" {
				return "DENIED"
			}
			if kind == "l" && name == tok("*") {
				return "" // the guard of Repositories itself: listing is always permitted
			}
			return "NAME_UNKNOWN"
		}
		switch t[1] {
		case "call":
			m := t[2]
			var rej []string
			switch m {
			case "MountBlob":
				if r := rejection(t[3], "r"); r != "" {
					rej = append(rej, r)
				}
				if r := rejection(t[4], "w"); r != "" {
					rej = append(rej, r)
				}
			default:
				if r := rejection(t[3], kindOf[m]); r != "" {
					rej = append(rej, r)
				}
			}
			if len(rej) > 0 {
				ok := false
				for _, r := range rej {
					if got == "rejected "+r+" calls=-" {
						ok = true
					}
				}
				if !ok {
					class := "c12-rejected-reaches-backend:" + m
					if strings.HasSuffix(got, "calls=-") {
						class = "c12-rejection-error:" + m
					}
					fail(class, "denied_no_backend_call", "rejected "+strings.Join(rej, "|")+" calls=-")
				}
				continue
			}
			if exp := "returned backend calls=" + m + "(same)"; got != exp {
				fail("c12-allowed-not-transparent:"+m, "allowed_transparent", exp)
			}
		case "list":
			stop, _ := strconv.Atoi(t[3])
			if r := rejection(tok("*"), "l"); r != "" {
				if !strings.HasPrefix(got, "events=[!p:"+r+"] ") || !strings.HasSuffix(got, " call=-") {
					fail("c12-list-rejected", "listing_rejected", "events=[!p:"+r+"] … call=-")
				}
				continue
			}
			var want []string
			for _, e := range commaList(t[4]) {
				if stop != 0 && len(want) == stop {
					break
				}
				if e == "!" {
					want = append(want, "!b")
					break
				}
				if rejection(e, "r") == "" {
					want = append(want, e)
				}
			}
			exp := "events=[" + strings.Join(want, " ") + "]"
			if !strings.HasPrefix(got, exp+" ") {
				class := "c12-list-filter"
				for _, e := range strings.Fields(strings.Trim(strings.SplitN(strings.TrimPrefix(got, "events=["), "]", 2)[0], " ")) {
					if !strings.HasPrefix(e, "!") && rejection(e, "r") != "" {
						class = "c12-list-shows-rejected"
					}
				}
				fail(class, "listing_filtered", exp+" …")
			}
			if !strings.HasSuffix(got, " call=Repositories(same)") {
				fail("c12-list-start", "listing_filtered", "… call=Repositories(same)")
			}
		}
	}
	return fs
}

func (*c12) NonTrivial(c Case, impl []string) (bool, string) {
	if len(impl) == 0 || len(c.Lines) == 0 {
		return false, "empty"
	}
	t := strings.Split(c.Lines[0], " ")
	if len(t) < 2 {
		return false, "malformed"
	}
	f := strings.SplitN(impl[0], " ", 2)[0]
	switch {
	case f == "rejected":
		return true, t[0] + "-" + t[1] + "-rejected"
	case f == "returned":
		return true, t[0] + "-" + t[1] + "-allowed"
	case strings.HasPrefix(f, "events="):
		b := "-listing"
		if strings.Contains(impl[0], "!p:") {
			b = "-listing-rejected"
		} else if strings.Contains(impl[0], "!b") {
			b = "-listing-backend-error"
		}
		return f != "events=[]", t[0] + b
	}
	return false, "malformed"
}
