package main

import (
	"bytes"
	"encoding/base64"
	"encoding/json"
	"fmt"
	"strconv"
	"strings"
	"unicode/utf8"

	"cuelabs.dev/go/oci/ociregistry/ocimem"
	"github.com/opencontainers/go-digest"
	ocispec "github.com/opencontainers/image-spec/specs-go/v1"
)

// C02J (part of C02, C14): what ocimem takes a pushed manifest to reference, with the JSON
// decoding inside the Lean model instead of handed to it as a hint.
//
// Three parties must agree on every manifest:
//   * the model         decodeRefs (lean/OciModel/ManifestDecode.lean on top of Json.lean),
//   * ocimem            observed through its public API only: is the push accepted, which pool
//                       blobs/manifests does the tagged manifest protect from deletion
//                       (ImmutableTags), whose referrer is it,
//   * the harness hint  decodeManifest (reglines.go), which C02/C14 hand to the registry model.
//
// Lines (besides the "mem …" lines of reglines.go):
//   mjson decode <mediaType> <data>       impl: the hint text            model: decodeRefs
//   mjson push <repo> <tag> <data> <mt>   impl: ocimem PushManifest      model: Mem.step with decodeRefs
//   mjson valid <data>                    impl: json.Valid               model: parse succeeds
//   mjson tree <data>                     impl: token stream of a valid document (duplicates and
//                                         number texts kept)            model: the value tree
//
// model vs hint: the diff on "mjson decode"; model vs ocimem: the diff on "mjson push" and the
// probes after it; hint vs ocimem: the oracle (reference tracker of c02.go fed with the hint, plus
// "accepted iff every reference is sane and present"), independent of the Lean model.

func init() { engines["C02J"] = func() Engine { return &c02j{} } }

type c02j struct{}

func (*c02j) UsesModel() bool { return true }

func (*c02j) Impl(c Case) []string {
	out := make([]string, len(c.Lines))
	var ri *regInterp
	for i, l := range c.Lines {
		if strings.HasPrefix(l, "mem init ") {
			ri = newRegInterp(newMem(strings.HasSuffix(l, " 1")))
			out[i] = "ok"
			continue
		}
		if ri == nil {
			ri = newRegInterp(ocimem.New())
		}
		t := strings.Split(l, " ")
		if t[0] != "mjson" {
			out[i] = guard(func() string { return ri.do(l) })
			continue
		}
		out[i] = guard(func() string {
			arg := func(k int) string {
				if k >= len(t) {
					return ""
				}
				s, _ := untok(t[k])
				return s
			}
			switch {
			case len(t) == 4 && t[1] == "decode":
				return decodeManifest(arg(2), []byte(arg(3)))
			case len(t) == 6 && t[1] == "push":
				return ri.do("mem pushmanifest " + strings.Join(t[2:], " "))
			case len(t) == 3 && t[1] == "valid":
				if json.Valid([]byte(arg(2))) {
					return "1"
				}
				return "0"
			case len(t) == 3 && t[1] == "tree":
				return c02jTree([]byte(arg(2)))
			}
			return "bad-op"
		})
	}
	return out
}

// c02jTree renders a valid document from the decoder's token stream: member order, duplicate
// members and number texts are kept, strings are unquoted by the decoder.
func c02jTree(data []byte) string {
	if !json.Valid(data) {
		return "invalid"
	}
	dec := json.NewDecoder(bytes.NewReader(data))
	dec.UseNumber()
	var b strings.Builder
	var val func() bool
	val = func() bool {
		t, err := dec.Token()
		if err != nil {
			return false
		}
		switch x := t.(type) {
		case json.Delim:
			switch x {
			case '[':
				b.WriteString("[")
				for dec.More() {
					if !val() {
						return false
					}
					b.WriteString(" ")
				}
				dec.Token()
				b.WriteString("]")
			case '{':
				b.WriteString("{")
				for dec.More() {
					k, err := dec.Token()
					ks, ok := k.(string)
					if err != nil || !ok {
						return false
					}
					b.WriteString(tok(ks) + ":")
					if !val() {
						return false
					}
					b.WriteString(" ")
				}
				dec.Token()
				b.WriteString("}")
			default:
				return false
			}
		case nil:
			b.WriteString("n")
		case bool:
			if x {
				b.WriteString("t")
			} else {
				b.WriteString("f")
			}
		case json.Number:
			b.WriteString("#" + tok(string(x)))
		case string:
			b.WriteString("s" + tok(x))
		default:
			return false
		}
		return true
	}
	if !val() {
		return "token-stream-error"
	}
	return b.String()
}

// ---- pool: what every probing case stores before the manifest under test ----

type c02jPool struct {
	blobs    [][]byte
	children []memManifest // in dependency order, pushed untagged
}

const c02jDocker = "application/vnd.docker.distribution.manifest.v2+json"

func newC02jPool() *c02jPool {
	p := &c02jPool{blobs: [][]byte{[]byte(""), []byte("x"), []byte("hello"), []byte("{}"), []byte("layer-3"), []byte("config-blob")}}
	bd := func(i int) ocispec.Descriptor {
		return descJSON("application/octet-stream", sha256Digest(p.blobs[i]), int64(len(p.blobs[i])))
	}
	img, idx := ocispec.MediaTypeImageManifest, ocispec.MediaTypeImageIndex
	p.children = append(p.children, memManifest{"c-opaque", mtOpaque, []byte("not json at all")})
	p.children = append(p.children, memManifest{"c-docker", c02jDocker, []byte(`{"schemaVersion":2,"mediaType":"` + c02jDocker + `"}`)})
	cimg := memManifest{"c-img", img, mustJSON(ocispec.Manifest{MediaType: img, Config: bd(2), Layers: []ocispec.Descriptor{bd(1)}})}
	p.children = append(p.children, cimg)
	p.children = append(p.children, memManifest{"c-idx", idx, mustJSON(ocispec.Index{MediaType: idx,
		Manifests: []ocispec.Descriptor{descJSON(img, sha256Digest(cimg.data), int64(len(cimg.data)))}})})
	return p
}

// ---- JSON text builder ----

type jn struct {
	kind byte // 'r' verbatim text, 'o' object, 'a' array
	raw  string
	mem  []jkv
	arr  []*jn
}
type jkv struct {
	k string // a JSON string literal (with its quotes)
	v *jn
}

func jraw(s string) *jn      { return &jn{kind: 'r', raw: s} }
func jobj(m ...jkv) *jn      { return &jn{kind: 'o', mem: m} }
func jarr(items ...*jn) *jn  { return &jn{kind: 'a', arr: items} }

var c02jSpaces = []string{"", "", "", " ", "\n", "\t", "\r\n", "  "}

func (n *jn) render(rng *RNG, ws bool, b *strings.Builder) {
	sp := func() {
		if ws {
			b.WriteString(pick(rng, c02jSpaces))
		}
	}
	switch n.kind {
	case 'r':
		b.WriteString(n.raw)
	case 'a':
		b.WriteString("[")
		sp()
		for i, x := range n.arr {
			if i > 0 {
				b.WriteString(",")
				sp()
			}
			x.render(rng, ws, b)
			sp()
		}
		b.WriteString("]")
	case 'o':
		b.WriteString("{")
		sp()
		for i, kv := range n.mem {
			if i > 0 {
				b.WriteString(",")
				sp()
			}
			b.WriteString(kv.k)
			sp()
			b.WriteString(":")
			sp()
			kv.v.render(rng, ws, b)
			sp()
		}
		b.WriteString("}")
	}
}

type c02jGen struct {
	rng   *RNG
	pool  *c02jPool
	quirk int // percent chance of a quirk at each site of the document under construction
}

func (g *c02jGen) q() bool { return g.rng.Intn(100) < g.quirk }

// lit is a JSON string literal for s. Plain: the shortest escapes. Fancy: every character is
// written raw, as its short escape, or as \uXXXX (either case; surrogate pairs above U+FFFF).
func (g *c02jGen) lit(s string, fancy bool) string {
	var b strings.Builder
	b.WriteByte('"')
	for i := 0; i < len(s); {
		r, n := utf8.DecodeRuneInString(s[i:])
		if r == utf8.RuneError && n == 1 { // ill-formed byte: only raw
			b.WriteByte(s[i])
			i++
			continue
		}
		i += n
		uesc := func() {
			f := "\\u%04x"
			if g.rng.Bool() {
				f = "\\u%04X"
			}
			if r >= 0x10000 {
				r2 := r - 0x10000
				fmt.Fprintf(&b, f, 0xD800+(r2>>10))
				fmt.Fprintf(&b, f, 0xDC00+(r2&0x3FF))
			} else {
				fmt.Fprintf(&b, f, r)
			}
		}
		short := map[rune]string{'"': `\"`, '\\': `\\`, '\n': `\n`, '\t': `\t`, '\r': `\r`, '\b': `\b`, '\f': `\f`}
		switch {
		case r == '"' || r == '\\' || r < 0x20:
			if e, ok := short[r]; ok && !(fancy && g.rng.Chance(1, 3)) {
				b.WriteString(e)
			} else {
				uesc()
			}
		case fancy && g.rng.Chance(1, 6):
			if r == '/' && g.rng.Bool() {
				b.WriteString(`\/`)
			} else {
				uesc()
			}
		default:
			b.WriteRune(r)
		}
	}
	b.WriteByte('"')
	return b.String()
}

// key is a literal for a member name: the name itself, or one of the spellings Go's field
// matching also accepts (other case, U+017F for s, escapes), or a near miss that it does not.
func (g *c02jGen) key(name string) string {
	if !g.q() {
		return g.lit(name, false)
	}
	switch g.rng.Intn(9) {
	case 0:
		return g.lit(strings.ToUpper(name), false)
	case 1:
		return g.lit(strings.ToLower(name), false)
	case 2:
		return g.lit(strings.Title(name), false)
	case 3: // random case
		bs := []byte(name)
		for i := range bs {
			if g.rng.Bool() {
				bs[i] = strings.ToUpper(string(bs[i]))[0]
			}
		}
		return g.lit(string(bs), false)
	case 4: // long s
		return g.lit(strings.Replace(name, "s", "ſ", 1+g.rng.Intn(2)), g.rng.Bool())
	case 5:
		return g.lit(name, true)
	case 6: // near misses: not this field
		return g.lit(pick(g.rng, []string{name + " ", " " + name, name[:len(name)-1], name + "s", strings.Replace(name, "i", "ı", 1), strings.Replace(name, "e", "é", 1), name + "\x00", "_" + name}), g.rng.Bool())
	case 7:
		return g.lit(strings.Replace(strings.ToUpper(name), "S", "ſ", 1), false)
	default:
		return g.lit(strings.Replace(name, "k", "K", 1), false)
	}
}

// wrongFor is a value of a JSON type the Go field type does not take ("null" is always taken).
func (g *c02jGen) wrongFor(goType string) *jn {
	var opts []string
	switch goType {
	case "string":
		opts = []string{"1", "true", "false", "[]", "{}", `["a"]`, "0.5"}
	case "int":
		opts = []string{`"1"`, "true", "[]", "{}", "1.0", "1e2", "1E0", "0.5", "9223372036854775808", "-9223372036854775809", "1e400", "123456789012345678901234567890"}
	case "struct":
		opts = []string{"1", `"x"`, "true", "[]", "[{}]"}
	case "slice":
		opts = []string{"1", `"x"`, "false", "{}", `{"0":{}}`}
	case "map":
		opts = []string{"1", `"x"`, "true", "[]", `[{"a":"b"}]`}
	}
	return jraw(pick(g.rng, opts))
}

func (g *c02jGen) strVal(s string) *jn {
	if g.q() {
		if g.rng.Chance(1, 3) {
			return jraw("null")
		}
		return g.wrongFor("string")
	}
	return jraw(g.lit(s, g.q()))
}

func (g *c02jGen) sizeVal(n int64) *jn {
	if g.q() {
		return jraw(pick(g.rng, []string{strconv.FormatInt(n, 10) + ".0", strconv.FormatInt(n, 10) + "e0", "-0", "0", "9223372036854775807",
			"9223372036854775808", "-9223372036854775808", "-9223372036854775809", `"` + strconv.FormatInt(n, 10) + `"`, "1E400", "-1",
			"123456789012345678901234567890", "0.5", "null", "1e2", "true", "[]", "{}"}))
	}
	return jraw(strconv.FormatInt(n, 10))
}

func (g *c02jGen) strList() *jn {
	if g.q() {
		return pick(g.rng, []*jn{jraw("null"), jraw(`["a",null]`), jraw(`["a",1]`), jraw(`"a"`), jraw("{}"), jraw(`[["a"]]`), jraw("[]"), jraw(`[null]`), jraw("1")})
	}
	var items []*jn
	for i := g.rng.Intn(3); i > 0; i-- {
		items = append(items, jraw(g.lit(pick(g.rng, []string{"https://example.com/a", "", "é", "u\x00"}), g.q())))
	}
	return jarr(items...)
}

func (g *c02jGen) strMap() *jn {
	if g.q() {
		return pick(g.rng, []*jn{jraw("null"), jraw(`{"a":null}`), jraw(`{"a":1}`), jraw(`{"a":{"b":"c"}}`), jraw(`[]`), jraw(`"a"`), jraw(`{"a":"b","a":2}`), jraw(`{"a":["b"]}`), jraw("{}"), jraw("7")})
	}
	var m []jkv
	for i := g.rng.Intn(3); i > 0; i-- {
		m = append(m, jkv{g.lit(pick(g.rng, []string{"org.opencontainers.image.title", "a", "", "size", "digest"}), g.q()), jraw(g.lit(pick(g.rng, []string{"v", "", "1", "sha256:abc"}), g.q()))})
	}
	return jobj(m...)
}

func (g *c02jGen) bytesVal() *jn {
	if g.q() {
		return jraw(pick(g.rng, []string{"null", `"QQ="`, `"QQ"`, `"Q"`, `"QQ==="`, `"QQ==QQ=="`, `"Q Q=="`, `"QQ\n=="`, `"QQ=\r\n="`, `"\nQUJD\n"`, `"QUJD!"`, `"QR=="`, `"=QQ="`, `"QQ==\n"`, `"QQ== "`, `"-_-_"`, `""`,
			"[1,2,255]", "[256]", "[-1]", "[-0]", "[0]", "[1.0]", "[1e1]", "[null]", `["a"]`, "[[1]]", "[]", "1", "true", "{}", `"é"`, `"QUI"`}))
	}
	enc := base64.StdEncoding.EncodeToString(g.rng.Bytes(g.rng.Intn(9)))
	if g.rng.Chance(1, 3) { // a valid encoding with one small change (some are still valid: \r and \n are skipped, loose bits are not checked)
		i := g.rng.Intn(len(enc) + 1)
		ins := pick(g.rng, []string{"=", "\n", "\r", " ", "A", "-", "_", "/", "+", "\r\n"})
		if g.rng.Bool() && i < len(enc) {
			enc = enc[:i] + enc[i+1:]
		} else {
			enc = enc[:i] + ins + enc[i:]
		}
	}
	return jraw(g.lit(enc, false))
}

// randString is a string literal made of the bytes on which UTF-8 validity, escapes and
// surrogate pairing turn.
func (g *c02jGen) randString() []byte {
	parts := []string{`\\`, `\"`, `\`, `\ud83d`, `\ude00`, `\uD800`, `\uDFFF`, `\udbff`, `\udc00`, `\u0000`, `\u007f`, `é`, `￿`, `\u12`, `\u`, `\n`, `\/`, `\x`,
		"a", "u", "\x7f", "\x80", "\xbf", "\xc0", "\xc1", "\xc2", "\xdf", "\xe0", "\xa0", "\x9f", "\xe1", "\xec", "\xed", "\xee", "\xef", "\xf0", "\x90", "\x8f", "\xf1", "\xf3", "\xf4", "\xf5", "\xff", "\x1f", " "}
	b := []byte{'"'}
	for k := g.rng.Intn(12); k > 0; k-- {
		b = append(b, pick(g.rng, parts)...)
	}
	return append(b, '"')
}

func (g *c02jGen) platform() *jn {
	if g.q() && g.rng.Bool() {
		return jraw(pick(g.rng, []string{"null", `"linux/amd64"`, "[]", "1", "{}", "true"}))
	}
	m := []jkv{{g.key("architecture"), g.strVal("amd64")}, {g.key("os"), g.strVal("linux")}}
	if g.rng.Bool() {
		m = append(m, jkv{g.key("os.version"), g.strVal("10.0")})
	}
	if g.rng.Bool() {
		m = append(m, jkv{g.key("os.features"), g.strList()})
	}
	if g.rng.Bool() {
		m = append(m, jkv{g.key("variant"), g.strVal("v8")})
	}
	if g.q() {
		m = append(m, g.unknownMember())
	}
	return jobj(m...)
}

// anyValue is an arbitrary JSON value (also used under names no field has: the decoder must
// not look inside).
func (g *c02jGen) anyValue(depth int) *jn {
	n := 12
	if depth <= 0 {
		n = 8
	}
	switch g.rng.Intn(n) {
	case 0:
		return jraw("null")
	case 1:
		return jraw(pick(g.rng, []string{"true", "false"}))
	case 2, 3:
		return jraw(pick(g.rng, []string{"0", "-0", "1", "-1", "12", "1.5", "-0.0", "1e5", "1E+5", "2e-7", "0e0", "123456789012345678901234567890", "1.5E300", "9223372036854775807", "0.000001", "-12.75e+2"}))
	case 4, 5, 6:
		return jraw(g.lit(pick(g.rng, []string{"", "a", "size", "é", "日本", "\U0001F600", "a\"b\\c/d", "\n\t\r\b\f", "\x00\x1f", "sha256:" + strings.Repeat("0", 64), "\u2028", "ſK"}), g.rng.Bool()))
	case 7:
		return jraw(pick(g.rng, []string{"[]", "{}", `{"size":"x"}`, `{"digest":1,"layers":{}}`, `[{"mediaType":[]}]`}))
	case 8, 9:
		var items []*jn
		for i := g.rng.Intn(4); i > 0; i-- {
			items = append(items, g.anyValue(depth-1))
		}
		return jarr(items...)
	default:
		var m []jkv
		for i := g.rng.Intn(4); i > 0; i-- {
			m = append(m, jkv{g.lit(pick(g.rng, []string{"a", "b", "a", "", "size", "é", "k\n"}), g.rng.Chance(1, 4)), g.anyValue(depth - 1)})
		}
		return jobj(m...)
	}
}

func (g *c02jGen) unknownMember() jkv {
	name := pick(g.rng, []string{"x", "unknown", "", "sizes", "Layer", "config ", "annotation", "blobs", "créé", "schema"})
	return jkv{g.lit(name, g.rng.Chance(1, 4)), g.anyValue(2)}
}

type c02jRef struct {
	mt, dg string
	size   int64
}

// pickRef chooses what a descriptor names: mostly something the pool has under the kind the
// position requires (0 blob, 1 manifest, 2 subject).
func (g *c02jGen) pickRef(kind int) c02jRef {
	p := g.pool
	blob := func() c02jRef {
		b := pick(g.rng, p.blobs)
		return c02jRef{"application/octet-stream", sha256Digest(b), int64(len(b))}
	}
	child := func() c02jRef {
		m := pick(g.rng, p.children)
		return c02jRef{m.mt, sha256Digest(m.data), int64(len(m.data))}
	}
	var r c02jRef
	switch {
	case kind == 0:
		r = blob()
	case kind == 1:
		r = child()
	default:
		if g.rng.Chance(1, 3) {
			r = c02jRef{ocispec.MediaTypeImageManifest, sha256Digest([]byte("nowhere-" + strconv.Itoa(g.rng.Intn(3)))), 9}
		} else {
			r = child()
		}
	}
	if g.q() {
		switch g.rng.Intn(8) {
		case 0: // the other kind
			if kind == 0 {
				r = child()
			} else {
				r = blob()
			}
		case 1:
			r.dg = sha256Digest([]byte("nowhere-" + strconv.Itoa(g.rng.Intn(3))))
		case 2:
			r.dg = pick(g.rng, []string{"bogus", "", "sha256:abc", strings.ToUpper(r.dg), r.dg + " ", "sha256:" + strings.Repeat("g", 64), "sha512:" + strings.Repeat("a", 128), r.dg[:len(r.dg)-1] + "\xff", "\xc3" + r.dg})
		case 3:
			r.size = pick(g.rng, []int64{0, -1, 1, 1 << 40})
		case 4:
			r.mt = pick(g.rng, []string{"", "text/plain", "é", "\xff"})
		case 5:
			r.size = 0
			r.dg = sha256Digest(nil)
		case 6:
			r.mt = ocispec.MediaTypeImageIndex // what the descriptor claims does not matter
		}
	}
	return r
}

func (g *c02jGen) descMembers(r c02jRef, full bool) []jkv {
	var m []jkv
	if full || g.rng.Bool() {
		m = append(m, jkv{g.key("mediaType"), g.strVal(r.mt)})
	}
	if full || g.rng.Bool() {
		m = append(m, jkv{g.key("digest"), g.strVal(r.dg)})
	}
	if full || g.rng.Bool() {
		m = append(m, jkv{g.key("size"), g.sizeVal(r.size)})
	}
	return m
}

func (g *c02jGen) desc(kind int) *jn {
	r := g.pickRef(kind)
	m := g.descMembers(r, true)
	if g.rng.Chance(1, 5) {
		m = append(m, jkv{g.key("urls"), g.strList()})
	}
	if g.rng.Chance(1, 5) {
		m = append(m, jkv{g.key("annotations"), g.strMap()})
	}
	if g.rng.Chance(1, 5) {
		m = append(m, jkv{g.key("data"), g.bytesVal()})
	}
	if g.rng.Chance(1, 5) || (kind == 1 && g.rng.Bool()) {
		m = append(m, jkv{g.key("platform"), g.platform()})
	}
	if g.rng.Chance(1, 6) {
		m = append(m, jkv{g.key("artifactType"), g.strVal("application/vnd.example+type")})
	}
	if g.q() && len(m) > 0 { // a member missing
		i := g.rng.Intn(len(m))
		m = append(m[:i:i], m[i+1:]...)
	}
	if g.q() { // a member twice: what the later one says counts
		m = append(m, g.descMembers(g.pickRef(kind), false)...)
	}
	if g.q() {
		m = append(m, g.unknownMember())
	}
	if g.q() || g.rng.Chance(1, 4) {
		m = g.shuffle(m)
	}
	if g.q() {
		return pick(g.rng, []*jn{jraw("null"), jraw("{}"), g.wrongFor("struct")})
	}
	return jobj(m...)
}

func (g *c02jGen) shuffle(m []jkv) []jkv {
	out := make([]jkv, len(m))
	for i, j := range g.rng.Perm(len(m)) {
		out[i] = m[j]
	}
	return out
}

func (g *c02jGen) descList(kind int) *jn {
	var items []*jn
	for i := g.rng.Intn(4); i > 0; i-- {
		items = append(items, g.desc(kind))
	}
	if g.q() {
		return pick(g.rng, []*jn{jraw("null"), jraw("[]"), jraw("[null]"), jraw("[{}]"), g.wrongFor("slice"), jraw("[[]]"), jraw("[1]"), jraw(`["x"]`), jarr(append(items, jraw("null"))...)})
	}
	return jarr(items...)
}

// partialList is a later occurrence of the list member: fewer or more elements, each with only
// some of a descriptor's fields (they are merged into what the earlier occurrence left).
func (g *c02jGen) partialList(kind int) *jn {
	switch g.rng.Intn(8) {
	case 0:
		return jraw("null")
	case 1:
		return jraw("[]")
	}
	var items []*jn
	for i := g.rng.Intn(4); i > 0; i-- {
		switch g.rng.Intn(5) {
		case 0:
			items = append(items, jraw("{}"))
		case 1:
			items = append(items, jraw("null"))
		default:
			items = append(items, jobj(g.descMembers(g.pickRef(kind), false)...))
		}
	}
	return jarr(items...)
}

// document builds an image manifest (index == false) or an image index.
func (g *c02jGen) document(index bool) *jn {
	var m []jkv
	if g.rng.Chance(4, 5) {
		v := jraw("2")
		if g.q() {
			v = pick(g.rng, []*jn{jraw("null"), jraw("0"), jraw("-2"), g.wrongFor("int")})
		}
		m = append(m, jkv{g.key("schemaVersion"), v})
	}
	mt := ocispec.MediaTypeImageManifest
	listName, kind := "layers", 0
	if index {
		mt, listName, kind = ocispec.MediaTypeImageIndex, "manifests", 1
	}
	if g.rng.Chance(4, 5) {
		m = append(m, jkv{g.key("mediaType"), g.strVal(mt)})
	}
	if g.rng.Chance(1, 8) {
		m = append(m, jkv{g.key("artifactType"), g.strVal("application/vnd.example+type")})
	}
	if !index || g.q() {
		if !g.q() {
			m = append(m, jkv{g.key("config"), g.desc(0)})
		}
	}
	if !g.q() {
		m = append(m, jkv{g.key(listName), g.descList(kind)})
	}
	if g.q() { // the list member again (and again): the backing array is reused
		for i := 1 + g.rng.Intn(3); i > 0; i-- {
			m = append(m, jkv{g.key(listName), g.partialList(kind)})
		}
	}
	if g.q() { // the other kind's list: not a field of this struct
		other := "manifests"
		if index {
			other = "layers"
		}
		m = append(m, jkv{g.key(other), g.descList(1 - kind)})
	}
	if g.rng.Chance(1, 3) {
		m = append(m, jkv{g.key("subject"), g.desc(2)})
		if g.q() {
			m = append(m, jkv{g.key("subject"), pick(g.rng, []*jn{jraw("null"), jraw("{}"), jobj(g.descMembers(g.pickRef(2), false)...), g.wrongFor("struct")})})
			if g.rng.Bool() {
				m = append(m, jkv{g.key("subject"), jobj(g.descMembers(g.pickRef(2), false)...)})
			}
		}
	}
	if g.q() && !index { // config again: merged field by field
		m = append(m, jkv{g.key("config"), pick(g.rng, []*jn{jraw("null"), jraw("{}"), jobj(g.descMembers(g.pickRef(0), false)...)})})
	}
	if g.rng.Chance(1, 5) {
		m = append(m, jkv{g.key("annotations"), g.strMap()})
	}
	if g.q() || g.rng.Chance(1, 10) {
		m = append(m, g.unknownMember())
	}
	if g.rng.Chance(1, 3) {
		m = g.shuffle(m)
	}
	return jobj(m...)
}

func (g *c02jGen) text(n *jn) []byte {
	var b strings.Builder
	ws := g.rng.Chance(1, 3)
	if ws {
		b.WriteString(pick(g.rng, c02jSpaces))
	}
	n.render(g.rng, ws, &b)
	if ws {
		b.WriteString(pick(g.rng, c02jSpaces))
	}
	return []byte(b.String())
}

// damage applies one byte-level change to a document: the places where a decoder that reads
// a value and stops differs from one that validates the whole input, among others.
func (g *c02jGen) damage(d []byte) ([]byte, string) {
	cp := append([]byte(nil), d...)
	k := g.rng.Intn(14)
	if k == 10 && !g.rng.Chance(1, 8) {
		k = 1 // deep documents are 20 kB each: keep them rare
	}
	switch k {
	case 0: // truncated
		if len(cp) > 0 {
			return cp[:g.rng.Intn(len(cp))], "truncated"
		}
	case 1: // trailing bytes after a complete value
		return append(cp, pick(g.rng, []string{"}", "]", " x", "{}", " {}", "\n[]", ",", "null", "0", "\"\"", "garbage", "\x00", "\v", "\xef\xbb\xbf", " \"", "//c", "/**/", ":", "\\", "e", "\u00a0"})...), "trailing"
	case 2: // the same value twice
		return append(cp, cp...), "twice"
	case 3: // white space only: still one document
		return append(cp, pick(g.rng, []string{" ", "\n", "\t\r\n ", "    \n\n"})...), "trailing-space"
	case 4: // something before the value
		return append([]byte(pick(g.rng, []string{"\xef\xbb\xbf", "\v", "\f", "x", ",", "\x00", "\u00a0", "\u2028", "//\n", "}"})), cp...), "leading"
	case 5: // one byte replaced
		if len(cp) > 0 {
			cp[g.rng.Intn(len(cp))] = pick(g.rng, []byte{'"', '\\', '{', '}', '[', ']', ',', ':', ' ', 0, 0x1f, 0x7f, 0x80, 0xff, 0xc3, 0xe2, 0xf0, 'e', '.', '-', '+', '0', 'n', 't', 'u'})
			return cp, "byte-replaced"
		}
	case 6: // one byte removed
		if len(cp) > 0 {
			i := g.rng.Intn(len(cp))
			return append(cp[:i:i], cp[i+1:]...), "byte-removed"
		}
	case 7: // one byte inserted
		i := g.rng.Intn(len(cp) + 1)
		ins := pick(g.rng, []string{"\x00", "\n", "\t", "\x1f", "\xff", "\xc3", "\xed\xa0\x80", "\xf4\x90\x80\x80", "\xc0\x80", "\xe2\x82", "\\", "\\u", "\\ud800", "\\udc00\\ud800", "\\x41", "\\'", "\"", ",", "0", "-", "é", "\U0001F600", "\\ud83d\\ude00", "\\uD83D\\u0041", "\\u0000"})
		return append(cp[:i:i], append([]byte(ins), cp[i:]...)...), "bytes-inserted"
	case 8: // wrapped: the document is not an object
		return append(append([]byte("["), cp...), ']'), "wrapped"
	case 9:
		return []byte(pick(g.rng, []string{"null", " null ", "[]", "{}", "1", "\"x\"", "true", "false", "", " ", "nul", "nulll", "NULL", "{", "}", "[", "{\"config\":", "{\"a\"}", "{\"a\":}", "{,}", "[,]", "[1,]", "{\"a\":1,}", "{'a':1}", "{a:1}", "-", "+1", ".5", "1.", "01", "1e", "1e+", "0x10", "Infinity", "NaN", "\"\\q\"", "\"\t\"", "\"a\nb\"", "\"\\u12G4\"", "\"\\u123\"", "tru", "True"})), "not-a-manifest"
	case 10: // a value nested right at, or just beyond, the decoder's depth limit, under a name no field has
		depth := pick(g.rng, []int{9998, 9999, 10000, 10001})
		open, cls := "[", "]"
		if g.rng.Bool() {
			open, cls = `{"a":`, "}"
		}
		deep := strings.Repeat(open, depth) + "1" + strings.Repeat(cls, depth)
		if i := bytes.IndexByte(cp, '{'); i >= 0 && len(cp) > i+1 && bytes.IndexByte(cp[i+1:], '"') >= 0 {
			return append(cp[:i+1:i+1], append([]byte(`"deep":`+deep+`,`), cp[i+1:]...)...), "deep"
		}
		return []byte(deep), "deep"
	}
	return cp, "undamaged"
}

// ---- cases ----

const c02jRepo = "r"

func (g *c02jGen) probeCase(tag string, mt string, data []byte, imm bool, tagged bool) Case {
	p := g.pool
	lines := []string{"mem init 0"}
	if imm {
		lines[0] = "mem init 1"
	}
	skipBlob := -1
	if g.rng.Chance(1, 12) {
		skipBlob = g.rng.Intn(len(p.blobs)) // something the document may name is not there
	}
	for i, b := range p.blobs {
		if i != skipBlob {
			lines = append(lines, linePushBlob(c02jRepo, "application/octet-stream", sha256Digest(b), int64(len(b)), b))
		}
	}
	for _, m := range p.children {
		lines = append(lines, fmt.Sprintf("mjson push %s %s %s %s", tok(c02jRepo), tok(""), tok(string(m.data)), tok(m.mt)))
	}
	lines = append(lines, fmt.Sprintf("mjson decode %s %s", tok(mt), tok(string(data))))
	t := ""
	if tagged {
		t = "t"
	}
	lines = append(lines, fmt.Sprintf("mjson push %s %s %s %s", tok(c02jRepo), tok(t), tok(string(data)), tok(mt)))
	// whose referrer is it: everything the hint names, and two pool digests
	probed := map[string]bool{}
	ref := func(d string) {
		if !probed[d] {
			probed[d] = true
			lines = append(lines, fmt.Sprintf("mem referrers %s %s", tok(c02jRepo), tok(d)))
		}
	}
	_, refs := parseDecTokens(strings.Split(decodeManifest(mt, data), " "))
	for _, r := range refs {
		ref(r.digest)
	}
	ref(sha256Digest(pick(g.rng, p.blobs)))
	ref(sha256Digest(pick(g.rng, p.children).data))
	ref(sha256Digest([]byte("nowhere-0")))
	// what does it keep: try to delete everything
	for _, b := range p.blobs {
		lines = append(lines, fmt.Sprintf("mem deleteblob %s %s", tok(c02jRepo), tok(sha256Digest(b))))
	}
	for i := len(p.children) - 1; i >= 0; i-- {
		lines = append(lines, fmt.Sprintf("mem deletemanifest %s %s", tok(c02jRepo), tok(sha256Digest(p.children[i].data))))
	}
	lines = append(lines, fmt.Sprintf("mem deletemanifest %s %s", tok(c02jRepo), tok(sha256Digest(data))))
	return Case{Tag: tag, Lines: lines}
}

func (g *c02jGen) pushMT(index bool) string {
	mt := ocispec.MediaTypeImageManifest
	other := ocispec.MediaTypeImageIndex
	if index {
		mt, other = other, mt
	}
	switch g.rng.Intn(24) {
	case 0:
		return other
	case 1:
		return pick(g.rng, []string{mtOpaque, mt + ";x=y", mt + " ", strings.ToUpper(mt), c02jDocker, "application/json", "", mt[:len(mt)-1], "application/vnd.oci.image.manifest.v1+JSON"})
	}
	return mt
}

// c02jDirected: the quirks of the decoder, one per document.
func c02jDirected(g *c02jGen) []Case {
	p := g.pool
	d := func(i int) string {
		return fmt.Sprintf(`{"mediaType":"application/octet-stream","digest":"%s","size":%d}`, sha256Digest(p.blobs[i]), len(p.blobs[i]))
	}
	dg := func(i int) string { return sha256Digest(p.blobs[i]) }
	c := func(i int) string {
		m := p.children[i]
		return fmt.Sprintf(`{"mediaType":"%s","digest":"%s","size":%d}`, m.mt, sha256Digest(m.data), len(m.data))
	}
	cdg := func(i int) string { return sha256Digest(p.children[i].data) }
	img, idx := ocispec.MediaTypeImageManifest, ocispec.MediaTypeImageIndex
	m1 := `{"schemaVersion":2,"mediaType":"` + img + `","config":` + d(5) + `,"layers":[` + d(1) + `,` + d(2) + `]}`
	i1 := `{"schemaVersion":2,"mediaType":"` + idx + `","manifests":[` + c(0) + `,` + c(2) + `]}`
	type doc struct{ name, mt, text string }
	docs := []doc{
		{"plain-image", img, m1},
		{"plain-index", idx, i1},
		{"with-subject", img, `{"config":` + d(5) + `,"layers":[],"subject":` + c(2) + `}`},
		{"dangling-subject", idx, `{"manifests":[],"subject":{"mediaType":"` + img + `","digest":"` + sha256Digest([]byte("nowhere-0")) + `","size":9}}`},
		{"index-foreign-children", idx, `{"manifests":[` + c(0) + `,` + c(1) + `,` + c(2) + `,` + c(3) + `]}`},
		{"trailing-brace", img, m1 + "}garbage"},
		{"twice", img, m1 + m1},
		{"trailing-doc", idx, i1 + " {}"},
		{"trailing-space", img, m1 + " \n\t\r"},
		{"leading-space", img, " \n\t\r" + m1},
		{"trailing-nul", img, m1 + "\x00"},
		{"bom", img, "\xef\xbb\xbf" + m1},
		{"null-document", img, "null"},
		{"null-index", idx, " null\n"},
		{"array-document", img, "[" + m1 + "]"},
		{"string-document", img, `"` + strings.ReplaceAll(m1, `"`, `\"`) + `"`},
		{"number-document", idx, "1"},
		{"empty-input", img, ""},
		{"empty-object", img, "{}"},
		{"empty-object-index", idx, "{}"},
		{"keys-upper", img, `{"CONFIG":` + strings.ToUpper(d(5)[:12]) + d(5)[12:] + `,"LAYERS":[` + d(1) + `]}`},
		{"keys-mixed", img, `{"Config":{"MediaType":"application/octet-stream","DIGEST":"` + dg(5) + `","sIZE":11},"lAyErS":[{"mediatype":"m","Digest":"` + dg(1) + `","Size":1}]}`},
		{"keys-long-s", img, `{"config":{"mediaType":"m","dige\u017ft":"` + dg(5) + `","ſize":11},"layerſ":[{"mediaType":"m","digeſt":"` + dg(1) + `","\u017fIZE":1}],"ſubject":` + c(2) + `}`},
		{"keys-kelvin", img, `{"config":` + d(5) + `,"layers":[],"\u212a":1,"K":2}`},
		{"keys-escaped", img, `{"\u0063onfig":{"media\u0054ype":"m","\u0064\u0069\u0067\u0065\u0073\u0074":"` + dg(5) + `","si\u007ae":11},"layers":[]}`},
		{"keys-near-miss", img, `{"config":{"mediaType":"m","digest":"` + dg(5) + `","size":11,"size ":0,"siz":0,"sıze":0,"sizé":0,"digest\u0000":"x"},"layers ":[` + d(1) + `],"layer":[` + d(2) + `]}`},
		{"digest-escaped", img, `{"config":{"mediaType":"m","digest":"sha256\u003a` + strings.Replace(dg(5)[7:], "a", `\u0061`, -1) + `","size":11},"layers":[]}`},
		{"dup-scalar-last-wins", img, `{"config":{"mediaType":"m","digest":"bogus","digest":"` + dg(5) + `","size":0,"size":11,"Size":12},"layers":[]}`},
		{"dup-config-merged", img, `{"config":{"digest":"` + dg(5) + `"},"config":{"size":11},"Config":{"mediaType":"m"},"CONFIG":null,"layers":[]}`},
		{"dup-config-overwrites", img, `{"config":` + d(5) + `,"config":` + d(2) + `,"layers":[]}`},
		{"dup-layers-merged", img, `{"config":` + d(5) + `,"layers":[` + d(1) + `],"layers":[{"size":3}]}`},
		{"dup-layers-stale", img, `{"config":` + d(5) + `,"layers":[` + d(1) + `,` + d(2) + `,` + d(4) + `],"layers":[{"size":7}],"layers":[{},{}]}`},
		{"dup-layers-stale-null-elems", img, `{"config":` + d(5) + `,"layers":[` + d(1) + `,` + d(2) + `],"layers":[null],"layers":[null,null,null]}`},
		{"dup-layers-reset-empty", img, `{"config":` + d(5) + `,"layers":[` + d(1) + `,` + d(2) + `],"layers":[],"layers":[{},{"digest":"` + dg(2) + `"}]}`},
		{"dup-layers-reset-null", img, `{"config":` + d(5) + `,"layers":[` + d(1) + `,` + d(2) + `],"layers":null,"layers":[{"size":1}]}`},
		{"dup-layers-grow", img, `{"config":` + d(5) + `,"layers":[` + d(1) + `],"layers":[{"size":1},` + d(2) + `,` + d(4) + `]}`},
		{"dup-manifests-stale", idx, `{"manifests":[` + c(0) + `,` + c(2) + `],"manifests":[{"size":5}],"MANIFESTS":[{},{}]}`},
		{"dup-subject-merged", img, `{"config":` + d(5) + `,"layers":[],"subject":{"digest":"` + cdg(2) + `","mediaType":"m"},"subject":{"size":3}}`},
		{"dup-subject-null-then-set", img, `{"config":` + d(5) + `,"layers":[],"subject":` + c(2) + `,"subject":null,"subject":{"size":3}}`},
		{"dup-subject-then-null", idx, `{"manifests":[],"subject":` + c(2) + `,"subject":null}`},
		{"layers-null", img, `{"config":` + d(5) + `,"layers":null}`},
		{"layers-missing", img, `{"config":` + d(5) + `}`},
		{"layers-null-element", img, `{"config":` + d(5) + `,"layers":[null]}`},
		{"layers-empty-element", img, `{"config":` + d(5) + `,"layers":[{}]}`},
		{"layers-object", img, `{"config":` + d(5) + `,"layers":{}}`},
		{"layers-nested-array", img, `{"config":` + d(5) + `,"layers":[[]]}`},
		{"layers-string", img, `{"config":` + d(5) + `,"layers":"` + dg(1) + `"}`},
		{"config-null", img, `{"config":null,"layers":[]}`},
		{"config-number", img, `{"config":5,"layers":[` + d(1) + `]}`},
		{"config-array", img, `{"config":[` + d(5) + `],"layers":[]}`},
		{"subject-null", img, `{"config":` + d(5) + `,"layers":[],"subject":null}`},
		{"subject-empty", img, `{"config":` + d(5) + `,"layers":[],"subject":{}}`},
		{"subject-number", idx, `{"manifests":[],"subject":0}`},
		{"first-layer-only", img, `{"config":` + d(5) + `,"layers":[` + d(1) + `,` + d(2) + `,` + d(4) + `]}`},
		{"second-layer-missing", img, `{"config":` + d(5) + `,"layers":[` + d(1) + `,{"mediaType":"m","digest":"` + sha256Digest([]byte("nowhere-1")) + `","size":3}]}`},
		{"index-under-image-type", img, i1},
		{"image-under-index-type", idx, m1},
		{"size-float", img, `{"config":{"mediaType":"m","digest":"` + dg(5) + `","size":11.0},"layers":[]}`},
		{"size-exponent", img, `{"config":{"mediaType":"m","digest":"` + dg(5) + `","size":11e0},"layers":[]}`},
		{"size-exponent-upper", img, `{"config":{"mediaType":"m","digest":"` + dg(5) + `","size":1E1},"layers":[]}`},
		{"size-minus-zero", img, `{"config":{"mediaType":"m","digest":"` + dg(0) + `","size":-0},"layers":[]}`},
		{"size-max", img, `{"config":{"mediaType":"m","digest":"` + dg(5) + `","size":9223372036854775807},"layers":[]}`},
		{"size-max-plus-1", img, `{"config":{"mediaType":"m","digest":"` + dg(5) + `","size":9223372036854775808},"layers":[]}`},
		{"size-min", img, `{"config":{"mediaType":"m","digest":"` + dg(5) + `","size":-9223372036854775808},"layers":[]}`},
		{"size-min-minus-1", img, `{"config":{"mediaType":"m","digest":"` + dg(5) + `","size":-9223372036854775809},"layers":[]}`},
		{"size-huge", img, `{"config":{"mediaType":"m","digest":"` + dg(5) + `","size":123456789012345678901234567890},"layers":[]}`},
		{"size-string", img, `{"config":{"mediaType":"m","digest":"` + dg(5) + `","size":"11"},"layers":[]}`},
		{"size-null", img, `{"config":{"mediaType":"m","digest":"` + dg(5) + `","size":11,"size":null},"layers":[]}`},
		{"size-leading-zero", img, `{"config":{"mediaType":"m","digest":"` + dg(5) + `","size":011},"layers":[]}`},
		{"size-plus", img, `{"config":{"mediaType":"m","digest":"` + dg(5) + `","size":+11},"layers":[]}`},
		{"schema-float", img, `{"schemaVersion":2.0,"config":` + d(5) + `,"layers":[]}`},
		{"schema-string", idx, `{"schemaVersion":"2","manifests":[]}`},
		{"schema-null", idx, `{"schemaVersion":null,"manifests":[]}`},
		{"mediatype-number", img, `{"mediaType":1,"config":` + d(5) + `,"layers":[]}`},
		{"annotations-bad-value", img, `{"annotations":{"a":1},"config":` + d(5) + `,"layers":[]}`},
		{"annotations-null-value", img, `{"annotations":{"a":null,"a":"b"},"config":` + d(5) + `,"layers":[]}`},
		{"annotations-array", idx, `{"annotations":[],"manifests":[]}`},
		{"desc-urls-bad", img, `{"config":{"mediaType":"m","digest":"` + dg(5) + `","size":11,"urls":["a",1]},"layers":[]}`},
		{"desc-urls-null-elem", img, `{"config":{"mediaType":"m","digest":"` + dg(5) + `","size":11,"urls":["a",null]},"layers":[]}`},
		{"desc-data-base64", img, `{"config":{"mediaType":"m","digest":"` + dg(5) + `","size":11,"data":"Y29uZmlnLWJsb2I="},"layers":[]}`},
		{"desc-data-base64-newlines", img, `{"config":{"mediaType":"m","digest":"` + dg(5) + `","size":11,"data":"Y29u\nZmln\r\nLWJsb2I=\n"},"layers":[]}`},
		{"desc-data-base64-short", img, `{"config":{"mediaType":"m","digest":"` + dg(5) + `","size":11,"data":"Y29uZmlnLWJsb2I"},"layers":[]}`},
		{"desc-data-base64-loose-bits", img, `{"config":{"mediaType":"m","digest":"` + dg(5) + `","size":11,"data":"QR=="},"layers":[]}`},
		{"desc-data-base64-urlsafe", img, `{"config":{"mediaType":"m","digest":"` + dg(5) + `","size":11,"data":"-_-_"},"layers":[]}`},
		{"desc-data-array", img, `{"config":{"mediaType":"m","digest":"` + dg(5) + `","size":11,"data":[0,1,255,null]},"layers":[]}`},
		{"desc-data-array-256", img, `{"config":{"mediaType":"m","digest":"` + dg(5) + `","size":11,"data":[256]},"layers":[]}`},
		{"desc-data-array-minus-zero", img, `{"config":{"mediaType":"m","digest":"` + dg(5) + `","size":11,"data":[-0]},"layers":[]}`},
		{"desc-platform", idx, `{"manifests":[{"mediaType":"` + img + `","digest":"` + cdg(2) + `","size":9,"platform":{"architecture":"amd64","os":"linux","os.version":"1","OS.FEATURES":["a",null],"variant":null,"extra":1}}]}`},
		{"desc-platform-bad", idx, `{"manifests":[{"mediaType":"` + img + `","digest":"` + cdg(2) + `","size":9,"platform":{"os":1}}]}`},
		{"desc-platform-features-string", idx, `{"manifests":[{"mediaType":"` + img + `","digest":"` + cdg(2) + `","size":9,"platform":{"os.features":"a"}}]}`},
		{"desc-platform-string", idx, `{"manifests":[{"mediaType":"` + img + `","digest":"` + cdg(2) + `","size":9,"platform":"linux/amd64"}]}`},
		{"unknown-not-inspected", img, `{"config":` + d(5) + `,"layers":[],"unknown":{"size":"x","layers":{},"config":[1,{"digest":7}]},"x":[[[{"a":[1.5e3,true,null]}]]]}`},
		{"string-utf8-replaced", img, "{\"config\":{\"mediaType\":\"a\xffb\xc3(\xe2\x82\xed\xa0\x80\xf4\x90\x80\x80\xc0\x80\xf0\x9f\x98\x80\",\"digest\":\"" + dg(5) + "\",\"size\":11},\"layers\":[]}"},
		{"string-surrogates", img, `{"config":{"mediaType":"\ud83d\ude00 \ud83d \ude00 \ud83dx \ud83d\u0041 \uDBFF\uDFFF \udc00\ud800 \ud800\ud800\udc00","digest":"` + dg(5) + `","size":11},"layers":[]}`},
		{"string-escapes", img, `{"config":{"mediaType":"\"\\\/\b\f\n\r\t\u0000\u001f\u007f\u00e9\u20AC\uffff","digest":"` + dg(5) + `","size":11},"layers":[]}`},
		{"string-control-char", img, "{\"config\":{\"mediaType\":\"a\tb\",\"digest\":\"" + dg(5) + "\",\"size\":11},\"layers\":[]}"},
		{"string-bad-escape", img, `{"config":{"mediaType":"\x41","digest":"` + dg(5) + `","size":11},"layers":[]}`},
		{"string-bad-unicode-escape", img, `{"config":{"mediaType":"\u00g0","digest":"` + dg(5) + `","size":11},"layers":[]}`},
		{"digest-utf8-replaced", img, "{\"config\":{\"mediaType\":\"m\",\"digest\":\"" + dg(5)[:70] + "\xff\",\"size\":11},\"layers\":[]}"},
		{"truncated", img, m1[:len(m1)-1]},
		{"truncated-in-string", img, m1[:30]},
		{"opaque-type", mtOpaque, m1},
		{"opaque-type-not-json", mtOpaque, "{"},
		{"image-type-with-parameter", img + ";x=y", m1},
		{"image-type-upper", strings.ToUpper(img), m1},
		{"docker-type", c02jDocker, m1},
	}
	for _, depth := range []int{9998, 9999, 10000, 10001} {
		for _, shape := range []string{"[", `{"a":`} {
			cls := "]"
			if shape != "[" {
				cls = "}"
			}
			deep := strings.Repeat(shape, depth) + "1" + strings.Repeat(cls, depth)
			docs = append(docs, doc{fmt.Sprintf("deep-%d%s", depth, shape[:1]), img, `{"config":` + d(5) + `,"layers":[],"deep":` + deep + `}`})
		}
	}
	var cases []Case
	for _, dc := range docs {
		cases = append(cases, g.probeCase("directed:"+dc.name, dc.mt, []byte(dc.text), true, true))
	}
	// untagged, and a registry without immutable tags: nothing is protected, referrers still answer
	cases = append(cases, g.probeCase("directed:untagged", img, []byte(`{"config":`+d(5)+`,"layers":[`+d(1)+`],"subject":`+c(2)+`}`), true, false))
	cases = append(cases, g.probeCase("directed:mutable", img, []byte(`{"config":`+d(5)+`,"layers":[`+d(1)+`],"subject":`+c(2)+`}`), false, true))
	return cases
}

// c02jReaderTexts: documents for the reader alone (valid / tree).
func c02jReaderTexts(g *c02jGen) []string {
	return []string{
		"", " ", "null", "true", "false", "0", "-0", "-", "--1", "+1", "01", "-01", "00", "1.", ".1", "1.0", "1.e1", "1e", "1e+", "1e-", "1e1", "1E1", "1e+1", "1e-1", "1e01", "1.5e+10", "0e0", "0.0e-0",
		"1 ", " 1", "1 2", "1,2", "12", "1e5e3", "1.5.3", "2-3", "1true", "truefalse", "nullnull", "nul", "nulll", "tru", "fals", "falsee", "Null", "TRUE",
		`""`, `"a"`, `"a`, `a"`, `"\""`, `"\\"`, `"\/"`, `"\b\f\n\r\t"`, `"\u0041"`, `"\u004"`, `"\u00zz"`, `"\U0041"`, `"\a"`, `"\'"`, `"\0"`, `"\`, `"\"`, `"\u"`, `"\u1"`, `"\ud83d\ude00"`, `"\ud83d"`, `"\ude00"`, `"\ud83d\ud83d\ude00"`, `"\ud83d\u00e9"`, `"\ud83dx"`, `"\ud83d\n"`, `"\udbff\udfff"`, `"\ud800\udc00"`, `"\ud7ff\ue000"`,
		"\"\t\"", "\"\x00\"", "\"\x1f\"", "\"\x7f\"", "\"\x80\"", "\"\xff\"", "\"\xc2\"", "\"\xc2\xa9\"", "\"\xc0\xaf\"", "\"\xc1\xbf\"", "\"\xe0\x80\x80\"", "\"\xe0\xa0\x80\"", "\"\xe2\x82\"", "\"\xe2\x82\xac\"", "\"\xed\x9f\xbf\"", "\"\xed\xa0\x80\"", "\"\xee\x80\x80\"", "\"\xef\xbf\xbd\"", "\"\xef\xbf\xbf\"", "\"\xf0\x8f\xbf\xbf\"", "\"\xf0\x90\x80\x80\"", "\"\xf0\x9f\x98\x80\"", "\"\xf0\x9f\x98\"", "\"\xf4\x8f\xbf\xbf\"", "\"\xf4\x90\x80\x80\"", "\"\xf5\x80\x80\x80\"", "\"\xf8\x88\x80\x80\x80\"", "\"a\xe2\x82b\xc3\"", "\"\xe2\x28\xa1\"", "\"\xf0\x28\x8c\xbc\"", "\"\xf0\x90\x28\xbc\"", "\"\xf0\x28\x8c\x28\"",
		"[]", "[ ]", "[1]", "[1,2]", "[1 2]", "[1,]", "[,1]", "[,]", "[", "]", "[[]", "[]]", "[1", "[1,", "[\"a\",{}]", "[}", "{]", "[null,true,false]", "[1,[2,[3,[]]]]",
		"{}", "{ }", "{\"a\":1}", "{\"a\":1,\"a\":2}", "{\"a\":1,}", "{,\"a\":1}", "{\"a\"}", "{\"a\":}", "{\"a\" 1}", "{\"a\":1 \"b\":2}", "{a:1}", "{'a':1}", "{1:1}", "{null:1}", "{\"a\":1}}", "{{}}", "{\"a\":{\"b\":{\"c\":[]}}}", "{\"\":\"\"}", "{\"a\\u0062\":1,\"ab\":2}",
		"\t\n\r {\"a\" \t:\n\r [ 1 , 2 ] } \n", "\v{}", "\f{}", "{}\v", "\u00a0{}", "\u2028{}", "\xef\xbb\xbf{}", "{}\x00", "\x00", "/*c*/{}", "{}//c", "{\"a\":1/**/}",
		"[" + strings.Repeat("1,", 200) + "1]", strings.Repeat("[", 50) + strings.Repeat("]", 50), strings.Repeat("[", 50) + strings.Repeat("]", 49), strings.Repeat("{\"k\":", 30) + "null" + strings.Repeat("}", 30),
		strings.Repeat("[", 9999) + strings.Repeat("]", 9999), strings.Repeat("[", 10000) + strings.Repeat("]", 10000), strings.Repeat("[", 10001) + strings.Repeat("]", 10001),
		strings.Repeat("{\"a\":", 10000) + "1" + strings.Repeat("}", 10000), strings.Repeat("{\"a\":", 10001) + "1" + strings.Repeat("}", 10001),
		strings.Repeat("[", 10000) + "\"x\"" + strings.Repeat("]", 10000), strings.Repeat("[", 10000) + "[]" + strings.Repeat("]", 10000), strings.Repeat("[", 10000) + "{}" + strings.Repeat("]", 10000), strings.Repeat("[", 10000),
		"[" + strings.Repeat("[],", 10000) + "[]]", "123456789012345678901234567890123456789012345678901234567890", "-0.000000000000000000000000000000000000000000001e-999999999",
	}
}

// c02jParentDocs: every manifest the engines of C02 and C14 push with a hint (their universes and
// directed histories), as "mjson decode" lines: on exactly those documents the model's decoder must
// say what the hint says.
func c02jParentDocs(rng *RNG) []Case {
	seen := map[string]bool{}
	var lines []string
	add := func(mt string, data []byte) {
		l := fmt.Sprintf("mjson decode %s %s", tok(mt), tok(string(data)))
		if !seen[l] {
			seen[l] = true
			lines = append(lines, l)
		}
	}
	for _, large := range []bool{false, true} {
		for _, m := range newMemUniverse(rng, large).manifests {
			add(m.mt, m.data)
		}
	}
	for _, c := range append(memDirected(rng), c14Directed(rng)...) {
		for _, l := range c.Lines {
			if t := strings.Split(l, " "); len(t) > 6 && t[0] == "mem" && t[1] == "pushmanifest" {
				data, _ := untok(t[4])
				mt, _ := untok(t[5])
				add(mt, []byte(data))
			}
		}
	}
	var cases []Case
	for i := 0; i < len(lines); i += 20 {
		cases = append(cases, Case{Tag: "parents:c02-c14-documents", Lines: lines[i:min(i+20, len(lines))]})
	}
	return cases
}

func (e *c02j) Gen(rng *RNG, tier string) []Case {
	g := &c02jGen{rng: rng, pool: newC02jPool()}
	cases := c02jDirected(g)
	cases = append(cases, c02jParentDocs(rng)...)
	// the reader alone
	texts := c02jReaderTexts(g)
	for i := 0; i < len(texts); i += 12 {
		var lines []string
		for _, t := range texts[i:min(i+12, len(texts))] {
			lines = append(lines, "mjson valid "+tok(t), "mjson tree "+tok(t))
		}
		cases = append(cases, Case{Tag: "reader:directed", Lines: lines})
	}
	nDocs, nReader := 900, 300
	if tier == "thorough" {
		nDocs, nReader = 36000, 10000
	}
	for i := 0; i < nDocs; i++ {
		g.quirk = pick(rng, []int{0, 0, 0, 3, 3, 8, 8, 15, 30})
		index := rng.Chance(2, 5)
		data := g.text(g.document(index))
		tag := "gen:image"
		if index {
			tag = "gen:index"
		}
		if g.quirk > 0 {
			tag += "-quirks"
		}
		if rng.Chance(1, 4) {
			var what string
			data, what = g.damage(data)
			tag += ":" + what
		}
		cases = append(cases, g.probeCase(tag, g.pushMT(index), data, !rng.Chance(1, 12), !rng.Chance(1, 10)))
	}
	for i := 0; i < nReader; i++ {
		var lines []string
		for j := 0; j < 10; j++ {
			g.quirk = 20
			var data []byte
			switch rng.Intn(5) {
			case 0:
				data = g.text(g.document(rng.Bool()))
			case 1:
				data = g.randString()
			default:
				data = g.text(g.anyValue(3))
			}
			if rng.Chance(2, 3) {
				data, _ = g.damage(data)
			}
			if rng.Chance(1, 10) { // the malformed stream: bytes of the JSON alphabet at random
				data = nil
				alphabet := "{}[]:,\"\\ \n\t\r0123456789-+.eEtruefalsnu/bx\x00\x1f\xc3\xa9\xff"
				for k := rng.Intn(24); k > 0; k-- {
					data = append(data, alphabet[rng.Intn(len(alphabet))])
				}
			}
			lines = append(lines, "mjson valid "+tok(string(data)), "mjson tree "+tok(string(data)))
		}
		cases = append(cases, Case{Tag: "reader:gen", Lines: lines})
	}
	return cases
}

// ---- oracle: the hint against ocimem (no Lean model involved) ----

const c02jEmptyHash = "sha256:e3b0c44298fc1c149afbf4c8996fb92427ae41e4649b934ca495991b7852b855"

// c02jSane mirrors ocimem.CheckDescriptor(desc, nil): what a reference must look like.
func c02jSane(r refTok) bool {
	return digest.Digest(r.digest).Validate() == nil && !(r.size == 0 && r.digest != c02jEmptyHash) && r.mediaType != ""
}

func (*c02j) Oracle(c Case, impl []string) []Failure {
	var fs []Failure
	// the same history in the "mem" protocol, the manifests' references taken from the hint
	var memLines, memImpl []string
	var back []int
	type trk struct {
		blobs, manifests map[string]bool
		tags             map[string]string // tag -> digest
		mts              map[string]string // manifest digest -> media type
		imm              bool
	}
	st := trk{map[string]bool{}, map[string]bool{}, map[string]string{}, map[string]string{}, false}
	for i, l := range c.Lines {
		if i >= len(impl) {
			break
		}
		t := strings.Split(l, " ")
		got := impl[i]
		arg := func(k int) string { s, _ := untok(t[k]); return s }
		switch {
		case t[0] == "mem":
			memLines, memImpl, back = append(memLines, l), append(memImpl, got), append(back, i)
			switch t[1] {
			case "init":
				st = trk{map[string]bool{}, map[string]bool{}, map[string]string{}, map[string]string{}, t[2] == "1"}
			case "pushblob":
				if strings.HasPrefix(got, "desc ") {
					st.blobs[arg(4)] = true
				}
			case "deleteblob":
				if got == "ok" {
					delete(st.blobs, arg(3))
				}
			case "deletemanifest":
				if got == "ok" {
					delete(st.manifests, arg(3))
				}
			}
		case t[0] == "mjson" && t[1] == "push" && len(t) == 6:
			repo, tag, data, mt := arg(2), arg(3), arg(4), arg(5)
			memLines, memImpl, back = append(memLines, linePushManifest(repo, tag, []byte(data), mt)), append(memImpl, got), append(back, i)
			if got == "panic" {
				continue // reported by the tracker oracle below
			}
			dg := sha256Digest([]byte(data))
			kind, refs := parseDecTokens(strings.Split(decodeManifest(mt, []byte(data)), " "))
			want, why := true, ""
			switch {
			case mt == "":
				want, why = false, "no media type"
			case tag != "" && st.imm && st.tags[tag] != "" && st.tags[tag] != dg:
				want, why = false, "the tag exists"
			case tag != "" && st.imm && st.tags[tag] == dg:
				want, why = st.mts[dg] == mt, "same tag and content: accepted iff the media type is the same"
			case st.imm && st.manifests[dg] && st.mts[dg] != mt:
				continue // re-typing a stored manifest: judged by C02/C14 (reachability), not here
			case kind == "malformed":
				want, why = false, "the document does not decode"
			default:
				for _, r := range refs {
					switch {
					case !c02jSane(r):
						want, why = false, "a descriptor that cannot name anything: "+tok(r.digest)
					case r.kind == 0 && !st.blobs[r.digest]:
						want, why = false, "blob not in the repository: "+r.digest
					case r.kind == 1 && !st.manifests[r.digest]:
						want, why = false, "manifest not in the repository: "+r.digest
					}
				}
			}
			isOK := strings.HasPrefix(got, "desc ")
			if want != isOK {
				exp := "desc (everything the document references is present)"
				if !want {
					exp = "err (" + why + ")"
				}
				cls := "c02j-accepts-unacceptable"
				if want {
					cls = "c02j-rejects-acceptable"
				}
				fs = append(fs, Failure{Class: cls, Oracle: "accepted_iff_references_present", Index: i, Expected: exp, Observed: got,
					Detail: "references according to json.Unmarshal into the ocispec types: " + decodeManifest(mt, []byte(data))})
			}
			if isOK {
				st.manifests[dg] = true
				st.mts[dg] = mt
				if tag != "" {
					st.tags[tag] = dg
				}
			}
		}
	}
	for _, f := range memOracle(Case{Tag: c.Tag, Lines: memLines}, memImpl, false) {
		f.Class = "c02j-" + f.Class
		if f.Index < len(back) {
			f.Index = back[f.Index]
		}
		f.Detail = "reference tracker fed with the references json.Unmarshal into the ocispec types yields"
		fs = append(fs, f)
	}
	return fs
}

func (*c02j) NonTrivial(c Case, impl []string) (bool, string) {
	bucket := c.Tag
	if i := strings.Index(bucket, ":"); i >= 0 && !strings.HasPrefix(bucket, "gen:") {
		bucket = bucket[:i]
	}
	if strings.HasPrefix(bucket, "gen:") {
		if parts := strings.SplitN(bucket, ":", 3); len(parts) == 3 {
			bucket = parts[0] + ":" + parts[1] + ":damaged"
		}
	}
	if bucket == "" {
		bucket = "replay"
	}
	nt := false
	for i, l := range c.Lines {
		if i >= len(impl) {
			break
		}
		switch {
		case strings.HasPrefix(l, "mjson decode "):
			if strings.HasPrefix(impl[i], "refs ") && !strings.HasPrefix(impl[i], "refs 0") {
				nt = true
			}
		case strings.HasPrefix(l, "mjson valid "):
			if impl[i] == "1" {
				nt = true
			}
		}
	}
	return nt, bucket
}
