package main

import (
	"bytes"
	"context"
	"fmt"
	"sort"
	"strconv"
	"strings"

	"cuelabs.dev/go/oci/ociregistry"
	"cuelabs.dev/go/oci/ociregistry/ociclient"
	"cuelabs.dev/go/oci/ociregistry/ocidebug"
	"cuelabs.dev/go/oci/ociregistry/ocifilter"
	"cuelabs.dev/go/oci/ociregistry/ocimem"
	"cuelabs.dev/go/oci/ociregistry/ociserver"
	"cuelabs.dev/go/oci/ociregistry/ociunify"
)

// C05: listings are complete, ordered, duplicate-free and paginate losslessly.
//
//   ls <what repos|tags> <stack> <client page size> <server max 0|n> <omit link 0|1> <k|-> <start> <n> <item>*
//
// stack is a '+'-separated list applied bottom-up over ocimem:
//   wire (client over server)   debug   select (hides names containing 'h')   sub (view of prefix "p")   unify (items split over two registries)
// Output: yield [items] end=done|stopped|error calls=<consumer invocations>

func init() { engines["C05"] = func() Engine { return &c05{} } }

type c05 struct{}

func (*c05) UsesModel() bool { return true }

const c05Repo = "list/repo"

func c05Hidden(name string) bool { return strings.Contains(name, "h") }

func c05Populate(what string, items []string, prefix string) ociregistry.Interface {
	m := ocimem.New()
	ctx := context.Background()
	blob := []byte("b")
	desc := ociregistry.Descriptor{MediaType: "application/octet-stream", Digest: ociregistry.Digest(sha256Digest(blob)), Size: 1}
	if what == "repos" {
		for _, it := range items {
			if _, err := m.PushBlob(ctx, prefix+it, desc, bytes.NewReader(blob)); err != nil {
				panic(fmt.Sprintf("populate %q: %v", prefix+it, err))
			}
		}
		if prefix != "" {
			// siblings that share a textual prefix, and unrelated repositories
			for _, s := range []string{"pq/x", "o/y", "p0", "q/p/z", "p", "p-tools/x", "p.d/y", "p--a", "p_x/y"} { // some sort between "p" and "p/"
				m.PushBlob(ctx, s, desc, bytes.NewReader(blob))
			}
		}
	} else {
		repo := prefix + c05Repo
		m.PushBlob(ctx, repo, desc, bytes.NewReader(blob)) // the repository exists even without tags
		for i, it := range items {
			if _, err := m.PushManifest(ctx, repo, it, []byte("manifest "+strconv.Itoa(i%2)), mtOpaque); err != nil {
				panic(fmt.Sprintf("populate tag %q: %v", it, err))
			}
		}
	}
	return m
}

// errAfterLister lists what the wrapped registry lists and then delivers an error
// (a member that fails part-way through its listing).
type errAfterLister struct {
	ociregistry.Interface
	err error
}

var errC05Listing = fmt.Errorf("listing broke off: %w", ociregistry.ErrDenied)

// a member whose repository vanishes while it is being listed (say, between two pages of a remote listing): its items so
// far, then NAME_UNKNOWN - which a unifier must not take for "this member does not know the repository" (F34)
var errC05Vanished = fmt.Errorf("repository vanished: %w", ociregistry.ErrNameUnknown)

func errAfter(it ociregistry.Seq[string], e error) ociregistry.Seq[string] {
	return func(yield func(string, error) bool) {
		ok := true
		it(func(s string, err error) bool {
			ok = yield(s, err)
			return ok
		})
		if ok {
			yield("", e)
		}
	}
}
func (l errAfterLister) Repositories(ctx context.Context, start string) ociregistry.Seq[string] {
	return errAfter(l.Interface.Repositories(ctx, start), l.err)
}
func (l errAfterLister) Tags(ctx context.Context, repo, start string) ociregistry.Seq[string] {
	return errAfter(l.Interface.Tags(ctx, repo, start), l.err)
}

type c05Spec struct {
	what     string
	stack    []string
	pageSize int
	srvMax   int
	omitLink bool
	k        int // -1 = never declines
	start    string
	items    []string
}

func parseC05(l string) (c05Spec, bool) {
	t := strings.Split(l, " ")
	if len(t) < 9 || t[0] != "ls" {
		return c05Spec{}, false
	}
	s := c05Spec{what: t[1], stack: strings.Split(t[2], "+"), k: -1}
	s.pageSize, _ = strconv.Atoi(t[3])
	s.srvMax, _ = strconv.Atoi(t[4])
	s.omitLink = t[5] == "1"
	if t[6] != "-" {
		s.k, _ = strconv.Atoi(t[6])
	}
	s.start, _ = untok(t[7])
	n, _ := strconv.Atoi(t[8])
	for _, it := range t[9 : 9+n] {
		v, _ := untok(it)
		s.items = append(s.items, v)
	}
	return s, true
}

func (s c05Spec) build() (ociregistry.Interface, func()) {
	var closers []func()
	prefix := ""
	for _, layer := range s.stack {
		if layer == "sub" {
			prefix = "p/"
		}
	}
	var reg ociregistry.Interface
	hasUnify, unifyErr, unifyNF := false, false, false
	for _, layer := range s.stack {
		if layer == "unify" || layer == "unifyerr" || layer == "unifynf" {
			hasUnify = true
		}
		if layer == "unifyerr" || layer == "unifynf" {
			unifyErr = true
		}
		if layer == "unifynf" {
			unifyNF = true
		}
	}
	if hasUnify {
		var a, b []string
		for i, it := range s.items {
			switch i % 3 {
			case 0:
				a = append(a, it)
			case 1:
				b = append(b, it)
			default:
				a, b = append(a, it), append(b, it)
			}
		}
		var second ociregistry.Interface = c05Populate(s.what, b, prefix)
		if unifyErr {
			second = errAfterLister{second, errC05Listing} // this member's listing ends in an error after its items
			if unifyNF {
				second = errAfterLister{second.(errAfterLister).Interface, errC05Vanished}
			}
		}
		reg = ociunify.New(c05Populate(s.what, a, prefix), second, nil)
	} else {
		reg = c05Populate(s.what, s.items, prefix)
	}
	for _, layer := range s.stack {
		switch layer {
		case "mem", "unify", "unifyerr", "unifynf":
		case "debug":
			reg = ocidebug.New(reg, func(string, ...any) {})
		case "select":
			reg = ocifilter.Select(reg, func(repo string) bool { return !c05Hidden(repo) })
		case "sub":
			reg = ocifilter.Sub(reg, "p")
		case "wire":
			so := &ociserver.Options{MaxListPageSize: s.srvMax, OmitLinkHeaderFromResponses: s.omitLink}
			ch := newChain(reg, 1, so, &ociclient.Options{ListPageSize: s.pageSize})
			closers = append(closers, ch.Close)
			reg = ch.regs[1]
		}
	}
	return reg, func() {
		for i := len(closers) - 1; i >= 0; i-- {
			closers[i]()
		}
	}
}

// c05Held: `ls held <what> <n>`: a listing of n items is obtained from an in-memory registry, then new
// names are created (one sorting before everything, one in the middle), then the listing is consumed
// (twice). Every item that was there all along is delivered exactly once, in ascending order, both
// times; the new names may or may not be there.
func c05Held(what string, n int) string {
	ctx := context.Background()
	var items []string
	for i := 0; i < n; i++ {
		items = append(items, fmt.Sprintf("item%02d", i))
	}
	var names []string
	for _, it := range items {
		if what == "repos" {
			names = append(names, "lib/"+it)
		} else {
			names = append(names, it)
		}
	}
	reg := c05Populate(what, names, "").(*ocimem.Registry)
	blob := []byte("b")
	desc := ociregistry.Descriptor{MediaType: "application/octet-stream", Digest: ociregistry.Digest(sha256Digest(blob)), Size: 1}
	var seq ociregistry.Seq[string]
	if what == "repos" {
		seq = reg.Repositories(ctx, "")
		for _, nw := range []string{"lib/", "lib/item00a", "lib/item" + fmt.Sprintf("%02d", n/2) + "-x", "backup/z"} {
			reg.PushBlob(ctx, strings.TrimSuffix(nw, "/")+"0new", desc, bytes.NewReader(blob))
		}
	} else {
		seq = reg.Tags(ctx, c05Repo, "")
		for _, nw := range []string{"a-first", "item00a", fmt.Sprintf("item%02d-x", n/2)} {
			reg.PushManifest(ctx, c05Repo, nw, []byte("manifest new"), mtOpaque)
		}
	}
	for pass := 0; pass < 2; pass++ {
		got, err := ociregistry.All(seq)
		if err != nil {
			return "held error"
		}
		seen := map[string]int{}
		for i, g := range got {
			seen[g]++
			if i > 0 && got[i-1] >= g {
				return fmt.Sprintf("held pass %d not ascending: %q then %q", pass, got[i-1], g)
			}
		}
		for _, nm := range names {
			if seen[nm] != 1 {
				return fmt.Sprintf("held pass %d: %q (there all along) delivered %d times", pass, nm, seen[nm])
			}
		}
	}
	return "held ok"
}

// c05Big: `ls big <count> <client page size> <omit link>`: count tags listed directly and through
// client+server; the two listings are the same (no size is too large for a page).
func c05Big(count, pageSize int, omitLink bool) string {
	ctx := context.Background()
	m := ocimem.New()
	blob := []byte("b")
	m.PushBlob(ctx, c05Repo, ociregistry.Descriptor{MediaType: "application/octet-stream", Digest: ociregistry.Digest(sha256Digest(blob)), Size: 1}, bytes.NewReader(blob))
	for i := 0; i < count; i++ {
		if _, err := m.PushManifest(ctx, c05Repo, fmt.Sprintf("t%06d", i), []byte("manifest"), mtOpaque); err != nil {
			return "big populate failed"
		}
	}
	ch := newChain(m, 1, &ociserver.Options{OmitLinkHeaderFromResponses: omitLink}, &ociclient.Options{ListPageSize: pageSize})
	defer ch.Close()
	direct, err1 := ociregistry.All(m.Tags(ctx, c05Repo, ""))
	wired, err2 := ociregistry.All(ch.regs[1].Tags(ctx, c05Repo, ""))
	if err1 != nil || len(direct) != count {
		return "big direct listing wrong"
	}
	if err2 != nil {
		return "big ok (ended in an error)"
	}
	if len(wired) != len(direct) {
		return fmt.Sprintf("big silently short: %d of %d tags through client and server, no error", len(wired), len(direct))
	}
	for i := range wired {
		if wired[i] != direct[i] {
			return fmt.Sprintf("big differs at %d", i)
		}
	}
	return "big ok"
}


// c05Refs: `ls refs <stack> <n> <k|-> <page size> <salt>`: n manifests that name one subject are stored (split over the
// members when the stack unifies, every third one in both), and Referrers(subject) is listed through the stack by a
// consumer that declines at its k-th item. Expected (computed here from what was pushed, not from any listing): every
// referrer exactly once, ascending by digest, cut at k; then no further call.
func c05RefsParse(l string) (stack []string, n, k, ps int, salt string, ok bool) {
	t := strings.Split(l, " ")
	if len(t) != 7 || t[0] != "ls" || t[1] != "refs" {
		return nil, 0, 0, 0, "", false
	}
	stack = strings.Split(t[2], "+")
	n, _ = strconv.Atoi(t[3])
	k = -1
	if t[4] != "-" {
		k, _ = strconv.Atoi(t[4])
	}
	ps, _ = strconv.Atoi(t[5])
	return stack, n, k, ps, t[6], true
}

const c05Idx = "application/vnd.oci.image.index.v1+json"

func c05RefsSubject(salt string) ociregistry.Descriptor {
	b := []byte("subject " + salt)
	return ociregistry.Descriptor{MediaType: c05Idx, Digest: ociregistry.Digest(sha256Digest(b)), Size: int64(len(b))}
}

func c05Referrer(salt string, i int) []byte {
	sd := c05RefsSubject(salt)
	return []byte(fmt.Sprintf(`{"schemaVersion":2,"mediaType":%q,"manifests":[],"subject":{"mediaType":%q,"digest":%q,"size":%d},"annotations":{"i":"%d"}}`,
		c05Idx, sd.MediaType, sd.Digest, sd.Size, i))
}

func c05RefsExpected(n, k int, salt string) string {
	var ds []string
	for i := 0; i < n; i++ {
		b := c05Referrer(salt, i)
		ds = append(ds, fmt.Sprintf("%s:%d", sha256Digest(b), len(b)))
	}
	sort.Strings(ds)
	end, calls := "done", len(ds)
	if k >= 0 && len(ds) >= k {
		if k == 0 {
			k = 1 // a consumer can decline only when called
		}
		ds, end, calls = ds[:k], "stopped", k
	}
	return fmt.Sprintf("refs [%s] end=%s calls=%d", strings.Join(ds, " "), end, calls)
}

func c05Refs(stack []string, n, k, ps int, salt string) string {
	ctx := context.Background()
	prefix := ""
	unify := false
	for _, layer := range stack {
		if layer == "sub" {
			prefix = "p/"
		}
		if layer == "unify" {
			unify = true
		}
	}
	repo := prefix + c05Repo
	mk := func(which int) ociregistry.Interface {
		m := ocimem.New()
		blob := []byte("b")
		m.PushBlob(ctx, repo, ociregistry.Descriptor{MediaType: "application/octet-stream", Digest: ociregistry.Digest(sha256Digest(blob)), Size: 1}, bytes.NewReader(blob))
		m.PushBlob(ctx, "other/repo", ociregistry.Descriptor{MediaType: "application/octet-stream", Digest: ociregistry.Digest(sha256Digest(blob)), Size: 1}, bytes.NewReader(blob))
		// a referrer of the same subject in ANOTHER repository, and a manifest naming another subject: neither is listed
		m.PushManifest(ctx, "other/repo", "", c05Referrer(salt, n+7), c05Idx)
		m.PushManifest(ctx, repo, "", c05Referrer(salt+"-other", 0), c05Idx)
		for i := 0; i < n; i++ {
			if which == 0 || i%3 == 2 || i%3 == which-1 {
				if _, err := m.PushManifest(ctx, repo, "", c05Referrer(salt, i), c05Idx); err != nil {
					panic(fmt.Sprintf("populate referrer %d: %v", i, err))
				}
			}
		}
		return m
	}
	var reg ociregistry.Interface
	if unify {
		reg = ociunify.New(mk(1), mk(2), nil)
	} else {
		reg = mk(0)
	}
	var closers []func()
	defer func() {
		for i := len(closers) - 1; i >= 0; i-- {
			closers[i]()
		}
	}()
	for _, layer := range stack {
		switch layer {
		case "debug":
			reg = ocidebug.New(reg, func(string, ...any) {})
		case "select":
			reg = ocifilter.Select(reg, func(repo string) bool { return !c05Hidden(repo) })
		case "sub":
			reg = ocifilter.Sub(reg, "p")
		case "wire":
			ch := newChain(reg, 1, &ociserver.Options{}, &ociclient.Options{ListPageSize: ps})
			closers = append(closers, ch.Close)
			reg = ch.regs[1]
		}
	}
	var got []string
	calls, end := 0, "done"
	declined := false
	reg.Referrers(ctx, c05Repo, c05RefsSubject(salt).Digest, "")(func(d ociregistry.Descriptor, err error) bool {
		calls++
		if declined {
			end = "called-after-decline"
			return false
		}
		if end == "error" {
			end = "called-after-error"
			return false
		}
		if err != nil {
			end = "error:" + errClass(err)
			return false
		}
		got = append(got, fmt.Sprintf("%s:%d", d.Digest, d.Size))
		if k >= 0 && len(got) >= k {
			declined = true
			end = "stopped"
			return false
		}
		return true
	})
	if strings.HasPrefix(end, "error") && end != "error" {
		// canonical: keep the class, and the later guard above compares with "error"
	}
	return fmt.Sprintf("refs [%s] end=%s calls=%d", strings.Join(got, " "), end, calls)
}

// c05RefsErr: `ls refserr <stack> <n> <j> <code> <salt>`: a backend whose Referrers listing delivers j of its n items and then
// fails with <code>. Whatever the stack, the listing the caller sees ends in an error or is complete - never "done" with
// fewer than n items - and what is delivered is a prefix of the sorted listing.
func c05RefsErr(stack []string, n, j int, code, salt string) string {
	ctx := context.Background()
	var all []ociregistry.Descriptor
	for i := 0; i < n; i++ {
		b := c05Referrer(salt, i)
		all = append(all, ociregistry.Descriptor{MediaType: c05Idx, Digest: ociregistry.Digest(sha256Digest(b)), Size: int64(len(b))})
	}
	sort.Slice(all, func(a, b int) bool { return all[a].Digest < all[b].Digest })
	var ferr error = ociregistry.ErrManifestUnknown
	switch code {
	case "DENIED":
		ferr = ociregistry.ErrDenied
	case "NAME_UNKNOWN":
		ferr = ociregistry.ErrNameUnknown
	case "PLAIN":
		ferr = fmt.Errorf("backend broke")
	}
	var reg ociregistry.Interface = &ociregistry.Funcs{
		Referrers_: func(ctx context.Context, repo string, dg ociregistry.Digest, at string) ociregistry.Seq[ociregistry.Descriptor] {
			return func(yield func(ociregistry.Descriptor, error) bool) {
				for i := 0; i < j && i < len(all); i++ {
					if !yield(all[i], nil) {
						return
					}
				}
				yield(ociregistry.Descriptor{}, ferr)
			}
		},
	}
	var closers []func()
	defer func() {
		for i := len(closers) - 1; i >= 0; i-- {
			closers[i]()
		}
	}()
	for _, layer := range stack {
		switch layer {
		case "debug":
			reg = ocidebug.New(reg, func(string, ...any) {})
		case "select":
			reg = ocifilter.Select(reg, func(repo string) bool { return !c05Hidden(repo) })
		case "sub":
			reg = ocifilter.Sub(reg, "p")
		case "wire":
			ch := newChain(reg, 1, &ociserver.Options{}, &ociclient.Options{})
			closers = append(closers, ch.Close)
			reg = ch.regs[1]
		}
	}
	var got []string
	end := "done"
	reg.Referrers(ctx, c05Repo, c05RefsSubject(salt).Digest, "")(func(d ociregistry.Descriptor, err error) bool {
		if end != "done" {
			end = "called-after-error"
			return false
		}
		if err != nil {
			end = "error"
			return false
		}
		got = append(got, string(d.Digest))
		return true
	})
	for i, g := range got {
		if i >= len(all) || g != string(all[i].Digest) {
			return fmt.Sprintf("refserr item %d is not item %d of the sorted listing", i, i)
		}
	}
	if end == "done" && len(got) < n {
		return fmt.Sprintf("refserr silently short: %d of %d referrers and no error (the backend failed after %d)", len(got), n, j)
	}
	if end == "called-after-error" {
		return "refserr called-after-error"
	}
	return "refserr ok"
}

func c05RefsErrParse(l string) (stack []string, n, j int, code, salt string, ok bool) {
	t := strings.Split(l, " ")
	if len(t) != 7 || t[0] != "ls" || t[1] != "refserr" {
		return nil, 0, 0, "", "", false
	}
	n, _ = strconv.Atoi(t[3])
	j, _ = strconv.Atoi(t[4])
	return strings.Split(t[2], "+"), n, j, t[5], t[6], true
}

func (*c05) Impl(c Case) []string {
	out := make([]string, len(c.Lines))
	for i, l := range c.Lines {
		out[i] = guard(func() string {
			if t := strings.Split(l, " "); len(t) == 5 && t[0] == "ls" && t[1] == "big" {
				n, _ := strconv.Atoi(t[2])
				ps, _ := strconv.Atoi(t[3])
				return c05Big(n, ps, t[4] == "1")
			}
			if t := strings.Split(l, " "); len(t) == 4 && t[0] == "ls" && t[1] == "held" {
				n, _ := strconv.Atoi(t[3])
				return c05Held(t[2], n)
			}
			if stack, n, k, ps, salt, ok := c05RefsParse(l); ok {
				return c05Refs(stack, n, k, ps, salt)
			}
			if stack, n, j, code, salt, ok := c05RefsErrParse(l); ok {
				return c05RefsErr(stack, n, j, code, salt)
			}
			s, ok := parseC05(l)
			if !ok {
				return "bad-op"
			}
			reg, closeAll := s.build()
			defer closeAll()
			ctx := context.Background()
			var it ociregistry.Seq[string]
			if s.what == "repos" {
				it = reg.Repositories(ctx, s.start)
			} else {
				it = reg.Tags(ctx, c05Repo, s.start)
			}
			run := func() string {
				var yielded []string
				calls, end := 0, "done"
				declined := false
				it(func(item string, err error) bool {
					calls++
					if declined {
						end = "called-after-decline"
						return false
					}
					if end == "error" {
						end = "called-after-error"
						return false
					}
					if err != nil {
						end = "error"
						return false
					}
					yielded = append(yielded, tok(item))
					if s.k >= 0 && len(yielded) >= s.k {
						end = "stopped"
						declined = true
						return false
					}
					return true
				})
				return fmt.Sprintf("yield [%s] end=%s calls=%d", strings.Join(yielded, " "), end, calls)
			}
			first := run()
			// the same sequence value iterated again is another iteration of the same listing
			if second := run(); second != first {
				return first + " again: " + second
			}
			{
				// the same listing once more, with a caller that does not decline after k items but
				// cancels its context then and keeps accepting: the listing is complete or ends in an
				// error, never silently short
				if bad := c05CancelPass(reg, s); bad != "" {
					return first + " cancel: " + bad
				}
			}
			return first
		})
	}
	return out
}

func c05CancelPass(reg ociregistry.Interface, s c05Spec) string {
	list := func(ctx context.Context, onItem func(n int)) (items []string, gotErr bool) {
		var it ociregistry.Seq[string]
		if s.what == "repos" {
			it = reg.Repositories(ctx, s.start)
		} else {
			it = reg.Tags(ctx, c05Repo, s.start)
		}
		it(func(item string, err error) bool {
			if err != nil {
				gotErr = true
				return false
			}
			items = append(items, item)
			onItem(len(items))
			return true
		})
		return
	}
	full, fullErr := list(context.Background(), func(int) {})
	ctx, cancel := context.WithCancel(context.Background())
	defer cancel()
	at := s.k
	if at <= 0 {
		at = 1 // no declining point in this case: cancel after the first item
	}
	got, gotErr := list(ctx, func(n int) {
		if n == at {
			cancel()
		}
	})
	if gotErr || fullErr {
		return "" // ended in an error: allowed
	}
	if len(got) != len(full) {
		return fmt.Sprintf("silently-short %d of %d items, no error, after the context was cancelled at item %d", len(got), len(full), at)
	}
	return ""
}

// expected is the specification, computed independently of the implementation and of the Lean model.
func (s c05Spec) expected() string {
	seen := map[string]bool{}
	var vis []string
	selectOn := false
	for _, l := range s.stack {
		if l == "select" {
			selectOn = true
		}
	}
	for _, it := range s.items {
		if seen[it] {
			continue
		}
		seen[it] = true
		if s.what == "repos" && selectOn {
			// Select sits above or below Sub: it sees "p/<item>" below, "<item>" above; 'p' and '/' contain no 'h'
			if c05Hidden(it) {
				continue
			}
		}
		if it > s.start {
			vis = append(vis, it)
		}
	}
	sort.Strings(vis)
	// a server page limit below the client's page size makes every list request fail
	wires := 0
	for _, l := range s.stack {
		if l == "wire" {
			wires++
		}
	}
	ps := s.pageSize
	if ps <= 0 {
		ps = 1000
	}
	if wires > 0 && s.srvMax > 0 && ps > s.srvMax {
		return "yield [] end=error calls=1"
	}
	end := "done"
	calls := len(vis)
	// a member that fails after its items, seen through the wire: the server cannot send half a listing, so the request
	// fails and the caller gets the error and nothing else (seed C07-15: items and a Link sent instead, the error lost)
	failingBelowWire := false
	for i, l := range s.stack {
		if l == "unifyerr" {
			for _, l2 := range s.stack[i+1:] {
				if l2 == "wire" {
					failingBelowWire = true
				}
			}
		}
	}
	if failingBelowWire {
		return "yield [] end=error calls=1"
	}
	for _, l := range s.stack {
		if l == "unifyerr" {
			end = "error" // the listing is complete up to the error, which is delivered last
			calls = len(vis) + 1
		}
		if l == "unifynf" {
			// the second member (items 1 and 2 of every three) delivered something and then lost the repository: an error;
			// had it delivered nothing, NAME_UNKNOWN would just mean that it does not know the repository
			for i, it := range s.items {
				if i%3 != 0 && it > s.start {
					end = "error"
					calls = len(vis) + 1
					break
				}
			}
		}
	}
	if s.k >= 0 && len(vis) >= s.k {
		vis = vis[:s.k]
		end = "stopped"
		calls = s.k
	}
	ts := make([]string, len(vis))
	for i, v := range vis {
		ts[i] = tok(v)
	}
	return fmt.Sprintf("yield [%s] end=%s calls=%d", strings.Join(ts, " "), end, calls)
}

func (*c05) Gen(rng *RNG, tier string) []Case {
	var cases []Case
	stacks := []string{"mem", "wire", "wire+wire", "debug", "select", "sub", "unify", "wire+debug", "debug+wire", "select+wire", "wire+select",
		"sub+wire", "wire+sub", "unify+wire", "sub+select", "select+sub", "unify+select+wire", "sub+wire+wire", "unify+sub",
		"unifyerr", "unifyerr+debug", "unifyerr+select", "unifynf", "unifynf+debug", "unifynf+select", "unifyerr+wire", "unifyerr+wire+wire", "unifyerr+debug+wire"}
	// page sizes above ten thousand and more items than that
	for _, c := range [][3]int{{10050, 20000, 0}, {10050, 20000, 1}, {10001, 10001, 0}, {10000, 10000, 1}} {
		cases = append(cases, Case{Tag: "big", Lines: []string{fmt.Sprintf("ls big %d %d %d", c[0], c[1], c[2])}})
	}
	for _, n := range []int{1, 2, 5, 8, 9, 16, 33} {
		cases = append(cases, Case{Tag: "held", Lines: []string{fmt.Sprintf("ls held repos %d", n), fmt.Sprintf("ls held tags %d", n)}})
	}
	n := 700
	if tier == "thorough" {
		n = 12000
	}
	// referrers through the same stacks (no start point, no paging parameter in this API: a listing is one index document)
	for i := 0; i < n/7; i++ {
		stack := pick(rng, stacks)
		if strings.Contains(stack, "unifyerr") || strings.Contains(stack, "unifynf") {
			continue
		}
		cnt := pick(rng, []int{0, 1, 2, 3, 5, 8, 13, 40})
		k := "-"
		if rng.Chance(1, 3) {
			k = strconv.Itoa(1 + rng.Intn(cnt+2))
		}
		cases = append(cases, Case{Tag: "refs", Lines: []string{fmt.Sprintf("ls refs %s %d %s %d s%d", stack, cnt, k, pick(rng, []int{0, 1, 3, 1000}), rng.Intn(1000))}})
	}
	// a backend whose referrers listing fails part-way, under every wrapper and behind the wire
	for _, stack := range []string{"mem", "wire", "wire+wire", "debug", "select", "sub", "wire+debug", "debug+wire", "select+wire", "sub+wire", "wire+sub"} {
		for _, code := range []string{"MANIFEST_UNKNOWN", "NAME_UNKNOWN", "DENIED", "PLAIN"} {
			for _, nj := range [][2]int{{3, 0}, {3, 1}, {3, 2}, {1, 0}} {
				cases = append(cases, Case{Tag: "refserr", Lines: []string{fmt.Sprintf("ls refserr %s %d %d %s s%d", stack, nj[0], nj[1], code, rng.Intn(1000))}})
			}
		}
	}
	for i := 0; i < n; i++ {
		what := pick(rng, []string{"repos", "tags"})
		stack := pick(rng, stacks)
		if strings.HasPrefix(stack, "unifynf") {
			what = "repos" // a repository unknown to BOTH members is another matter
		}
		ps := pick(rng, []int{1, 2, 3, 4, 5, 0, 1000})
		if strings.HasPrefix(stack, "unifyerr") && strings.Contains(stack, "wire") {
			// one page holds everything, so the server has to reach the member's error to answer at all (with smaller pages
			// the full pages before it are delivered first, which is fine too but not a single expected line)
			ps = pick(rng, []int{0, 1000})
		}
		count := rng.Intn(3*ps + 2)
		if ps == 0 || ps == 1000 {
			count = rng.Intn(12)
		}
		var items []string
		for j := 0; j < count; j++ {
			if what == "repos" {
				items = append(items, genRepo(rng))
			} else {
				t := genTag(rng)
				for len(t) > 128 {
					t = genTag(rng)
				}
				items = append(items, t)
			}
		}
		if rng.Chance(1, 3) && len(items) > 0 { // duplicates in the input
			items = append(items, pick(rng, items))
		}
		start := ""
		switch rng.Intn(5) {
		case 0:
			if len(items) > 0 {
				start = pick(rng, items) // equal to an element
			}
		case 1:
			if len(items) > 0 {
				start = pick(rng, items) + "0" // between elements
			}
		case 2:
			start = "zzzzzz" // beyond the end
		case 3:
			start = pick(rng, []string{"a&b=c", "a b", "é", "%2F", "a/b?c", "<x>;", "+"})
		}
		if strings.Contains(stack, "sub") && what == "tags" && false {
			continue
		}
		srvMax := 0
		if rng.Chance(1, 4) {
			srvMax = pick(rng, []int{1, 2, 3, 1000})
		}
		k := "-"
		if rng.Chance(1, 3) {
			k = strconv.Itoa(1 + rng.Intn(len(items)+2))
		}
		line := fmt.Sprintf("ls %s %s %d %d %d %s %s %d", what, stack, ps, srvMax, rng.Intn(2), k, tok(start), len(items))
		for _, it := range items {
			line += " " + tok(it)
		}
		cases = append(cases, Case{Lines: []string{line}})
	}
	return cases
}

func (*c05) Oracle(c Case, impl []string) []Failure {
	var fs []Failure
	for i, l := range c.Lines {
		if i >= len(impl) {
			break
		}
		if t := strings.Split(l, " "); len(t) == 5 && t[1] == "big" {
			if !strings.HasPrefix(impl[i], "big ok") {
				fs = append(fs, Failure{Class: "list-big", Oracle: "listing_complete_at_any_size", Index: i, Expected: "big ok", Observed: impl[i]})
			}
			continue
		}
		if t := strings.Split(l, " "); len(t) == 4 && t[1] == "held" {
			if impl[i] != "held ok" {
				fs = append(fs, Failure{Class: "list-held", Oracle: "listing_of_what_was_there_all_along", Index: i, Expected: "held ok", Observed: impl[i]})
			}
			continue
		}
		if _, _, _, _, _, ok := c05RefsErrParse(l); ok {
			if impl[i] != "refserr ok" {
				class := "list-referrers-short"
				if impl[i] == "panic" {
					class = "list-panic"
				} else if strings.Contains(impl[i], "called-after") {
					class = "list-consumer-protocol"
				}
				fs = append(fs, Failure{Class: class, Oracle: "complete_or_error", Index: i, Expected: "refserr ok", Observed: impl[i]})
			}
			continue
		}
		if _, n, k, _, salt, ok := c05RefsParse(l); ok {
			if want := c05RefsExpected(n, k, salt); impl[i] != want {
				class := "list-referrers-differs"
				if impl[i] == "panic" {
					class = "list-panic"
				} else if strings.Contains(impl[i], "called-after") {
					class = "list-consumer-protocol"
				}
				fs = append(fs, Failure{Class: class, Oracle: "referrers_listing_spec", Index: i, Expected: want, Observed: impl[i]})
			}
			continue
		}
		s, ok := parseC05(l)
		if !ok {
			continue
		}
		got, want := impl[i], s.expected()
		if got == want {
			continue
		}
		class := "list-differs"
		switch {
		case got == "panic":
			class = "list-panic"
		case strings.Contains(got, "called-after"):
			class = "list-consumer-protocol"
		}
		hasSub := false
		for _, x := range s.stack {
			if x == "sub" {
				hasSub = true
			}
		}
		if hasSub && s.what == "repos" && class == "list-differs" {
			class = "list-differs:sub-start"
			if s.start == "" {
				wired := false
				seenSub := false
				for _, x := range s.stack {
					if x == "sub" {
						seenSub = true
					}
					if x == "wire" && seenSub {
						wired = true
					}
				}
				if wired {
					class = "list-differs:sub-behind-pager"
				} else {
					class = "list-differs:sub"
				}
			}
		}
		fs = append(fs, Failure{Class: class, Oracle: "listing_spec", Index: i, Expected: want, Observed: got})
	}
	return fs
}

func (*c05) NonTrivial(c Case, impl []string) (bool, string) {
	if stack, _, j, _, _, ok := c05RefsErrParse(c.Lines[0]); ok {
		return j > 0, "refserr:" + strings.Join(stack, "+")
	}
	if stack, n, _, _, _, ok := c05RefsParse(c.Lines[0]); ok {
		return n > 0, "refs:" + strings.Join(stack, "+")
	}
	s, _ := parseC05(c.Lines[0])
	return len(s.items) > 0, s.what + ":" + strings.Join(s.stack, "+")
}
