// Command harness is the correspondence check: for one property it generates
// cases (lists of protocol lines) from one PRNG state, interprets each line
// against the real cue-labs/oci packages in-process, pipes the same lines to the
// Lean model driver, diffs the two output streams and evaluates the property's
// direct oracles on the implementation trace.
package main

import (
	"sync/atomic"
	"bufio"
	"bytes"
	"crypto/sha256"
	"encoding/hex"
	"encoding/json"
	"flag"
	"fmt"
	"os"
	"os/exec"
	"path/filepath"
	"runtime/debug"
	"sort"
	"strings"
	"time"
)

// Case is one replayable unit: protocol lines for one engine.
type Case struct {
	Tag   string   `json:"tag,omitempty"`
	Lines []string `json:"lines"`
}

// Failure is a divergence between model and implementation, or an oracle
// failure on the implementation trace alone.
type Failure struct {
	Kind     string   `json:"kind"`  // "diff" | "oracle"
	Class    string   `json:"class"` // short stable signature used to match known findings
	Oracle   string   `json:"oracle,omitempty"`
	Index    int      `json:"index"` // line index inside the case
	Expected string   `json:"expected"`
	Observed string   `json:"observed"`
	Case     Case     `json:"case"`
	Impl     []string `json:"impl"`
	Model    []string `json:"model,omitempty"`
	Detail   string   `json:"detail,omitempty"`
}

// Engine ties one property to the real code.
type Engine interface {
	// Gen generates the cases of a run.
	Gen(rng *RNG, tier string) []Case
	// Impl interprets the lines of a case on the real packages; one output per line.
	Impl(c Case) []string
	// Oracle evaluates the property directly on the implementation's outputs.
	Oracle(c Case, impl []string) []Failure
	// NonTrivial reports whether the case counts as non-trivial, and a bucket
	// name for the input-distribution report.
	NonTrivial(c Case, impl []string) (bool, string)
	// UsesModel reports whether lines are also sent to the Lean driver.
	UsesModel() bool
}

var engines = map[string]func() Engine{}

type Report struct {
	Property           string         `json:"property"`
	Tier               string         `json:"tier"`
	Seed               uint64         `json:"seed"`
	Evaluations        int            `json:"evaluations"`
	Lines              int            `json:"lines"`
	DistinctNontrivial int            `json:"distinct_nontrivial"`
	Distribution       map[string]int `json:"distribution"`
	Samples            []Case         `json:"samples"`
	Failures           []Failure      `json:"failures"`
	ModelCompared      bool           `json:"model_compared"`
	Notes              []string       `json:"notes,omitempty"`
	WallS              float64        `json:"wall_s"`
}

func main() {
	prop := flag.String("prop", "", "property id (C01…)")
	tier := flag.String("tier", "quick", "quick|thorough")
	seed := flag.Uint64("seed", 1, "PRNG seed")
	driver := flag.String("driver", "", "path of the Lean model driver (empty: oracles only)")
	replay := flag.String("replay", "", "replay file: run only its case")
	corpus := flag.String("corpus", "", "corpus directory with *.json cases run first")
	out := flag.String("out", "", "report file")
	flag.Parse()
	mk, ok := engines[*prop]
	if !ok {
		fmt.Fprintf(os.Stderr, "harness: no engine for %q\n", *prop)
		os.Exit(2)
	}
	eng := mk()
	start := time.Now()
	rep := &Report{Property: *prop, Tier: *tier, Seed: *seed, Distribution: map[string]int{}}

	var cases []Case
	if *replay != "" {
		c, err := loadReplayCase(*replay)
		if err != nil {
			fmt.Fprintln(os.Stderr, "harness:", err)
			os.Exit(2)
		}
		cases = []Case{c}
	} else {
		if *corpus != "" {
			files, _ := filepath.Glob(filepath.Join(*corpus, "*.json"))
			sort.Strings(files)
			for _, f := range files {
				if c, err := loadReplayCase(f); err == nil {
					c.Tag = "corpus:" + filepath.Base(f)
					cases = append(cases, c)
				}
			}
		}
		cases = append(cases, eng.Gen(NewRNG(*seed), *tier)...)
	}

	impls := make([][]string, len(cases))
	for i, c := range cases {
		impls[i] = runImpl(eng, c)
		rep.Lines += len(c.Lines)
		if atomic.LoadInt32(&hangs) >= 3 {
			// every hang leaves a goroutine behind (possibly spinning): stop here, what was seen is judged
			rep.Notes = append(rep.Notes, fmt.Sprintf("stopped after case %d of %d: three operations did not return", i+1, len(cases)))
			cases, impls = cases[:i+1], impls[:i+1]
			break
		}
	}
	if n := atomic.LoadInt32(&slow); n > 0 {
		rep.Notes = append(rep.Notes, fmt.Sprintf("%d case(s) came back only after the first minute of the watchdog (a loaded machine, not a hang)", n))
	}
	var models [][]string
	if *driver != "" && eng.UsesModel() {
		var err error
		models, err = runModel(*driver, cases)
		if err != nil {
			rep.Notes = append(rep.Notes, "model driver failed: "+err.Error())
			models = nil
		} else {
			rep.ModelCompared = true
		}
	}
	seen := map[string]bool{}
	for i, c := range cases {
		impl := impls[i]
		nt, bucket := eng.NonTrivial(c, impl)
		rep.Distribution[bucket]++
		key := caseKey(c)
		if nt && !seen[key] {
			seen[key] = true
			rep.DistinctNontrivial++
		}
		var fs []Failure
		if models != nil {
			m := models[i]
			for j := range c.Lines {
				mo := "<no output>"
				if j < len(m) {
					mo = m[j]
				}
				if mo == "skip" || (j < len(impl) && impl[j] == "skip") {
					continue // the model has no opinion on this line (oracle-only), or the engine withdrew it from the comparison
				}
				if j >= len(impl) || impl[j] != mo {
					io := "<no output>"
					if j < len(impl) {
						io = impl[j]
					}
					fs = append(fs, Failure{Kind: "diff", Class: "model-impl-diff", Index: j, Expected: mo, Observed: io, Case: c, Impl: impl, Model: m})
					break
				}
			}
		}
		for _, f := range eng.Oracle(c, impl) {
			f.Kind = "oracle"
			f.Case = c
			f.Impl = impl
			if models != nil {
				f.Model = models[i]
			}
			fs = append(fs, f)
		}
		rep.Failures = append(rep.Failures, fs...)
		if len(rep.Samples) < 5 && (nt || i == 0) {
			rep.Samples = append(rep.Samples, c)
		}
	}
	rep.Evaluations = len(cases)
	// Cap the report: at most three failures per class.
	rep.Failures = pruneFailures(rep.Failures)
	rep.WallS = time.Since(start).Seconds()
	data, _ := json.MarshalIndent(rep, "", " ")
	if *out != "" {
		if err := os.WriteFile(*out, data, 0o644); err != nil {
			fmt.Fprintln(os.Stderr, "harness:", err)
			os.Exit(2)
		}
	} else {
		os.Stdout.Write(data)
	}
}

func pruneFailures(fs []Failure) []Failure {
	perClass := map[string]int{}
	var out []Failure
	// Smallest cases first: they make the best replays.
	sort.SliceStable(fs, func(i, j int) bool { return len(fs[i].Case.Lines) < len(fs[j].Case.Lines) })
	for _, f := range fs {
		perClass[f.Kind+f.Class]++
		if perClass[f.Kind+f.Class] > 3 {
			continue
		}
		out = append(out, f)
	}
	return out
}

func caseKey(c Case) string {
	h := sha256.Sum256([]byte(strings.Join(c.Lines, "\n")))
	return hex.EncodeToString(h[:8])
}

// runImpl runs a case with a watchdog: a hang is an observation, not a crash.
func runImpl(eng Engine, c Case) []string {
	done := make(chan []string, 1)
	go func() {
		defer func() {
			if r := recover(); r != nil {
				done <- []string{fmt.Sprintf("harness-panic %v", r)}
			}
		}()
		done <- eng.Impl(c)
	}()
	select {
	case out := <-done:
		return out
	case <-time.After(60 * time.Second):
	}
	// not back after a minute: on a loaded machine that need not be a hang (a two-line case was once held up that long while
	// four other builds ran: a false alarm). Give it four more minutes before calling it one.
	select {
	case out := <-done:
		atomic.AddInt32(&slow, 1)
		return out
	case <-time.After(240 * time.Second):
		atomic.AddInt32(&hangs, 1)
		return []string{"hang"}
	}
}

// guard runs f and turns a Go panic into the observation "panic".
func guard(f func() string) (out string) {
	lastPanic = ""
	defer func() {
		if r := recover(); r != nil {
			out = "panic"
			lastPanic = fmt.Sprint(r)
			if os.Getenv("VERIF_DEBUG") != "" {
				fmt.Fprintf(os.Stderr, "panic: %v\n%s\n", r, debug.Stack())
			}
		}
	}()
	return f()
}

var lastPanic string

// hangs counts operations that did not return within their watchdog's time.
var hangs int32

// slow counts cases that came back after the first minute of their watchdog (a loaded machine, not a hang).
var slow int32

func runModel(driver string, cases []Case) ([][]string, error) {
	var in bytes.Buffer
	for _, c := range cases {
		in.WriteString("reset\n")
		for _, l := range c.Lines {
			if strings.ContainsAny(l, "\n\r") {
				return nil, fmt.Errorf("protocol line contains a newline: %q", l)
			}
			in.WriteString(l)
			in.WriteByte('\n')
		}
	}
	cmd := exec.Command(driver)
	cmd.Stdin = &in
	var stdout, stderr bytes.Buffer
	cmd.Stdout = &stdout
	cmd.Stderr = &stderr
	if err := cmd.Run(); err != nil {
		return nil, fmt.Errorf("%v: %s", err, stderr.String())
	}
	sc := bufio.NewScanner(&stdout)
	sc.Buffer(make([]byte, 1<<20), 1<<28)
	res := make([][]string, len(cases))
	for i, c := range cases {
		if !sc.Scan() {
			return nil, fmt.Errorf("model output ended early at case %d", i)
		}
		if sc.Text() != "ok" {
			return nil, fmt.Errorf("model reset answered %q", sc.Text())
		}
		for range c.Lines {
			if !sc.Scan() {
				return nil, fmt.Errorf("model output ended early in case %d", i)
			}
			res[i] = append(res[i], sc.Text())
		}
	}
	return res, nil
}

func loadReplayCase(path string) (Case, error) {
	data, err := os.ReadFile(path)
	if err != nil {
		return Case{}, err
	}
	var r struct {
		Case  *Case    `json:"case"`
		Lines []string `json:"lines"`
		Tag   string   `json:"tag"`
	}
	if err := json.Unmarshal(data, &r); err != nil {
		return Case{}, err
	}
	if r.Case != nil {
		return *r.Case, nil
	}
	if r.Lines == nil {
		return Case{}, fmt.Errorf("%s: no case in replay file", path)
	}
	return Case{Tag: r.Tag, Lines: r.Lines}, nil
}
