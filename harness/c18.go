package main

import (
	"sync/atomic"
	"bytes"
	"context"
	"encoding/json"
	"errors"
	"fmt"
	"io"
	"net/http"
	"strconv"
	"strings"
	"time"

	"cuelabs.dev/go/oci/ociregistry"
	"cuelabs.dev/go/oci/ociregistry/ociclient"
)

// C18: the HTTP client survives any server response.
//
//   pg <page size> <consumer stops at k | -> <answers…>        answers: F | P <link -|1|0> <n> <item>*
//       the pager against scripted answers; diffed with the Lean `pagerScript`
//   cl <page size> <op> <nresp> (<status> <body> <nhdr> (<k> <v>)*)*
//       any client operation against scripted responses; oracle only: never panics, never hangs

func init() { engines["C18"] = func() Engine { return &c18{} } }

type c18 struct{}

func (*c18) UsesModel() bool { return true }

type scriptedResp struct {
	status int
	hdr    [][2]string
	body   string
}

type scriptTransport struct {
	noRequest bool // leave Response.Request nil
	resps     []scriptedResp
	n         int
	exhausted bool
	lasts     []string // the `last` query parameter of each request, as a server decodes it
	// one connection (an http.Transport with MaxConnsPerHost: 1): a request cannot be sent while the
	// body of an earlier response is neither read to its end nor closed
	bodies  []*heldBody
	starved bool
}

// heldBody is a response body that keeps its connection until it has been read to the end or closed.
type heldBody struct {
	r        io.Reader
	released atomic.Bool
}

func (b *heldBody) Read(p []byte) (int, error) {
	n, err := b.r.Read(p)
	if err != nil {
		b.released.Store(true)
	}
	return n, err
}

func (b *heldBody) Close() error {
	b.released.Store(true)
	return nil
}

// connectionFree waits a moment for the connection (a real transport waits for ever).
func (t *scriptTransport) connectionFree() bool {
	for i := 0; i < 30; i++ {
		free := true
		for _, b := range t.bodies {
			free = free && b.released.Load()
		}
		if free {
			return true
		}
		time.Sleep(10 * time.Millisecond)
	}
	return false
}

var errScriptExhausted = errors.New("script exhausted")

func (t *scriptTransport) RoundTrip(req *http.Request) (*http.Response, error) {
	t.lasts = append(t.lasts, req.URL.Query().Get("last"))
	if req.Body != nil {
		io.Copy(io.Discard, req.Body)
		req.Body.Close()
	}
	if !t.connectionFree() {
		t.starved = true
		return nil, errors.New("no connection: the body of an earlier response was never read to the end or closed")
	}
	if t.n >= len(t.resps) {
		t.exhausted = true
		return nil, errScriptExhausted
	}
	r := t.resps[t.n]
	t.n++
	if r.status == 0 {
		return nil, errors.New("scripted transport failure")
	}
	h := http.Header{}
	for _, kv := range r.hdr {
		h.Add(kv[0], kv[1])
	}
	resp := &http.Response{
		StatusCode: r.status, Status: fmt.Sprintf("%d %s", r.status, http.StatusText(r.status)),
		Proto: "HTTP/1.1", ProtoMajor: 1, ProtoMinor: 1, Header: h, Request: req,
		ContentLength: int64(len(r.body)),
	}
	if t.noRequest {
		// a RoundTripper is not obliged to fill in Response.Request (http.Transport does; one that serves an
		// http.Handler through httptest.ResponseRecorder does not), and http.Client does not do it for it
		resp.Request = nil
	}
	hb := &heldBody{r: strings.NewReader(r.body)}
	if r.body == "" || req.Method == "HEAD" || r.status < 200 || r.status == 204 || r.status == 304 {
		hb.released.Store(true) // nothing to read: the connection is free at once
	}
	t.bodies = append(t.bodies, hb)
	resp.Body = hb
	if cl := h.Get("Content-Length"); cl != "" {
		// net/http parses Content-Length itself; a malformed value never reaches the client code.
		if n, err := strconv.ParseInt(cl, 10, 64); err == nil && n >= 0 {
			resp.ContentLength = n
		}
	} else if h.Get("X-Unknown-Length") != "" {
		resp.ContentLength = -1
	}
	if req.Method == "HEAD" {
		resp.Body = http.NoBody
	}
	return resp, nil
}

func c18Client(t *scriptTransport, pageSize int) ociregistry.Interface {
	cl, err := ociclient.New("registry.example", &ociclient.Options{Transport: t, ListPageSize: pageSize})
	if err != nil {
		panic(err)
	}
	return cl
}

func withWatchdog(f func() string) string {
	done := make(chan string, 1)
	go func() {
		defer func() {
			if r := recover(); r != nil {
				lastPanic = fmt.Sprint(r)
				done <- "panic"
			}
		}()
		done <- f()
	}()
	select {
	case s := <-done:
		return s
	case <-time.After(5 * time.Second):
		atomic.AddInt32(&hangs, 1)
		return "hang"
	}
}

func (*c18) Impl(c Case) []string {
	out := make([]string, len(c.Lines))
	for i, l := range c.Lines {
		t := strings.Split(l, " ")
		switch t[0] {
		case "pg":
			out[i] = withWatchdog(func() string { return c18Pager(t) })
		case "cl":
			out[i] = withWatchdog(func() string { return c18Op(t) })
			if out[i] != "panic" && out[i] != "hang" && !strings.HasPrefix(out[i], "starved") {
				out[i] = "skip" // the model has no opinion: judged by the oracle through re-execution
			}
		default:
			out[i] = "bad-op"
		}
	}
	return out
}

func c18Pager(t []string) string {
	n, _ := strconv.Atoi(t[1])
	k := -1
	if t[2] != "-" {
		k, _ = strconv.Atoi(t[2])
	}
	tr := &scriptTransport{}
	rest := t[3:]
	var pages [][]string // the items of each scripted page; nil for a failure
	var linked []bool    // whether the page carried a usable Link header
	for len(rest) > 0 {
		switch rest[0] {
		case "F":
			tr.resps = append(tr.resps, scriptedResp{status: 500, body: `{"errors":[{"code":"UNKNOWN"}]}`, hdr: [][2]string{{"Content-Type", "application/json"}}})
			pages, linked = append(pages, nil), append(linked, false)
			rest = rest[1:]
		case "P":
			cnt, _ := strconv.Atoi(rest[2])
			items := []string{}
			for _, it := range rest[3 : 3+cnt] {
				s, _ := untok(it)
				items = append(items, s)
			}
			body, _ := json.Marshal(map[string]any{"repositories": items})
			r := scriptedResp{status: 200, body: string(body)}
			switch rest[1] {
			case "1":
				r.hdr = append(r.hdr, [2]string{"Link", `</v2/_catalog?last=zz&n=1>; rel="next"`})
			case "0":
				r.hdr = append(r.hdr, [2]string{"Link", `no-angle-brackets`})
			}
			tr.resps = append(tr.resps, r)
			pages, linked = append(pages, items), append(linked, rest[1] == "1")
			rest = rest[3+cnt:]
		default:
			return "bad-op"
		}
	}
	cl := c18Client(tr, n)
	var yielded []string
	end := "done"
	calls := 0
	cl.Repositories(context.Background(), "")(func(item string, err error) bool {
		calls++
		if err != nil {
			end = "error"
			if tr.exhausted {
				end = "exhausted"
			}
			return false
		}
		yielded = append(yielded, tok(item))
		if k >= 0 && len(yielded) >= k {
			end = "stopped"
			return false
		}
		return true
	})
	// progress: a request that follows a page without a Link header asks for what comes after that page's
	// last item - as a server reads the query - and not for anything else
	for i := 1; i < len(tr.lasts) && i <= len(pages); i++ {
		prev := pages[i-1]
		if prev == nil || linked[i-1] || len(prev) == 0 {
			continue
		}
		if want := prev[len(prev)-1]; tr.lasts[i] != want {
			return fmt.Sprintf("yield [%s] requests=%d end=%s next-page-asks-after %s instead-of %s", strings.Join(yielded, " "), tr.n, end, tok(tr.lasts[i]), tok(want))
		}
	}
	return fmt.Sprintf("yield [%s] requests=%d end=%s", strings.Join(yielded, " "), tr.n, end)
}

var c18Ops = []string{"GetBlob", "GetBlobRange", "GetManifest", "GetTag", "ResolveBlob", "ResolveManifest", "ResolveTag",
	"PushBlob", "PushBlobChunked", "Resume", "ResumeAsk", "MountBlob", "PushManifest", "DeleteBlob", "DeleteManifest", "DeleteTag",
	"Repositories", "Tags", "Referrers"}

// digest arguments a careless caller might pass: a tag, nothing, a truncated digest, an unknown algorithm
var c18BadDigests = []string{"latest", "", "sha256:abc", "md5:d41d8cd98f00b204e9800998ecf8427e", "sha256", "v1.0", "sha256:" + "E3B0C44298FC1C149AFBF4C8996FB92427AE41E4649B934CA495991B7852B855"}

func c18Op(t []string) string {
	n, _ := strconv.Atoi(t[1])
	op := t[2]
	nresp, _ := strconv.Atoi(t[3])
	tr := &scriptTransport{}
	if strings.Contains(op, "^") {
		// <op>^: the client is configured with a transport that leaves Response.Request unset
		tr.noRequest = true
		op = strings.ReplaceAll(op, "^", "")
	}
	rest := t[4:]
	for i := 0; i < nresp; i++ {
		st, _ := strconv.Atoi(rest[0])
		body, _ := untok(rest[1])
		nh, _ := strconv.Atoi(rest[2])
		r := scriptedResp{status: st, body: body}
		for j := 0; j < nh; j++ {
			k, _ := untok(rest[3+2*j])
			v, _ := untok(rest[4+2*j])
			r.hdr = append(r.hdr, [2]string{k, v})
		}
		tr.resps = append(tr.resps, r)
		rest = rest[3+2*nh:]
	}
	cl := c18Client(tr, n)
	ctx := context.Background()
	dg := ociregistry.Digest("sha256:e3b0c44298fc1c149afbf4c8996fb92427ae41e4649b934ca495991b7852b855")
	if i := strings.IndexByte(op, '~'); i >= 0 {
		// <op>~<k>: the caller passes an ill-formed digest argument; an error is fine, a panic is not
		k, _ := strconv.Atoi(op[i+1:])
		dg = ociregistry.Digest(c18BadDigests[k%len(c18BadDigests)])
		op = op[:i]
	}
	read := func(r ociregistry.BlobReader, err error) error {
		if err != nil {
			return err
		}
		defer r.Close()
		_ = r.Descriptor()
		_, err = io.Copy(io.Discard, io.LimitReader(r, 1<<20))
		return err
	}
	hint := 4
	if i := strings.IndexByte(op, '#'); i >= 0 {
		// <op>#<hint>: the caller's chunk-size hint (a hint: any int may be passed)
		h, _ := strconv.ParseInt(op[i+1:], 10, 64)
		hint = int(h)
		op = op[:i]
	}
	var err error
	switch op {
	case "GetBlob":
		err = read(cl.GetBlob(ctx, "foo", dg))
	case "GetBlobRange":
		err = read(cl.GetBlobRange(ctx, "foo", dg, 1, 3))
	case "GetManifest":
		err = read(cl.GetManifest(ctx, "foo", dg))
	case "GetTag":
		err = read(cl.GetTag(ctx, "foo", "latest"))
	case "ResolveBlob":
		_, err = cl.ResolveBlob(ctx, "foo", dg)
	case "ResolveManifest":
		_, err = cl.ResolveManifest(ctx, "foo", dg)
	case "ResolveTag":
		_, err = cl.ResolveTag(ctx, "foo", "latest")
	case "PushBlob":
		_, err = cl.PushBlob(ctx, "foo", ociregistry.Descriptor{Digest: ociregistry.Digest(sha256Digest([]byte("hello"))), Size: 5, MediaType: "application/octet-stream"}, bytes.NewReader([]byte("hello")))
	case "PushBlobChunked", "Resume", "ResumeAsk":
		var w ociregistry.BlobWriter
		switch op {
		case "PushBlobChunked":
			w, err = cl.PushBlobChunked(ctx, "foo", hint)
		case "Resume":
			w, err = cl.PushBlobChunkedResume(ctx, "foo", "/v2/foo/blobs/uploads/abc", 3, hint)
		default:
			w, err = cl.PushBlobChunkedResume(ctx, "foo", "/v2/foo/blobs/uploads/abc", -1, hint)
		}
		if err == nil {
			// keep using the writer whatever it answers, as a caller that logs and carries on would
			_ = w.ChunkSize()
			_ = w.ID()
			for i := 0; i < 3; i++ {
				if _, werr := w.Write([]byte("hello world")); werr != nil {
					err = werr
				}
				_ = w.Size()
				_ = w.ID()
			}
			if _, cerr := w.Commit(dg); cerr != nil {
				err = cerr
			}
			_ = w.ID()
			w.Close()
			w.Cancel()
		}
	case "MountBlob":
		_, err = cl.MountBlob(ctx, "bar", "foo", dg)
	case "PushManifest":
		_, err = cl.PushManifest(ctx, "foo", "latest", []byte("{}"), "application/vnd.oci.image.manifest.v1+json")
	case "DeleteBlob":
		err = cl.DeleteBlob(ctx, "foo", dg)
	case "DeleteManifest":
		err = cl.DeleteManifest(ctx, "foo", dg)
	case "DeleteTag":
		err = cl.DeleteTag(ctx, "foo", "latest")
	case "Repositories":
		_, err = ociregistry.All(cl.Repositories(ctx, ""))
	case "Tags":
		_, err = ociregistry.All(cl.Tags(ctx, "foo", "a"))
	case "Referrers":
		_, err = ociregistry.All(cl.Referrers(ctx, "foo", dg, ""))
	default:
		return "bad-op"
	}
	// the caller goes on using the client: with one connection, what the operation left open starves it
	if !tr.starved {
		tr.resps = append(tr.resps[:tr.n:tr.n], scriptedResp{status: 200, hdr: [][2]string{{"Content-Type", "application/octet-stream"}, {"Docker-Content-Digest", string(dg)}, {"Content-Length", "1"}}})
		cl.ResolveBlob(ctx, "foo", dg)
	}
	if tr.starved {
		return fmt.Sprintf("starved requests=%d", tr.n)
	}
	if err != nil {
		return fmt.Sprintf("err requests=%d", tr.n)
	}
	return fmt.Sprintf("ok requests=%d", tr.n)
}

// c18RespAt: status and headers (lower-cased names) of the k-th scripted response of a `cl` line.
func c18RespAt(t []string, k int) (int, map[string]string) {
	hdr := map[string]string{}
	if len(t) < 4 {
		return 0, hdr
	}
	rest := t[4:]
	for i := 0; len(rest) >= 3; i++ {
		st, _ := strconv.Atoi(rest[0])
		nh, _ := strconv.Atoi(rest[2])
		if len(rest) < 3+2*nh {
			break
		}
		if i == k {
			for j := 0; j < nh; j++ {
				name, _ := untok(rest[3+2*j])
				v, _ := untok(rest[4+2*j])
				hdr[strings.ToLower(name)] = v
			}
			return st, hdr
		}
		rest = rest[3+2*nh:]
	}
	return 0, hdr
}

// ---- generation ----

func c18Resp(rng *RNG) string {
	status := pick(rng, []int{200, 200, 201, 202, 204, 206, 301, 307, 400, 401, 404, 416, 429, 500, 503, 0, 100, 299, 600})
	bodies := []string{"", "{}", `{"repositories":["a","b"]}`, `{"name":"foo","tags":["x","y"]}`, `{"tags":null}`, `{"manifests":[{"digest":"x"}]}`,
		`{"errors":[{"code":"NAME_UNKNOWN","message":"m"}]}`, `{"errors":[]}`, `{"errors":null}`, "not json", "{", `[1,2]`, "hello", strings.Repeat("x", 9000), `{"repositories":[1,2]}`, `null`}
	body := pick(rng, bodies)
	var hdr [][2]string
	add := func(k, v string) { hdr = append(hdr, [2]string{k, v}) }
	if rng.Chance(2, 3) {
		add("Content-Type", pick(rng, []string{"application/json", "application/json; charset=utf-8", "text/plain", "", "application/vnd.oci.image.manifest.v1+json", ";;;", "application/x+json"}))
	}
	if rng.Chance(1, 2) {
		add("Location", pick(rng, []string{"/v2/foo/blobs/uploads/abc", "", "http://other.example/x?y=z", "%zz", "relative/path", "?", "/v2/foo/blobs/uploads/abc?x=1", "::"}))
	}
	if rng.Chance(1, 2) {
		add("Docker-Content-Digest", pick(rng, []string{"sha256:e3b0c44298fc1c149afbf4c8996fb92427ae41e4649b934ca495991b7852b855", "sha256:" + strings.Repeat("0", 64), "", "bogus", "md5:abc", "sha512:" + strings.Repeat("a", 128), "sha256:ABC"}))
	}
	if rng.Chance(1, 3) {
		add("Range", pick(rng, []string{"0-0", "0-10", "", "5-3", "a-b", "1-10", "0-99999999999999999999", "-", "0-9223372036854775806"}))
	}
	if rng.Chance(1, 3) {
		add("Content-Range", pick(rng, []string{"bytes 1-2/10", "bytes 1-2/", "bytes 1-2", "", "bytes */x", "bytes 1-2/-5", "1-2/99999999999999999999"}))
	}
	if rng.Chance(1, 3) {
		add("Content-Length", pick(rng, []string{"0", "5", "3", "100000", "1", "131071", "131072", "131073", "200000"})) // the client buffers manifests below 128 KiB
	}
	if rng.Chance(1, 6) {
		add("X-Unknown-Length", "1")
	}
	if rng.Chance(1, 3) {
		add("OCI-Chunk-Min-Length", pick(rng, []string{"0", "1", "8", "-5", "abc", "9223372036854775807", "99999999999999999999", ""}))
	}
	if rng.Chance(1, 3) {
		add("Link", pick(rng, []string{`</v2/_catalog?last=b&n=2>; rel="next"`, "<", "<>", "no brackets", `<%zz>`, `<http://other.example/v2/_catalog>`, ""}))
	}
	s := fmt.Sprintf("%d %s %d", status, tok(body), len(hdr))
	for _, kv := range hdr {
		s += " " + tok(kv[0]) + " " + tok(kv[1])
	}
	return s
}

func (*c18) Gen(rng *RNG, tier string) []Case {
	var cases []Case
	// pager scripts
	np := 1500
	if tier == "thorough" {
		np = 40000
	}
	for i := 0; i < np; i++ {
		n := pick(rng, []int{-1, 0, 1, 2, 3, 1000})
		k := "-"
		if rng.Chance(1, 3) {
			k = strconv.Itoa(1 + rng.Intn(5))
		}
		line := fmt.Sprintf("pg %d %s", n, k)
		for a := rng.Intn(5); a >= 0; a-- {
			if rng.Chance(1, 6) {
				line += " F"
				continue
			}
			cnt := rng.Intn(4)
			if n > 0 && n < 4 && rng.Chance(1, 2) {
				cnt = n // a full page keeps the iteration going
			}
			line += " P " + pick(rng, []string{"-", "-", "1", "1", "0"}) + " " + strconv.Itoa(cnt)
			for j := 0; j < cnt; j++ {
				line += " " + tok(pick(rng, []string{"a", "b", "c", "zz", "", "a/b", "a+b", "a b", "x&n=9", "100%", "é", "a%2Fb", "+"}))
			}
		}
		cases = append(cases, Case{Lines: []string{line}})
	}
	// directed: resuming by asking the server for the offset, with every chunk-size / range answer
	for _, min := range []string{"", "0", "1", "8", "-5", "abc", "9223372036854775807", "99999999999999999999", "4611686018427387904"} {
		for _, rg := range []string{"0-0", "0-10", "", "5-3", "a-b", "1-10"} {
			for _, loc := range []string{"/v2/foo/blobs/uploads/abc", "", "%zz"} {
				hdr := fmt.Sprintf("3 %s %s %s %s %s %s", tok("Location"), tok(loc), tok("Range"), tok(rg), tok("OCI-Chunk-Min-Length"), tok(min))
				ok202 := fmt.Sprintf("202 x 2 %s %s %s %s", tok("Location"), tok("/v2/foo/blobs/uploads/abc"), tok("Range"), tok("0-10"))
				line := fmt.Sprintf("cl 0 ResumeAsk 4 204 x %s %s %s 201 x 0", hdr, ok202, ok202)
				cases = append(cases, Case{Tag: "directed-resume", Lines: []string{line}})
				line = fmt.Sprintf("cl 0 PushBlobChunked 4 202 x %s %s %s 201 x 0", hdr, ok202, ok202)
				cases = append(cases, Case{Tag: "directed-start", Lines: []string{line}})
			}
		}
	}
	// directed: a manifest too large to buffer and without a digest header makes the client ask again
	// with HEAD; every answer to that second request
	for _, op := range []string{"GetTag", "GetManifest", "GetBlob"} {
		for _, cl := range []string{"131071", "131072", "131073", "200000"} {
			for _, ct := range []string{"application/vnd.oci.image.manifest.v1+json", ""} {
				get := fmt.Sprintf("200 %s 2 %s %s %s %s", tok("{}"), tok("Content-Length"), tok(cl), tok("Content-Type"), tok(ct))
				for _, head := range []string{
					"200 x 0",
					fmt.Sprintf("200 x 1 %s %s", tok("Content-Length"), tok(cl)),
					fmt.Sprintf("200 x 2 %s %s %s %s", tok("Content-Length"), tok(cl), tok("Docker-Content-Digest"), tok("sha256:e3b0c44298fc1c149afbf4c8996fb92427ae41e4649b934ca495991b7852b855")),
					fmt.Sprintf("200 x 2 %s %s %s %s", tok("Content-Length"), tok(cl), tok("Docker-Content-Digest"), tok("bogus")),
					fmt.Sprintf("200 x 2 %s %s %s %s", tok("Content-Length"), tok(cl), tok("Docker-Content-Digest"), tok("")),
					fmt.Sprintf("200 x 1 %s %s", tok("Docker-Content-Digest"), tok("sha256:"+strings.Repeat("0", 64))),
					"404 x 0", "500 " + tok("not json") + " 0", "0 x 0", "204 x 0",
				} {
					cases = append(cases, Case{Tag: "directed-head-fallback", Lines: []string{fmt.Sprintf("cl 0 %s 2 %s %s", op, get, head)}})
				}
			}
		}
	}
	// directed: an ill-formed digest argument (a tag passed where a digest is meant, ...) against answers with and
	// without a digest header: an error or a result, never a panic
	for _, op := range []string{"GetBlob", "GetBlobRange", "GetManifest", "ResolveBlob", "ResolveManifest", "MountBlob", "DeleteBlob", "DeleteManifest", "Referrers", "PushBlobChunked"} {
		for k := range c18BadDigests {
			for _, resp := range []string{
				fmt.Sprintf("200 %s 2 %s %s %s %s", tok("{}"), tok("Content-Length"), tok("2"), tok("Content-Type"), tok("application/json")),
				fmt.Sprintf("200 %s 3 %s %s %s %s %s %s", tok("{}"), tok("Content-Length"), tok("2"), tok("Content-Type"), tok("application/json"), tok("Docker-Content-Digest"), tok("sha256:44136fa355b3678a1146ad16f7e8649e94fb4fc21fe77e8310c060f61caaff8a")),
				fmt.Sprintf("206 %s 2 %s %s %s %s", tok("{}"), tok("Content-Length"), tok("2"), tok("Content-Range"), tok("bytes 1-2/5")),
				fmt.Sprintf("201 x 1 %s %s", tok("Location"), tok("/v2/foo/blobs/uploads/abc")),
				fmt.Sprintf("202 x 2 %s %s %s %s", tok("Location"), tok("/v2/foo/blobs/uploads/abc"), tok("Range"), tok("0-0")),
				"404 x 0",
			} {
				n := 1
				line := fmt.Sprintf("cl 0 %s~%d", op, k)
				if op == "PushBlobChunked" {
					n = 6
				}
				line += fmt.Sprintf(" %d", n)
				for j := 0; j < n; j++ {
					line += " " + resp
				}
				cases = append(cases, Case{Tag: "directed-bad-digest-argument", Lines: []string{line}})
			}
		}
	}
	// directed: a transport that does not fill in Response.Request (a client configuration): error answers, Location
	// answers and paged listings are where the client used to look at it
	for _, op := range []string{"GetBlob", "ResolveBlob", "GetTag", "PushBlob", "PushBlobChunked", "ResumeAsk", "MountBlob", "Tags", "Repositories", "Referrers", "DeleteTag", "PushManifest"} {
		for _, resp := range []string{
			"404 x 0", "401 " + tok(`{"errors":[{"code":"UNAUTHORIZED"}]}`) + " 0", "500 " + tok("oops") + " 0",
			fmt.Sprintf("202 x 2 %s %s %s %s", tok("Location"), tok("/v2/foo/blobs/uploads/abc"), tok("Range"), tok("0-0")),
			fmt.Sprintf("201 x 1 %s %s", tok("Location"), tok("/v2/foo/blobs/uploads/abc")),
			fmt.Sprintf("200 %s 1 %s %s", tok(`{"name":"foo","tags":["a","b"]}`), tok("Link"), tok(`</v2/foo/tags/list?n=2&last=b>; rel="next"`)),
			fmt.Sprintf("200 %s 0", tok(`{"repositories":["a","b"]}`)),
		} {
			line := fmt.Sprintf("cl 2 %s^ 4 %s %s %s %s", op, resp, resp, resp, resp)
			cases = append(cases, Case{Tag: "directed-transport-without-response-request", Lines: []string{line}})
		}
	}
	// directed: chunk-size hints of every magnitude (the interface calls the argument a hint; it must not be trusted
	// as an allocation size)
	for _, op := range []string{"PushBlobChunked", "Resume", "ResumeAsk"} {
		for _, h := range []string{"-9223372036854775808", "-1", "0", "1", "1125899906842624", "9223372036854775807"} {
			ok := fmt.Sprintf("202 x 2 %s %s %s %s", tok("Location"), tok("/v2/foo/blobs/uploads/abc"), tok("Range"), tok("0-0"))
			if op == "ResumeAsk" {
				ok = fmt.Sprintf("204 x 2 %s %s %s %s", tok("Location"), tok("/v2/foo/blobs/uploads/abc"), tok("Range"), tok("0-2"))
			}
			line := fmt.Sprintf("cl 0 %s#%s 6", op, h)
			for j := 0; j < 5; j++ {
				line += " " + ok
			}
			line += fmt.Sprintf(" 201 x 1 %s %s", tok("Location"), tok("/v2/foo/blobs/sha256:e3b0c44298fc1c149afbf4c8996fb92427ae41e4649b934ca495991b7852b855"))
			cases = append(cases, Case{Tag: "directed-chunk-size-hint", Lines: []string{line}})
		}
	}
	// arbitrary responses for every operation
	nc := 4000
	if tier == "thorough" {
		nc = 100000
	}
	for i := 0; i < nc; i++ {
		op := pick(rng, c18Ops)
		nresp := 1 + rng.Intn(4)
		line := fmt.Sprintf("cl %d %s %d", pick(rng, []int{-1, 0, 1, 2, 1000}), op, nresp)
		for j := 0; j < nresp; j++ {
			line += " " + c18Resp(rng)
		}
		cases = append(cases, Case{Lines: []string{line}})
	}
	return cases
}

func (*c18) Oracle(c Case, impl []string) []Failure {
	var fs []Failure
	for i, l := range c.Lines {
		if i >= len(impl) {
			break
		}
		got := impl[i]
		t := strings.Split(l, " ")
		if got == "panic" || got == "hang" {
			class := "client-" + got
			detail := lastPanic
			if t[0] == "pg" {
				if n, _ := strconv.Atoi(t[1]); n < 0 {
					class += ":negative-page-size"
				} else {
					class += ":pager"
				}
			} else {
				class += ":" + t[2]
				if strings.Contains(l, tok("OCI-Chunk-Min-Length")) && strings.Contains(detail, "makeslice") {
					class += ":chunk-min-length"
				}
				if n, _ := strconv.Atoi(t[1]); n < 0 && (t[2] == "Repositories" || t[2] == "Tags") && strings.Contains(detail, "index out of range") {
					class += ":negative-page-size"
				}
			}
			fs = append(fs, Failure{Class: class, Oracle: "client_total", Index: i, Expected: "a result or an error", Observed: got, Detail: "panic value: " + detail})
		}
		if t[0] == "cl" && strings.HasPrefix(got, "starved") {
			// with a transport limited to one connection per host, the request that follows is never sent:
			// that operation does not return
			class := "client-hang:connection-never-released:" + t[2]
			sent, _ := strconv.Atoi(strings.TrimPrefix(got, "starved requests="))
			if st, hdr := c18RespAt(t, sent-1); t[2] == "GetTag" && st == 200 && hdr["docker-content-digest"] == "" {
				if n, err := strconv.ParseInt(hdr["content-length"], 10, 64); err == nil && n > 128*1024 {
					// the digest of a large manifest read by tag is fetched with a HEAD request while the body of
					// the GET is still open (it is what the caller is given): finding F30
					class += ":large-manifest-head"
				}
			}
			fs = append(fs, Failure{Class: class, Oracle: "client_total", Index: i,
				Expected: "every response body is read to the end or closed by the time another request is made", Observed: got})
		}
		if t[0] == "pg" && strings.Contains(got, " next-page-asks-after ") {
			// asking again for what it was just given is how a pager loops without progress against a
			// server whose answers are each finite
			fs = append(fs, Failure{Class: "client-pager-no-progress", Oracle: "pager_progress", Index: i, Expected: "the next request asks for what follows the last item received", Observed: got})
		}
	}
	return fs
}

func (*c18) NonTrivial(c Case, impl []string) (bool, string) {
	t := strings.Split(c.Lines[0], " ")
	if t[0] == "pg" {
		if len(impl) > 0 && strings.Contains(impl[0], "end=") {
			return true, "pager-" + impl[0][strings.Index(impl[0], "end=")+4:]
		}
		return true, "pager"
	}
	return true, "op-" + t[2]
}
