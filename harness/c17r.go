package main

import (
	"strings"

	"cuelabs.dev/go/oci/ociregistry/ociref"
)

// C17R: the regular expressions of ociref/reference.go, as the translator regenerates them (regexp/syntax trees →
// Generated/RefRe.lean) and as a verified derivative matcher runs them (Regex.lean, matcher_correct), against Go's
// regexp package observed through the public API:
//
//	rere host <s>  → ociref.IsValidHost(s)            = hostPat.MatchString
//	rere repo <s>  → ociref.IsValidRepository(s)      = repoPat.MatchString
//	rere ref <s>   → ParseRelative(s) does not fail with "invalid reference syntax"  = referencePat matched
//
// The theorems of Props/C17R.lean say the hand-written recognisers of Ref.lean accept exactly the languages of these
// trees; this engine is what ties the trees (and the byte-level reading of rune classes) to what Go's regexp does.
func init() { engines["C17R"] = func() Engine { return &c17r{} } }

type c17r struct{}

func (*c17r) UsesModel() bool { return true }

func (*c17r) Impl(c Case) []string {
	out := make([]string, len(c.Lines))
	for i, l := range c.Lines {
		out[i] = guard(func() string {
			t := strings.Split(l, " ")
			if len(t) != 3 || t[0] != "rere" {
				return "bad-op"
			}
			s, ok := untok(t[2])
			if !ok {
				return "bad-op"
			}
			switch t[1] {
			case "host":
				return b01(ociref.IsValidHost(s))
			case "repo":
				return b01(ociref.IsValidRepository(s))
			case "ref":
				_, err := ociref.ParseRelative(s)
				return b01(!(err != nil && strings.HasPrefix(err.Error(), "invalid reference syntax")))
			}
			return "bad-op"
		})
	}
	return out
}

func (*c17r) Gen(rng *RNG, tier string) []Case {
	var cases []Case
	add := func(s string) {
		cases = append(cases, Case{Lines: []string{"rere host " + tok(s), "rere repo " + tok(s), "rere ref " + tok(s)}})
	}
	for _, s := range []string{"", "a", "/", ":", "@", "a/", "/a", "a//b", "a:", "a@", "a:@", "a:b@", "foo.com/bar", "foo.com", "test.com:5000",
		"[::1]:5000/repo", "[::1]", "[]", "[:]:1", "a\n", "a:b\n", "a@b\nc", "a:b\nc", "a:\n", "a@\n", "a__b", "a___b", "a_.b", "a--b", "a-", "-a", "a..b",
		// bytes that are not ASCII: one rune of [^@] or of . is one to four bytes, an invalid byte is U+FFFD of width one
		"a:\xc3\xa9", "a:\xff", "a@\xff", "a:\xe2\x82", "a@\xf0\x9f\x98\x80", "a:t@\xc3", "\xc3\xa9", "a/\xc3\xa9", "a:@\xff", "a:\xff@", "a@\n\xff",
		"a:é@é", "é.com/a", "a.com:8\xff/a", "A.b/c", "a.B/c", "a.b:1/c:T@D"} {
		add(s)
	}
	n := 4000
	if tier == "thorough" {
		n = 100000
	}
	for i := 0; i < n; i++ {
		h, r, tg, d := genHost(rng), genRepo(rng), genTag(rng), genDigest(rng)
		switch rng.Intn(8) {
		case 0:
			h = mutate(rng, h)
		case 1:
			r = mutate(rng, r)
		case 2:
			r = genDirtyRepo(rng)
		case 3:
			tg = mutate(rng, tg) + pick(rng, []string{"", "\xff", "é", "\n", "@"})
		case 4:
			d = mutate(rng, d) + pick(rng, []string{"", "\xff", "é", "\n"})
		}
		add(h)
		add(r)
		s := r
		if rng.Chance(3, 4) {
			s = h + "/" + r
		}
		if rng.Chance(2, 3) {
			s += ":" + tg
		}
		if rng.Chance(1, 2) {
			s += "@" + d
		}
		if rng.Chance(1, 6) {
			s = mutate(rng, s)
		}
		add(s)
	}
	alpha := []byte("ab09AZ./:@-_[] \n\xff\xc3\xa9")
	m := n / 2
	for i := 0; i < m; i++ {
		b := make([]byte, rng.Intn(10))
		for j := range b {
			b[j] = alpha[rng.Intn(len(alpha))]
		}
		add(string(b))
	}
	return cases
}

// The oracle is the diff itself: a tree that Go's regexp and the verified matcher read differently is a translator
// (or byte-level semantics) error, not a violation of the property by the code; the check reports it as a broken
// correspondence.
func (*c17r) Oracle(c Case, impl []string) []Failure { return nil }

func (*c17r) NonTrivial(c Case, impl []string) (bool, string) {
	k := ""
	for _, o := range impl {
		k += o
	}
	return true, "host/repo/ref=" + k
}
