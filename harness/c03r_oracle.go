package main

import (
	"encoding/json"
	"fmt"
	"net/url"
	"sort"
	"strconv"
	"strings"
	"unicode/utf8"

	ocispec "github.com/opencontainers/image-spec/specs-go/v1"

	"cuelabs.dev/go/oci/ociregistry/ociref"
)

// Oracles of the C03R engine: the property stated directly on the implementation's outputs, without the Lean model.
//
//   client_total          no client call panics or hangs, whatever the answers
//   server_total          the server panics only when the backend's upload ID is empty or not UTF-8 (MustConstruct)
//   mandatory_header      an answer that lacks a header the call cannot do without is refused, never defaulted
//   round_trip            client over server over a backend whose answer is consistent: the caller sees the backend's
//                         answer, up to what the wire cannot carry (stated per call below)
//   listing_round_trip    paging through the server yields exactly the backend's listing after the start point

func respFail(class, oracle string, i int, expected, observed, detail string) Failure {
	return Failure{Class: class, Oracle: oracle, Index: i, Expected: expected, Observed: observed, Detail: detail}
}

func (*c03r) Oracle(c Case, impl []string) []Failure {
	var fs []Failure
	for i, l := range c.Lines {
		if i >= len(impl) {
			break
		}
		got := impl[i]
		t := strings.Split(l, " ")
		if len(t) < 2 || t[0] != "resp" {
			continue
		}
		switch t[1] {
		case "cli", "clilist", "rt", "rtlist", "clirefs", "rtrefs":
			if got == "panic" || got == "hang" || strings.HasPrefix(got, "panic") {
				name := t[1]
				if t[1] == "cli" && len(t) > 2 {
					name += ":" + t[2]
				}
				if t[1] == "rt" && len(t) > 4 {
					name = "rt:" + t[4]
				}
				fs = append(fs, respFail("resp-client-"+got+":"+name, "client_total", i, "a result or an error", got, "panic value: "+lastPanic))
				continue
			}
		}
		switch t[1] {
		case "srv":
			fs = append(fs, respOracleSrv(t[2:], got, i)...)
		case "cli":
			fs = append(fs, respOracleCli(t[2:], got, i)...)
		case "rt":
			fs = append(fs, respOracleRT(t[2:], got, i)...)
		case "rtlist":
			fs = append(fs, respOracleRTList(t[2:], got, i)...)
		case "rtrefs":
			// the referrers the backend yields are the referrers the caller sees (media type, digest, size)
			r := &rtoks{t: t[2:]}
			o := r.opts()
			k := r.n()
			want := fmt.Sprintf("descs %d", k)
			for j := 0; j < k && !r.bad; j++ {
				d := r.desc()
				want += fmt.Sprintf(" %s %s %d", tok(d.mt), tok(d.dg), d.size)
			}
			if !r.bad && o.bits[0] != '1' && got != want {
				fs = append(fs, respFail("resp-round-trip:referrers", "round_trip", i, want, got, ""))
			}
		}
	}
	return fs
}

// parseSrvOut reads an Impl output of a srv line: status, headers, body (ok=false for err / panic lines).
func parseSrvOut(got string) (status int, hdr map[string]string, body string, ok bool) {
	t := strings.Split(got, " ")
	if len(t) < 6 || t[1] != "resp" {
		return 0, nil, "", false
	}
	status, _ = strconv.Atoi(t[2])
	body, _ = untok(t[4])
	n, _ := strconv.Atoi(t[5])
	hdr = map[string]string{}
	for j := 0; j < n && 7+2*j < len(t); j++ {
		k, _ := untok(t[6+2*j])
		v, _ := untok(t[7+2*j])
		hdr[k] = v
	}
	return status, hdr, body, true
}

// respOracleSrv states what the distribution protocol (and the client on the other side) needs of each success
// answer, directly on the recorded response: status, mandated headers and their values, body.
func respOracleSrv(t []string, got string, i int) []Failure {
	r := &rtoks{t: t}
	o := r.opts()
	q := r.req()
	b := r.bres()
	if r.bad {
		return nil
	}
	if strings.HasSuffix(got, " panic") {
		if (b.kind == "writer") && (b.id == "" || !utf8.ValidString(b.id)) {
			return nil // MustConstruct: an upload ID the request codec cannot carry
		}
		return []Failure{respFail("resp-server-panic:"+q.kind, "server_total", i, "a response", got, "panic value: "+lastPanic)}
	}
	status, hdr, body, ok := parseSrvOut(got)
	var fs []Failure
	bad := func(what, want, have string) {
		fs = append(fs, respFail("resp-server:"+q.kind+":"+what, "server_answer", i, want, have, got))
	}
	need := func(name, want string) {
		if have, present := hdr[name]; !present || have != want {
			if !present {
				have = "<absent>"
			}
			bad(name, want, have)
		}
	}
	absent := func(name string) {
		if have, present := hdr[name]; present {
			bad(name, "<absent>", have)
		}
	}
	wantStatus := func(st int) bool {
		if !ok || status != st {
			bad("status", strconv.Itoa(st), got)
			return false
		}
		return true
	}
	uploadLoc := "/v2/" + q.repo + "/blobs/uploads/" + b64url(b.id)
	size := strconv.FormatInt(b.d.size, 10)
	switch q.kind {
	case "ReqBlobHead":
		if wantStatus(200) {
			need("Content-Length", size)
			need("Docker-Content-Digest", b.d.dg)
		}
	case "ReqBlobGet":
		switch {
		case q.rng == "":
			if wantStatus(200) {
				need("Content-Length", size)
				need("Docker-Content-Digest", q.dg)
				need("Content-Type", b.d.mt)
				if body != b.content {
					bad("body", tok(b.content), tok(body))
				}
			}
		case ok && status == 206:
			var s0, e0, n0 int64
			if _, err := fmt.Sscanf(hdr["Content-Range"], "bytes %d-%d/%d", &s0, &e0, &n0); err != nil {
				bad("Content-Range", "bytes <start>-<end>/<size>", hdr["Content-Range"])
			} else if n0 != b.d.size || strconv.FormatInt(e0-s0+1, 10) != hdr["Content-Length"] {
				bad("Content-Range", "a range of Content-Length bytes out of "+size, hdr["Content-Range"]+" with Content-Length "+hdr["Content-Length"])
			}
			need("Docker-Content-Digest", q.dg)
			if body != b.content {
				bad("body", tok(b.content), tok(body))
			}
		}
	case "ReqManifestGet", "ReqManifestHead":
		if wantStatus(200) {
			need("Content-Length", size)
			need("Content-Type", b.d.mt)
			omitted := o.bits[2] == '1' && (q.kind == "ReqManifestGet" || q.tag == "")
			if omitted {
				absent("Docker-Content-Digest")
			} else {
				need("Docker-Content-Digest", b.d.dg)
			}
			if q.kind == "ReqManifestGet" && body != b.content {
				bad("body", tok(b.content), tok(body))
			}
		}
	case "ReqBlobStartUpload", "ReqBlobUploadBlob":
		if q.kind == "ReqBlobUploadBlob" && o.bits[1] != '1' {
			if wantStatus(201) {
				need("Location", "/v2/"+q.repo+"/blobs/"+b.d.dg)
				need("Docker-Content-Digest", b.d.dg)
			}
		} else if wantStatus(202) {
			need("Location", uploadLoc)
			need("Range", "0-0")
			need("Oci-Chunk-Min-Length", strconv.FormatInt(b.chunk, 10))
		}
	case "ReqBlobUploadInfo", "ReqBlobUploadChunk":
		st := 204
		if q.kind == "ReqBlobUploadChunk" {
			st = 202
		}
		if wantStatus(st) {
			need("Location", uploadLoc)
			need("Range", ociverif_RangeString(0, b.size))
		}
	case "ReqBlobCompleteUpload":
		if wantStatus(201) {
			need("Location", "/v2/"+q.repo+"/blobs/"+b.d.dg)
			need("Docker-Content-Digest", b.d.dg)
		}
	case "ReqBlobMount":
		if wantStatus(201) {
			need("Location", "/v2/"+q.repo+"/blobs/"+q.dg)
			need("Docker-Content-Digest", b.d.dg)
		}
	case "ReqBlobDelete", "ReqManifestDelete":
		wantStatus(202)
	case "ReqManifestPut":
		decodes := q.ctype == mtManifest || q.ctype == mtIndex
		// the backend judges the body (fix F25): a body that does not decode is accepted when the
		// backend accepts it, and then simply carries no subject
		accepted := q.tag != "" || q.dg == sha256Digest([]byte(q.body))
		if !accepted {
			if ok {
				bad("status", "an error", got)
			}
			break
		}
		if wantStatus(201) {
			need("Location", "/v2/"+q.repo+"/manifests/"+b.d.dg)
			need("Docker-Content-Digest", b.d.dg)
			if decodes && q.subject != "-" && q.subject != "!" {
				sj, _ := untok(q.subject)
				need("Oci-Subject", sj)
			} else {
				absent("Oci-Subject")
			}
		}
	case "ReqTagsList", "ReqCatalogList":
		if o.maxPage > 0 && q.listN > o.maxPage {
			if ok {
				bad("status", "an error: the page size exceeds the server's limit", got)
			}
			break
		}
		if !wantStatus(200) {
			break
		}
		page, truncated := b.items, false
		if q.listN > 0 && int64(len(page)) > q.listN {
			page, truncated = page[:q.listN], true
		}
		what := "catalog"
		if q.kind == "ReqTagsList" {
			what = "tags"
		}
		wantDec := strconv.Itoa(len(page))
		for _, it := range page {
			wantDec += " " + tok(it)
		}
		if dec := respListDec(what, body); dec != wantDec {
			bad("body", wantDec, dec+" from "+body)
		}
		need("Content-Length", strconv.Itoa(len(body)))
		if truncated && o.bits[3] != '1' {
			link := hdr["Link"]
			target, rest, cut := strings.Cut(strings.TrimPrefix(link, "<"), ">")
			u, err := url.Parse(target)
			if !strings.HasPrefix(link, "<") || !cut || err != nil || !strings.Contains(rest, `rel="next"`) {
				bad("Link", `<url>;rel="next"`, link)
				break
			}
			vs := u.Query()
			if u.Path != q.path || vs.Get("last") != page[len(page)-1] || len(vs["last"]) != 1 || vs.Get("n") != strconv.FormatInt(q.listN, 10) {
				bad("Link", "the same path, n="+strconv.FormatInt(q.listN, 10)+", last="+page[len(page)-1], link)
			}
			for _, kv := range q.query {
				if kv[0] != "last" && vs.Get(kv[0]) == "" && kv[1] != "" {
					bad("Link", "the other query parameters kept", link)
				}
			}
		} else {
			absent("Link")
		}
	case "ReqReferrersList":
		if o.bits[0] == '1' {
			if ok {
				bad("status", "an error: the referrers API is switched off", got)
			}
			break
		}
		if wantStatus(200) {
			need("Content-Type", mtIndex)
			need("Content-Length", strconv.Itoa(len(body)))
			var idx ocispec.Index
			if err := json.Unmarshal([]byte(body), &idx); err != nil {
				bad("body", "an image index", body)
				break
			}
			have := ""
			for _, d := range idx.Manifests {
				have += fmt.Sprintf("%s %s %d;", d.MediaType, d.Digest, d.Size)
			}
			want := ""
			for _, d := range b.descs {
				want += fmt.Sprintf("%s %s %d;", d.mt, d.dg, d.size)
			}
			if have != want || idx.MediaType != mtIndex || idx.SchemaVersion != 2 {
				bad("body", want, have)
			}
		}
	}
	return fs
}

// respOracleCli: a missing mandatory header is refused.
func respOracleCli(t []string, got string, i int) []Failure {
	r := &rtoks{t: t}
	c := r.call()
	n := r.n()
	var as []respAnswer
	for j := 0; j < n && !r.bad; j++ {
		as = append(as, r.answer())
	}
	if r.bad || len(as) == 0 {
		return nil
	}
	a := as[0]
	has := func(k string) bool { return a.get(k) != "" }
	ok := !strings.HasPrefix(got, "err ")
	need := ""
	switch c.name {
	case "getBlobRange":
		if !(c.o0 == 0 && c.o1 < 0) && a.status == 206 && !has("Content-Range") {
			need = "Content-Range"
		}
		if !(c.o0 == 0 && c.o1 < 0) && a.status == 200 && a.cl < 0 {
			need = "Content-Length"
		}
	case "getBlob", "getManifest", "getTag", "resolveBlob", "resolveManifest", "resolveTag":
		if a.status == 200 && a.cl < 0 {
			need = "Content-Length"
		}
		if c.name == "resolveTag" && a.status == 200 && !has("Docker-Content-Digest") {
			need = "Docker-Content-Digest"
		}
	case "pushBlob", "pushBlobChunked":
		if a.status == 202 && !has("Location") {
			need = "Location"
		}
	case "flushPatch":
		if a.status == 202 && !has("Location") {
			need = "Location"
		}
	case "commit":
		if a.status == 201 && !has("Location") {
			need = "Location"
		}
	case "resumeAsk":
		if a.status == 204 && !has("Location") {
			need = "Location"
		}
		if a.status == 204 && !has("Range") {
			need = "Range"
		}
	}
	if need != "" && ok {
		return []Failure{respFail("resp-defaulted:"+c.name+":"+need, "mandatory_header", i, "an error: the answer has no "+need, got, "")}
	}
	// an answer with a status the call does not expect is refused
	expected := map[string][]int{
		"getBlob": {200}, "getManifest": {200}, "getTag": {200}, "resolveBlob": {200}, "resolveManifest": {200}, "resolveTag": {200},
		"getBlobRange": {200, 206}, "pushManifest": {201}, "mountBlob": {201}, "pushBlob": {202}, "pushBlobChunked": {202},
		"resumeAsk": {204}, "flushPatch": {202}, "commit": {201}, "delete": {202},
	}
	if c.name == "getBlobRange" && c.o0 == 0 && c.o1 < 0 {
		expected["getBlobRange"] = []int{200}
	}
	if !(c.name == "pushManifest" && c.mt == "") {
		found := false
		for _, st := range expected[c.name] {
			found = found || st == a.status
		}
		if !found && ok {
			return []Failure{respFail("resp-status-accepted:"+c.name, "unexpected_status", i, "an error: status "+strconv.Itoa(a.status)+" is not an answer to this call", got, "")}
		}
	}
	// a digest header that is not a digest is refused wherever the descriptor is built from the answer
	switch c.name {
	case "getBlob", "getManifest", "getTag", "resolveBlob", "resolveManifest", "resolveTag", "getBlobRange", "mountBlob":
		if dg := a.get("Docker-Content-Digest"); dg != "" && !ociref.IsValidDigest(dg) && ok {
			return []Failure{respFail("resp-bad-digest-accepted:"+c.name, "bad_digest", i, "an error: the digest header is not a digest", got, "")}
		}
	}
	return nil
}

// respExpectRT is the outcome the property demands of a composed call when the backend's answer is consistent with
// the request; "" = no demand (the answer is not consistent, or the case is an acknowledged limit of the protocol).
func respExpectRT(x respRT) string {
	c := x.c
	b := x.bs[0]
	orOctet := func(mt string) string {
		if mt == "" {
			return mtOctet // an empty Content-Type reads as the default
		}
		return mt
	}
	descOut := func(mt, dg string, size int64) string { return fmt.Sprintf("desc %s %s %d", tok(mt), tok(dg), size) }
	switch c.name {
	case "getBlob", "getManifest":
		if b.d.dg != c.dg || b.d.size != int64(len(b.content)) || sha256Digest([]byte(b.content)) != c.dg {
			return ""
		}
		return fmt.Sprintf("reader %s %s %d eof %s", tok(orOctet(b.d.mt)), tok(c.dg), b.d.size, tok(b.content))
	case "getTag":
		if b.d.size != int64(len(b.content)) || sha256Digest([]byte(b.content)) != b.d.dg {
			return ""
		}
		return fmt.Sprintf("reader %s %s %d eof %s", tok(orOctet(b.d.mt)), tok(b.d.dg), b.d.size, tok(b.content))
	case "getBlobRange":
		if c.o0 == c.o1 {
			return "" // F3 (recorded under C03): an empty range cannot be asked for over HTTP; nothing is demanded here
		}
		if c.o0 < 0 || (c.o1 >= 0 && c.o1 < c.o0) || c.o0 > b.d.size || b.d.dg != c.dg {
			return ""
		}
		if c.o0 == 0 && c.o1 < 0 {
			if b.d.size != int64(len(b.content)) || sha256Digest([]byte(b.content)) != c.dg {
				return ""
			}
		}
		// the descriptor describes the whole blob, the bytes are the slice
		return fmt.Sprintf("reader %s %s %d eof %s", tok(orOctet(b.d.mt)), tok(c.dg), b.d.size, tok(b.content))
	case "resolveBlob":
		if b.d.dg != c.dg {
			return ""
		}
		return descOut(mtOctet, b.d.dg, b.d.size) // a blob's media type is not carried by a HEAD answer
	case "resolveManifest":
		if b.d.dg != c.dg {
			return ""
		}
		return descOut(orOctet(b.d.mt), b.d.dg, b.d.size)
	case "resolveTag":
		if !strings.HasPrefix(b.d.dg, "sha") {
			return ""
		}
		return descOut(orOctet(b.d.mt), b.d.dg, b.d.size)
	case "pushManifest":
		if c.mt == "" {
			return "" // the client refuses an empty media type itself
		}
		if (c.mt == mtManifest || c.mt == mtIndex) && x.subject == "!" {
			return "" // the server refuses a manifest it cannot decode
		}
		if b.d.mt != c.mt || b.d.dg != sha256Digest([]byte(c.content)) || b.d.size != int64(len(c.content)) {
			return ""
		}
		return descOut(b.d.mt, b.d.dg, b.d.size)
	case "mountBlob":
		if b.d.dg != c.dg {
			return ""
		}
		return descOut(mtOctet, b.d.dg, 0) // a mount answer carries the digest only
	case "pushBlob":
		if len(x.bs) < 2 {
			return ""
		}
		d := x.bs[1].d
		if d.dg != sha256Digest([]byte(c.content)) || d.size != int64(len(c.content)) {
			return ""
		}
		// the media type is the caller's: the protocol does not carry a blob's media type on upload
		return descOut(c.mt, d.dg, d.size) + " id=" + tok(b.id)
	case "pushBlobChunked":
		want := c.chunk
		if want <= 0 {
			want = 65536
		}
		if b.chunk > want {
			want = b.chunk
		}
		return fmt.Sprintf("writer %s %d 0", tok("http://H/v2/foo/blobs/uploads/"+b64url(b.id)), want)
	case "resumeAsk":
		want := c.chunk
		if want <= 0 {
			want = 65536
		}
		off := b.size
		if off == 1 {
			return "" // `Range: 0-0` stands for "nothing received" and for "one byte received" (C04: askedOffset_one): no demand
		}
		return fmt.Sprintf("writer %s %d %d", tok("http://H/v2/foo/blobs/uploads/"+b64url(b.id)), want, off)
	case "flushPatch":
		return fmt.Sprintf("writer %s 0 0", tok("http://H/v2/foo/blobs/uploads/"+b64url(b.id)))
	case "commit":
		if b.d.dg != c.dg || b.d.size != c.size {
			return ""
		}
		return descOut(mtOctet, b.d.dg, b.d.size)
	case "delete":
		return "ok"
	}
	return ""
}

func respOracleRT(t []string, got string, i int) []Failure {
	r := &rtoks{t: t}
	x := r.rt()
	if r.bad || len(r.t) != 0 {
		return nil
	}
	want := respExpectRT(x)
	if want == "" || want == got {
		return nil
	}
	return []Failure{respFail("resp-round-trip:"+x.c.name, "round_trip", i, want, got, "the backend answered "+x.bs[0].String())}
}

func respOracleRTList(t []string, got string, i int) []Failure {
	r := &rtoks{t: t}
	o := r.opts()
	what := r.s()
	n := r.i()
	start := r.b()
	k := r.n()
	var listing []string
	for j := 0; j < k && !r.bad; j++ {
		listing = append(listing, r.b())
	}
	if r.bad || !sort.StringsAreSorted(listing) {
		return nil
	}
	eff := n
	if eff <= 0 {
		eff = 1000
	}
	if o.maxPage > 0 && eff > o.maxPage {
		return nil // the server refuses the page size
	}
	var want []string
	for _, it := range listing {
		if start == "" || it > start {
			want = append(want, tok(it))
		}
	}
	exp := fmt.Sprintf("items [%s] end=done", strings.Join(want, " "))
	if exp != got {
		return []Failure{respFail("resp-listing:"+what, "listing_round_trip", i, exp, got, "page size "+strconv.FormatInt(n, 10))}
	}
	return nil
}

func (*c03r) NonTrivial(c Case, impl []string) (bool, string) {
	if len(c.Lines) == 0 || len(impl) == 0 {
		return false, "empty"
	}
	t := strings.Split(c.Lines[0], " ")
	if len(t) < 3 {
		return false, "short"
	}
	out := impl[0]
	class := "ok"
	switch {
	case strings.Contains(out, "panic"):
		class = "panic"
	case strings.HasPrefix(out, "err") || strings.Contains(out, " err ") || strings.Contains(out, "end=error"):
		class = "err"
	case strings.Contains(out, "readerr"):
		class = "readerr"
	}
	switch t[1] {
	case "srv":
		if len(t) > 4 {
			return true, "srv-" + t[4] + "-" + class
		}
	case "cli":
		return true, "cli-" + t[2] + "-" + class
	case "clilist":
		return true, "clilist-" + class
	case "rt":
		if len(t) > 4 {
			return true, "rt-" + t[4] + "-" + class
		}
	case "rtlist", "clirefs", "rtrefs":
		return true, t[1] + "-" + class
	default:
		return true, "std-" + t[1]
	}
	return true, t[1]
}
