package main

import (
	"context"
	"fmt"
	"strconv"
	"strings"

	"cuelabs.dev/go/oci/ociregistry"
	"cuelabs.dev/go/oci/ociregistry/ociclient"
	"cuelabs.dev/go/oci/ociregistry/ocidebug"
	"cuelabs.dev/go/oci/ociregistry/ocimem"
	"cuelabs.dev/go/oci/ociregistry/ociref"
	"cuelabs.dev/go/oci/ociregistry/ociserver"
)

// C03: the HTTP client+server are transparent.
//
// A case is a history of "mem …" lines preceded by
//   wire init <immutable 0|1> <hops 1|2> <server option bits> <debug 0|1> <client page size>
// Impl runs the history on ocimem directly (its outputs are diffed with the Lean
// Mem model); the oracle runs the same history through client→server(→client→server)→ocimem
// and compares the two traces under the property's equivalence.

func init() { engines["C03"] = func() Engine { return &c03{} } }

type c03 struct{}

func (*c03) UsesModel() bool { return true }

type wireCfg struct {
	immutable bool
	hops      int
	opts      string
	debug     bool
	pageSize  int
}

func parseWireInit(l string) (wireCfg, bool) {
	t := strings.Split(l, " ")
	if len(t) != 7 || t[0] != "wire" || t[1] != "init" {
		return wireCfg{}, false
	}
	h, _ := strconv.Atoi(t[3])
	ps, _ := strconv.Atoi(t[6])
	return wireCfg{immutable: t[2] == "1", hops: h, opts: t[4], debug: t[5] == "1", pageSize: ps}, true
}

func (cfg wireCfg) serverOpts() *ociserver.Options {
	o := &ociserver.Options{
		DisableSinglePostUpload:      cfg.opts[0] == '1',
		OmitDigestFromTagGetResponse: cfg.opts[1] == '1',
		OmitLinkHeaderFromResponses:  cfg.opts[2] == '1',
	}
	if cfg.opts[3] == '1' {
		o.MaxListPageSize = 1000
	}
	return o
}

// buildStack returns the registry at the far end of the stack and a closer.
func (cfg wireCfg) buildStack(backend ociregistry.Interface) (ociregistry.Interface, func()) {
	var b ociregistry.Interface = backend
	if cfg.debug {
		b = ocidebug.New(b, func(string, ...any) {})
	}
	ch := newChain(b, cfg.hops, cfg.serverOpts(), &ociclient.Options{ListPageSize: cfg.pageSize})
	top := ch.regs[len(ch.regs)-1]
	if cfg.debug {
		top = ocidebug.New(top, func(string, ...any) {})
	}
	return top, ch.Close
}

// directTrace runs the history on ocimem itself.
func directTrace(c Case) []string {
	out := make([]string, len(c.Lines))
	var ri *regInterp
	for i, l := range c.Lines {
		if cfg, ok := parseWireInit(l); ok {
			ri = newRegInterp(newMem(cfg.immutable))
			out[i] = "ok"
			continue
		}
		if ri == nil {
			ri = newRegInterp(ocimem.New())
		}
		out[i] = guard(func() string { return ri.do(l) })
	}
	return out
}

// stackTrace runs the history through the HTTP stack over a fresh ocimem.
func stackTrace(c Case) []string {
	out := make([]string, len(c.Lines))
	var ri *regInterp
	var closer func()
	defer func() {
		if closer != nil {
			closer()
		}
	}()
	for i, l := range c.Lines {
		if cfg, ok := parseWireInit(l); ok {
			if closer != nil {
				closer()
			}
			var top ociregistry.Interface
			top, closer = cfg.buildStack(newMem(cfg.immutable))
			ri = newRegInterp(top)
			out[i] = "ok"
			continue
		}
		if ri == nil {
			out[i] = "no-init"
			continue
		}
		out[i] = guard(func() string { return ri.do(l) })
	}
	return out
}

func (*c03) Impl(c Case) []string {
	// the model sees "mem init" instead of "wire init"
	return directTrace(c)
}

// ---- generation ----

func (*c03) Gen(rng *RNG, tier string) []Case {
	var cases []Case
	n, maxLen := 150, 30
	if tier == "thorough" {
		n, maxLen = 2500, 120
	}
	for i := 0; i < n; i++ {
		u := newMemUniverse(rng, i%3 == 2)
		// well-formed names only: the property quantifies over those
		u.repos = []string{"a", "b/c", "blobs/uploads", "x/manifests/y", "tags/list", "referrers", "a"}
		if i%2 == 1 {
			// names with routing words in every position (leading, middle, trailing, as a prefix of an element)
			u.repos = []string{"a/blobs/b", "org/blobstore/img", "a/blobs/uploads/x", "team/blobs", "uploads/manifests", "v2/tags", "a/blobs/b"}
		}
		if i%3 == 2 {
			for j := 0; j < 4; j++ {
				u.repos = append(u.repos, genRepo(rng))
			}
		}
		hops := 1 + rng.Intn(2)
		if i%5 != 0 {
			hops = 1
		}
		opts := fmt.Sprintf("%d%d%d%d", rng.Intn(2), rng.Intn(2), rng.Intn(2), rng.Intn(2))
		lines := []string{fmt.Sprintf("wire init %d %d %s %d %d", i%2, hops, opts, rng.Intn(2), pick(rng, []int{0, 1, 2, 3, 1000}))}
		for j, b := range u.blobs {
			if rng.Chance(3, 4) {
				lines = append(lines, linePushBlob(u.repos[j%2], "application/octet-stream", sha256Digest(b), int64(len(b)), b))
				lines = append(lines, linePushBlob(u.repos[(j+1)%2], "application/octet-stream", sha256Digest(b), int64(len(b)), b))
			}
		}
		k := 5 + rng.Intn(maxLen)
		for j := 0; j < k; j++ {
			lines = append(lines, c03Op(rng, u)...)
		}
		// final listings and reads of everything
		lines = append(lines, "mem repositories "+tok(""))
		for _, r := range u.repos[:4] {
			lines = append(lines, "mem tags "+tok(r)+" "+tok(""))
		}
		cases = append(cases, expandUploads(Case{Lines: lines}))
	}
	// a large upload committed with a wrong digest: the error must keep its code across the wire
	{
		big := strings.Repeat("\x00\xffbinary\"", 500)
		cases = append(cases, expandUploads(Case{Tag: "large-wrong-digest", Lines: []string{
			"wire init 0 1 0000 0 0",
			"mem pushchunked " + tok("a"),
			"@W " + tok("a") + " " + tok(big),
			"@C " + tok("a") + " " + tok(sha256Digest([]byte("not it"))),
			"mem getblob " + tok("a") + " " + tok(sha256Digest([]byte(big))),
		}}))
	}
	// F43: a descriptor that describes a proper PREFIX of what the reader yields, the reader being of unknown length:
	// net/http sends the declared bytes, then notices the surplus and fails the call - but the registry has by then
	// stored the prefix (which does hash to the declared digest). Directly the push is refused and nothing is stored.
	{
		hello := []byte("hello")
		cases = append(cases, Case{Tag: "prefix-descriptor", Lines: []string{
			"wire init 0 1 0000 0 0",
			linePushBlob("a", "application/octet-stream", sha256Digest([]byte("seed")), 4, []byte("seed")),
			linePushBlob("a", "application/octet-stream", sha256Digest(hello), 5, []byte("hello world")),
			linePushBlob("a", "application/octet-stream", sha256Digest(hello), 5, []byte("hello world")),
			"mem resolveblob " + tok("a") + " " + tok(sha256Digest(hello)),
			"mem getblob " + tok("a") + " " + tok(sha256Digest(hello)),
		}})
	}
	// multi-megabyte manifests (no size is too large to carry): on their own, the model sits these out
	for _, size := range []int{4<<20 - 1, 4 << 20, 4<<20 + 1, 6 << 20} {
		cases = append(cases, Case{Tag: "huge-manifest", Lines: []string{
			"wire init 0 1 0000 0 0",
			fmt.Sprintf("mem bigpush %s %s %d %s", tok("a"), tok("huge"), size, tok(mtOpaque)),
			fmt.Sprintf("mem bigget %s %s", tok("a"), tok("huge")),
			fmt.Sprintf("mem biggetd %s %d", tok("a"), size),
		}})
	}
	if tier == "thorough" {
		// a reader that takes its time (longer than any plausible per-request timeout): nothing between the
		// caller and the registry may cut the body short
		cases = append(cases, Case{Tag: "slow-reader", Lines: []string{
			"wire init 0 1 0000 0 0",
			fmt.Sprintf("mem bigpush %s %s %d %s", tok("a"), tok("slow"), 24<<20, tok(mtOpaque)),
			fmt.Sprintf("mem slowget %s %s %d", tok("a"), tok("slow"), 32000),
		}})
	}
	// large manifests on both sides of the client's in-memory threshold (only with the digest omitted does it matter)
	for _, size := range []int{128*1024 - 1, 128 * 1024, 128*1024 + 1} {
		data := []byte(strings.Repeat("m", size))
		for _, opts := range []string{"0100", "0000"} {
			cases = append(cases, Case{Tag: "threshold", Lines: []string{
				"wire init 0 1 " + opts + " 0 0",
				linePushManifest("a", "big", data, mtOpaque),
				"mem gettag " + tok("a") + " " + tok("big"),
				"mem resolvetag " + tok("a") + " " + tok("big"),
				"mem getmanifest " + tok("a") + " " + tok(sha256Digest(data)),
			}})
		}
	}
	return cases
}

func c03Op(rng *RNG, u *memUniverse) []string {
	for {
		var w []string
		l := u.genOp(rng, &w)
		t := strings.Split(l, " ")
		switch t[1] {
		case "resume", "wwrite", "wsize", "wcancel", "wcommit":
			continue // upload sessions are C04's subject; here only whole uploads
		case "pushchunked":
			// a whole upload: start, two writes, commit (sometimes with a wrong digest)
			repo := t[2]
			if r, _ := untok(repo); !ociref.IsValidRepository(r) {
				continue
			}
			a, b := pick(rng, u.blobs), pick(rng, u.blobs)
			dg := sha256Digest(append(append([]byte{}, a...), b...))
			if rng.Chance(1, 6) {
				dg = sha256Digest([]byte("something else"))
			}
			return []string{l, "@W " + repo + " " + tok(string(a)), "@W " + repo + " " + tok(string(b)), "@C " + repo + " " + tok(dg)}
		}
		if len(t) > 2 && t[1] != "repositories" {
			r, _ := untok(t[2])
			if !ociref.IsValidRepository(r) {
				continue
			}
		}
		if t[1] == "mount" {
			if r, _ := untok(t[3]); !ociref.IsValidRepository(r) {
				continue
			}
		}
		if t[1] == "pushmanifest" {
			if tg, _ := untok(t[3]); tg != "" && !ociref.IsValidTag(tg) {
				continue
			}
			if mt, _ := untok(t[5]); mt == "" {
				continue // not a well-formed media type
			}
		}
		if t[1] == "pushblob" {
			if mt, _ := untok(t[3]); mt != "application/octet-stream" {
				continue // blob media types are not carried by the protocol
			}
			if dg, _ := untok(t[4]); !ociref.IsValidDigest(dg) {
				continue
			}
			if sz, _ := strconv.ParseInt(t[5], 10, 64); sz < 0 {
				continue
			}
		}
		if len(t) > 3 && (t[1] == "getblob" || t[1] == "getmanifest" || t[1] == "resolveblob" || t[1] == "resolvemanifest" || t[1] == "deleteblob" || t[1] == "deletemanifest" || t[1] == "referrers" || t[1] == "getblobrange") {
			if dg, _ := untok(t[3]); !ociref.IsValidDigest(dg) {
				continue
			}
		}
		if t[1] == "mount" {
			if dg, _ := untok(t[4]); !ociref.IsValidDigest(dg) {
				continue
			}
		}
		if t[1] == "getblobrange" {
			// well-formed ranges only: 0 <= o0, and o1 either open-ended (negative) or >= o0
			o0, _ := strconv.ParseInt(t[4], 10, 64)
			o1, _ := strconv.ParseInt(t[5], 10, 64)
			if o0 < 0 || (o1 >= 0 && o1 < o0) {
				continue
			}
		}
		if len(t) > 3 && (t[1] == "gettag" || t[1] == "resolvetag" || t[1] == "deletetag") {
			if tg, _ := untok(t[3]); !ociref.IsValidTag(tg) {
				continue
			}
		}
		return []string{l}
	}
}

// The "@W"/"@C" pseudo-lines refer to the most recent pushchunked in the case;
// expandUploads rewrites them into wwrite/wcommit on the right canonical ID.
func expandUploads(c Case) Case {
	out := Case{Tag: c.Tag}
	n := -1
	for _, l := range c.Lines {
		t := strings.Split(l, " ")
		switch {
		case len(t) > 1 && t[0] == "mem" && t[1] == "pushchunked":
			n++
			out.Lines = append(out.Lines, l)
		case t[0] == "@W":
			out.Lines = append(out.Lines, fmt.Sprintf("mem wwrite %s %s %s", t[1], tok("@"+strconv.Itoa(n)), t[2]))
		case t[0] == "@C":
			out.Lines = append(out.Lines, fmt.Sprintf("mem wcommit %s %s %s", t[1], tok("@"+strconv.Itoa(n)), t[2]))
		default:
			out.Lines = append(out.Lines, l)
		}
	}
	return out
}

// ---- oracle: equivalence of the two traces ----

func headFallbackClass(cls string) string {
	st, ok := specStatus[cls]
	if !ok {
		return "ERR"
	}
	switch st {
	case 404:
		return "NAME_UNKNOWN"
	case 401:
		return "UNAUTHORIZED"
	case 403:
		return "DENIED"
	case 429:
		return "TOOMANYREQUESTS"
	case 400:
		return "UNSUPPORTED"
	}
	return "ERR"
}

func wireOracle(c Case, a, b []string) []Failure {
	var fs []Failure
	tr := newTracker(false)
	for i, l := range c.Lines {
		if i >= len(a) || i >= len(b) {
			break
		}
		t := strings.Split(l, " ")
		if t[0] == "wire" {
			continue
		}
		da, sb := a[i], b[i]
		fail := func(class, oracle string) {
			fs = append(fs, Failure{Class: class, Oracle: oracle, Index: i, Expected: da, Observed: sb})
		}
		arg := func(k int) string { s, _ := untok(t[k]); return s }
		repoName := ""
		if len(t) > 2 && t[1] != "repositories" {
			repoName = arg(2)
			if t[1] == "mount" {
				repoName = arg(3)
			}
		}
		contentless := !tr.repos[repoName].hasContent()
		if t[1] == "mount" && !tr.repos[arg(2)].hasContent() {
			contentless = true // the source repository is content-less: unknown ≈ empty
		}
		emptyRange := false
		if t[1] == "getblobrange" {
			o0, _ := strconv.ParseInt(t[4], 10, 64)
			o1, _ := strconv.ParseInt(t[5], 10, 64)
			emptyRange = o0 == o1
		}
		if c.Tag == "prefix-descriptor" && i >= 2 {
			// judged as a whole: the push is refused on both sides, and afterwards nothing is there on either side
			if strings.HasPrefix(da, "err") != strings.HasPrefix(sb, "err") {
				fail("wire-rejected-push-left-prefix", "wire_transparent(outcome)")
			}
			continue
		}
		if sb == "panic" {
			fail("wire-panic:"+t[1], "no_panic")
			continue
		}
		aErr, bErr := strings.HasPrefix(da, "err "), strings.HasPrefix(sb, "err ")
		switch {
		case aErr != bErr:
			ok := false
			// NAME_UNKNOWN ≈ empty answer for a repository without content
			if contentless && ((aErr && strings.HasSuffix(da, "NAME_UNKNOWN")) || (bErr && strings.HasSuffix(sb, "NAME_UNKNOWN"))) {
				if strings.HasPrefix(da, "list []") || strings.HasPrefix(sb, "list []") || strings.HasPrefix(da, "descs []") || strings.HasPrefix(sb, "descs []") {
					ok = true
				}
			}
			cl := "wire-outcome:" + t[1]
			if t[1] == "pushblob" && aErr && strings.HasSuffix(da, "SIZE_INVALID") && (arg(6) == "" || t[5] == "0") {
				cl = "wire-size-not-enforced" // F20: net/http does not enforce a declared size of 0, nor any size on an empty body
			}
			if t[1] == "getblobrange" && !aErr && emptyRange { // only offset0 == offset1: `bytes=N-` and ranges on the empty blob are expressible
				if okr, _, _, _, data := parseRead(da); okr && data == "" {
					cl = "wire-empty-range" // F3: HTTP cannot express an empty range
				}
			}
			if !ok {
				fail(cl, "wire_transparent(outcome)")
			}
		case aErr:
			ca, cb := strings.TrimPrefix(da, "err "), strings.TrimPrefix(sb, "err ")
			want := ca
			switch t[1] {
			case "resolveblob", "resolvemanifest", "resolvetag":
				want = headFallbackClass(ca) // body-less: status class only
			default:
				if ca == "ERR" {
					want = "UNKNOWN"
				}
			}
			if emptyRange && cb != want {
				fail("wire-empty-range", "wire_transparent(code)") // F3: `bytes=N-(N-1)` is not a valid Range header
			} else if cb != want && !(contentless && (cb == "NAME_UNKNOWN" || ca == "NAME_UNKNOWN")) {
				// un-coded direct errors only need to stay errors
				if ca == "ERR" {
					break
				}
				// a declared size that differs from a non-empty body never reaches the server:
				// net/http refuses to send it (the client reports an un-coded transport error)
				if t[1] == "pushblob" && ca == "SIZE_INVALID" {
					break
				}
				fail("wire-error-code:"+t[1], "wire_transparent(code)")
			}
		default:
			switch t[1] {
			case "getblob", "getblobrange", "getmanifest", "gettag":
				oka, mta, dga, sza, dataa := parseRead(da)
				okb, mtb, dgb, szb, datab := parseRead(sb)
				if !oka || !okb || dga != dgb || sza != szb || dataa != datab {
					fail("wire-read:"+t[1], "wire_transparent(bytes, digest, size)")
				} else if (t[1] == "getmanifest" || t[1] == "gettag") && mta != mtb {
					fail("wire-mediatype:"+t[1], "wire_transparent(media type)")
				}
			case "resolveblob", "resolvemanifest", "resolvetag", "pushmanifest", "pushblob", "wcommit":
				oka, mta, dga, sza := parseDescOut(da)
				okb, mtb, dgb, szb := parseDescOut(sb)
				if !oka || !okb || dga != dgb || sza != szb {
					fail("wire-desc:"+t[1], "wire_transparent(digest, size)")
				} else if (t[1] == "resolvemanifest" || t[1] == "resolvetag" || t[1] == "pushmanifest") && mta != mtb {
					fail("wire-mediatype:"+t[1], "wire_transparent(media type)")
				}
			case "mount":
				_, _, dga, _ := parseDescOut(da)
				_, _, dgb, _ := parseDescOut(sb)
				if dga != dgb {
					fail("wire-desc:mount", "wire_transparent(digest)")
				}
			case "repositories":
				la, _ := parseListOut(da)
				lb, _ := parseListOut(sb)
				keep := func(l []string) string {
					var out []string
					for _, r := range l {
						if tr.repos[r].hasContent() {
							out = append(out, r)
						}
					}
					return strings.Join(out, "\x00")
				}
				if keep(la) != keep(lb) {
					fail("wire-listing:repositories", "wire_transparent(listing)")
				}
			case "wwrite":
				// the client buffers: only the final commit is compared
			default:
				if da != sb {
					fail("wire-result:"+t[1], "wire_transparent(result)")
				}
			}
		}
		// keep the tracker in step with the DIRECT registry
		trackOne(tr, t, da)
	}
	return fs
}

// trackOne updates the tracker from one line and its direct result (a subset of
// memOracle's bookkeeping: only what "has content" needs).
func trackOne(tr *tracker, t []string, got string) {
	if strings.HasPrefix(got, "err ") {
		return
	}
	arg := func(k int) string { s, _ := untok(t[k]); return s }
	switch t[1] {
	case "pushblob":
		tr.repo(arg(2)).blobs[arg(4)] = trkBlob{}
	case "wcommit":
		tr.repo(arg(2)).blobs[arg(4)] = trkBlob{}
	case "mount":
		tr.repo(arg(3)).blobs[arg(4)] = trkBlob{}
	case "pushmanifest":
		r := tr.repo(arg(2))
		dg := sha256Digest([]byte(arg(4)))
		r.manifests[dg] = trkManifest{}
		if arg(3) != "" {
			r.tags[arg(3)] = ociregistry.Descriptor{Digest: ociregistry.Digest(dg)}
		}
	case "deleteblob":
		if r := tr.repos[arg(2)]; r != nil {
			delete(r.blobs, arg(3))
		}
	case "deletemanifest":
		if r := tr.repos[arg(2)]; r != nil {
			delete(r.manifests, arg(3))
		}
	case "deletetag":
		if r := tr.repos[arg(2)]; r != nil {
			delete(r.tags, arg(3))
		}
	}
}

func (*c03) Oracle(c Case, impl []string) []Failure {
	b := stackTrace(c)
	return wireOracle(c, impl, b)
}

func (*c03) NonTrivial(c Case, impl []string) (bool, string) {
	cfg, _ := parseWireInit(c.Lines[0])
	ok := 0
	for _, o := range impl {
		if strings.HasPrefix(o, "read ") || strings.HasPrefix(o, "desc ") {
			ok++
		}
	}
	return ok >= 3, fmt.Sprintf("hops=%d debug=%v", cfg.hops, cfg.debug)
}

var _ = context.Background
