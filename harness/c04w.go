package main

import (
	"context"
	"errors"
	"fmt"
	"io"
	"net/http"
	"net/url"
	"strconv"
	"strings"

	"cuelabs.dev/go/oci/ociregistry"
	"cuelabs.dev/go/oci/ociregistry/ociclient"
)

// C04W (sub-check of C04, also C18): the client's chunked writer as a state machine under faults.
//
// The real ociclient writer talks to a scripted http.RoundTripper. Every line is one call of the
// writer together with the answer the transport gives to the request that call makes (a call makes
// at most one). An answer is four tokens: <status> <Location> <Range> <OCI-Chunk-Min-Length>;
// status 0 = the transport fails, "-" = header absent.
//
//   cw start <hint> <answer>                      PushBlobChunked(ctx, "foo", hint)
//   cw resume <id|@> <offset|@> <hint> <answer>   PushBlobChunkedResume; @ = ID() / Size() of the current writer
//   cw write <data> <answer>
//   cw commit <digest> <answer>
//   cw close <answer>
//   cw cancel
//
// Output of every line: <result> | size=<Size()> cs=<ChunkSize()> id=<ID()> | (<METHOD> <url> <Content-Range> <body>)*
// compared with the Lean model (OciModel/ClientWriter.lean) after every call.

func init() { engines["C04W"] = func() Engine { return &c04w{} } }

type c04w struct{}

func (*c04w) UsesModel() bool { return true }

const cwHost = "registry.example"

type cwAnswer struct {
	status        int
	loc, rng, min string
	hasLoc        bool
	hasRng        bool
	hasMin        bool
}

type cwReq struct {
	method, url, cr, body string
}

type cwTransport struct {
	ans  cwAnswer
	reqs []cwReq
}

func cwCanonURL(u *url.URL) string {
	if u.Scheme == "https" && u.Host == cwHost {
		return u.RequestURI()
	}
	return u.String()
}

func (t *cwTransport) RoundTrip(req *http.Request) (*http.Response, error) {
	var body []byte
	if req.Body != nil {
		body, _ = io.ReadAll(req.Body)
		req.Body.Close()
	}
	cr := "-"
	if v := req.Header.Values("Content-Range"); len(v) > 0 {
		cr = strings.Join(v, ",")
	}
	t.reqs = append(t.reqs, cwReq{req.Method, cwCanonURL(req.URL), cr, string(body)})
	if len(t.reqs) > 6 {
		return nil, errors.New("scripted transport: too many requests in one call")
	}
	a := t.ans
	if a.status == 0 {
		return nil, errors.New("scripted transport failure")
	}
	h := http.Header{}
	if a.hasLoc {
		h.Set("Location", a.loc)
	}
	if a.hasRng {
		h.Set("Range", a.rng)
	}
	if a.hasMin {
		h.Set("OCI-Chunk-Min-Length", a.min)
	}
	rbody := ""
	if a.status >= 400 {
		switch a.status % 3 {
		case 0:
			h.Set("Content-Type", "application/json")
			rbody = `{"errors":[{"code":"TOOMANYREQUESTS","message":"slow down"}]}`
		case 1:
			h.Set("Content-Type", "text/plain")
			rbody = "go away"
		}
	}
	return &http.Response{
		StatusCode: a.status, Status: fmt.Sprintf("%d %s", a.status, http.StatusText(a.status)),
		Proto: "HTTP/1.1", ProtoMajor: 1, ProtoMinor: 1, Header: h, Request: req,
		Body: io.NopCloser(strings.NewReader(rbody)), ContentLength: int64(len(rbody)),
	}, nil
}

func cwParseAnswer(t []string) (cwAnswer, bool) {
	var a cwAnswer
	if len(t) != 4 {
		return a, false
	}
	st, err := strconv.Atoi(t[0])
	if err != nil || st < 0 {
		return a, false
	}
	a.status = st
	get := func(s string) (string, bool, bool) {
		if s == "-" {
			return "", false, true
		}
		v, ok := untok(s)
		return v, true, ok
	}
	var ok1, ok2, ok3 bool
	a.loc, a.hasLoc, ok1 = get(t[1])
	a.rng, a.hasRng, ok2 = get(t[2])
	a.min, a.hasMin, ok3 = get(t[3])
	return a, ok1 && ok2 && ok3
}

func cwErr(err error) string {
	var he ociregistry.HTTPError
	if errors.As(err, &he) {
		return fmt.Sprintf("err http:%d", he.StatusCode())
	}
	return "err"
}

// cwCanonID renders ID() the way the model does: the client's own scheme and host are left out.
func cwCanonID(id string) string {
	const own = "https://" + cwHost
	if strings.HasPrefix(id, own) && (len(id) == len(own) || id[len(own)] == '/' || id[len(own)] == '?') {
		return id[len(own):]
	}
	return id
}

type cwGuarded struct {
	arr []byte
	n   int
}

const cwGuardByte = 0x5A

type cwSession struct {
	tr     *cwTransport
	cl     ociregistry.Interface
	w      ociregistry.BlobWriter
	guards []cwGuarded
}

func (s *cwSession) render(res string) string {
	st := "nowriter"
	if s.w != nil {
		st = fmt.Sprintf("size=%d cs=%d id=%s", s.w.Size(), s.w.ChunkSize(), tok(cwCanonID(s.w.ID())))
	}
	var b strings.Builder
	b.WriteString(res + " | " + st + " |")
	for _, r := range s.tr.reqs {
		b.WriteString(" " + r.method + " " + tok(r.url) + " " + r.cr + " " + tok(r.body))
	}
	for _, g := range s.guards {
		for _, c := range g.arr[g.n:] {
			if c != cwGuardByte {
				b.WriteString(" caller-buffer-touched")
				return b.String()
			}
		}
	}
	return b.String()
}

func (*c04w) Impl(c Case) []string {
	out := make([]string, len(c.Lines))
	tr := &cwTransport{}
	cl, err := ociclient.New(cwHost, &ociclient.Options{Transport: tr})
	if err != nil {
		panic(err)
	}
	s := &cwSession{tr: tr, cl: cl}
	ctx := context.Background()
	for i, l := range c.Lines {
		out[i] = withWatchdog(func() string {
			t := strings.Split(l, " ")
			if len(t) < 2 || t[0] != "cw" {
				return "bad-op"
			}
			tr.reqs = nil
			switch t[1] {
			case "start":
				if len(t) != 7 {
					return "bad-op"
				}
				hint, err := strconv.Atoi(t[2])
				a, ok := cwParseAnswer(t[3:])
				if err != nil || !ok {
					return "bad-op"
				}
				tr.ans = a
				w, err := cl.PushBlobChunked(ctx, "foo", hint)
				if err != nil {
					s.w = nil
					if w != nil {
						return s.render(cwErr(err) + " writer-beside-error")
					}
					return s.render(cwErr(err))
				}
				s.w = w
				return s.render("ok")
			case "resume":
				if len(t) != 9 {
					return "bad-op"
				}
				if (t[2] == "@" || t[3] == "@") && s.w == nil {
					return "nowriter"
				}
				var id string
				var off int64
				ok1, ok2 := true, true
				if t[2] == "@" {
					id = s.w.ID()
				} else {
					id, ok1 = untok(t[2])
				}
				if t[3] == "@" {
					off = s.w.Size()
				} else {
					var err error
					off, err = strconv.ParseInt(t[3], 10, 64)
					ok2 = err == nil
				}
				hint, err := strconv.Atoi(t[4])
				a, ok := cwParseAnswer(t[5:])
				if err != nil || !ok || !ok1 || !ok2 {
					return "bad-op"
				}
				tr.ans = a
				w, err := cl.PushBlobChunkedResume(ctx, "foo", id, off, hint)
				if err != nil {
					s.w = nil
					if w != nil {
						return s.render(cwErr(err) + " writer-beside-error")
					}
					return s.render(cwErr(err))
				}
				s.w = w
				return s.render("ok")
			case "write":
				if len(t) != 7 {
					return "bad-op"
				}
				data, ok1 := untok(t[2])
				a, ok := cwParseAnswer(t[3:])
				if !ok || !ok1 {
					return "bad-op"
				}
				if s.w == nil {
					return "nowriter"
				}
				tr.ans = a
				// the caller's buffer has spare capacity behind it (which the writer must leave alone) …
				arr := make([]byte, len(data)+16)
				copy(arr, data)
				for j := len(data); j < len(arr); j++ {
					arr[j] = cwGuardByte
				}
				p := arr[:len(data)]
				n, err := s.w.Write(p)
				// … and belongs to the caller again once Write has returned
				scribble(p)
				s.guards = append(s.guards, cwGuarded{arr, len(data)})
				if err != nil {
					if n != 0 {
						return s.render(fmt.Sprintf("%s n=%d", cwErr(err), n))
					}
					return s.render(cwErr(err))
				}
				return s.render("n " + strconv.Itoa(n))
			case "commit":
				if len(t) != 7 {
					return "bad-op"
				}
				dg, ok1 := untok(t[2])
				a, ok := cwParseAnswer(t[3:])
				if !ok || !ok1 {
					return "bad-op"
				}
				if s.w == nil {
					return "nowriter"
				}
				tr.ans = a
				desc, err := s.w.Commit(ociregistry.Digest(dg))
				if err != nil {
					return s.render(cwErr(err))
				}
				res := "desc " + strconv.FormatInt(desc.Size, 10)
				if string(desc.Digest) != dg || desc.MediaType != "application/octet-stream" {
					res += " other-descriptor"
				}
				return s.render(res)
			case "close":
				if len(t) != 6 {
					return "bad-op"
				}
				a, ok := cwParseAnswer(t[2:])
				if !ok {
					return "bad-op"
				}
				if s.w == nil {
					return "nowriter"
				}
				tr.ans = a
				if err := s.w.Close(); err != nil {
					return s.render(cwErr(err))
				}
				return s.render("ok")
			case "cancel":
				if len(t) != 2 {
					return "bad-op"
				}
				if s.w == nil {
					return "nowriter"
				}
				if err := s.w.Cancel(); err != nil {
					return s.render(cwErr(err))
				}
				return s.render("ok")
			}
			return "bad-op"
		})
	}
	return out
}

// ---- oracle: the property stated on the implementation's trace alone ----

type cwOut struct {
	res    string
	size   int64
	hasW   bool
	reqs   []cwReq
	marked bool // caller-buffer-touched
}

func cwParseOut(s string) (cwOut, bool) {
	var o cwOut
	parts := strings.SplitN(s, " | ", 2)
	if len(parts) != 2 {
		return o, false
	}
	o.res = parts[0]
	rest := parts[1]
	i := strings.Index(rest, " |")
	if i < 0 {
		return o, false
	}
	st, rq := rest[:i], strings.Fields(rest[i+2:])
	if st != "nowriter" {
		o.hasW = true
		for _, f := range strings.Fields(st) {
			if strings.HasPrefix(f, "size=") {
				o.size, _ = strconv.ParseInt(f[5:], 10, 64)
			}
		}
	}
	if len(rq) > 0 && rq[len(rq)-1] == "caller-buffer-touched" {
		o.marked = true
		rq = rq[:len(rq)-1]
	}
	if len(rq)%4 != 0 {
		return o, false
	}
	for j := 0; j+3 < len(rq); j += 4 {
		u, _ := untok(rq[j+1])
		b, _ := untok(rq[j+3])
		o.reqs = append(o.reqs, cwReq{rq[j], u, rq[j+2], b})
	}
	return o, true
}

// cwAcknowledges: the status the protocol prescribes for the method and a Location that net/url accepts.
func cwAcknowledges(method string, a cwAnswer) bool {
	want := 0
	switch method {
	case "PATCH":
		want = 202
	case "PUT":
		want = 201
	}
	if a.status != want || !a.hasLoc || a.loc == "" {
		return false
	}
	_, err := url.Parse(a.loc)
	return err == nil
}

func cwRangeString(start, end int64) string {
	end--
	if end < 0 {
		end = 0
	}
	return fmt.Sprintf("%d-%d", start, end)
}

func (*c04w) Oracle(c Case, impl []string) []Failure {
	var fs []Failure
	var acked, accepted []byte
	var off int64
	have := false
	for i, l := range c.Lines {
		if i >= len(impl) {
			break
		}
		got := impl[i]
		t := strings.Split(l, " ")
		if len(t) < 2 {
			continue
		}
		fail := func(class, oracle, exp, obs string) {
			fs = append(fs, Failure{Class: class, Oracle: oracle, Index: i, Expected: exp, Observed: obs})
		}
		if got == "panic" || got == "hang" {
			fail("cw-"+got+":"+t[1], "writer_total", "a result or an error", got+" "+lastPanic)
			return fs
		}
		if got == "bad-op" || got == "nowriter" {
			continue
		}
		o, ok := cwParseOut(got)
		if !ok {
			continue
		}
		if o.marked {
			fail("cw-caller-buffer", "writer_leaves_caller_memory_alone", "the spare capacity behind a written slice is untouched", "modified")
		}
		if len(o.reqs) > 1 {
			fail("cw-requests:"+t[1], "one_request_per_call", "at most one request", strconv.Itoa(len(o.reqs))+" requests")
		}
		var a cwAnswer
		switch t[1] {
		case "start":
			have = o.hasW
			acked, accepted, off = nil, nil, 0
			if o.hasW && o.size != 0 {
				fail("cw-size:start", "size_is_accepted", "Size() = 0", strconv.FormatInt(o.size, 10))
			}
			continue
		case "resume":
			have = o.hasW
			acked, accepted = nil, nil
			off = o.size // the offset the new writer adopted
			if o.hasW && t[3] != "-1" && t[3] != "@" {
				if want, err := strconv.ParseInt(t[3], 10, 64); err == nil && want != o.size {
					fail("cw-size:resume", "size_is_accepted", "Size() = the offset given", strconv.FormatInt(o.size, 10))
				}
			}
			continue
		case "write":
			a, _ = cwParseAnswer(t[3:])
		case "commit":
			a, _ = cwParseAnswer(t[3:])
		case "close":
			a, _ = cwParseAnswer(t[2:])
		case "cancel":
		default:
			continue
		}
		if !have {
			continue
		}
		var buf []byte
		if t[1] == "write" {
			d, _ := untok(t[2])
			buf = []byte(d)
		}
		okRes := !strings.HasPrefix(o.res, "err")
		refused := false
		for _, r := range o.reqs {
			if r.method != "PATCH" && r.method != "PUT" {
				fail("cw-method:"+t[1], "retry_safety", "PATCH or PUT", r.method)
				continue
			}
			// bytes acknowledged ++ bytes sent now = bytes accepted (++ the bytes of this Write)
			want := append(append([]byte{}, accepted...), buf...)
			gotb := append(append([]byte{}, acked...), r.body...)
			if string(want) != string(gotb) {
				fail("cw-retry-bytes:"+t[1], "retry_safety",
					fmt.Sprintf("acknowledged(%d bytes) ++ body = accepted(%d bytes) ++ this write(%d bytes)", len(acked), len(accepted), len(buf)),
					fmt.Sprintf("body %x after %d acknowledged bytes; expected %x", r.body, len(acked), want[min(len(acked), len(want)):]))
			}
			if off >= 0 {
				if wantCR := cwRangeString(off+int64(len(acked)), off+int64(len(acked))+int64(len(r.body))); r.cr != wantCR {
					fail("cw-content-range:"+t[1], "retry_safety", "Content-Range "+wantCR, r.cr)
				}
			}
			if cwAcknowledges(r.method, a) {
				acked = append(acked, r.body...)
			} else {
				refused = true
			}
		}
		if refused && okRes {
			fail("cw-refused-success:"+t[1], "retry_safety", "an error (the request was refused)", o.res)
		}
		if t[1] == "write" && okRes {
			if o.res != "n "+strconv.Itoa(len(buf)) {
				fail("cw-short-write", "size_is_accepted", "n "+strconv.Itoa(len(buf)), o.res)
			}
			accepted = append(accepted, buf...)
		}
		if o.size != off+int64(len(accepted)) {
			fail("cw-size:"+t[1], "size_is_accepted", fmt.Sprintf("Size() = %d", off+int64(len(accepted))), strconv.FormatInt(o.size, 10))
		}
		if t[1] == "commit" && okRes {
			if string(acked) != string(accepted) {
				fail("cw-commit-incomplete", "commit_delivers_all", fmt.Sprintf("all %d accepted bytes acknowledged", len(accepted)), fmt.Sprintf("%d acknowledged", len(acked)))
			}
			if o.res != "desc "+strconv.FormatInt(off+int64(len(accepted)), 10) {
				fail("cw-commit-size", "size_is_accepted", "desc "+strconv.FormatInt(off+int64(len(accepted)), 10), o.res)
			}
		}
	}
	return fs
}

func (*c04w) NonTrivial(c Case, impl []string) (bool, string) {
	refused, ackedAfter, acked := false, false, false
	for i, l := range c.Lines {
		if i >= len(impl) {
			break
		}
		t := strings.Split(l, " ")
		o, ok := cwParseOut(impl[i])
		if !ok || len(t) < 2 || len(o.reqs) == 0 {
			continue
		}
		var a cwAnswer
		switch t[1] {
		case "write", "commit":
			a, _ = cwParseAnswer(t[3:])
		case "close":
			a, _ = cwParseAnswer(t[2:])
		default:
			continue
		}
		if cwAcknowledges(o.reqs[0].method, a) {
			acked = true
			if refused {
				ackedAfter = true
			}
		} else {
			refused = true
		}
	}
	tag := c.Tag
	if tag == "" {
		tag = "script"
	}
	switch {
	case ackedAfter:
		return true, tag + ":refused-then-acknowledged"
	case refused:
		return true, tag + ":refused"
	case acked:
		return true, tag + ":fault-free"
	}
	return false, tag + ":no-upload-request"
}

// ---- generation ----

var cwGoodLocs = []string{
	"/v2/foo/blobs/uploads/u1",
	"/v2/foo/blobs/uploads/u2?state=abc",
	"/v2/foo/blobs/uploads/u3?",
	"https://registry.example/v2/foo/blobs/uploads/u4",
	"http://other.example/up/u5?x=1",
	"/v2/foo/blobs/uploads/u6?a=1&b=2",
	"https://cdn.example:8443/up/u7",
}

func cwAnsStr(status int, loc, rng, min string) string {
	return fmt.Sprintf("%d %s %s %s", status, loc, rng, min)
}

func cwHdr(rng *RNG, absentNum, absentDen int, vals []string) string {
	if rng.Chance(absentNum, absentDen) {
		return "-"
	}
	return tok(pick(rng, vals))
}

var cwMins = []string{"0", "1", "3", "6", "10", "-5", "abc", "", "+7", "70000", "9223372036854775807", "99999999999999999999", "4611686018427387904"}
var cwRanges = []string{"0-0", "0-4", "0-9", "", "5-3", "a-b", "1-10", "0--3", "0-+7", "-", "0-", "3", "0-99999999999999999999", "0-65535", "0-4611686018427387904"}

// cwRangeWrap makes ParseRange's p1++ wrap around: the writer adopts the offset MinInt64. The model
// follows that one wrap (succ64); all other arithmetic on offsets is unbounded in the model, so the
// scripts stay away from sums that overflow an int64 (here: no empty request at exactly MinInt64).
const cwRangeWrap = "0-9223372036854775807"

// cwGood: an answer that acknowledges a request expecting `status`.
func cwGood(rng *RNG, status int) string {
	min := "-"
	if rng.Chance(1, 6) {
		min = tok(pick(rng, cwMins))
	}
	r := "-"
	if rng.Chance(1, 4) {
		r = tok(pick(rng, cwRanges))
	}
	return cwAnsStr(status, tok(pick(rng, cwGoodLocs)), r, min)
}

// cwBad: an answer that does not acknowledge a request expecting `status`.
func cwBad(rng *RNG, status int) string {
	loc := cwHdr(rng, 1, 2, cwGoodLocs)
	switch rng.Intn(10) {
	case 0, 1:
		return cwAnsStr(0, "-", "-", "-") // the transport fails
	case 2:
		return cwAnsStr(429, loc, "-", "-")
	case 3:
		return cwAnsStr(pick(rng, []int{400, 401, 403, 404, 416}), loc, cwHdr(rng, 2, 3, cwRanges), "-")
	case 4:
		return cwAnsStr(pick(rng, []int{500, 502, 503}), loc, "-", cwHdr(rng, 2, 3, cwMins))
	case 5:
		return cwAnsStr(pick(rng, []int{100, 199, 300, 304, 600}), loc, "-", "-")
	case 6:
		// a success, but not the one the protocol prescribes
		other := pick(rng, []int{200, 201, 202, 204, 206, 299})
		if other == status {
			other = 200
		}
		return cwAnsStr(other, tok(pick(rng, cwGoodLocs)), "-", "-")
	case 7:
		return cwAnsStr(status, "-", "-", "-") // no Location
	case 8:
		return cwAnsStr(status, tok(""), "-", "-") // empty Location
	default:
		return cwAnsStr(status, tok(pick(rng, []string{"%zz", "/v2/foo/%zz", "http://other.example/%"})), "-", "-") // Location that does not parse
	}
}

// cwWild: any answer at all.
func cwWild(rng *RNG) string {
	status := pick(rng, []int{0, 100, 200, 201, 201, 202, 202, 202, 204, 204, 206, 299, 300, 304, 400, 401, 404, 416, 429, 500, 503, 600})
	return cwAnsStr(status,
		cwHdr(rng, 1, 3, append([]string{"", "%zz"}, cwGoodLocs...)),
		cwHdr(rng, 1, 2, cwRanges), cwHdr(rng, 1, 2, cwMins))
}

var cwDigests = []string{
	"sha256:e3b0c44298fc1c149afbf4c8996fb92427ae41e4649b934ca495991b7852b855",
	"sha256:0000000000000000000000000000000000000000000000000000000000000000",
	"a b&c=d/é~",
	"x",
}

// cwShadow follows the writer just enough to know when a call will make a request.
type cwShadow struct {
	cs, chunk int64
	closed    bool
}

func cwEffMin(cs int64, minTok string) int64 {
	if minTok == "-" {
		return cs
	}
	v, _ := untok(minTok)
	if m, err := strconv.Atoi(v); err == nil && int64(m) > cs {
		return int64(m)
	}
	return cs
}

func cwData(rng *RNG, n int) string { return tok(string(rng.Bytes(n))) }

func cwGenCase(rng *RNG, wild bool) Case {
	var lines []string
	ans := func(status int, fail bool) string {
		if wild {
			return cwWild(rng)
		}
		if fail {
			return cwBad(rng, status)
		}
		return cwGood(rng, status)
	}
	hint := pick(rng, []int{1, 2, 3, 4, 4, 5, 8, 8, 16, 0, -1})
	eff := int64(hint)
	if hint <= 0 {
		eff = 65536
	}
	sh := &cwShadow{cs: eff}
	open := func() {
		switch rng.Intn(10) {
		case 0, 1: // resume at an offset of the caller's
			id := pick(rng, []string{"/v2/foo/blobs/uploads/r1", "/v2/foo/blobs/uploads/r2?state=s1", "https://registry.example/v2/foo/blobs/uploads/r3",
				"http://other.example/up/r4?x=1", "/v2/foo/blobs/uploads/r5?"})
			off := pick(rng, []int64{0, 0, 1, 5, 7, 100, 65536, 1 << 40})
			lines = append(lines, fmt.Sprintf("cw resume %s %d %d %s", tok(id), off, hint, cwWild(rng)))
		case 2, 3: // resume, asking the registry for the offset
			id := pick(rng, []string{"/v2/foo/blobs/uploads/r1", "/v2/foo/blobs/uploads/r2?state=s1", "https://registry.example/v2/foo/blobs/uploads/r3", "http://other.example/up/r4?x=1"})
			a := cwAnsStr(204, tok(pick(rng, cwGoodLocs)), tok(pick(rng, []string{"0-0", "0-4", "0-9", "0-65535", "0-0", "0-6"})), cwHdr(rng, 2, 3, cwMins))
			if rng.Chance(1, 4) {
				lines = append(lines, fmt.Sprintf("cw resume %s -1 %d %s", tok(id), hint, cwBad(rng, 204)))
			}
			if rng.Chance(1, 5) {
				a = cwAnsStr(204, tok(pick(rng, cwGoodLocs)), cwHdr(rng, 1, 6, cwRanges), cwHdr(rng, 1, 2, cwMins))
			}
			lines = append(lines, fmt.Sprintf("cw resume %s -1 %d %s", tok(id), hint, a))
			sh.cs = cwEffMin(eff, strings.Fields(a)[3])
		default:
			if rng.Chance(1, 5) {
				lines = append(lines, fmt.Sprintf("cw start %d %s", hint, cwBad(rng, 202)))
			}
			a := cwAnsStr(202, tok(pick(rng, cwGoodLocs)), cwHdr(rng, 3, 4, cwRanges), cwHdr(rng, 2, 3, cwMins))
			if wild && rng.Chance(1, 3) {
				a = cwWild(rng)
			}
			lines = append(lines, fmt.Sprintf("cw start %d %s", hint, a))
			sh.cs = cwEffMin(eff, strings.Fields(a)[3])
		}
		sh.chunk, sh.closed = 0, false
	}
	open()
	nops := 3 + rng.Intn(10)
	for k := 0; k < nops; k++ {
		switch r := rng.Intn(20); {
		case r < 12: // write
			n := rng.Intn(10)
			if rng.Chance(1, 8) {
				n = int(sh.cs) - int(sh.chunk) // fill the chunk exactly: no request yet
				if n < 0 || n > 40 {
					n = 1
				}
			}
			d := cwData(rng, n)
			flushes := sh.chunk+int64(n) > sh.cs
			fail := flushes && rng.Chance(2, 5)
			lines = append(lines, fmt.Sprintf("cw write %s %s", d, ans(202, fail)))
			for tries := 0; fail && tries < 3 && rng.Chance(5, 6); tries++ {
				// the caller repeats the call that failed, with the same bytes
				fail = rng.Chance(1, 4)
				lines = append(lines, fmt.Sprintf("cw write %s %s", d, ans(202, fail)))
			}
			if !fail && !wild {
				if flushes {
					sh.chunk = 0
				} else {
					sh.chunk += int64(n)
				}
			}
		case r < 14: // close (and perhaps again), then resume where it stopped
			fail := sh.chunk > 0 && rng.Chance(1, 3)
			lines = append(lines, "cw close "+ans(202, fail))
			if rng.Chance(1, 2) {
				lines = append(lines, "cw close "+ans(202, rng.Chance(1, 3)))
			}
			if !fail {
				sh.chunk = 0
			}
			if rng.Chance(2, 3) {
				h2 := hint
				if rng.Chance(1, 3) {
					h2 = pick(rng, []int{1, 2, 3, 4, 8})
				}
				if rng.Chance(1, 2) {
					lines = append(lines, fmt.Sprintf("cw resume @ @ %d %s", h2, cwWild(rng)))
					sh.cs = int64(h2)
					if h2 <= 0 {
						sh.cs = 65536
					}
					sh.chunk = 0
				} else {
					lines = append(lines, fmt.Sprintf("cw resume @ -1 %d %s", h2, cwAnsStr(204, tok(pick(rng, cwGoodLocs)), tok(pick(rng, []string{"0-0", "0-4", "0-9", "0-2"})), "-")))
					sh.cs = int64(h2)
					if h2 <= 0 {
						sh.cs = 65536
					}
					sh.chunk = 0
				}
			}
		case r < 16: // commit in the middle (a caller that carries on regardless)
			fail := rng.Chance(1, 2)
			dg := pick(rng, cwDigests)
			lines = append(lines, fmt.Sprintf("cw commit %s %s", tok(dg), ans(201, fail)))
			if fail && rng.Chance(3, 4) {
				lines = append(lines, fmt.Sprintf("cw commit %s %s", tok(dg), ans(201, false)))
				fail = false
			}
			if !fail {
				sh.chunk = 0
			}
		case r < 17:
			lines = append(lines, fmt.Sprintf("cw commit %s %s", tok(""), ans(201, false)))
		case r < 18:
			lines = append(lines, "cw cancel")
		default: // a failing close, then the calls that still deliver the data
			lines = append(lines, "cw close "+ans(202, true))
			lines = append(lines, "cw close "+ans(202, false))
			lines = append(lines, fmt.Sprintf("cw write %s %s", cwData(rng, 1+rng.Intn(6)), ans(202, false)))
		}
	}
	if rng.Chance(5, 6) {
		dg := pick(rng, cwDigests[:3])
		if rng.Chance(1, 3) {
			lines = append(lines, fmt.Sprintf("cw commit %s %s", tok(dg), ans(201, true)))
		}
		lines = append(lines, fmt.Sprintf("cw commit %s %s", tok(dg), ans(201, false)))
	}
	tag := ""
	if wild {
		tag = "wild"
	}
	return Case{Tag: tag, Lines: lines}
}

// cwDirected: the edge cases the property names, spelled out.
func cwDirected(rng *RNG) []Case {
	var cases []Case
	good := func(status int, loc string) string { return cwAnsStr(status, tok(loc), "-", "-") }
	dg := tok(cwDigests[0])
	// every kind of refusal for each of Write / Close / Commit, each followed by the same call again
	refusals := []string{
		cwAnsStr(0, "-", "-", "-"), cwAnsStr(400, "-", "-", "-"), cwAnsStr(404, tok("/v2/foo/blobs/uploads/zz"), "-", "-"), cwAnsStr(416, "-", tok("0-2"), "-"),
		cwAnsStr(429, "-", "-", "-"), cwAnsStr(500, "-", "-", "-"), cwAnsStr(503, "-", "-", tok("9223372036854775807")), cwAnsStr(200, tok("/v2/foo/blobs/uploads/zz"), "-", "-"),
		cwAnsStr(201, tok("/v2/foo/blobs/uploads/zz"), "-", "-"), cwAnsStr(202, "-", "-", "-"), cwAnsStr(202, tok(""), "-", "-"), cwAnsStr(202, tok("%zz"), "-", "-"),
		cwAnsStr(304, "-", "-", "-"), cwAnsStr(204, tok("/v2/foo/blobs/uploads/zz"), "-", "-"),
	}
	for _, bad := range refusals {
		for _, hint := range []int{3, 4} {
			l := []string{
				fmt.Sprintf("cw start %d %s", hint, good(202, "/v2/foo/blobs/uploads/u1")),
				"cw write " + tok("abc") + " " + bad,
				"cw write " + tok("de") + " " + bad, // crosses the chunk size: a PATCH of abcde (hint 4) or of abc+de (hint 3: abc is flushed only now)
				"cw write " + tok("de") + " " + bad,
				"cw write " + tok("de") + " " + good(202, "/v2/foo/blobs/uploads/u2?state=1"),
				"cw write " + tok("f") + " " + good(202, "/v2/foo/blobs/uploads/u3"),
				"cw close " + bad,
				"cw close " + good(202, "/v2/foo/blobs/uploads/u4"),
				"cw commit " + dg + " " + strings.Replace(bad, "202 ", "201 ", 1),
				"cw commit " + dg + " " + good(201, "/v2/foo/blobs/f"),
				"cw commit " + dg + " " + good(201, "/v2/foo/blobs/f"),
				"cw write " + tok("gh") + " " + good(202, "/v2/foo/blobs/uploads/u5"),
				"cw close " + good(202, "/v2/foo/blobs/uploads/u6"),
			}
			cases = append(cases, Case{Tag: "directed-refusal", Lines: l})
		}
	}
	// a chunk size dictated by the registry, of every shape, at both places it can arrive (the F18 class)
	for _, m := range cwMins {
		for _, hint := range []int{0, 4} {
			cases = append(cases, Case{Tag: "directed-chunk-min", Lines: []string{
				fmt.Sprintf("cw start %d %s", hint, cwAnsStr(202, tok("/v2/foo/blobs/uploads/u1"), "-", tok(m))),
				"cw write " + tok("hello world") + " " + good(202, "/v2/foo/blobs/uploads/u2"),
				"cw write " + tok("") + " " + good(202, "/v2/foo/blobs/uploads/u2"),
				"cw close " + good(202, "/v2/foo/blobs/uploads/u3"),
				fmt.Sprintf("cw resume @ -1 %d %s", hint, cwAnsStr(204, tok("/v2/foo/blobs/uploads/u4"), tok("0-10"), tok(m))),
				"cw write " + tok("x") + " " + good(202, "/v2/foo/blobs/uploads/u5"),
				"cw write " + tok("yz") + " " + good(202, "/v2/foo/blobs/uploads/u5"),
				"cw commit " + dg + " " + good(201, "/v2/foo/blobs/f"),
			}})
		}
	}
	// every Range answer to the offset question
	for _, r := range append([]string{cwRangeWrap}, cwRanges...) {
		cases = append(cases, Case{Tag: "directed-ask", Lines: []string{
			fmt.Sprintf("cw resume %s -1 4 %s", tok("/v2/foo/blobs/uploads/r1"), cwAnsStr(204, tok("/v2/foo/blobs/uploads/u1"), tok(r), "-")),
			"cw write " + tok("abcde") + " " + good(202, "/v2/foo/blobs/uploads/u2"),
			"cw commit " + dg + " " + good(201, "/v2/foo/blobs/f"),
		}})
	}
	// bad arguments to resume
	for _, id := range []string{"", "%zz", "relative/path", "/v2/foo/blobs/uploads/r1"} {
		for _, off := range []int64{-2, -1, 0, 3} {
			cases = append(cases, Case{Tag: "directed-resume-args", Lines: []string{
				fmt.Sprintf("cw resume %s %d 4 %s", tok(id), off, cwAnsStr(204, tok("/v2/foo/blobs/uploads/u1"), tok("0-2"), "-")),
				"cw write " + tok("abcde") + " " + good(202, "/v2/foo/blobs/uploads/u2"),
				"cw cancel",
			}})
		}
	}
	// the default chunk size: nothing is sent before 64 KiB are exceeded
	big := func(n int) string { return tok(string(bigContent(n))) }
	for _, bad := range []string{cwAnsStr(0, "-", "-", "-"), cwAnsStr(503, "-", "-", "-")} {
		cases = append(cases, Case{Tag: "directed-default-chunk", Lines: []string{
			"cw start 0 " + good(202, "/v2/foo/blobs/uploads/u1"),
			"cw write " + big(40000) + " " + bad,
			"cw write " + big(25536) + " " + bad,
			"cw write " + tok("!") + " " + bad,
			"cw write " + tok("!") + " " + good(202, "/v2/foo/blobs/uploads/u2"),
			"cw write " + big(70000) + " " + bad,
			"cw write " + big(70000) + " " + good(202, "/v2/foo/blobs/uploads/u3"),
			"cw commit " + dg + " " + good(201, "/v2/foo/blobs/f"),
		}})
	}
	_ = rng
	return cases
}

func (*c04w) Gen(rng *RNG, tier string) []Case {
	// NewRNG(seed) and NewRNG(seed+1) are the same splitmix64 sequence one step apart; restart from
	// a mixed output of the given generator so that different seeds give unrelated scripts.
	rng = &RNG{s: rng.Uint64() ^ rng.Uint64()<<1}
	cases := cwDirected(rng)
	n, nw := 12000, 4000
	if tier == "thorough" {
		n, nw = 120000, 40000
	}
	for i := 0; i < n; i++ {
		cases = append(cases, cwGenCase(rng, false))
	}
	for i := 0; i < nw; i++ {
		cases = append(cases, cwGenCase(rng, true))
	}
	return cases
}
