package main

import (
	"unicode"
	"fmt"
	"sort"
	"strings"

	"cuelabs.dev/go/oci/ociregistry/ociauth"
)

// C09: auth scopes behave as finite sets. Exported API only.
//
// Lines (engine "scope", registers named by short strings):
//   scope new R <t r a>*        scope parse R <s>       scope unlimited R
//   scope union R A B           scope canonical R A
//   scope str A | iter A | len A | holds A t r a | contains A B | equal A B | isempty A | isunlimited A

func init() { engines["C09"] = func() Engine { return &c09{} } }

type c09 struct{}

func (*c09) UsesModel() bool { return true }

type rsT = ociauth.ResourceScope

func rsTok(r rsT) string { return tok(r.ResourceType) + " " + tok(r.Resource) + " " + tok(r.Action) }
func rsShow(r rsT) string {
	return tok(r.ResourceType) + ":" + tok(r.Resource) + ":" + tok(r.Action)
}

func (*c09) Impl(c Case) []string {
	regs := map[string]ociauth.Scope{}
	out := make([]string, len(c.Lines))
	for i, l := range c.Lines {
		out[i] = guard(func() string { return c09Line(regs, l) })
	}
	return out
}

func parseTriples(ts []string) ([]rsT, bool) {
	if len(ts)%3 != 0 {
		return nil, false
	}
	var rs []rsT
	for i := 0; i < len(ts); i += 3 {
		t, ok1 := untok(ts[i])
		r, ok2 := untok(ts[i+1])
		a, ok3 := untok(ts[i+2])
		if !ok1 || !ok2 || !ok3 {
			return nil, false
		}
		rs = append(rs, rsT{ResourceType: t, Resource: r, Action: a})
	}
	return rs, true
}

func c09Line(regs map[string]ociauth.Scope, l string) string {
	t := strings.Split(l, " ")
	if len(t) < 2 || t[0] != "scope" {
		return "bad-op"
	}
	b01 := func(b bool) string {
		if b {
			return "1"
		}
		return "0"
	}
	switch {
	case t[1] == "new" && len(t) >= 3:
		rs, ok := parseTriples(t[3:])
		if !ok {
			return "bad-op"
		}
		regs[t[2]] = ociauth.NewScope(rs...)
		return "ok"
	case t[1] == "parse" && len(t) == 4:
		s, ok := untok(t[3])
		if !ok {
			return "bad-op"
		}
		regs[t[2]] = ociauth.ParseScope(s)
		return "ok"
	case t[1] == "unlimited" && len(t) == 3:
		regs[t[2]] = ociauth.UnlimitedScope()
		return "ok"
	case t[1] == "union" && len(t) == 5:
		regs[t[2]] = regs[t[3]].Union(regs[t[4]])
		return "ok"
	case t[1] == "canonical" && len(t) == 4:
		regs[t[2]] = regs[t[3]].Canonical()
		return "ok"
	case t[1] == "str" && len(t) == 3:
		return tok(regs[t[2]].String())
	case t[1] == "iter" && len(t) == 3:
		var items []string
		regs[t[2]].Iter()(func(r rsT) bool {
			items = append(items, rsShow(r))
			return true
		})
		return "[" + strings.Join(items, " ") + "]"
	case t[1] == "len" && len(t) == 3:
		return fmt.Sprint(regs[t[2]].Len())
	case t[1] == "holds" && len(t) == 6:
		rs, ok := parseTriples(t[3:])
		if !ok {
			return "bad-op"
		}
		return b01(regs[t[2]].Holds(rs[0]))
	case t[1] == "contains" && len(t) == 4:
		return b01(regs[t[2]].Contains(regs[t[3]]))
	case t[1] == "equal" && len(t) == 4:
		return b01(regs[t[2]].Equal(regs[t[3]]))
	case t[1] == "isempty" && len(t) == 3:
		return b01(regs[t[2]].IsEmpty())
	case t[1] == "isunlimited" && len(t) == 3:
		return b01(regs[t[2]].IsUnlimited())
	}
	return "bad-op"
}

// ---- generation ----

var c09Small = []rsT{
	{"repository", "a", "pull"},
	{"repository", "a", "push"},
	{"repository", "b", "pull"},
	{"registry", "catalog", "*"},
	{"repository", "a", "delete"},
	{"foo", "bar", "baz"},
	{"repository", "", "pull"},
	{"repository", "a", "PULL"}, // case variants of the known actions are other actions
	{"repository", "a", "Push"},
}

func c09PairCase(a, b []rsT, probes []rsT) Case {
	var ls []string
	mk := func(reg string, rs []rsT) {
		parts := []string{"scope new " + reg}
		for _, r := range rs {
			parts = append(parts, rsTok(r))
		}
		ls = append(ls, strings.Join(parts, " "))
	}
	mk("a", a)
	mk("b", b)
	ls = append(ls, "scope iter a", "scope len a", "scope str a", "scope isempty a",
		"scope union u a b", "scope iter u", "scope len u", "scope str u",
		"scope union v b a", "scope equal u v",
		"scope contains a b", "scope contains b a", "scope contains u a", "scope contains u b",
		"scope equal a b", "scope parse p "+"@stra", "scope equal p a")
	for _, r := range probes {
		ls = append(ls, "scope holds a "+rsTok(r), "scope holds u "+rsTok(r))
	}
	return Case{Lines: ls}
}

// The line "scope parse p @stra" needs a's printed form, which only the
// implementation knows at run time; instead the generator prints it itself
// using the exported API (String of a NewScope) — this is input construction,
// not an oracle.
func c09Fix(c Case, a []rsT) Case {
	s := ociauth.NewScope(append([]rsT(nil), a...)...).String()
	for i, l := range c.Lines {
		c.Lines[i] = strings.Replace(l, "@stra", tok(s), 1)
	}
	return c
}

func (*c09) Gen(rng *RNG, tier string) []Case {
	var cases []Case
	n := len(c09Small)
	subset := func(mask int) []rsT {
		var rs []rsT
		for i := 0; i < n; i++ {
			if mask>>uint(i)&1 == 1 {
				rs = append(rs, c09Small[i])
			}
		}
		return rs
	}
	// exhaustive over the small universe: all pairs of subsets
	for ma := 0; ma < 1<<uint(n); ma++ {
		for mb := 0; mb < 1<<uint(n); mb++ {
			if tier != "thorough" && (ma*131+mb*17)%4 != 0 && ma != mb && mb != 0 && ma != 0 {
				continue // quick: a quarter of the pairs plus the diagonals
			}
			a, b := subset(ma), subset(mb)
			cases = append(cases, c09Fix(c09PairCase(a, b, c09Small), a))
		}
	}
	// unlimited
	cases = append(cases, Case{Lines: []string{
		"scope unlimited u", "scope new a " + rsTok(c09Small[0]), "scope new e",
		"scope contains u a", "scope contains a u", "scope contains u u", "scope contains u e", "scope contains e u",
		"scope holds u " + rsTok(c09Small[3]), "scope holds u " + rsTok(rsT{"x", "y", "z"}),
		"scope union w a u", "scope isunlimited w", "scope union x u a", "scope isunlimited x", "scope str u", "scope iter u",
		"scope len e", "scope isempty e", "scope isempty u", "scope equal u u", "scope equal u e", "scope len u",
	}})
	// a union that adds nothing returns its receiver, text included - also when the argument holds only SOME of the receiver's
	// actions on a repository they share (seed C09-13: "masks differ" taken for "something was added")
	for _, pr := range [][2]string{
		{"repository:foo:push,pull other", "repository:foo:pull"},
		{"repository:foo:push,pull other", "repository:foo:push"},
		{"repository:foo:push,delete,pull repository:bar:pull", "repository:foo:delete,push"},
		{"other repository:foo:pull,push", "repository:foo:pull other"},
		{"repository:b:pull repository:a:push,pull", "repository:a:pull"},
		{"repository:foo:pull,push,purge", "repository:foo:purge"},
	} {
		cases = append(cases, Case{Tag: "directed:union-noop-subset-actions", Lines: []string{
			"scope parse a " + tok(pr[0]), "scope parse b " + tok(pr[1]), "scope str a", "scope union u a b", "scope str u", "scope equal u a", "scope iter u"}})
	}
	// random large universes, permutations and duplicates, parse strings
	types := []string{"repository", "registry", "foo", "repo", "", "repository2", "Repository", "REGISTRY"}
	ress := []string{"", "a", "b", "a/b", "catalog", "zz", "A", "a b", "é", "\xff", "a:b", "x,y", "Catalog", "CATALOG"}
	acts := []string{"pull", "push", "*", "delete", "", "pul", "pushx", "pull,push", "PULL", "Push", "pULL", "PUSH", "pull ", " push",
		// unknown actions that sort between, next to and around the two known ones (seed C09-12: Iter order inside one repository)
		"pull-through", "pulp", "pullx", "pus", "pull\x00", "pum", "pusha", "q", "o", "pulk"}
	randRS := func() rsT {
		switch rng.Intn(10) {
		case 0:
			return rsT{"registry", "catalog", "*"}
		case 1, 2, 3, 4:
			return rsT{"repository", pick(rng, ress), pick(rng, []string{"pull", "push"})}
		case 5:
			return rsT{ResourceType: pick(rng, []string{"opaque", "x", "repository", "registry"})}
		}
		return rsT{pick(rng, types), pick(rng, ress), pick(rng, acts)}
	}
	nr := 1500
	if tier == "thorough" {
		nr = 30000
	}
	for i := 0; i < nr; i++ {
		ka, kb := rng.Intn(9), rng.Intn(9)
		var a, b []rsT
		for j := 0; j < ka; j++ {
			a = append(a, randRS())
		}
		for j := 0; j < kb; j++ {
			if len(a) > 0 && rng.Chance(1, 3) {
				b = append(b, pick(rng, a))
			} else {
				b = append(b, randRS())
			}
		}
		if rng.Chance(1, 4) { // duplicates and permutations of a
			a = append(a, a...)
			p := rng.Perm(len(a))
			a2 := make([]rsT, len(a))
			for j, k := range p {
				a2[j] = a[k]
			}
			a = a2
		}
		probes := []rsT{randRS(), randRS(), {"registry", "catalog", "*"}}
		probes = append(probes, a...)
		if len(probes) > 8 {
			probes = probes[:8]
		}
		cases = append(cases, c09Fix(c09PairCase(a, b, probes), a))
	}
	// scope strings: fields joined by assorted white space, actions joined by commas
	seps := []string{" ", "  ", "\t", "\n", " ", " ", " 　 ", "\v\f\r", "\u0085"}
	ns := 800
	if tier == "thorough" {
		ns = 20000
	}
	for i := 0; i < ns; i++ {
		var sb strings.Builder
		k := rng.Intn(6)
		if rng.Chance(1, 5) {
			sb.WriteString(pick(rng, seps))
		}
		for j := 0; j < k; j++ {
			if j > 0 {
				sb.WriteString(pick(rng, seps))
			}
			switch rng.Intn(8) {
			case 0:
				sb.WriteString(pick(rng, []string{"opaque", "a:b", "a:b:c:d", ":", "::", ":::", "repository:foo", "\xc2", "\xe2\x80", "x\xe1\x9a"}))
			case 1:
				sb.WriteString("registry:catalog:*")
			default:
				na := 1 + rng.Intn(3)
				var as []string
				for q := 0; q < na; q++ {
					as = append(as, pick(rng, []string{"pull", "push", "pull", "push", "delete", "*", "", "PULL", "Push", "pull-through", "pulp", "pum", "pusha", "q"}))
				}
				sb.WriteString(pick(rng, []string{"repository", "repository", "foo"}) + ":" + pick(rng, []string{"a", "b", "a/b", "", "zz"}) + ":" + strings.Join(as, ","))
			}
		}
		if rng.Chance(1, 5) {
			sb.WriteString(pick(rng, seps))
		}
		s := sb.String()
		cases = append(cases, Case{Lines: []string{
			"scope parse p " + tok(s), "scope str p", "scope iter p", "scope len p", "scope canonical c p", "scope str c",
			"scope equal p c", "scope parse q @strc", "scope equal q p", "scope union u p c", "scope str u",
			"scope new e", "scope union v p e", "scope str v", "scope union w e p", "scope str w",
		}})
		// fill @strc with the canonical text, via the exported API
		cs := ociauth.ParseScope(s).Canonical().String()
		last := &cases[len(cases)-1]
		for j, l := range last.Lines {
			last.Lines[j] = strings.Replace(l, "@strc", tok(cs), 1)
		}
	}
	return cases
}

// ---- oracle: the naive set model, in Go, independent of the Lean model ----

type c09Set struct {
	unlimited bool
	m         map[rsT]bool
}

// c09NaiveParse reads a scope string by the documented grammar.
func c09NaiveParse(text string) *c09Set {
	ps := &c09Set{m: map[rsT]bool{}}
	for _, w := range strings.FieldsFunc(text, unicode.IsSpace) {
		parts := strings.Split(w, ":")
		if len(parts) != 3 {
			ps.m[rsT{ResourceType: w}] = true
			continue
		}
		for _, a := range strings.Split(parts[2], ",") {
			ps.m[rsT{parts[0], parts[1], a}] = true
		}
	}
	return ps
}

// c09AllClean: every member is either an opaque word or has three fields free of separators.
func c09AllClean(s *c09Set) bool {
	for r := range s.m {
		opaque := r.Resource == "" && r.Action == "" && cleanField(r.ResourceType)
		if !opaque && !(cleanField(r.ResourceType) && cleanField(r.Resource) && cleanField(r.Action)) {
			return false
		}
	}
	return true
}

func rsLess(a, b rsT) bool { return a.Compare(b) < 0 }

func parseIterOut(s string) ([]rsT, bool) {
	if len(s) < 2 || s[0] != '[' || s[len(s)-1] != ']' {
		return nil, false
	}
	s = s[1 : len(s)-1]
	if s == "" {
		return nil, true
	}
	var rs []rsT
	for _, it := range strings.Split(s, " ") {
		p := strings.Split(it, ":")
		if len(p) != 3 {
			return nil, false
		}
		t, _ := untok(p[0])
		r, _ := untok(p[1])
		a, _ := untok(p[2])
		rs = append(rs, rsT{t, r, a})
	}
	return rs, true
}

func cleanField(s string) bool {
	if s == "" {
		return false
	}
	for _, r := range s {
		if r == ':' || r == ',' || r == ' ' || r == '\t' || r == '\n' || r == '\v' || r == '\f' || r == '\r' || r == 0x85 || r == 0xA0 || r == 0x1680 || (r >= 0x2000 && r <= 0x200a) || r == 0x2028 || r == 0x2029 || r == 0x202f || r == 0x205f || r == 0x3000 {
			return false
		}
	}
	return true
}

func (*c09) Oracle(c Case, impl []string) []Failure {
	var fs []Failure
	sets := map[string]*c09Set{}
	built := map[string]string{} // register -> how it was built ("new", "parse", …)
	get := func(k string) *c09Set {
		if s, ok := sets[k]; ok {
			return s
		}
		return &c09Set{m: map[rsT]bool{}}
	}
	fail := func(i int, class, oracle, exp string) {
		fs = append(fs, Failure{Class: class, Oracle: oracle, Index: i, Expected: exp, Observed: impl[i]})
	}
	strOf := map[string]string{}
	for i, l := range c.Lines {
		if i >= len(impl) {
			break
		}
		t := strings.Split(l, " ")
		got := impl[i]
		if got == "panic" && !(t[1] == "len" && get(t[2]).unlimited) {
			fail(i, "scope-panic:"+t[1], "scope_total", "no panic")
			continue
		}
		switch t[1] {
		case "new":
			rs, _ := parseTriples(t[3:])
			s := &c09Set{m: map[rsT]bool{}}
			for _, r := range rs {
				s.m[r] = true
			}
			sets[t[2]] = s
			built[t[2]] = "new"
		case "unlimited":
			sets[t[2]] = &c09Set{unlimited: true, m: map[rsT]bool{}}
		case "parse":
			// the documented grammar: words separated by white space; a word of exactly three
			// colon-separated parts is type:resource:action[,action…], any other word is one scope
			// whose type is the whole word
			built[t[2]] = "parse"
			delete(sets, t[2])
			if len(t) == 4 {
				if text, ok := untok(t[3]); ok {
					sets[t[2]] = c09NaiveParse(text)
				}
			}
		case "canonical":
			sets[t[2]] = get(t[3])
			if _, ok := sets[t[3]]; !ok {
				delete(sets, t[2])
			}
		case "union":
			a, aok := sets[t[3]]
			b, bok := sets[t[4]]
			if !aok || !bok {
				delete(sets, t[2])
				break
			}
			u := &c09Set{unlimited: a.unlimited || b.unlimited, m: map[rsT]bool{}}
			if !u.unlimited {
				for r := range a.m {
					u.m[r] = true
				}
				for r := range b.m {
					u.m[r] = true
				}
			}
			sets[t[2]] = u
			// a union that adds nothing returns its receiver, text included
			if !a.unlimited && !b.unlimited {
				sub := true
				for r := range b.m {
					if !a.m[r] {
						sub = false
					}
				}
				if sub {
					strOf["="+t[2]] = t[3]
				}
			}
		case "iter":
			items, ok := parseIterOut(got)
			if !ok {
				fail(i, "scope-iter", "iter_wellformed", "a list")
				break
			}
			for j := 1; j < len(items); j++ {
				if !rsLess(items[j-1], items[j]) {
					fail(i, "scope-iter-order", "iter_strictly_ascending", "strictly ascending items")
					break
				}
			}
			s, known := sets[t[2]]
			if !known {
				s = &c09Set{m: map[rsT]bool{}}
				for _, r := range items {
					s.m[r] = true
				}
				sets[t[2]] = s
				break
			}
			if s.unlimited {
				if len(items) != 0 {
					fail(i, "scope-iter", "iter_unlimited_empty", "[]")
				}
				break
			}
			want := make([]rsT, 0, len(s.m))
			for r := range s.m {
				want = append(want, r)
			}
			sort.Slice(want, func(a, b int) bool { return rsLess(want[a], want[b]) })
			var ws []string
			for _, r := range want {
				ws = append(ws, rsShow(r))
			}
			if exp := "[" + strings.Join(ws, " ") + "]"; exp != got {
				fail(i, c09Class("scope-iter-set", want, items), "iter_is_naive_set", exp)
			}
		case "len":
			if s, ok := sets[t[2]]; ok {
				if s.unlimited {
					if got != "panic" {
						fail(i, "scope-len", "len_unlimited_panics(documented)", "panic")
					}
				} else if got != fmt.Sprint(len(s.m)) {
					fail(i, c09ClassSet("scope-len", s), "len_eq_card", fmt.Sprint(len(s.m)))
				}
			}
		case "holds":
			if s, ok := sets[t[2]]; ok {
				rs, _ := parseTriples(t[3:])
				want := s.unlimited || s.m[rs[0]]
				if (got == "1") != want {
					fail(i, c09ClassRS("scope-holds", rs[0], s), "holds_iff_mem", map[bool]string{true: "1", false: "0"}[want])
				}
			}
		case "contains":
			a, aok := sets[t[2]]
			b, bok := sets[t[3]]
			if aok && bok {
				want := a.unlimited
				if !a.unlimited && !b.unlimited {
					want = true
					for r := range b.m {
						if !a.m[r] {
							want = false
						}
					}
				}
				if (got == "1") != want {
					fail(i, c09ClassSet("scope-contains", a, b), "contains_iff_subset", map[bool]string{true: "1", false: "0"}[want])
				}
			}
		case "equal":
			a, aok := sets[t[2]]
			b, bok := sets[t[3]]
			if aok && bok {
				want := a.unlimited == b.unlimited && len(a.m) == len(b.m)
				if want {
					for r := range a.m {
						if !b.m[r] {
							want = false
						}
					}
				}
				if (got == "1") != want {
					fail(i, c09ClassSet("scope-equal", a, b), "equal_iff_same_set", map[bool]string{true: "1", false: "0"}[want])
				}
			} else if aok != bok && built[t[2]] == "parse" && strings.HasPrefix(c.Lines[i-1], "scope parse "+t[2]+" ") {
				// print/parse round trip: p := Parse(String(a)); Equal(p, a) for clean a
				other := sets[t[3]]
				if other != nil && !other.unlimited {
					clean := true
					for r := range other.m {
						opaque := r.Resource == "" && r.Action == "" && cleanField(r.ResourceType)
						if !opaque && !(cleanField(r.ResourceType) && cleanField(r.Resource) && cleanField(r.Action)) {
							clean = false
						}
					}
					if clean && got != "1" {
						fail(i, c09ClassSet("scope-print-parse", other), "print_parse_roundtrip", "1")
					}
				}
			}
		case "isempty":
			if s, ok := sets[t[2]]; ok {
				want := !s.unlimited && len(s.m) == 0
				if (got == "1") != want {
					fail(i, "scope-isempty", "isempty", map[bool]string{true: "1", false: "0"}[want])
				}
			}
		case "isunlimited":
			if s, ok := sets[t[2]]; ok && (got == "1") != s.unlimited {
				fail(i, "scope-isunlimited", "unlimited_absorbs", map[bool]string{true: "1", false: "0"}[s.unlimited])
			}
		case "str":
			strOf[t[2]] = got
			// the text of a scope is what is sent to a token server: read by the documented grammar
			// it has to name exactly the scope's members (texts kept verbatim from a parse included)
			if s, ok := sets[t[2]]; ok && !s.unlimited && c09AllClean(s) {
				if text, ok := untok(got); ok {
					ps := c09NaiveParse(text)
					same := len(ps.m) == len(s.m)
					for r := range s.m {
						if !ps.m[r] {
							same = false
						}
					}
					if !same {
						fail(i, c09ClassSet("scope-text", s), "text_names_exactly_the_members", "a text that reads back as the same set")
					}
				}
			}
			if recv, ok := strOf["="+t[2]]; ok {
				if rs, ok2 := strOf[recv]; ok2 && rs != got {
					fail(i, "scope-union-noop-text", "union_noop_returns_receiver", rs)
				}
			}
		}
	}
	return fs
}

// c09Class makes failure classes specific enough that a known finding does not
// hide a different failure: it records whether an empty repository name or the
// catalog scope is involved.
func c09Class(base string, want, got []rsT) string {
	s := &c09Set{m: map[rsT]bool{}}
	for _, r := range want {
		s.m[r] = true
	}
	for _, r := range got {
		s.m[r] = true
	}
	return c09ClassSet(base, s)
}

func c09ClassSet(base string, ss ...*c09Set) string {
	for _, s := range ss {
		for r := range s.m {
			if r.ResourceType == "repository" && r.Resource == "" && (r.Action == "pull" || r.Action == "push") {
				return base + ":empty-repository-name"
			}
		}
	}
	return base
}

func c09ClassRS(base string, r rsT, s *c09Set) string {
	if r.ResourceType == "repository" && r.Resource == "" && (r.Action == "pull" || r.Action == "push") {
		return base + ":empty-repository-name"
	}
	return c09ClassSet(base, s)
}

func (*c09) NonTrivial(c Case, impl []string) (bool, string) {
	n := 0
	for i, l := range c.Lines {
		if strings.HasPrefix(l, "scope iter") && i < len(impl) && impl[i] != "[]" {
			n++
		}
	}
	if strings.HasPrefix(c.Lines[0], "scope parse") {
		return n > 0, "parse-string"
	}
	if strings.HasPrefix(c.Lines[0], "scope unlimited") {
		return true, "unlimited"
	}
	return n > 0, "pair"
}
