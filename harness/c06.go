package main

import (
	"bytes"
	"context"
	"encoding/json"
	"errors"
	"fmt"
	"io"
	"net/http"
	"net/http/httptest"
	"net/url"
	"strconv"
	"strings"

	"cuelabs.dev/go/oci/ociregistry"
	"cuelabs.dev/go/oci/ociregistry/ocimem"
	"cuelabs.dev/go/oci/ociregistry/ociref"
	"cuelabs.dev/go/oci/ociregistry/ociserver"
	"cuelabs.dev/go/oci/ociregistry/ociverif"
)

// C06: the server is total and protocol-conformant on arbitrary HTTP requests.
//
// Two kinds of lines:
//   req parse <method> <path> <qerr 0|1> (<key> <value>)*      direct differential on the request classifier
//   req parserange <a> <b> | req rangestring <s> <e>           Content-Range codec
//   srv <backend rec|recfail|mem> <opts bits> <method> <target> <body> (<header> <value>)*   a full request, in-process
// `srv` lines are judged by oracles only (the model answers "skip").

func init() { engines["C06"] = func() Engine { return &c06{} } }

type c06 struct{}

func (*c06) UsesModel() bool { return true }

var kindNames = map[ociverif.Kind]string{
	ociverif.ReqPing: "ReqPing", ociverif.ReqBlobGet: "ReqBlobGet", ociverif.ReqBlobHead: "ReqBlobHead", ociverif.ReqBlobDelete: "ReqBlobDelete",
	ociverif.ReqBlobStartUpload: "ReqBlobStartUpload", ociverif.ReqBlobUploadBlob: "ReqBlobUploadBlob", ociverif.ReqBlobMount: "ReqBlobMount",
	ociverif.ReqBlobUploadInfo: "ReqBlobUploadInfo", ociverif.ReqBlobUploadChunk: "ReqBlobUploadChunk", ociverif.ReqBlobCompleteUpload: "ReqBlobCompleteUpload",
	ociverif.ReqManifestGet: "ReqManifestGet", ociverif.ReqManifestHead: "ReqManifestHead", ociverif.ReqManifestPut: "ReqManifestPut",
	ociverif.ReqManifestDelete: "ReqManifestDelete", ociverif.ReqTagsList: "ReqTagsList", ociverif.ReqReferrersList: "ReqReferrersList",
	ociverif.ReqCatalogList: "ReqCatalogList",
}

func showParsed(r *ociverif.Request, err error) string {
	if err != nil {
		var perr *ociverif.ParseError
		if !errors.As(err, &perr) {
			return "err not-a-ParseError"
		}
		var oerr ociregistry.Error
		switch {
		case errors.Is(perr.Err, ociverif.ErrNotFound):
			return "err not-found"
		case errors.Is(perr.Err, ociverif.ErrBadlyFormedDigest):
			return "err badly-formed-digest"
		case errors.Is(perr.Err, ociverif.ErrMethodNotAllowed):
			return "err method-not-allowed"
		case errors.Is(perr.Err, ociverif.ErrBadRequest):
			return "err bad-request"
		case errors.As(perr.Err, &oerr):
			switch oerr.Code() {
			case "NAME_UNKNOWN":
				return "err unknown-path"
			case "NAME_INVALID":
				return "err name-invalid"
			case "DIGEST_INVALID":
				return "err digest-invalid"
			}
			return "err coded-" + oerr.Code()
		}
		if strings.Contains(perr.Err.Error(), "upload ID") {
			return "err bad-upload-id"
		}
		return "err bad-query"
	}
	return fmt.Sprintf("ok %s %s %s %s %s %s %d %s", kindNames[r.Kind], tok(r.Repo), tok(r.Digest), tok(r.Tag), tok(r.FromRepo), tok(r.UploadID), r.ListN, tok(r.ListLast))
}

func rawQueryFromPairs(t []string) string {
	var parts []string
	for i := 0; i+1 < len(t); i += 2 {
		k, _ := untok(t[i])
		v, _ := untok(t[i+1])
		parts = append(parts, url.QueryEscape(k)+"="+url.QueryEscape(v))
	}
	return strings.Join(parts, "&")
}

func (e *c06) Impl(c Case) []string {
	out := make([]string, len(c.Lines))
	for i, l := range c.Lines {
		out[i] = guard(func() string { return c06Line(l) })
	}
	return out
}

func c06Line(l string) string {
	t := strings.Split(l, " ")
	switch {
	case len(t) >= 5 && t[0] == "req" && t[1] == "parse":
		m, _ := untok(t[2])
		p, _ := untok(t[3])
		u := &url.URL{Path: p, RawQuery: rawQueryFromPairs(t[5:])}
		if t[4] == "1" {
			u.RawQuery = "a=%zz"
		}
		return showParsed(ociverif.Parse(m, u))
	case len(t) == 4 && t[0] == "req" && t[1] == "parserange":
		s, e, ok := ociverif.ParseRange(t[2] + "-" + t[3])
		if !ok {
			return "not-ok"
		}
		return fmt.Sprintf("%d %d", s, e)
	case len(t) == 4 && t[0] == "req" && t[1] == "rangestring":
		a, _ := strconv.ParseInt(t[2], 10, 64)
		b, _ := strconv.ParseInt(t[3], 10, 64)
		return ociverif.RangeString(a, b)
	case len(t) >= 6 && t[0] == "srv":
		return c06Serve(t).summary()
	}
	return "bad-op"
}

// ---- recording / validating backend ----

type srvRecCall struct {
	method string
	args   []string
	bad    string // non-empty: an argument that is not syntactically valid
}

// midFailReader yields n bytes and then fails: an upstream that drops the connection.
type midFailReader struct {
	r io.Reader
	n int
}

func (m *midFailReader) Read(p []byte) (int, error) {
	if m.n <= 0 {
		return 0, errors.New("backend reader failed mid-stream")
	}
	if len(p) > m.n {
		p = p[:m.n]
	}
	k, err := m.r.Read(p)
	m.n -= k
	return k, err
}

type srvRecBackend struct {
	*ociregistry.Funcs
	midFail bool
	// writerSize is the size of the last writer handed out, when it was closed (-1: none closed)
	writerSize int64
	fail       bool
	calls   []srvRecCall
	opened  int
	closed  int
	content []byte
}

type srvRecReader struct {
	io.Reader
	b    *srvRecBackend
	desc ociregistry.Descriptor
	done bool
}

func (r *srvRecReader) Close() error {
	if !r.done {
		r.done = true
		r.b.closed++
	}
	return nil
}
func (r *srvRecReader) Descriptor() ociregistry.Descriptor { return r.desc }

type srvRecWriter struct {
	b    *srvRecBackend
	id   string
	n    int64
	done bool
}

func (w *srvRecWriter) Write(p []byte) (int, error) { w.n += int64(len(p)); return len(p), nil }
func (w *srvRecWriter) Close() error {
	if !w.done {
		w.done = true
		w.b.closed++
		w.b.writerSize = w.n
	}
	return nil
}
func (w *srvRecWriter) Size() int64    { return w.n }
func (w *srvRecWriter) ChunkSize() int { return 16 }
func (w *srvRecWriter) ID() string     { return w.id }
func (w *srvRecWriter) Cancel() error  { return nil }
func (w *srvRecWriter) Commit(d ociregistry.Digest) (ociregistry.Descriptor, error) {
	w.b.record("Commit", "", "", string(d))
	if w.b.fail {
		return ociregistry.Descriptor{}, ociregistry.ErrDigestInvalid
	}
	return ociregistry.Descriptor{MediaType: "application/octet-stream", Digest: d, Size: w.n}, nil
}

func (b *srvRecBackend) record(method, repo, tag, dig string, more ...string) {
	c := srvRecCall{method: method, args: append([]string{repo, tag, dig}, more...)}
	// judged by the harness's own reading of the grammar as well as by the library's predicates: a
	// predicate that has gone soft must not vouch for itself
	if method != "Repositories" && method != "Commit" && !(ociref.IsValidRepository(repo) && refRepoValid(repo)) {
		c.bad = "repository " + strconv.Quote(repo)
	}
	if tag != "" && !(ociref.IsValidTag(tag) && refTagValid(tag)) {
		c.bad = "tag " + strconv.Quote(tag)
	}
	if dig != "" && !ociref.IsValidDigest(dig) {
		c.bad = "digest " + strconv.Quote(dig)
	}
	b.calls = append(b.calls, c)
}

func (b *srvRecBackend) reader(n int) (ociregistry.BlobReader, error) {
	if b.fail {
		return nil, ociregistry.ErrBlobUnknown
	}
	b.opened++
	data := b.content
	if n >= 0 && n < len(data) {
		data = data[:n]
	}
	if b.midFail {
		return &srvRecReader{Reader: &midFailReader{bytes.NewReader(data), 4}, b: b, desc: ociregistry.Descriptor{MediaType: "application/octet-stream", Digest: ociregistry.Digest(sha256Digest(b.content)), Size: int64(len(b.content))}}, nil
	}
	return &srvRecReader{Reader: bytes.NewReader(data), b: b, desc: ociregistry.Descriptor{MediaType: "application/octet-stream", Digest: ociregistry.Digest(sha256Digest(b.content)), Size: int64(len(b.content))}}, nil
}

func (b *srvRecBackend) desc() (ociregistry.Descriptor, error) {
	if b.fail {
		return ociregistry.Descriptor{}, ociregistry.ErrManifestUnknown
	}
	return ociregistry.Descriptor{MediaType: "application/vnd.oci.image.manifest.v1+json", Digest: ociregistry.Digest(sha256Digest(b.content)), Size: int64(len(b.content))}, nil
}

func newSrvRecBackend(fail bool) *srvRecBackend {
	b := &srvRecBackend{fail: fail, content: []byte("0123456789"), writerSize: -1}
	seqErr := func() ociregistry.Seq[string] {
		if fail {
			return ociregistry.ErrorSeq[string](ociregistry.ErrNameUnknown)
		}
		return ociregistry.SliceSeq([]string{"a", "b", "c"})
	}
	b.Funcs = &ociregistry.Funcs{
		GetBlob_: func(ctx context.Context, repo string, d ociregistry.Digest) (ociregistry.BlobReader, error) {
			b.record("GetBlob", repo, "", string(d))
			return b.reader(-1)
		},
		GetBlobRange_: func(ctx context.Context, repo string, d ociregistry.Digest, o0, o1 int64) (ociregistry.BlobReader, error) {
			b.record("GetBlobRange", repo, "", string(d), fmt.Sprint(o0), fmt.Sprint(o1))
			if b.fail {
				return nil, ociregistry.ErrBlobUnknown
			}
			n := int64(len(b.content))
			if o1 < 0 || o1 > n {
				o1 = n
			}
			if o0 > o1 && o0 <= n {
				return nil, fmt.Errorf("bad range")
			}
			if o0 > o1 {
				// a lenient backend: a start beyond the end yields an empty reader describing the blob
				// (the server then has to refuse the range itself, and still close what it was given)
				o0, o1 = n, n
			}
			b.opened++
			return &srvRecReader{Reader: bytes.NewReader(b.content[o0:o1]), b: b, desc: ociregistry.Descriptor{MediaType: "application/octet-stream", Digest: ociregistry.Digest(sha256Digest(b.content)), Size: n}}, nil
		},
		GetManifest_: func(ctx context.Context, repo string, d ociregistry.Digest) (ociregistry.BlobReader, error) {
			b.record("GetManifest", repo, "", string(d))
			return b.reader(-1)
		},
		GetTag_: func(ctx context.Context, repo, tag string) (ociregistry.BlobReader, error) {
			b.record("GetTag", repo, tag, "")
			return b.reader(-1)
		},
		ResolveBlob_: func(ctx context.Context, repo string, d ociregistry.Digest) (ociregistry.Descriptor, error) {
			b.record("ResolveBlob", repo, "", string(d))
			return b.desc()
		},
		ResolveManifest_: func(ctx context.Context, repo string, d ociregistry.Digest) (ociregistry.Descriptor, error) {
			b.record("ResolveManifest", repo, "", string(d))
			return b.desc()
		},
		ResolveTag_: func(ctx context.Context, repo, tag string) (ociregistry.Descriptor, error) {
			b.record("ResolveTag", repo, tag, "")
			return b.desc()
		},
		PushBlob_: func(ctx context.Context, repo string, desc ociregistry.Descriptor, r io.Reader) (ociregistry.Descriptor, error) {
			b.record("PushBlob", repo, "", string(desc.Digest))
			io.Copy(io.Discard, r)
			if b.fail {
				return ociregistry.Descriptor{}, ociregistry.ErrDigestInvalid
			}
			return desc, nil
		},
		PushBlobChunked_: func(ctx context.Context, repo string, chunkSize int) (ociregistry.BlobWriter, error) {
			b.record("PushBlobChunked", repo, "", "")
			if b.fail {
				return nil, ociregistry.ErrDenied
			}
			b.opened++
			// an upload ID as a proxying backend hands out: a URL with a query, so that its base64 form
			// uses every character of the alphabet
			return &srvRecWriter{b: b, id: "https://up.example/v2/u?_state=a~b>c&x=??>>~~"}, nil
		},
		PushBlobChunkedResume_: func(ctx context.Context, repo, id string, offset int64, chunkSize int) (ociregistry.BlobWriter, error) {
			b.record("PushBlobChunkedResume", repo, "", "", id, fmt.Sprint(offset))
			if b.fail {
				return nil, ociregistry.ErrBlobUploadUnknown
			}
			b.opened++
			return &srvRecWriter{b: b, id: id}, nil
		},
		MountBlob_: func(ctx context.Context, from, to string, d ociregistry.Digest) (ociregistry.Descriptor, error) {
			b.record("MountBlob", to, "", string(d), from)
			if !ociref.IsValidRepository(from) {
				b.calls[len(b.calls)-1].bad = "repository " + strconv.Quote(from)
			}
			return b.desc()
		},
		PushManifest_: func(ctx context.Context, repo, tag string, data []byte, mt string) (ociregistry.Descriptor, error) {
			b.record("PushManifest", repo, tag, "")
			if b.fail {
				return ociregistry.Descriptor{}, ociregistry.ErrManifestInvalid
			}
			return ociregistry.Descriptor{MediaType: mt, Digest: ociregistry.Digest(sha256Digest(data)), Size: int64(len(data))}, nil
		},
		DeleteBlob_: func(ctx context.Context, repo string, d ociregistry.Digest) error {
			b.record("DeleteBlob", repo, "", string(d))
			if b.fail {
				return ociregistry.ErrBlobUnknown
			}
			return nil
		},
		DeleteManifest_: func(ctx context.Context, repo string, d ociregistry.Digest) error {
			b.record("DeleteManifest", repo, "", string(d))
			if b.fail {
				return ociregistry.ErrManifestUnknown
			}
			return nil
		},
		DeleteTag_: func(ctx context.Context, repo, tag string) error {
			b.record("DeleteTag", repo, tag, "")
			if b.fail {
				return ociregistry.ErrDenied
			}
			return nil
		},
		Repositories_: func(ctx context.Context, start string) ociregistry.Seq[string] {
			b.record("Repositories", "", "", "", start)
			return seqErr()
		},
		Tags_: func(ctx context.Context, repo, start string) ociregistry.Seq[string] {
			b.record("Tags", repo, "", "", start)
			return seqErr()
		},
		Referrers_: func(ctx context.Context, repo string, d ociregistry.Digest, at string) ociregistry.Seq[ociregistry.Descriptor] {
			b.record("Referrers", repo, "", string(d))
			if b.fail {
				return ociregistry.ErrorSeq[ociregistry.Descriptor](ociregistry.ErrNameUnknown)
			}
			dd, _ := b.desc()
			return ociregistry.SliceSeq([]ociregistry.Descriptor{dd})
		},
	}
	return b
}

// ---- serving one request in-process ----

type served struct {
	panicked  string
	status    int
	header    http.Header
	body      []byte
	calls     []srvRecCall
	opened    int
	closed    int
	wsize     int64
	skipped   string
	method    string
	parsed    *ociverif.Request
	parseErr  error
	reqHeader http.Header
}

func (s *served) summary() string {
	if s.skipped != "" {
		return "skipped " + s.skipped
	}
	if s.panicked != "" {
		return "panic"
	}
	var cs []string
	for _, c := range s.calls {
		cs = append(cs, c.method)
	}
	return fmt.Sprintf("status %d calls [%s] opened %d closed %d", s.status, strings.Join(cs, ","), s.opened, s.closed)
}

var c06Mem ociregistry.Interface

func c06MemBackend() ociregistry.Interface {
	if c06Mem != nil {
		return c06Mem
	}
	m := ocimem.New()
	ctx := context.Background()
	for _, repo := range []string{"foo", "foo/bar", "blobs/uploads"} {
		for _, b := range [][]byte{[]byte(""), []byte("x"), []byte("0123456789")} {
			m.PushBlob(ctx, repo, ociregistry.Descriptor{MediaType: "application/octet-stream", Digest: ociregistry.Digest(sha256Digest(b)), Size: int64(len(b))}, bytes.NewReader(b))
		}
		m.PushManifest(ctx, repo, "latest", []byte("opaque manifest"), mtOpaque)
	}
	c06Mem = m
	return m
}

func c06Serve(t []string) *served {
	s := &served{}
	backendKind, optBits := t[1], t[2]
	method, _ := untok(t[3])
	target, _ := untok(t[4])
	body, _ := untok(t[5])
	u, err := url.ParseRequestURI(target)
	if err != nil || strings.ContainsAny(method, " \r\n\t") || method == "" {
		s.skipped = "net/http rejects the request line before any handler runs"
		return s
	}
	req := &http.Request{Method: method, URL: u, Proto: "HTTP/1.1", ProtoMajor: 1, ProtoMinor: 1, Header: http.Header{}, Host: "example.com", RequestURI: target}
	req.Body = io.NopCloser(strings.NewReader(body))
	req.ContentLength = int64(len(body))
	for i := 6; i+1 < len(t); i += 2 {
		k, _ := untok(t[i])
		v, _ := untok(t[i+1])
		if strings.EqualFold(k, "Content-Length") {
			n, err := strconv.ParseInt(v, 10, 64)
			if err != nil || n < 0 {
				s.skipped = "net/http rejects a malformed Content-Length before any handler runs"
				return s
			}
			req.ContentLength = n
			continue
		}
		if strings.EqualFold(k, "Transfer-Encoding") && v == "chunked" {
			// a body of unknown length, as net/http presents a chunked request to a handler
			req.ContentLength = -1
			req.TransferEncoding = []string{"chunked"}
			continue
		}
		req.Header.Add(k, v)
	}
	if method == "GET" || method == "HEAD" || method == "DELETE" {
		if body == "" {
			req.Body = http.NoBody
			req.ContentLength = 0
		}
	}
	s.method = method
	s.reqHeader = req.Header
	s.parsed, s.parseErr = ociverif.Parse(method, u)
	opts := &ociserver.Options{
		DisableSinglePostUpload:      optBits[0] == '1',
		OmitDigestFromTagGetResponse: optBits[1] == '1',
		OmitLinkHeaderFromResponses:  optBits[2] == '1',
	}
	if optBits[3] == '1' {
		opts.MaxListPageSize = 2
	}
	if len(optBits) > 4 {
		switch optBits[4] {
		case '1':
			opts.LocationsForDescriptor = func(isManifest bool, desc ociregistry.Descriptor) ([]string, error) {
				return []string{"https://cdn.example/" + string(desc.Digest)}, nil
			}
		case '2':
			opts.LocationsForDescriptor = func(bool, ociregistry.Descriptor) ([]string, error) { return nil, nil }
		case '3':
			opts.LocationsForDescriptor = func(bool, ociregistry.Descriptor) ([]string, error) {
				return nil, errors.New("no location")
			}
		}
	}
	if len(optBits) > 5 && optBits[5] == '1' {
		opts.LocationForUploadID = func(id string) (string, error) { return "https://uploads.example/u/" + id, nil }
	}
	var backend ociregistry.Interface
	var rec *srvRecBackend
	switch backendKind {
	case "rec":
		rec = newSrvRecBackend(false)
		backend = rec
	case "recfail":
		rec = newSrvRecBackend(true)
		backend = rec
	case "recmid":
		rec = newSrvRecBackend(false)
		rec.midFail = true
		backend = rec
	case "recnorange":
		// a backend that supports no ranged reads (an ociregistry.Funcs without GetBlobRange_, as documented): ranged
		// requests are refused as unsupported, and whatever the server opens instead it has to close (seed C06-14)
		rec = newSrvRecBackend(false)
		rec.Funcs.GetBlobRange_ = nil
		backend = rec
	default:
		backend = c06MemBackend()
	}
	h := ociserver.New(backend, opts)
	w := httptest.NewRecorder()
	func() {
		defer func() {
			if r := recover(); r != nil {
				s.panicked = fmt.Sprint(r)
				lastPanic = s.panicked
			}
		}()
		h.ServeHTTP(w, req.WithContext(context.Background()))
	}()
	s.status = w.Code
	s.header = w.Header()
	s.body = w.Body.Bytes()
	if rec != nil {
		s.calls, s.opened, s.closed, s.wsize = rec.calls, rec.opened, rec.closed, rec.writerSize
	}
	return s
}

// ---- generation ----

func c06Targets(rng *RNG) (method, target string, hdrs []string, body string) {
	repos := []string{"foo", "foo/bar", "blobs/uploads", "a/blobs/b", "foo/blobs/uploads", "foo/blobs/uploads/cache", "manifests", "tags/list", "x/referrers/y", "_catalog", "v2", "UPPER", "", "a//b", "-bad", strings.Repeat("r", 300), "é"}
	digs := []string{sha256Digest([]byte("0123456789")), sha256Digest([]byte("x")), sha256Digest([]byte("")), "sha256:" + strings.Repeat("0", 64), "sha512:" + strings.Repeat("a", 128), "sha256:abc", "bogus", "", "sha256:" + strings.Repeat("A", 64), "md5:" + strings.Repeat("a", 32)}
	tags := []string{"latest", "v1.0", "list", "uploads", "", "-bad", strings.Repeat("t", 129), "a:b", "_"}
	ids := []string{"bXlpZA", "dXBsb2FkLTE", "", "!!!", "_-8", "YQ==", "/w"}
	methods := []string{"GET", "HEAD", "PUT", "POST", "PATCH", "DELETE", "OPTIONS", "get", "TRACE", "CONNECT"}
	method = pick(rng, methods)
	if rng.Chance(3, 4) {
		method = pick(rng, methods[:6])
	}
	repo, dg, tag := pick(rng, repos), pick(rng, digs), pick(rng, tags)
	if rng.Chance(2, 3) {
		repo = pick(rng, repos[:5])
	}
	if rng.Chance(2, 3) {
		dg = pick(rng, digs[:4])
	}
	esc := url.PathEscape
	var q []string
	switch rng.Intn(14) {
	case 0:
		target = pick(rng, []string{"/v2", "/v2/", "/", "/v1/", "/v2//", "/v2/_catalog", "/v2/_catalog/", "/v3/foo/blobs/x", "/v2/foo", "/v2/foo/", "/v2/foo/bar", "*"})
	case 1, 2:
		target = "/v2/" + repo + "/blobs/" + dg
		if rng.Chance(1, 2) {
			hdrs = append(hdrs, "Range", pick(rng, []string{"bytes=0-4", "bytes=2-", "bytes=5-2", "bytes=0-0", "bytes=5-4", "bytes=1-0", "bytes=10-9", "bytes=0--1", "bytes=9-9", "bytes=0-9", "bytes=4-7", "bytes=-3", "bytes=0-1,3-4", "bytes=3-3", "bytes=10-20", "bytes=11-", "lines=0-1", "bytes=a-b", "bytes=99999999999999999999-", "bytes= 1 - 3 ", "bytes=,"}))
		}
	case 3, 4:
		last := tag
		if rng.Bool() {
			last = dg
		}
		target = "/v2/" + repo + "/manifests/" + esc(last)
		body = pick(rng, []string{"", "{}", "opaque manifest", `{"subject":{"digest":"x"}}`, "{"})
		if rng.Bool() {
			hdrs = append(hdrs, "Content-Type", pick(rng, []string{"application/vnd.oci.image.manifest.v1+json", "application/vnd.oci.image.index.v1+json", mtOpaque, "", "text/plain; charset=utf-8"}))
		}
	case 5:
		target = "/v2/" + repo + "/tags/" + pick(rng, []string{"list", "list/", "other", ""})
		q = append(q, c06ListQuery(rng)...)
	case 6:
		target = "/v2/_catalog"
		q = append(q, c06ListQuery(rng)...)
	case 7:
		target = "/v2/" + repo + "/referrers/" + dg
	case 8, 9:
		target = "/v2/" + repo + "/blobs/uploads" + pick(rng, []string{"/", "", "//"})
		switch rng.Intn(5) {
		case 0:
			q = append(q, "digest="+url.QueryEscape(dg))
			body = pick(rng, []string{"x", "0123456789", ""})
		case 1:
			q = append(q, "mount="+url.QueryEscape(dg), "from="+url.QueryEscape(pick(rng, repos)))
		case 2:
			q = append(q, "mount="+url.QueryEscape(dg))
		case 3:
			q = append(q, "digest=", "mount=")
		}
	case 10, 11, 12:
		target = "/v2/" + repo + "/blobs/uploads/" + esc(pick(rng, ids))
		body = pick(rng, []string{"", "x", "0123456789"})
		if rng.Chance(2, 3) {
			hdrs = append(hdrs, "Content-Range", pick(rng, []string{"0-0", "0-9", "1-0", "5-4", "0-", "-5", "a-b", "10-19", "0-99999999999999999999", "9223372036854775807-0", "3-1"}))
		}
		if rng.Chance(1, 2) {
			q = append(q, "digest="+url.QueryEscape(dg))
		}
		if rng.Chance(1, 6) {
			hdrs = append(hdrs, "Content-Length", pick(rng, []string{"0", "1", "10", "5"}))
		} else if rng.Chance(1, 4) {
			hdrs = append(hdrs, "Transfer-Encoding", "chunked")
		}
	default:
		// unstructured
		alpha := []string{"/", "v2", "blobs", "manifests", "uploads", "tags", "list", "referrers", "_catalog", "foo", dg, "latest", "..", ".", "%2F", "%00", "a b"}
		n := rng.Intn(7)
		target = "/v2"
		for i := 0; i < n; i++ {
			target += "/" + pick(rng, alpha)
		}
	}
	if body != "" && rng.Chance(1, 5) {
		// a body of unknown length (chunked transfer encoding) on whatever the request is
		has := false
		for i := 0; i+1 < len(hdrs); i += 2 {
			if hdrs[i] == "Content-Length" || hdrs[i] == "Transfer-Encoding" {
				has = true
			}
		}
		if !has {
			hdrs = append(hdrs, "Transfer-Encoding", "chunked")
		}
	}
	if rng.Chance(1, 12) {
		q = append(q, pick(rng, []string{"n=%zz", "last=%", "x=y", ";", "n=1&n=2"}))
	}
	if len(q) > 0 {
		target += "?" + strings.Join(q, "&")
	}
	return
}

func c06ListQuery(rng *RNG) []string {
	var q []string
	if rng.Chance(2, 3) {
		q = append(q, "n="+pick(rng, []string{"1", "2", "0", "-1", "3", "100000", "abc", "", "99999999999999999999", "+2", "1_0"}))
	}
	if rng.Chance(1, 2) {
		q = append(q, "last="+url.QueryEscape(pick(rng, []string{"a", "b", "", "zzz", "a&b=c", "é", "\xff"})))
	}
	return q
}

func (*c06) Gen(rng *RNG, tier string) []Case {
	var cases []Case
	n := 6000
	if tier == "thorough" {
		n = 120000
	}
	for i := 0; i < n; i++ {
		method, target, hdrs, body := c06Targets(rng)
		// the classifier directly, on the decoded path and parsed query
		if u, err := url.ParseRequestURI(target); err == nil {
			qv, qerr := url.ParseQuery(u.RawQuery)
			line := "req parse " + tok(method) + " " + tok(u.Path)
			if qerr != nil {
				line += " 1"
			} else {
				line += " 0"
				// preserve first-value semantics: one pair per key, the first value
				keys := make([]string, 0, len(qv))
				for k := range qv {
					keys = append(keys, k)
				}
				sortStrings(keys)
				for _, k := range keys {
					line += " " + tok(k) + " " + tok(qv[k][0])
				}
			}
			cases = append(cases, Case{Lines: []string{line}})
		}
		backend := pick(rng, []string{"rec", "rec", "recfail", "mem", "recmid", "recnorange"})
		opts := fmt.Sprintf("%d%d%d%d", rng.Intn(2), rng.Intn(2), rng.Intn(2), rng.Intn(2))
		if rng.Chance(1, 3) {
			opts += pick(rng, []string{"1", "1", "2", "3"}) + pick(rng, []string{"0", "1"})
		}
		line := fmt.Sprintf("srv %s %s %s %s %s", backend, opts, tok(method), tok(target), tok(body))
		for _, h := range hdrs {
			line += " " + tok(h)
		}
		cases = append(cases, Case{Lines: []string{line}})
	}
	// directed: every Range value against the backend without ranged reads, for blob GETs by a digest the backend has
	for _, rg := range []string{"bytes=0-4", "bytes=2-", "bytes=9-9", "bytes=10-", "bytes=11-", "bytes=12-", "bytes=20-30", "bytes=0-99", "bytes=5-2"} {
		for _, opts := range []string{"0000", "0100", "000010"} {
			line := fmt.Sprintf("srv recnorange %s %s %s %s %s %s", opts, tok("GET"), tok("/v2/foo/blobs/"+sha256Digest([]byte("0123456789"))), tok(""), tok("Range"), tok(rg))
			cases = append(cases, Case{Tag: "directed-backend-without-ranges", Lines: []string{line}})
		}
	}
	// Content-Range codec: every small pair, plus boundaries
	var lines []string
	for a := int64(-1); a <= 6; a++ {
		for b := int64(-1); b <= 6; b++ {
			lines = append(lines, fmt.Sprintf("req rangestring %d %d", a, b))
			if a >= 0 && b >= 0 {
				lines = append(lines, fmt.Sprintf("req parserange %d %d", a, b))
			}
		}
	}
	cases = append(cases, Case{Lines: lines, Tag: "range-codec"})
	return cases
}

func sortStrings(s []string) {
	for i := 1; i < len(s); i++ {
		for j := i; j > 0 && s[j] < s[j-1]; j-- {
			s[j], s[j-1] = s[j-1], s[j]
		}
	}
}

// ---- oracle ----

func (*c06) Oracle(c Case, impl []string) []Failure {
	var fs []Failure
	for i, l := range c.Lines {
		if i >= len(impl) {
			break
		}
		t := strings.Split(l, " ")
		got := impl[i]
		fail := func(class, oracle, exp, detail string) {
			fs = append(fs, Failure{Class: class, Oracle: oracle, Index: i, Expected: exp, Observed: got, Detail: detail})
		}
		if t[0] == "req" {
			if got == "panic" {
				cl := "req-parse-panic"
				if p, _ := untok(t[3]); strings.HasSuffix(p, "/manifests/") {
					cl = "req-parse-panic:empty-manifest-reference"
				}
				fail(cl, "server_total", "a classification or an error", "panic: "+lastPanic)
			}
			// parse_sound: whatever is accepted has valid names
			if strings.HasPrefix(got, "ok ") {
				f := strings.Split(got, " ")
				repo, _ := untok(f[2])
				dg, _ := untok(f[3])
				tg, _ := untok(f[4])
				from, _ := untok(f[5])
				k := f[1]
				if k != "ReqPing" && k != "ReqCatalogList" && !ociref.IsValidRepository(repo) {
					fail("req-parse-unsound:repo", "parse_sound", "a valid repository name", "")
				}
				if dg != "" && !ociref.IsValidDigest(dg) {
					fail("req-parse-unsound:digest", "parse_sound", "a valid digest", "")
				}
				if tg != "" && !ociref.IsValidTag(tg) {
					fail("req-parse-unsound:tag", "parse_sound", "a valid tag", "")
				}
				if from != "" && !ociref.IsValidRepository(from) {
					fail("req-parse-unsound:from", "parse_sound", "a valid repository name", "")
				}
			}
			continue
		}
		if t[0] != "srv" || strings.HasPrefix(got, "skipped") {
			continue
		}
		s := c06Serve(t) // deterministic: re-run to inspect the full response
		if s.panicked != "" {
			cl := "srv-panic"
			if s.parsed == nil && strings.Contains(s.panicked, "index out of range") && strings.Contains(mustUntok(t[4]), "/manifests/") {
				cl = "srv-panic:empty-manifest-reference"
			}
			fail(cl, "server_total", "a response", "panic: "+s.panicked)
			continue
		}
		for _, call := range s.calls {
			if call.bad != "" {
				fail("srv-invalid-backend-arg:"+call.method, "server_args_valid", "only syntactically valid names reach the backend", call.method+" got "+call.bad)
			}
		}
		if s.opened != s.closed {
			var first string
			for _, call := range s.calls {
				first = call.method
				break
			}
			fail("srv-unclosed:"+first, "server_handles_closed", fmt.Sprintf("opened %d = closed %d", s.opened, s.opened), "")
		}
		if s.status >= 400 {
			ct := s.header.Get("Content-Type")
			var we ociregistry.WireErrors
			if s.method != "HEAD" || len(s.body) > 0 {
				if ct != "application/json" || json.Unmarshal(s.body, &we) != nil || len(we.Errors) == 0 {
					fail("srv-error-shape", "server_error_shape", "a JSON OCI error body", string(s.body))
				} else if st, ok := specStatus[we.Errors[0].Code_]; ok && st != s.status {
					fail("srv-error-status", "server_error_shape", fmt.Sprintf("status %d for code %s", st, we.Errors[0].Code_), "")
				}
			}
			continue
		}
		if s.parsed == nil {
			if s.status < 400 {
				fail("srv-accepts-unparsable", "server_error_shape", "an error status for a request the classifier rejects", "")
			}
			continue
		}
		h := s.header
		if s.status >= 300 && s.status < 400 {
			// a redirect to a location supplied by Options.LocationsForDescriptor: only the Location matters
			if h.Get("Location") == "" {
				fail("srv-redirect-without-location:"+kindNames[s.parsed.Kind], "server_success_headers", "Location header", "")
			}
			continue
		}
		if t[1] == "recmid" && (s.parsed.Kind == ociverif.ReqBlobGet || s.parsed.Kind == ociverif.ReqManifestGet) {
			// the backend's reader failed after the response had started: what was sent must be a prefix
			// of the content and nothing else (the connection is then broken off, which the recorder
			// cannot show)
			if !bytes.Contains([]byte("0123456789"), s.body) { // a piece of the content (of the requested range), nothing else
				fail("srv-garbage-after-partial-body:"+kindNames[s.parsed.Kind], "server_error_shape", "a piece of the content, nothing appended", string(s.body))
			}
			continue
		}
		need := func(name string) {
			if h.Get(name) == "" {
				fail("srv-missing-header:"+name+":"+kindNames[s.parsed.Kind], "server_success_headers", name+" header", "")
			}
		}
		clen := func() {
			if v := h.Get("Content-Length"); v != strconv.Itoa(len(s.body)) && s.method != "HEAD" {
				fail("srv-content-length:"+kindNames[s.parsed.Kind], "server_success_headers", "Content-Length = "+strconv.Itoa(len(s.body)), "Content-Length: "+v)
			}
		}
		switch s.parsed.Kind {
		case ociverif.ReqBlobGet:
			need("Docker-Content-Digest")
			clen()
			if rg := s.reqHeader.Get("Range"); s.status < 300 {
				var a, b int64
				if n, _ := fmt.Sscanf(rg, "bytes=%d-%d", &a, &b); n == 2 && fmt.Sprintf("bytes=%d-%d", a, b) == rg {
					switch {
					case b < a:
						// last < first is not a byte range at all
						fail("srv-inverted-range-served", "server_error_shape", "an error status for Range: "+rg, strconv.Itoa(s.status))
					case t[1] != "recmid" && t[1] != "recfail" && a >= 0 && b < 10 && s.parsed.Digest == sha256Digest([]byte("0123456789")):
						if string(s.body) != "0123456789"[a:b+1] {
							fail("srv-range-bytes", "server_success_headers", "the bytes "+rg+" of the blob", string(s.body))
						}
					}
				}
			}
			if s.status == 206 {
				var a, b, size int64
				if n, _ := fmt.Sscanf(h.Get("Content-Range"), "bytes %d-%d/%d", &a, &b, &size); n != 3 || b-a+1 != int64(len(s.body)) {
					fail("srv-content-range", "server_success_headers", "Content-Range: bytes a-b/size with b-a+1 = body length", h.Get("Content-Range"))
				}
			}
			if h.Get("Docker-Content-Digest") != s.parsed.Digest {
				fail("srv-digest-header", "server_success_headers", "Docker-Content-Digest = requested digest", "")
			}
		case ociverif.ReqBlobHead:
			need("Docker-Content-Digest")
			need("Content-Length")
		case ociverif.ReqManifestHead:
			if t[2][1] != '1' || s.parsed.Tag != "" { // OmitDigestFromTagGetResponse mimics registries that omit it
				need("Docker-Content-Digest")
			}
			need("Content-Length")
		case ociverif.ReqManifestGet:
			clen()
			if t[2][1] != '1' {
				need("Docker-Content-Digest")
			}
		case ociverif.ReqBlobStartUpload:
			need("Location")
			need("Range")
		case ociverif.ReqBlobUploadBlob:
			need("Location")
			if t[2][0] != '1' {
				need("Docker-Content-Digest")
			}
		case ociverif.ReqBlobMount, ociverif.ReqBlobCompleteUpload, ociverif.ReqManifestPut:
			need("Location")
			need("Docker-Content-Digest")
		case ociverif.ReqBlobUploadChunk, ociverif.ReqBlobUploadInfo:
			need("Location")
			need("Range")
			if s.wsize >= 0 && (t[1] == "rec" || t[1] == "recfail") {
				// the Range header reports what the upload holds, not what the request's headers claimed
				want := "0-0"
				if s.wsize > 0 {
					want = fmt.Sprintf("0-%d", s.wsize-1)
				}
				if got := h.Get("Range"); got != want {
					fail("srv-upload-range:"+kindNames[s.parsed.Kind], "server_success_headers", "Range: "+want+" (the backend writer holds "+strconv.FormatInt(s.wsize, 10)+" bytes)", "Range: "+got)
				}
			}
		case ociverif.ReqTagsList, ociverif.ReqCatalogList, ociverif.ReqReferrersList:
			clen()
		}
	}
	return fs
}

func mustUntok(s string) string { v, _ := untok(s); return v }

func (*c06) NonTrivial(c Case, impl []string) (bool, string) {
	if len(impl) == 0 {
		return false, "empty"
	}
	o := impl[0]
	switch {
	case strings.HasPrefix(c.Lines[0], "req parse"):
		if strings.HasPrefix(o, "ok ") {
			return true, "classified:" + strings.Split(o, " ")[1]
		}
		return true, "classify-" + o
	case strings.HasPrefix(o, "status "):
		f := strings.Split(o, " ")
		return f[3] != "[]", "served-" + f[1][:1] + "xx"
	case strings.HasPrefix(o, "skipped"):
		return false, "skipped"
	}
	return true, "other"
}
