package main

import (
	"context"
	"encoding/base64"
	"encoding/json"
	"errors"
	"fmt"
	"io"
	"net/http"
	"net/http/httptest"
	"net/url"
	"sort"
	"strconv"
	"strings"

	"cuelabs.dev/go/oci/ociregistry"
	"cuelabs.dev/go/oci/ociregistry/ociclient"
	"cuelabs.dev/go/oci/ociregistry/ociserver"
	"cuelabs.dev/go/oci/ociregistry/ociverif"
)

// C03R: the RESPONSE half of the client/server codec (sub-check of C03; also serves C01, C06, C18).
//
//   resp srv <opts> <req> <bres>                      ociserver.New over a scripted backend, served in-process;
//                                                     status + all headers + body diffed with the Lean `serverResp`
//   resp cli <call> <nresp> <answer>*                 the real ociclient behind a scripted http.RoundTripper;
//                                                     result, bytes read, error class, requests made diffed with `clientDecode`
//   resp clilist <tags|catalog> <n> <start> <nresp> (<answer> <dec>)*   the pager against scripted answers
//   resp rt <opts> <call> <ctype> <body> <subject> <bytag> <bres> [<bres>]   real client over a real httptest server over
//                                                     a scripted backend: diffed with the composed model AND judged by
//                                                     an oracle written from the property (equals the backend's answer)
//   resp rtlist <opts> <tags|catalog> <n> <start> <count> <item>*      paging through a real server
//   resp qesc|qunesc|jsonstr|parsequery|encquery …    the std-lib pieces the model spells out, against the std-lib
//
// Field formats are documented in lean/OciModel/Driver/Resp.lean.

func init() { engines["C03R"] = func() Engine { return &c03r{} } }

type c03r struct{}

func (*c03r) UsesModel() bool { return true }

// ---- token reader ----

type rtoks struct {
	t   []string
	bad bool
}

func (r *rtoks) s() string {
	if len(r.t) == 0 {
		r.bad = true
		return ""
	}
	x := r.t[0]
	r.t = r.t[1:]
	return x
}
func (r *rtoks) b() string {
	v, ok := untok(r.s())
	if !ok {
		r.bad = true
	}
	return v
}
func (r *rtoks) i() int64 {
	v, err := strconv.ParseInt(r.s(), 10, 64)
	if err != nil {
		r.bad = true
	}
	return v
}
func (r *rtoks) n() int {
	v := r.i()
	if v < 0 || v > 1<<20 {
		r.bad = true
		return 0
	}
	return int(v)
}
func (r *rtoks) pairs() [][2]string {
	n := r.n()
	var ps [][2]string
	for j := 0; j < n && !r.bad; j++ {
		k := r.b()
		v := r.b()
		ps = append(ps, [2]string{k, v})
	}
	return ps
}

// ---- values ----

type respDesc struct {
	mt, dg string
	size   int64
}

func (r *rtoks) desc() respDesc { return respDesc{r.b(), r.b(), r.i()} }

func (d respDesc) oci() ociregistry.Descriptor {
	return ociregistry.Descriptor{MediaType: d.mt, Digest: ociregistry.Digest(d.dg), Size: d.size}
}

type respBRes struct {
	kind    string // desc reader writer commit unit items descs
	d       respDesc
	content string
	id      string
	size    int64
	chunk   int64
	items   []string
	descs   []respDesc
}

func (r *rtoks) bres() respBRes {
	b := respBRes{kind: r.s()}
	switch b.kind {
	case "desc":
		b.d = r.desc()
	case "reader":
		b.d = r.desc()
		b.content = r.b()
	case "writer":
		b.id = r.b()
		b.size = r.i()
		b.chunk = r.i()
	case "commit":
		b.id = r.b()
		b.d = r.desc()
	case "unit":
	case "items":
		n := r.n()
		for j := 0; j < n && !r.bad; j++ {
			b.items = append(b.items, r.b())
		}
	case "descs":
		n := r.n()
		for j := 0; j < n && !r.bad; j++ {
			b.descs = append(b.descs, r.desc())
		}
	default:
		r.bad = true
	}
	return b
}

func (b respBRes) String() string {
	switch b.kind {
	case "desc":
		return fmt.Sprintf("desc %s %s %d", tok(b.d.mt), tok(b.d.dg), b.d.size)
	case "reader":
		return fmt.Sprintf("reader %s %s %d %s", tok(b.d.mt), tok(b.d.dg), b.d.size, tok(b.content))
	case "writer":
		return fmt.Sprintf("writer %s %d %d", tok(b.id), b.size, b.chunk)
	case "commit":
		return fmt.Sprintf("commit %s %s %s %d", tok(b.id), tok(b.d.mt), tok(b.d.dg), b.d.size)
	case "unit":
		return "unit"
	case "items":
		s := fmt.Sprintf("items %d", len(b.items))
		for _, it := range b.items {
			s += " " + tok(it)
		}
		return s
	case "descs":
		s := fmt.Sprintf("descs %d", len(b.descs))
		for _, d := range b.descs {
			s += fmt.Sprintf(" %s %s %d", tok(d.mt), tok(d.dg), d.size)
		}
		return s
	}
	return "?"
}

type respOpts struct {
	bits    string
	maxPage int64
}

func (r *rtoks) opts() respOpts {
	o := respOpts{bits: r.s(), maxPage: r.i()}
	if len(o.bits) != 4 {
		r.bad = true
		o.bits = "0000"
	}
	return o
}

func (o respOpts) server() *ociserver.Options {
	return &ociserver.Options{
		DisableReferrersAPI:          o.bits[0] == '1',
		DisableSinglePostUpload:      o.bits[1] == '1',
		OmitDigestFromTagGetResponse: o.bits[2] == '1',
		OmitLinkHeaderFromResponses:  o.bits[3] == '1',
		MaxListPageSize:              int(o.maxPage),
	}
}

// ---- scripted backend ----

type respWriter struct {
	b      *respBackend
	id     string
	size   int64
	chunk  int
	commit *respDesc
}

func (w *respWriter) Write(p []byte) (int, error) { return len(p), nil }
func (w *respWriter) Close() error                { return nil }
func (w *respWriter) Size() int64                 { return w.size }
func (w *respWriter) ChunkSize() int              { return w.chunk }
func (w *respWriter) ID() string                  { return w.id }
func (w *respWriter) Cancel() error               { return nil }
func (w *respWriter) Commit(d ociregistry.Digest) (ociregistry.Descriptor, error) {
	if w.commit == nil {
		return ociregistry.Descriptor{}, errors.New("scripted backend: no commit answer")
	}
	return w.commit.oci(), nil
}

type respReader struct {
	io.Reader
	d ociregistry.Descriptor
}

func (r *respReader) Close() error                       { return nil }
func (r *respReader) Descriptor() ociregistry.Descriptor { return r.d }

// respBackend answers every call with the scripted answer of the fitting type, whatever the arguments;
// it records which blob read was asked for and the upload IDs it was handed.
type respBackend struct {
	*ociregistry.Funcs
	answers  []respBRes
	listing  []string // rtlist: the whole listing, ascending; answers hold nothing
	blobCall string
	ids      []string
}

var errNoAnswer = errors.New("scripted backend: no answer of the type this call returns")

func (b *respBackend) find(kinds ...string) *respBRes {
	for _, k := range kinds {
		for i := range b.answers {
			if b.answers[i].kind == k {
				return &b.answers[i]
			}
		}
	}
	return nil
}

func newRespBackend(answers []respBRes) *respBackend {
	b := &respBackend{answers: answers, blobCall: "none"}
	reader := func() (ociregistry.BlobReader, error) {
		a := b.find("reader")
		if a == nil {
			return nil, errNoAnswer
		}
		return &respReader{Reader: strings.NewReader(a.content), d: a.d.oci()}, nil
	}
	desc := func() (ociregistry.Descriptor, error) {
		a := b.find("desc")
		if a == nil {
			return ociregistry.Descriptor{}, errNoAnswer
		}
		return a.d.oci(), nil
	}
	unit := func() error {
		if b.find("unit") == nil {
			return errNoAnswer
		}
		return nil
	}
	items := func(start string) ociregistry.Seq[string] {
		if b.listing != nil {
			var out []string
			for _, it := range b.listing {
				if start == "" || it > start {
					out = append(out, it)
				}
			}
			return ociregistry.SliceSeq(out)
		}
		a := b.find("items")
		if a == nil {
			return ociregistry.ErrorSeq[string](errNoAnswer)
		}
		return ociregistry.SliceSeq(a.items)
	}
	b.Funcs = &ociregistry.Funcs{
		GetBlob_: func(ctx context.Context, repo string, d ociregistry.Digest) (ociregistry.BlobReader, error) {
			b.blobCall = "full"
			return reader()
		},
		GetBlobRange_: func(ctx context.Context, repo string, d ociregistry.Digest, o0, o1 int64) (ociregistry.BlobReader, error) {
			b.blobCall = fmt.Sprintf("range:%d:%d", o0, o1)
			return reader()
		},
		GetManifest_: func(ctx context.Context, repo string, d ociregistry.Digest) (ociregistry.BlobReader, error) {
			return reader()
		},
		GetTag_: func(ctx context.Context, repo, tag string) (ociregistry.BlobReader, error) { return reader() },
		ResolveBlob_: func(ctx context.Context, repo string, d ociregistry.Digest) (ociregistry.Descriptor, error) {
			return desc()
		},
		ResolveManifest_: func(ctx context.Context, repo string, d ociregistry.Digest) (ociregistry.Descriptor, error) {
			return desc()
		},
		ResolveTag_: func(ctx context.Context, repo, tag string) (ociregistry.Descriptor, error) { return desc() },
		PushBlob_: func(ctx context.Context, repo string, d ociregistry.Descriptor, r io.Reader) (ociregistry.Descriptor, error) {
			io.Copy(io.Discard, r)
			return desc()
		},
		PushBlobChunked_: func(ctx context.Context, repo string, chunkSize int) (ociregistry.BlobWriter, error) {
			a := b.find("writer")
			if a == nil {
				return nil, errNoAnswer
			}
			return &respWriter{b: b, id: a.id, size: a.size, chunk: int(a.chunk)}, nil
		},
		PushBlobChunkedResume_: func(ctx context.Context, repo, id string, offset int64, chunkSize int) (ociregistry.BlobWriter, error) {
			b.ids = append(b.ids, id)
			if a := b.find("commit"); a != nil {
				return &respWriter{b: b, id: a.id, commit: &a.d}, nil
			}
			a := b.find("writer")
			if a == nil {
				return nil, errNoAnswer
			}
			return &respWriter{b: b, id: a.id, size: a.size, chunk: int(a.chunk)}, nil
		},
		MountBlob_: func(ctx context.Context, from, to string, d ociregistry.Digest) (ociregistry.Descriptor, error) {
			return desc()
		},
		PushManifest_: func(ctx context.Context, repo, tag string, data []byte, mt string) (ociregistry.Descriptor, error) {
			return desc()
		},
		DeleteBlob_:     func(ctx context.Context, repo string, d ociregistry.Digest) error { return unit() },
		DeleteManifest_: func(ctx context.Context, repo string, d ociregistry.Digest) error { return unit() },
		DeleteTag_:      func(ctx context.Context, repo, tag string) error { return unit() },
		Repositories_:   func(ctx context.Context, start string) ociregistry.Seq[string] { return items(start) },
		Tags_:           func(ctx context.Context, repo, start string) ociregistry.Seq[string] { return items(start) },
		Referrers_: func(ctx context.Context, repo string, d ociregistry.Digest, at string) ociregistry.Seq[ociregistry.Descriptor] {
			a := b.find("descs")
			if a == nil {
				return ociregistry.ErrorSeq[ociregistry.Descriptor](errNoAnswer)
			}
			var ds []ociregistry.Descriptor
			for _, d := range a.descs {
				ds = append(ds, d.oci())
			}
			return ociregistry.SliceSeq(ds)
		},
	}
	return b
}

// ---- srv: one request served in-process ----

type respReq struct {
	kind, repo, dg, tag, from, id string
	listN                         int64
	last                          string
	rng, ctype, body              string
	subject                       string // "-" none, "!" undecodable, else token
	path                          string
	query                         [][2]string
}

func (r *rtoks) req() respReq {
	q := respReq{kind: r.s(), repo: r.b(), dg: r.b(), tag: r.b(), from: r.b(), id: r.b()}
	q.listN = r.i()
	q.last = r.b()
	q.rng = r.b()
	q.ctype = r.b()
	q.body = r.b()
	q.subject = r.s()
	q.path = r.b()
	q.query = r.pairs()
	return q
}

func (q respReq) String() string {
	s := fmt.Sprintf("%s %s %s %s %s %s %d %s %s %s %s %s %s %d", q.kind, tok(q.repo), tok(q.dg), tok(q.tag), tok(q.from), tok(q.id),
		q.listN, tok(q.last), tok(q.rng), tok(q.ctype), tok(q.body), q.subject, tok(q.path), len(q.query))
	for _, kv := range q.query {
		s += " " + tok(kv[0]) + " " + tok(kv[1])
	}
	return s
}

var respKindMethod = map[string]string{
	"ReqPing": "GET", "ReqBlobGet": "GET", "ReqBlobHead": "HEAD", "ReqBlobDelete": "DELETE", "ReqBlobStartUpload": "POST",
	"ReqBlobUploadBlob": "POST", "ReqBlobMount": "POST", "ReqBlobUploadInfo": "GET", "ReqBlobUploadChunk": "PATCH",
	"ReqBlobCompleteUpload": "PUT", "ReqManifestGet": "GET", "ReqManifestHead": "HEAD", "ReqManifestPut": "PUT",
	"ReqManifestDelete": "DELETE", "ReqTagsList": "GET", "ReqReferrersList": "GET", "ReqCatalogList": "GET",
}

// respURL is what the client would construct for the request (create.go), spelled out independently.
func respURL(q *respReq) {
	tagOrDigest := q.dg
	if q.tag != "" {
		tagOrDigest = q.tag
	}
	up := "/v2/" + q.repo + "/blobs/uploads/"
	listQ := func() [][2]string {
		var ps [][2]string
		if q.listN >= 0 {
			ps = append(ps, [2]string{"n", strconv.FormatInt(q.listN, 10)})
		}
		if q.last != "" {
			ps = append(ps, [2]string{"last", q.last})
		}
		return ps
	}
	switch q.kind {
	case "ReqPing":
		q.path = "/v2/"
	case "ReqBlobGet", "ReqBlobHead", "ReqBlobDelete":
		q.path = "/v2/" + q.repo + "/blobs/" + q.dg
	case "ReqBlobStartUpload":
		q.path = up
	case "ReqBlobUploadBlob":
		q.path, q.query = up, [][2]string{{"digest", q.dg}}
	case "ReqBlobMount":
		q.path, q.query = up, [][2]string{{"mount", q.dg}, {"from", q.from}}
	case "ReqBlobUploadInfo", "ReqBlobUploadChunk":
		q.path = up + base64.RawURLEncoding.EncodeToString([]byte(q.id))
	case "ReqBlobCompleteUpload":
		q.path, q.query = up+base64.RawURLEncoding.EncodeToString([]byte(q.id)), [][2]string{{"digest", q.dg}}
	case "ReqManifestGet", "ReqManifestHead", "ReqManifestPut", "ReqManifestDelete":
		q.path = "/v2/" + q.repo + "/manifests/" + tagOrDigest
	case "ReqTagsList":
		q.path, q.query = "/v2/"+q.repo+"/tags/list", listQ()
	case "ReqReferrersList":
		q.path = "/v2/" + q.repo + "/referrers/" + q.dg
	case "ReqCatalogList":
		q.path, q.query = "/v2/_catalog", listQ()
	}
}

func rawQuery(ps [][2]string) string {
	var parts []string
	for _, kv := range ps {
		parts = append(parts, url.QueryEscape(kv[0])+"="+url.QueryEscape(kv[1]))
	}
	return strings.Join(parts, "&")
}

func showHeader(h http.Header) string {
	var keys []string
	for k := range h {
		keys = append(keys, k)
	}
	sort.Strings(keys)
	s := strconv.Itoa(len(keys))
	for _, k := range keys {
		s += " " + tok(k) + " " + tok(h.Get(k))
	}
	return s
}

// headerContentLength is net/http's reading of a Content-Length header: digits only.
func headerContentLength(h http.Header) int64 {
	v := h.Get("Content-Length")
	if v == "" {
		return -1
	}
	for _, c := range v {
		if c < '0' || c > '9' {
			return -1
		}
	}
	n, err := strconv.ParseInt(v, 10, 64)
	if err != nil {
		return -1
	}
	return n
}

func respServe(t []string) string {
	r := &rtoks{t: t}
	o := r.opts()
	q := r.req()
	b := r.bres()
	if r.bad || len(r.t) != 0 {
		return "bad-op"
	}
	method, ok := respKindMethod[q.kind]
	if !ok {
		return "bad-op"
	}
	u := &url.URL{Path: q.path, RawQuery: rawQuery(q.query)}
	// the line describes the request twice (classified fields for the model, URL for the server): they must agree
	parsed, err := ociverif.Parse(method, u)
	if err != nil || kindNames[parsed.Kind] != q.kind || parsed.Repo != q.repo || parsed.Digest != q.dg || parsed.Tag != q.tag ||
		parsed.FromRepo != q.from || parsed.UploadID != q.id || int64(parsed.ListN) != q.listN || parsed.ListLast != q.last {
		return "inconsistent-line"
	}
	req := httptest.NewRequest(method, "http://example.com"+u.String(), strings.NewReader(q.body))
	if q.rng != "" {
		req.Header.Set("Range", q.rng)
	}
	if q.ctype != "" {
		req.Header.Set("Content-Type", q.ctype)
	}
	backend := newRespBackend([]respBRes{b})
	h := ociserver.New(backend, o.server())
	w := httptest.NewRecorder()
	panicked := false
	func() {
		defer func() {
			if p := recover(); p != nil {
				panicked = true
				lastPanic = fmt.Sprint(p)
			}
		}()
		h.ServeHTTP(w, req)
	}()
	call := "-"
	if q.kind == "ReqBlobGet" {
		call = backend.blobCall
	}
	if panicked {
		return "call=" + call + " panic"
	}
	if w.Code >= 400 {
		return fmt.Sprintf("call=%s err %d", call, w.Code)
	}
	return fmt.Sprintf("call=%s resp %d %d %s %s", call, w.Code, headerContentLength(w.Header()), tok(w.Body.String()), showHeader(w.Header()))
}

// ---- cli: the client against scripted answers ----

type respAnswer struct {
	status   int
	cl       int64
	body     string
	hdr      [][2]string
	resolved string // "-" or token: what net/url makes of the Location / Link target
	dec      string // clilist: "-" or "<n> items…" as encoding/json decodes the body
}

func (r *rtoks) answer() respAnswer {
	a := respAnswer{status: r.n(), cl: r.i(), body: r.b()}
	a.hdr = r.pairs()
	a.resolved = r.s()
	return a
}

func (a respAnswer) String() string {
	s := fmt.Sprintf("%d %d %s %d", a.status, a.cl, tok(a.body), len(a.hdr))
	for _, kv := range a.hdr {
		s += " " + tok(http.CanonicalHeaderKey(kv[0])) + " " + tok(kv[1])
	}
	return s + " " + a.resolved
}

func (a respAnswer) get(k string) string {
	for _, kv := range a.hdr {
		if kv[0] == k {
			return kv[1]
		}
	}
	return ""
}

type respTransport struct {
	answers []respAnswer
	n       int
	reqs    []*http.Request
}

func (t *respTransport) RoundTrip(req *http.Request) (*http.Response, error) {
	if req.Body != nil {
		io.Copy(io.Discard, req.Body)
		req.Body.Close()
	}
	t.reqs = append(t.reqs, req)
	if t.n >= len(t.answers) {
		t.n++
		return nil, errScriptExhausted
	}
	a := t.answers[t.n]
	t.n++
	if a.status == 0 {
		return nil, errors.New("scripted transport failure")
	}
	h := http.Header{}
	for _, kv := range a.hdr {
		h.Add(kv[0], kv[1])
	}
	resp := &http.Response{
		StatusCode: a.status, Status: fmt.Sprintf("%d %s", a.status, http.StatusText(a.status)),
		Proto: "HTTP/1.1", ProtoMajor: 1, ProtoMinor: 1, Header: h, Request: req,
		Body: io.NopCloser(strings.NewReader(a.body)), ContentLength: a.cl,
	}
	if req.Method == "HEAD" {
		resp.Body = http.NoBody
	}
	return resp, nil
}

const respHost = "registry.example"
const respUploadID = "https://registry.example/v2/foo/blobs/uploads/abc"

func respErrClass(err error) string {
	var herr ociregistry.HTTPError
	if errors.As(err, &herr) {
		return fmt.Sprintf("http:%d", herr.StatusCode())
	}
	if errors.Is(err, ociregistry.ErrUnsupported) {
		return "unsupported"
	}
	return "other"
}

func respShowDesc(d ociregistry.Descriptor) string {
	return fmt.Sprintf("%s %s %d", tok(d.MediaType), tok(string(d.Digest)), d.Size)
}

func respShowRead(r ociregistry.BlobReader, err error) string {
	if err != nil {
		return "err " + respErrClass(err)
	}
	defer r.Close()
	d := r.Descriptor()
	data, err := io.ReadAll(r)
	if err != nil {
		return fmt.Sprintf("reader %s readerr %s", respShowDesc(d), errClass(err))
	}
	return fmt.Sprintf("reader %s eof %s", respShowDesc(d), tok(string(data)))
}

type respCall struct {
	name    string
	dg      string
	o0, o1  int64
	mt      string
	content string
	chunk   int64
	size    int64
}

func (r *rtoks) call() respCall {
	c := respCall{name: r.s()}
	switch c.name {
	case "getBlob", "getManifest", "resolveBlob", "resolveManifest", "mountBlob":
		c.dg = r.b()
	case "getBlobRange":
		c.dg = r.b()
		c.o0 = r.i()
		c.o1 = r.i()
	case "getTag", "resolveTag", "flushPatch", "delete":
	case "pushManifest", "pushBlob":
		c.mt = r.b()
		c.content = r.b()
	case "pushBlobChunked", "resumeAsk":
		c.chunk = r.i()
	case "commit":
		c.size = r.i()
		c.dg = r.b()
	default:
		r.bad = true
	}
	return c
}

func (c respCall) String() string {
	switch c.name {
	case "getBlob", "getManifest", "resolveBlob", "resolveManifest", "mountBlob":
		return c.name + " " + tok(c.dg)
	case "getBlobRange":
		return fmt.Sprintf("%s %s %d %d", c.name, tok(c.dg), c.o0, c.o1)
	case "pushManifest", "pushBlob":
		return c.name + " " + tok(c.mt) + " " + tok(c.content)
	case "pushBlobChunked", "resumeAsk":
		return fmt.Sprintf("%s %d", c.name, c.chunk)
	case "commit":
		return fmt.Sprintf("%s %d %s", c.name, c.size, tok(c.dg))
	}
	return c.name
}

// respDo performs the call on a client; uploadID is the ID of the upload the writer calls act on;
// canon rewrites locations (the test server's address is not canonical).
func respDo(cl ociregistry.Interface, c respCall, uploadID string, canon func(string) string) string {
	ctx := context.Background()
	dg := ociregistry.Digest(c.dg)
	showW := func(w ociregistry.BlobWriter, err error) string {
		if err != nil {
			return "err " + respErrClass(err)
		}
		return fmt.Sprintf("writer %s %d %d", tok(canon(w.ID())), w.ChunkSize(), w.Size())
	}
	showD := func(d ociregistry.Descriptor, err error) string {
		if err != nil {
			return "err " + respErrClass(err)
		}
		return "desc " + respShowDesc(d)
	}
	switch c.name {
	case "getBlob":
		return respShowRead(cl.GetBlob(ctx, "foo", dg))
	case "getBlobRange":
		return respShowRead(cl.GetBlobRange(ctx, "foo", dg, c.o0, c.o1))
	case "getManifest":
		return respShowRead(cl.GetManifest(ctx, "foo", dg))
	case "getTag":
		return respShowRead(cl.GetTag(ctx, "foo", "latest"))
	case "resolveBlob":
		return showD(cl.ResolveBlob(ctx, "foo", dg))
	case "resolveManifest":
		return showD(cl.ResolveManifest(ctx, "foo", dg))
	case "resolveTag":
		return showD(cl.ResolveTag(ctx, "foo", "latest"))
	case "pushManifest":
		return showD(cl.PushManifest(ctx, "foo", "latest", []byte(c.content), c.mt))
	case "mountBlob":
		return showD(cl.MountBlob(ctx, "bar", "foo", dg))
	case "pushBlob":
		d := ociregistry.Descriptor{MediaType: c.mt, Digest: ociregistry.Digest(sha256Digest([]byte(c.content))), Size: int64(len(c.content))}
		return showD(cl.PushBlob(ctx, "foo", d, strings.NewReader(c.content)))
	case "pushBlobChunked":
		return showW(cl.PushBlobChunked(ctx, "foo", int(c.chunk)))
	case "resumeAsk":
		return showW(cl.PushBlobChunkedResume(ctx, "foo", uploadID, -1, int(c.chunk)))
	case "flushPatch":
		w, err := cl.PushBlobChunkedResume(ctx, "foo", uploadID, 0, 4)
		if err != nil {
			return "err " + respErrClass(err)
		}
		if _, err := w.Write([]byte("0123456789")); err != nil {
			return "err " + respErrClass(err)
		}
		return fmt.Sprintf("writer %s 0 0", tok(canon(w.ID())))
	case "commit":
		w, err := cl.PushBlobChunkedResume(ctx, "foo", uploadID, 0, 1<<20)
		if err != nil {
			return "err " + respErrClass(err)
		}
		if _, err := w.Write(make([]byte, c.size)); err != nil {
			return "err " + respErrClass(err)
		}
		return showD(w.Commit(dg))
	case "delete":
		if err := cl.DeleteBlob(ctx, "foo", ociregistry.Digest(sha256Digest(nil))); err != nil {
			return "err " + respErrClass(err)
		}
		return "ok"
	}
	return "bad-op"
}

func respClient(t []string) string {
	r := &rtoks{t: t}
	c := r.call()
	n := r.n()
	tr := &respTransport{}
	for j := 0; j < n && !r.bad; j++ {
		tr.answers = append(tr.answers, r.answer())
	}
	if r.bad || len(r.t) != 0 {
		return "bad-op"
	}
	cl, err := ociclient.New(respHost, &ociclient.Options{Transport: tr})
	if err != nil {
		return "bad-op"
	}
	out := withWatchdog(func() string { return respDo(cl, c, respUploadID, func(s string) string { return s }) })
	if out == "panic" || out == "hang" {
		return out
	}
	extra := "-"
	switch {
	case c.name == "getBlobRange" && len(tr.reqs) > 0 && tr.reqs[0].Header.Get("Range") != "":
		extra = tok(tr.reqs[0].Header.Get("Range"))
	case c.name == "pushBlob" && len(tr.reqs) == 2, c.name == "commit" && len(tr.reqs) == 1:
		extra = tok(tr.reqs[len(tr.reqs)-1].URL.RequestURI())
	}
	return fmt.Sprintf("%s nreq=%d extra=%s", out, len(tr.reqs), extra)
}

// ---- clilist: the pager against scripted answers ----

func respClientList(t []string) string {
	r := &rtoks{t: t}
	what := r.s()
	n := r.i()
	start := r.b()
	k := r.n()
	tr := &respTransport{}
	for j := 0; j < k && !r.bad; j++ {
		a := r.answer()
		d := r.s()
		if d != "-" {
			m, err := strconv.Atoi(d)
			if err != nil {
				r.bad = true
			}
			for x := 0; x < m && !r.bad; x++ {
				r.b()
			}
		}
		tr.answers = append(tr.answers, a)
	}
	if r.bad || len(r.t) != 0 || (what != "tags" && what != "catalog") {
		return "bad-op"
	}
	cl, err := ociclient.New(respHost, &ociclient.Options{Transport: tr, ListPageSize: int(n)})
	if err != nil {
		return "bad-op"
	}
	return withWatchdog(func() string {
		var seq ociregistry.Seq[string]
		if what == "tags" {
			seq = cl.Tags(context.Background(), "foo", start)
		} else {
			seq = cl.Repositories(context.Background(), start)
		}
		var items []string
		end := "done"
		seq(func(it string, err error) bool {
			if err != nil {
				end = "error:" + respErrClass(err)
				return false
			}
			items = append(items, tok(it))
			return true
		})
		var uris []string
		for _, q := range tr.reqs {
			uris = append(uris, tok(q.URL.RequestURI()))
		}
		return fmt.Sprintf("items [%s] end=%s uris=[%s]", strings.Join(items, " "), end, strings.Join(uris, " "))
	})
}

// ---- rt: real client, real server, scripted backend ----

type respRT struct {
	o       respOpts
	c       respCall
	ctype   string // unused by the implementation (the client sends its own); the model reads it
	body    string
	subject string
	byTag   string
	bs      []respBRes
}

func (r *rtoks) rt() respRT {
	x := respRT{o: r.opts(), c: r.call(), ctype: r.b(), body: r.b(), subject: r.s(), byTag: r.s()}
	x.bs = append(x.bs, r.bres())
	if len(r.t) > 0 {
		x.bs = append(x.bs, r.bres())
	}
	return x
}

func respRoundTrip(t []string) string {
	r := &rtoks{t: t}
	x := r.rt()
	if r.bad || len(r.t) != 0 {
		return "bad-op"
	}
	out, _ := respRunRT(x)
	return out
}

func respRunRT(x respRT) (string, *respBackend) {
	backend := newRespBackend(x.bs)
	srv := httptest.NewServer(ociserver.New(backend, x.o.server()))
	defer srv.Close()
	cl, err := ociclient.New(strings.TrimPrefix(srv.URL, "http://"), &ociclient.Options{Insecure: true})
	if err != nil {
		return "bad-op", backend
	}
	id := ""
	for _, b := range x.bs {
		if b.kind == "writer" || b.kind == "commit" {
			id = b.id
		}
	}
	uploadURL := srv.URL + "/v2/foo/blobs/uploads/" + base64.RawURLEncoding.EncodeToString([]byte(id))
	canon := func(s string) string { return strings.Replace(s, srv.URL, "http://H", 1) }
	c := x.c
	var out string
	if c.name == "pushManifest" && x.byTag != "1" {
		ctx := context.Background()
		d, err := cl.PushManifest(ctx, "foo", "", []byte(c.content), c.mt)
		if err != nil {
			out = "err " + respErrClass(err)
		} else {
			out = "desc " + respShowDesc(d)
		}
	} else {
		out = withWatchdog(func() string { return respDo(cl, c, uploadURL, canon) })
	}
	if c.name == "pushBlob" && strings.HasPrefix(out, "desc ") {
		got := "-"
		if len(backend.ids) > 0 {
			got = tok(backend.ids[len(backend.ids)-1])
		}
		out += " id=" + got
	}
	return out, backend
}

func respRoundTripList(t []string) string {
	r := &rtoks{t: t}
	o := r.opts()
	what := r.s()
	n := r.i()
	start := r.b()
	k := r.n()
	listing := []string{}
	for j := 0; j < k && !r.bad; j++ {
		listing = append(listing, r.b())
	}
	if r.bad || len(r.t) != 0 || (what != "tags" && what != "catalog") {
		return "bad-op"
	}
	backend := newRespBackend(nil)
	backend.listing = listing
	srv := httptest.NewServer(ociserver.New(backend, o.server()))
	defer srv.Close()
	cl, err := ociclient.New(strings.TrimPrefix(srv.URL, "http://"), &ociclient.Options{Insecure: true, ListPageSize: int(n)})
	if err != nil {
		return "bad-op"
	}
	return withWatchdog(func() string {
		var seq ociregistry.Seq[string]
		if what == "tags" {
			seq = cl.Tags(context.Background(), "foo", start)
		} else {
			seq = cl.Repositories(context.Background(), start)
		}
		var items []string
		end := "done"
		seq(func(it string, err error) bool {
			if err != nil {
				end = "error:" + respErrClass(err)
				return false
			}
			items = append(items, tok(it))
			return len(items) < 3000 // a pager that never ends is an observation, not a hang
		})
		return fmt.Sprintf("items [%s] end=%s", strings.Join(items, " "), end)
	})
}

// ---- Referrers ----

func respShowRefs(seq ociregistry.Seq[ociregistry.Descriptor]) string {
	ds, err := ociregistry.All(seq)
	if err != nil {
		return "err " + respErrClass(err)
	}
	s := fmt.Sprintf("descs %d", len(ds))
	for _, d := range ds {
		s += " " + respShowDesc(d)
	}
	return s
}

func respClientRefs(t []string) string {
	r := &rtoks{t: t}
	a := r.answer()
	if r.bad {
		return "bad-op"
	}
	tr := &respTransport{answers: []respAnswer{a}}
	cl, err := ociclient.New(respHost, &ociclient.Options{Transport: tr})
	if err != nil {
		return "bad-op"
	}
	return withWatchdog(func() string {
		return respShowRefs(cl.Referrers(context.Background(), "foo", ociregistry.Digest(sha256Digest(nil)), ""))
	})
}

func respRoundTripRefs(t []string) string {
	r := &rtoks{t: t}
	o := r.opts()
	k := r.n()
	b := respBRes{kind: "descs"}
	for j := 0; j < k && !r.bad; j++ {
		b.descs = append(b.descs, r.desc())
	}
	if r.bad || len(r.t) != 0 {
		return "bad-op"
	}
	srv := httptest.NewServer(ociserver.New(newRespBackend([]respBRes{b}), o.server()))
	defer srv.Close()
	cl, err := ociclient.New(strings.TrimPrefix(srv.URL, "http://"), &ociclient.Options{Insecure: true})
	if err != nil {
		return "bad-op"
	}
	return withWatchdog(func() string {
		return respShowRefs(cl.Referrers(context.Background(), "foo", ociregistry.Digest(sha256Digest(nil)), ""))
	})
}

// ---- std-lib pieces ----

func respStd(t []string) string {
	switch {
	case len(t) == 2 && t[0] == "qesc":
		s, _ := untok(t[1])
		return tok(url.QueryEscape(s))
	case len(t) == 2 && t[0] == "qunesc":
		s, _ := untok(t[1])
		v, err := url.QueryUnescape(s)
		if err != nil {
			return "err"
		}
		return "ok " + tok(v)
	case len(t) == 2 && t[0] == "jsonstr":
		s, _ := untok(t[1])
		data, err := json.Marshal(s)
		if err != nil {
			return "err"
		}
		return tok(string(data))
	case len(t) == 2 && t[0] == "parsequery":
		s, _ := untok(t[1])
		// url.ParseQuery returns a map: the order of distinct keys is lost, so the harness walks the pieces itself
		// in order and lets url.ParseQuery judge each
		if _, err := url.ParseQuery(s); err != nil {
			return "err"
		}
		out := "ok"
		for _, piece := range strings.Split(s, "&") {
			if piece == "" {
				continue
			}
			k, v, _ := strings.Cut(piece, "=")
			k1, _ := url.QueryUnescape(k)
			v1, _ := url.QueryUnescape(v)
			out += " " + tok(k1) + " " + tok(v1)
		}
		return out
	case len(t) >= 2 && t[0] == "encquery":
		r := &rtoks{t: t[1:]}
		ps := r.pairs()
		if r.bad || len(r.t) != 0 {
			return "bad-op"
		}
		vs := url.Values{}
		for _, kv := range ps {
			vs.Add(kv[0], kv[1])
		}
		return tok(vs.Encode())
	}
	return "bad-op"
}

func (*c03r) Impl(c Case) []string {
	out := make([]string, len(c.Lines))
	for i, l := range c.Lines {
		t := strings.Split(l, " ")
		out[i] = guard(func() string {
			if len(t) < 2 || t[0] != "resp" {
				return "bad-op"
			}
			switch t[1] {
			case "srv":
				return respServe(t[2:])
			case "cli":
				return respClient(t[2:])
			case "clilist":
				return respClientList(t[2:])
			case "rt":
				return respRoundTrip(t[2:])
			case "rtlist":
				return respRoundTripList(t[2:])
			case "clirefs":
				return respClientRefs(t[2:])
			case "rtrefs":
				return respRoundTripRefs(t[2:])
			default:
				return respStd(t[1:])
			}
		})
	}
	return out
}

func b64url(s string) string { return base64.RawURLEncoding.EncodeToString([]byte(s)) }
