package main

import (
	"encoding/json"
	"fmt"
	"net/url"
	"sort"
	"strconv"
	"strings"

	"github.com/opencontainers/go-digest"
	ocispec "github.com/opencontainers/image-spec/specs-go/v1"
)

func digestOf(s string) digest.Digest { return digest.Digest(s) }

// Generators of the C03R engine. Every choice comes from the run's RNG.

const (
	mtOctet    = "application/octet-stream"
	mtManifest = "application/vnd.oci.image.manifest.v1+json"
	mtIndex    = "application/vnd.oci.image.index.v1+json"
)

var respMediaTypes = []string{mtOctet, mtManifest, mtIndex, "text/plain", "", "application/vnd.docker.distribution.manifest.v2+json", "application/vnd.oci.image.layer.v1.tar+gzip"}
var respRepos = []string{"foo", "foo/bar", "a/blobs/uploads", "tags/list", "manifests", "x/referrers/y"}
var respNames = []string{"a", "b", "a/b", "ab", "x y", "ü", "<&>", "q\"uote", "back\\slash", "tab\t", "\x01", "~", "%41", "+", "=", "&", "zz", "latest", "v1.0", "n=1", "a,b", "日本"}

func respContent(rng *RNG) string {
	switch rng.Intn(8) {
	case 0:
		return ""
	case 1:
		return "x"
	case 2:
		return "hello world"
	case 3:
		return "{}"
	case 4:
		return string(rng.Bytes(1 + rng.Intn(40)))
	case 5:
		return "0123456789"
	default:
		return strings.Repeat("ab", rng.Intn(20)) + strconv.Itoa(rng.Intn(1000))
	}
}

// respBig is a manifest-sized content around the client's in-memory threshold (128 KiB).
func respBig(n int) string {
	return strings.Repeat("0123456789abcdef", n/16+1)[:n]
}

func respDigestFor(rng *RNG, content string) string {
	switch rng.Intn(10) {
	case 0:
		return "sha512:" + strings.Repeat("a", 128)
	case 1:
		return sha256Digest([]byte(content + "other"))
	default:
		return sha256Digest([]byte(content))
	}
}

func respAnyDigest(rng *RNG) string {
	return pick(rng, []string{sha256Digest(nil), sha256Digest([]byte("x")), "sha512:" + strings.Repeat("0", 128), "sha384:" + strings.Repeat("b", 96), "", "bogus", "sha256:ABC", "md5:" + strings.Repeat("a", 32)})
}

func respValidDigest(rng *RNG) string {
	return pick(rng, []string{sha256Digest(nil), sha256Digest([]byte("x")), sha256Digest([]byte("0123456789")), "sha512:" + strings.Repeat("0", 128), "sha384:" + strings.Repeat("b", 96)})
}

func respOptsGen(rng *RNG) respOpts {
	o := respOpts{bits: "0000"}
	if rng.Chance(1, 2) {
		b := []byte("0000")
		for i := range b {
			if rng.Chance(1, 3) {
				b[i] = '1'
			}
		}
		o.bits = string(b)
	}
	if rng.Chance(1, 5) {
		o.maxPage = 2
	}
	return o
}

func (o respOpts) String() string { return fmt.Sprintf("%s %d", o.bits, o.maxPage) }

var respRanges = []string{"bytes=0-4", "bytes=2-", "bytes=5-2", "bytes=-3", "bytes=0-1,3-4", "bytes= 1 - 3 ", "bytes=,", "bytes=1-2,", "lines=0-1",
	"bytes=a-b", "bytes=0-9223372036854775807", "bytes=+1-+3", "bytes=1-3 ,", "bytes=", "bytes=0-0", "bytes", " bytes=0-1", "bytes=0--1",
	"bytes=0-99999999999999999999", "bytes=3-3", "bytes=10-20", "bytes=11-", "bytes=\t2-\t", "bytes=-", "bytes=--1", "bytes=1", "bytes=9223372036854775807-",
	"bytes=1-2-3", "Bytes=0-1", "bytes=0-1;", "bytes=,,2-3,,"}

// respClientRange is the header ociclient.GetBlobRange sends for [o0, o1) (reader.go), spelled out independently.
func respClientRange(o0, o1 int64) string {
	if o1 < 0 {
		return fmt.Sprintf("bytes=%d-", o0)
	}
	return fmt.Sprintf("bytes=%d-%d", o0, o1-1)
}

func respSlice(blob string, o0, o1 int64) string {
	n := int64(len(blob))
	if o1 < 0 || o1 > n {
		o1 = n
	}
	if o0 < 0 || o0 > o1 {
		return ""
	}
	return blob[o0:o1]
}

func respOffsets(rng *RNG, n int64) (int64, int64) {
	switch rng.Intn(12) {
	case 0:
		return 0, n
	case 1:
		return 0, 1
	case 2:
		k := int64(rng.Intn(int(n) + 1))
		return k, k // F3: the empty range
	case 3:
		return int64(rng.Intn(int(n) + 1)), -1
	case 4:
		return n, -1
	case 5:
		return n + 1, -1
	case 6:
		return 0, n + 10
	case 7:
		return n, n + 1
	case 8:
		return 3, 1
	case 9:
		return 1, 2
	default:
		a := int64(rng.Intn(int(n) + 2))
		return a, a + 1 + int64(rng.Intn(int(n)+2))
	}
}

func respSubjectBody(rng *RNG) (body, subject string) {
	dg := sha256Digest([]byte("subject"))
	switch rng.Intn(7) {
	case 0:
		return "{}", "-"
	case 1:
		return `{"subject":null}`, "-"
	case 2:
		return "{", "!"
	case 3:
		return `{"subject":{}}`, tok("")
	case 4:
		return "opaque manifest", "!"
	case 5:
		return `{"schemaVersion":2,"subject":{"mediaType":"` + mtManifest + `","digest":"` + dg + `","size":7},"layers":[]}`, tok(dg)
	default:
		return `{"subject":{"digest":"` + dg + `"}}`, tok(dg)
	}
}

func respSrvLine(rng *RNG) string {
	o := respOptsGen(rng)
	kinds := []string{"ReqPing", "ReqBlobGet", "ReqBlobGet", "ReqBlobGet", "ReqBlobHead", "ReqBlobDelete", "ReqBlobStartUpload", "ReqBlobUploadBlob", "ReqBlobMount",
		"ReqBlobUploadInfo", "ReqBlobUploadChunk", "ReqBlobCompleteUpload", "ReqManifestGet", "ReqManifestHead", "ReqManifestPut", "ReqManifestPut", "ReqManifestDelete",
		"ReqTagsList", "ReqTagsList", "ReqReferrersList", "ReqCatalogList", "ReqCatalogList"}
	q := respReq{kind: pick(rng, kinds), repo: pick(rng, respRepos), subject: "-", listN: 0}
	content := respContent(rng)
	sizes := []int64{int64(len(content)), int64(len(content)), 0, 1, 131071, 131072, 131073, 1 << 40, -5, 9223372036854775807}
	d := respDesc{mt: pick(rng, respMediaTypes), dg: respDigestFor(rng, content), size: pick(rng, sizes)}
	if rng.Chance(1, 8) {
		d.dg = respAnyDigest(rng)
	}
	ids := []string{"abc", "a/b?c", "upload-1", strings.Repeat("i", 100), "ü", "", "\xff", " ", "1"}
	var b respBRes
	switch q.kind {
	case "ReqPing":
		q.repo = ""
		b = respBRes{kind: "unit"}
	case "ReqBlobGet":
		q.dg = respValidDigest(rng)
		blob := content
		d.size = int64(len(blob))
		if rng.Chance(1, 6) {
			d.size = pick(rng, []int64{0, 1, 5, int64(len(blob)) + 3})
		}
		b = respBRes{kind: "reader", d: d, content: blob}
		switch rng.Intn(3) {
		case 0:
		case 1:
			o0, o1 := respOffsets(rng, int64(len(blob)))
			if !(o0 == 0 && o1 < 0) {
				q.rng = respClientRange(o0, o1)
				b.content = respSlice(blob, o0, o1)
			}
		default:
			q.rng = pick(rng, respRanges)
		}
	case "ReqBlobHead":
		q.dg = respValidDigest(rng)
		b = respBRes{kind: "desc", d: d}
	case "ReqBlobDelete":
		q.dg = respValidDigest(rng)
		b = respBRes{kind: "unit"}
	case "ReqManifestDelete":
		if rng.Bool() {
			q.dg = respValidDigest(rng)
		} else {
			q.tag = pick(rng, []string{"latest", "v1.0", "uploads"})
		}
		b = respBRes{kind: "unit"}
	case "ReqBlobStartUpload":
		b = respBRes{kind: "writer", id: pick(rng, ids), size: 0, chunk: pick(rng, []int64{0, 16, 65536, -1, 1 << 40})}
	case "ReqBlobUploadBlob":
		q.dg = respValidDigest(rng)
		if o.bits[1] == '1' {
			b = respBRes{kind: "writer", id: pick(rng, ids), size: 0, chunk: 16}
		} else {
			b = respBRes{kind: "desc", d: d}
		}
	case "ReqBlobMount":
		q.dg = respValidDigest(rng)
		q.from = pick(rng, respRepos)
		b = respBRes{kind: "desc", d: d}
	case "ReqBlobUploadInfo", "ReqBlobUploadChunk":
		q.id = pick(rng, ids[:5])
		b = respBRes{kind: "writer", id: pick(rng, ids), size: pick(rng, []int64{0, 1, 2, 10, 65536, 1 << 40, -1}), chunk: 16}
		if rng.Chance(2, 3) {
			b.id = q.id
		}
	case "ReqBlobCompleteUpload":
		q.id = pick(rng, ids[:5])
		q.dg = respValidDigest(rng)
		b = respBRes{kind: "commit", id: q.id, d: d}
	case "ReqManifestGet":
		if rng.Bool() {
			q.dg = respValidDigest(rng)
		} else {
			q.tag = pick(rng, []string{"latest", "v1.0", "list"})
		}
		d.size = int64(len(content))
		b = respBRes{kind: "reader", d: d, content: content}
	case "ReqManifestHead":
		if rng.Bool() {
			q.dg = respValidDigest(rng)
		} else {
			q.tag = pick(rng, []string{"latest", "v1.0", "list"})
		}
		b = respBRes{kind: "desc", d: d}
	case "ReqManifestPut":
		q.body, q.subject = respSubjectBody(rng)
		q.ctype = pick(rng, []string{mtManifest, mtIndex, mtManifest, "", "text/plain", "application/vnd.docker.distribution.manifest.v2+json"})
		if rng.Bool() {
			q.tag = "latest"
		} else {
			q.dg = sha256Digest([]byte(q.body))
			if rng.Chance(1, 5) {
				q.dg = sha256Digest([]byte("something else"))
			}
		}
		b = respBRes{kind: "desc", d: respDesc{mt: q.ctype, dg: sha256Digest([]byte(q.body)), size: int64(len(q.body))}}
		if rng.Chance(1, 4) {
			b.d = d
		}
	case "ReqTagsList", "ReqCatalogList":
		if q.kind == "ReqCatalogList" {
			q.repo = ""
		}
		var items []string
		for _, i := range rng.Perm(len(respNames))[:rng.Intn(7)] {
			items = append(items, respNames[i])
		}
		sort.Strings(items)
		q.listN = pick(rng, []int64{-1, 0, 1, 2, 3, int64(len(items)), int64(len(items)) + 1, 10000, -5})
		q.last = pick(rng, []string{"", "", "a", "zz", "x y", "a&b=c"})
		b = respBRes{kind: "items", items: items}
	case "ReqReferrersList":
		q.dg = respValidDigest(rng)
		q.listN = -1
		b = respBRes{kind: "descs"}
		for i := rng.Intn(4); i > 0; i-- {
			b.descs = append(b.descs, respDesc{mt: pick(rng, respMediaTypes), dg: respAnyDigest(rng), size: pick(rng, sizes)})
		}
	}
	respURL(&q)
	if q.kind == "ReqTagsList" || q.kind == "ReqCatalogList" {
		// n is sent whenever it is not the "absent" value, and a query may carry more than the router reads
		var ps [][2]string
		if q.listN != -1 {
			ps = append(ps, [2]string{"n", strconv.FormatInt(q.listN, 10)})
		}
		if q.last != "" {
			ps = append(ps, [2]string{"last", q.last})
		}
		switch rng.Intn(6) {
		case 0:
			ps = append(ps, [2]string{"zzz", "1"})
		case 1:
			ps = append([][2]string{{"a", "b c"}}, ps...)
		case 2:
			if q.last != "" {
				ps = append(ps, [2]string{"last", "second"})
			}
		}
		q.query = ps
	}
	return fmt.Sprintf("resp srv %s %s %s", o, q, b)
}

// ---- cli ----

type respBase struct{ call, base string }

func respResolve(base, ref string) string {
	if ref == "" {
		return "-"
	}
	u, err := url.Parse(ref)
	if err != nil {
		return "-"
	}
	b, _ := url.Parse(base)
	return tok(b.ResolveReference(u).String())
}

func respMutateHeaders(rng *RNG, a *respAnswer) {
	values := map[string][]string{
		"Content-Type":          {"", "application/json", "text/plain", mtManifest, ";;;"},
		"Docker-Content-Digest": {"", "bogus", "sha256:ABC", "md5:abc", "sha512:" + strings.Repeat("a", 128), sha256Digest([]byte("zz")), "sha256:" + strings.Repeat("0", 63)},
		"Content-Range":         {"", "bytes 1-2/10", "bytes 1-2/", "bytes 1-2", "bytes */x", "bytes 1-2/-5", "1-2/99999999999999999999", "bytes 0-0/+7", "/", "bytes 0-4/9223372036854775807", "5", "bytes 0-4/5/9", "x/y/3", "bytes 0-4//7", "7/"},
		"Location":              {"", "/v2/foo/blobs/uploads/xyz", "http://other.example/x?y=z", "%zz", "relative/path", "?", "/v2/foo/blobs/uploads/abc?x=1", "::", "/v2/foo/blobs/uploads/abc?", "//other.example/up"},
		"Range":                 {"", "0-0", "0-10", "5-3", "a-b", "1-10", "0-99999999999999999999", "-", "0-9223372036854775806", "0-1", "0--1", "0", "-5", "0-+5", "00-07"},
		"OCI-Chunk-Min-Length":  {"", "0", "1", "8", "-5", "abc", "9223372036854775807", "99999999999999999999", "100000", "+70000", "65536", "65537"},
	}
	keys := []string{"Content-Type", "Docker-Content-Digest", "Content-Range", "Location", "Range", "OCI-Chunk-Min-Length"}
	switch rng.Intn(4) {
	case 0: // drop one header that is there
		if len(a.hdr) > 0 {
			i := rng.Intn(len(a.hdr))
			a.hdr = append(append([][2]string{}, a.hdr[:i]...), a.hdr[i+1:]...)
		}
	case 1: // change one header that is there
		if len(a.hdr) > 0 {
			i := rng.Intn(len(a.hdr))
			if vs, ok := values[a.hdr[i][0]]; ok {
				a.hdr[i][1] = pick(rng, vs)
			} else {
				a.hdr[i][1] = ""
			}
		}
	case 2: // add or override any header
		k := pick(rng, keys)
		v := pick(rng, values[k])
		found := false
		for i := range a.hdr {
			if a.hdr[i][0] == k {
				a.hdr[i][1] = v
				found = true
			}
		}
		if !found {
			a.hdr = append(a.hdr, [2]string{k, v})
		}
	default: // status or length
		if rng.Bool() {
			a.status = pick(rng, []int{200, 201, 202, 204, 206, 299, 400, 401, 404, 416, 429, 500, 503, 0, 100, 600, 304})
		} else {
			a.cl = pick(rng, []int64{-1, 0, 1, int64(len(a.body)), int64(len(a.body)) + 1, 131071, 131072, 131073, 200000})
		}
	}
}

var respCalls = []string{"getBlob", "getBlobRange", "getManifest", "getTag", "resolveBlob", "resolveManifest", "resolveTag", "pushManifest", "mountBlob",
	"pushBlob", "pushBlobChunked", "resumeAsk", "flushPatch", "commit", "delete"}

// respCliLine builds the answers a well-behaved server would give to the call, then (usually) spoils one thing.
func respCliLine(rng *RNG, name string, mutations int) string {
	content := respContent(rng)
	dg := sha256Digest([]byte(content))
	mt := pick(rng, respMediaTypes)
	c := respCall{name: name}
	base := "https://registry.example/v2/foo/blobs/uploads/"
	cl := int64(len(content))
	clHdr := [2]string{"Content-Length", strconv.Itoa(len(content))}
	var as []respAnswer
	switch name {
	case "getBlob", "getManifest":
		c.dg = dg
		as = []respAnswer{{status: 200, cl: cl, body: content, hdr: [][2]string{{"Content-Type", mt}, clHdr, {"Docker-Content-Digest", dg}}}}
	case "getTag":
		as = []respAnswer{{status: 200, cl: cl, body: content, hdr: [][2]string{{"Content-Type", mt}, clHdr, {"Docker-Content-Digest", dg}}}}
		if rng.Chance(1, 2) {
			// a registry that leaves the digest out: the client hashes the body, or asks again with HEAD
			as[0].hdr = as[0].hdr[:2]
			if rng.Chance(1, 3) {
				as[0].cl = pick(rng, []int64{131071, 131072, 131073, 200000})
			}
			as = append(as, respAnswer{status: 200, cl: as[0].cl, hdr: [][2]string{{"Content-Type", mt}, {"Docker-Content-Digest", dg}}})
		}
	case "getBlobRange":
		c.dg = dg
		c.o0, c.o1 = respOffsets(rng, int64(len(content)))
		part := respSlice(content, c.o0, c.o1)
		end := c.o0 + int64(len(part))
		as = []respAnswer{{status: 206, cl: int64(len(part)), body: part, hdr: [][2]string{{"Content-Type", mt}, {"Content-Length", strconv.Itoa(len(part))},
			{"Docker-Content-Digest", dg}, {"Content-Range", fmt.Sprintf("bytes %d-%d/%d", c.o0, end-1, len(content))}}}}
		if rng.Chance(1, 6) {
			as[0].status = 200
		}
	case "resolveBlob", "resolveManifest", "resolveTag":
		if name != "resolveTag" {
			c.dg = dg
		}
		cl = pick(rng, []int64{cl, 0, 1, 1 << 40})
		as = []respAnswer{{status: 200, cl: cl, hdr: [][2]string{{"Content-Type", mt}, {"Content-Length", strconv.FormatInt(cl, 10)}, {"Docker-Content-Digest", dg}}}}
	case "pushManifest":
		c.mt, c.content = mt, content
		as = []respAnswer{{status: 201, cl: 0, hdr: [][2]string{{"Location", "/v2/foo/manifests/" + dg}, {"Docker-Content-Digest", dg}}}}
	case "mountBlob":
		c.dg = dg
		as = []respAnswer{{status: 201, cl: 0, hdr: [][2]string{{"Location", "/v2/foo/blobs/" + dg}, {"Docker-Content-Digest", dg}}}}
		if rng.Chance(1, 6) {
			as[0].status = 202
		}
	case "pushBlob":
		c.mt, c.content = mt, content
		as = []respAnswer{
			{status: 202, cl: 0, hdr: [][2]string{{"Location", "/v2/foo/blobs/uploads/abc"}, {"Range", "0-0"}, {"OCI-Chunk-Min-Length", "16"}}},
			{status: 201, cl: 0, hdr: [][2]string{{"Location", "/v2/foo/blobs/" + dg}, {"Docker-Content-Digest", dg}}},
		}
	case "pushBlobChunked":
		c.chunk = pick(rng, []int64{0, -1, 1, 16, 65536, 100000})
		as = []respAnswer{{status: 202, cl: 0, hdr: [][2]string{{"Location", "/v2/foo/blobs/uploads/abc"}, {"Range", "0-0"},
			{"OCI-Chunk-Min-Length", pick(rng, []string{"0", "16", "65536", "65537", "100000"})}}}}
	case "resumeAsk":
		base = respUploadID
		c.chunk = pick(rng, []int64{0, -1, 1, 16, 65536, 100000})
		n := pick(rng, []int64{0, 1, 2, 10, 65536, 1 << 40})
		as = []respAnswer{{status: 204, cl: 0, hdr: [][2]string{{"Location", "/v2/foo/blobs/uploads/abc"}, {"Range", ociverif_RangeString(0, n)}}}}
	case "flushPatch":
		base = respUploadID
		as = []respAnswer{{status: 202, cl: 0, hdr: [][2]string{{"Location", "/v2/foo/blobs/uploads/abc2"}, {"Range", "0-9"}}}}
	case "commit":
		base = respUploadID
		c.size = int64(rng.Intn(50))
		c.dg = pick(rng, []string{dg, "sha512:" + strings.Repeat("c", 128)})
		as = []respAnswer{{status: 201, cl: 0, hdr: [][2]string{{"Location", "/v2/foo/blobs/" + c.dg}, {"Docker-Content-Digest", c.dg}}}}
	case "delete":
		as = []respAnswer{{status: 202, cl: 0}}
	}
	for m := 0; m < mutations; m++ {
		respMutateHeaders(rng, &as[rng.Intn(len(as))])
	}
	if rng.Chance(1, 12) && len(as) > 1 {
		as = as[:1] // the script runs out: the transport fails
	}
	line := fmt.Sprintf("resp cli %s %d", c, len(as))
	for _, a := range as {
		a.resolved = respResolve(base, a.get("Location"))
		line += " " + a.String()
	}
	return line
}

// respCliDirected enumerates, for every call, the answer a well-behaved server gives with each of its headers in turn
// missing, empty and malformed, each status in turn, and each reported length in turn.
func respCliDirected(rng *RNG) []string {
	var out []string
	malformed := map[string][]string{
		"Content-Type":          {"", ";;;"},
		"Content-Length":        {"", "abc"},
		"Docker-Content-Digest": {"", "bogus", "sha256:ABC", "sha256:" + strings.Repeat("0", 63), "sha512:" + strings.Repeat("a", 128), sha256Digest([]byte("zz"))},
		"Content-Range":         {"", "bytes 1-2/", "bytes 1-2", "bytes */x", "bytes 1-2/-5", "bytes 0-0/+7", "/", "5", "bytes 0-4/99999999999999999999", "bytes 0-4/5/9", "x/y/3", "bytes 0-4//7", "7/"},
		"Location":              {"", "%zz", "relative/path", "?", "http://other.example/x?y=z", "/v2/foo/blobs/uploads/abc?x=1", "/v2/foo/blobs/uploads/abc?", "::"},
		"Range":                 {"", "0-0", "5-3", "a-b", "1-10", "-", "0", "0--1", "0-99999999999999999999", "0-9223372036854775806", "00-07"},
		"Oci-Chunk-Min-Length":  {"", "-5", "abc", "9223372036854775807", "99999999999999999999", "+70000"},
	}
	for _, name := range respCalls {
		// the valid answers, as a line, then re-read into values
		base := respCliLine(rng, name, 0)
		r := &rtoks{t: strings.Split(base, " ")[2:]}
		c := r.call()
		n := r.n()
		var as []respAnswer
		for j := 0; j < n; j++ {
			as = append(as, r.answer())
		}
		if r.bad {
			continue
		}
		emit := func(as []respAnswer) {
			line := fmt.Sprintf("resp cli %s %d", c, len(as))
			b := "https://registry.example/v2/foo/blobs/uploads/"
			if name == "resumeAsk" || name == "flushPatch" || name == "commit" {
				b = respUploadID
			}
			for _, a := range as {
				a.resolved = respResolve(b, a.get("Location"))
				line += " " + a.String()
			}
			out = append(out, line)
		}
		clone := func() []respAnswer {
			cp := make([]respAnswer, len(as))
			for i, a := range as {
				cp[i] = a
				cp[i].hdr = append([][2]string{}, a.hdr...)
			}
			return cp
		}
		for ai := range as {
			for hi := range as[ai].hdr {
				k := as[ai].hdr[hi][0]
				cp := clone()
				cp[ai].hdr = append(cp[ai].hdr[:hi], cp[ai].hdr[hi+1:]...)
				emit(cp) // missing
				for _, v := range malformed[k] {
					cp := clone()
					cp[ai].hdr[hi][1] = v
					if k == "Content-Length" {
						cp[ai].cl = int64(len(cp[ai].body)) // net/http would not let a malformed length through: the body's own
					}
					emit(cp)
				}
			}
			for _, st := range []int{200, 201, 202, 204, 206, 299, 400, 401, 404, 416, 429, 500, 503, 0, 100, 600, 304} {
				cp := clone()
				cp[ai].status = st
				emit(cp)
			}
			for _, cl := range []int64{-1, 0, 1, int64(len(as[ai].body)) + 1, 131071, 131072, 131073} {
				cp := clone()
				cp[ai].cl = cl
				emit(cp)
			}
		}
		emit(nil)
	}
	return out
}

// respCliBig: manifests of exactly 128 KiB - 1, 128 KiB and 128 KiB + 1 bytes answered without a digest header: the
// client hashes the first two itself and asks again with HEAD for the third; also with a byte too many or too few.
func respCliBig() []string {
	var out []string
	for _, n := range []int{131071, 131072, 131073} {
		body := respBig(n)
		dg := sha256Digest([]byte(body))
		for _, name := range []string{"getTag", "getManifest"} {
			for _, delta := range []int{0, -1, 1} {
				c := respCall{name: name}
				if name == "getManifest" {
					c.dg = dg
				}
				sent := respBig(n + delta)
				get := respAnswer{status: 200, cl: int64(n), body: sent, hdr: [][2]string{{"Content-Type", mtManifest}, {"Content-Length", strconv.Itoa(n)}}, resolved: "-"}
				head := respAnswer{status: 200, cl: int64(n), hdr: [][2]string{{"Content-Type", mtIndex}, {"Content-Length", strconv.Itoa(n)}, {"Docker-Content-Digest", dg}}, resolved: "-"}
				out = append(out, fmt.Sprintf("resp cli %s 2 %s %s", c, get, head))
				if delta == 0 {
					out = append(out, fmt.Sprintf("resp cli %s 1 %s", c, get))
					headNoDigest := head
					headNoDigest.hdr = head.hdr[:2]
					out = append(out, fmt.Sprintf("resp cli %s 2 %s %s", c, get, headNoDigest))
				}
			}
		}
	}
	return out
}

// ociverif_RangeString is the upload Range header a server reports for n bytes received, spelled out independently.
func ociverif_RangeString(start, end int64) string {
	end--
	if end < 0 {
		end = 0
	}
	return fmt.Sprintf("%d-%d", start, end)
}

// ---- clilist ----

func respListDec(what, body string) string {
	var items []string
	var err error
	if what == "tags" {
		var v struct {
			Repo string   `json:"name"`
			Tags []string `json:"tags"`
		}
		err = json.Unmarshal([]byte(body), &v)
		items = v.Tags
	} else {
		var v struct {
			Repos []string `json:"repositories"`
		}
		err = json.Unmarshal([]byte(body), &v)
		items = v.Repos
	}
	if err != nil {
		return "-"
	}
	s := strconv.Itoa(len(items))
	for _, it := range items {
		s += " " + tok(it)
	}
	return s
}

func respLinkURI(link string) string {
	if !strings.HasPrefix(link, "<") {
		return "-"
	}
	target, _, ok := strings.Cut(link[1:], ">")
	if !ok {
		return "-"
	}
	u, err := url.Parse(target)
	if err != nil {
		return "-"
	}
	b, _ := url.Parse("https://registry.example/v2/_catalog")
	return tok(b.ResolveReference(u).RequestURI())
}

func respCliListLine(rng *RNG) string {
	what := pick(rng, []string{"tags", "catalog"})
	n := pick(rng, []int64{1, 2, 3, 1000, 0, -1})
	start := pick(rng, []string{"", "", "a", "x y"})
	k := 1 + rng.Intn(3)
	eff := n
	if eff <= 0 {
		eff = 1000
	}
	line := ""
	for j := 0; j < k; j++ {
		cnt := rng.Intn(4)
		if eff < 4 && rng.Chance(2, 3) {
			cnt = int(eff) // a full page keeps the listing going
		}
		items := []string{}
		for x := 0; x < cnt; x++ {
			items = append(items, pick(rng, respNames))
		}
		var body []byte
		if what == "tags" {
			body, _ = json.Marshal(map[string]any{"name": "foo", "tags": items})
		} else {
			body, _ = json.Marshal(map[string]any{"repositories": items})
		}
		a := respAnswer{status: 200, cl: int64(len(body)), body: string(body), hdr: [][2]string{{"Content-Length", strconv.Itoa(len(body))}, {"Content-Type", "text/plain; charset=utf-8"}}}
		switch rng.Intn(9) {
		case 0:
			a.body = pick(rng, []string{"", "{", "not json", `{"tags":[1]}`, `{"repositories":"x"}`, "null", "[]", `{"tags":null,"repositories":null}`, `{"TAGS":["up"],"Repositories":["up"]}`, ` {"tags" : [ "sp" ] , "repositories":["sp"]} `})
		case 1:
			a.status = pick(rng, []int{201, 204, 404, 500, 0, 401})
		}
		last := "zz"
		if len(items) > 0 {
			last = items[len(items)-1]
		}
		nextPath := "/v2/_catalog"
		if what == "tags" {
			nextPath = "/v2/foo/tags/list"
		}
		wellFormed := "<" + nextPath + "?last=" + url.QueryEscape(last) + "&n=" + strconv.FormatInt(eff, 10) + `>;rel="next"`
		switch rng.Intn(10) {
		case 0, 1, 2, 3:
			a.hdr = append(a.hdr, [2]string{"Link", wellFormed})
		case 4:
			a.hdr = append(a.hdr, [2]string{"Link", pick(rng, []string{"<", "no brackets", "<%zz>", `</v2/_catalog?n=1`, `x</v2/_catalog>`, "<http://other.example/v2/_catalog?n=2&last=q>", `</v2/other/tags/list?n=7>; rel="next"`, `</v2/_catalog?last=a%2Fb&n=1&extra=1>`})})
		case 5:
			a.hdr = append(a.hdr, [2]string{"Link", ""})
		}
		a.resolved = respLinkURI(a.get("Link"))
		line += " " + a.String() + " " + respListDec(what, a.body)
	}
	return fmt.Sprintf("resp clilist %s %d %s %d%s", what, n, tok(start), k, line)
}

// respRefsDec is what encoding/json makes of a referrers body: the three mandatory fields of each manifest.
func respRefsDec(body string) string {
	var idx ocispec.Index
	if err := json.Unmarshal([]byte(body), &idx); err != nil {
		return "-"
	}
	s := strconv.Itoa(len(idx.Manifests))
	for _, d := range idx.Manifests {
		s += fmt.Sprintf(" %s %s %d", tok(d.MediaType), tok(string(d.Digest)), d.Size)
	}
	return s
}

func respRefDescs(rng *RNG) []respDesc {
	var ds []respDesc
	for i := rng.Intn(4); i > 0; i-- {
		ds = append(ds, respDesc{mt: pick(rng, respMediaTypes), dg: pick(rng, []string{sha256Digest(nil), sha256Digest([]byte("x")), "sha512:" + strings.Repeat("0", 128), ""}),
			size: pick(rng, []int64{0, 1, 7, 131073, 1 << 40})})
	}
	return ds
}

func respCliRefsLine(rng *RNG) string {
	idx := ocispec.Index{MediaType: mtIndex}
	idx.SchemaVersion = 2
	for _, d := range respRefDescs(rng) {
		idx.Manifests = append(idx.Manifests, ocispec.Descriptor{MediaType: d.mt, Digest: digestOf(d.dg), Size: d.size})
	}
	body, _ := json.Marshal(idx)
	a := respAnswer{status: 200, cl: int64(len(body)), body: string(body), hdr: [][2]string{{"Content-Length", strconv.Itoa(len(body))}, {"Content-Type", mtIndex}}, resolved: "-"}
	switch rng.Intn(8) {
	case 0:
		a.body = pick(rng, []string{"", "{", "null", "[]", `{"manifests":null}`, `{"manifests":[{"size":"x"}]}`, `{"manifests":[{"mediaType":"a","digest":"b","size":3,"annotations":{"k":"v"}}]}`, `{"Manifests":[{"MediaType":"up"}]}`})
	case 1:
		a.status = pick(rng, []int{201, 204, 404, 500, 0, 401, 400})
	case 2:
		a.hdr = nil
	}
	return "resp clirefs " + a.String() + " " + respRefsDec(a.body)
}

func respRTRefsLine(rng *RNG) string {
	o := respOptsGen(rng)
	ds := respRefDescs(rng)
	s := fmt.Sprintf("resp rtrefs %s %d", o, len(ds))
	for _, d := range ds {
		s += fmt.Sprintf(" %s %s %d", tok(d.mt), tok(d.dg), d.size)
	}
	return s
}

// ---- rt ----

// respRTLine builds one composed case; honest says whether the backend's answer is consistent with the request
// (then the oracle demands the round trip).
func respRTLine(rng *RNG, name string, big int) string {
	o := respOptsGen(rng)
	o.maxPage = 0
	content := respContent(rng)
	if big > 0 {
		content = respBig(big)
	}
	dg := sha256Digest([]byte(content))
	mt := pick(rng, []string{mtOctet, mtManifest, mtIndex, "text/plain", "", "application/vnd.oci.image.layer.v1.tar+gzip"})
	c := respCall{name: name}
	x := respRT{o: o, c: c, subject: "-", byTag: "1"}
	d := respDesc{mt: mt, dg: dg, size: int64(len(content))}
	dishonest := rng.Chance(1, 6)
	switch name {
	case "getBlob", "getManifest":
		x.c.dg = dg
		if dishonest {
			d.dg = pick(rng, []string{sha256Digest([]byte("other")), "", "sha512:" + strings.Repeat("a", 128)})
		}
		x.bs = []respBRes{{kind: "reader", d: d, content: content}}
	case "getTag":
		if dishonest {
			d.dg = pick(rng, []string{sha256Digest([]byte("other")), "sha512:" + strings.Repeat("a", 128)})
		}
		x.bs = []respBRes{{kind: "reader", d: d, content: content}, {kind: "desc", d: d}}
	case "getBlobRange":
		x.c.dg = dg
		x.c.o0, x.c.o1 = respOffsets(rng, int64(len(content)))
		x.bs = []respBRes{{kind: "reader", d: d, content: respSlice(content, x.c.o0, x.c.o1)}}
	case "resolveBlob", "resolveManifest", "resolveTag":
		if name != "resolveTag" {
			x.c.dg = dg
		}
		d.size = pick(rng, []int64{d.size, 0, 1, 1 << 40})
		if dishonest {
			d.dg = pick(rng, []string{sha256Digest([]byte("other")), "", "bogus"})
		}
		x.bs = []respBRes{{kind: "desc", d: d}}
	case "pushManifest":
		content, x.subject = respSubjectBody(rng)
		dg = sha256Digest([]byte(content))
		mt = pick(rng, []string{mtManifest, mtIndex, "text/plain", "application/vnd.docker.distribution.manifest.v2+json", ""})
		x.c.mt, x.c.content = mt, content
		x.ctype, x.body = mt, content
		if rng.Bool() {
			x.byTag = "0"
		}
		d = respDesc{mt: mt, dg: dg, size: int64(len(content))}
		if dishonest {
			d = respDesc{mt: "text/other", dg: "sha512:" + strings.Repeat("a", 128), size: 7}
		}
		x.bs = []respBRes{{kind: "desc", d: d}}
	case "mountBlob":
		x.c.dg = dg
		if dishonest {
			d.dg = pick(rng, []string{sha256Digest([]byte("other")), "", "bogus"})
		}
		x.bs = []respBRes{{kind: "desc", d: d}}
	case "pushBlob":
		x.c.mt, x.c.content = mt, content
		if dishonest {
			d = respDesc{mt: "text/other", dg: sha256Digest([]byte("other")), size: 7}
		}
		x.bs = []respBRes{{kind: "writer", id: pick(rng, []string{"abc", "a/b?c", "ü", "upload-1"}), size: 0, chunk: 16}}
		x.bs = append(x.bs, respBRes{kind: "commit", id: x.bs[0].id, d: d})
	case "pushBlobChunked":
		x.c.chunk = pick(rng, []int64{0, -1, 1, 16, 65536, 100000})
		x.bs = []respBRes{{kind: "writer", id: pick(rng, []string{"abc", "a/b?c", "ü", "upload-1", strings.Repeat("i", 100)}), size: 0, chunk: pick(rng, []int64{0, 16, 65536, 65537, 100000, -1})}}
	case "resumeAsk":
		x.c.chunk = pick(rng, []int64{0, -1, 1, 16, 65536, 100000})
		x.bs = []respBRes{{kind: "writer", id: pick(rng, []string{"abc", "a/b?c", "ü"}), size: pick(rng, []int64{0, 1, 2, 3, 10, 65536, 1 << 40}), chunk: 16}}
	case "flushPatch":
		x.bs = []respBRes{{kind: "writer", id: pick(rng, []string{"abc", "a/b?c", "ü"}), size: 10, chunk: 16}}
	case "commit":
		x.c.size = int64(rng.Intn(50))
		x.c.dg = pick(rng, []string{dg, "sha512:" + strings.Repeat("c", 128)})
		d = respDesc{mt: mtOctet, dg: x.c.dg, size: x.c.size}
		if dishonest {
			d = respDesc{mt: "text/other", dg: sha256Digest([]byte("other")), size: 7}
		}
		x.bs = []respBRes{{kind: "commit", id: pick(rng, []string{"abc", "a/b?c", "ü"}), d: d}}
	case "delete":
		x.bs = []respBRes{{kind: "unit"}}
	}
	return x.String()
}

func (x respRT) String() string {
	s := fmt.Sprintf("resp rt %s %s %s %s %s %s", x.o, x.c, tok(x.ctype), tok(x.body), x.subject, x.byTag)
	for _, b := range x.bs {
		s += " " + b.String()
	}
	return s
}

func respRTListLine(rng *RNG) string {
	o := respOptsGen(rng)
	what := pick(rng, []string{"tags", "catalog"})
	var listing []string
	for _, i := range rng.Perm(len(respNames))[:rng.Intn(9)] {
		listing = append(listing, respNames[i])
	}
	sort.Strings(listing)
	n := pick(rng, []int64{1, 2, 3, 5, 1000, 0, -1, int64(len(listing)), int64(len(listing)) + 1})
	start := pick(rng, []string{"", "", "a", "b", "x y", "zzzz", "\x01"})
	if len(listing) > 0 && rng.Chance(1, 3) {
		start = pick(rng, listing)
	}
	s := fmt.Sprintf("resp rtlist %s %s %d %s %d", o, what, n, tok(start), len(listing))
	for _, it := range listing {
		s += " " + tok(it)
	}
	return s
}

// ---- std ----

func respStdLine(rng *RNG) string {
	ascii := func(n int) string {
		b := make([]byte, n)
		for i := range b {
			b[i] = byte(rng.Intn(128))
		}
		return string(b)
	}
	switch rng.Intn(5) {
	case 0:
		return "resp qesc " + tok(string(rng.Bytes(rng.Intn(12))))
	case 1:
		s := pick(rng, []string{url.QueryEscape(string(rng.Bytes(rng.Intn(8)))), "%zz", "%4", "a+b", "%", "%41%", "100%25", "%e4%bd%a0", "a%2", "%G0", "+%2B+"})
		return "resp qunesc " + tok(s)
	case 2:
		s := ascii(rng.Intn(10))
		if rng.Chance(1, 3) {
			s += pick(rng, []string{"ü", "日本", "é", "\U0001F600", "߿"})
		}
		return "resp jsonstr " + tok(s)
	case 3:
		s := pick(rng, []string{"a=1&&b", "a;b=1", "%zz=1", "=x", "a=b=c", "", "&", "a", "a=", "last=x+y&n=3", "n=1&last=a%2Fb&last=c", "a=%zz", "a=1;b=2&c=3", "a=%26&b=%3D"})
		if rng.Bool() {
			vs := url.Values{}
			for i := rng.Intn(4); i > 0; i-- {
				vs.Add(pick(rng, []string{"n", "last", "a b", "é", ""}), string(rng.Bytes(rng.Intn(5))))
			}
			s = vs.Encode()
		}
		return "resp parsequery " + tok(s)
	default:
		n := rng.Intn(5)
		s := fmt.Sprintf("resp encquery %d", n)
		for i := 0; i < n; i++ {
			s += " " + tok(pick(rng, []string{"n", "last", "a b", "é", "", "N", "la", "m"})) + " " + tok(string(rng.Bytes(rng.Intn(5))))
		}
		return s
	}
}

func (*c03r) Gen(rng *RNG, tier string) []Case {
	var cases []Case
	add := func(tag, line string) { cases = append(cases, Case{Tag: tag, Lines: []string{line}}) }
	scale := 3
	if tier == "thorough" {
		scale = 40
	}
	for i := 0; i < 2500*scale; i++ {
		add("srv", respSrvLine(rng))
	}
	for _, name := range respCalls {
		for i := 0; i < 30*scale; i++ {
			add("cli-valid", respCliLine(rng, name, 0))
		}
		for i := 0; i < 170*scale; i++ {
			add("cli-spoiled", respCliLine(rng, name, 1+rng.Intn(2)))
		}
	}
	for rep := 0; rep < scale; rep++ {
		for _, l := range respCliDirected(rng) {
			add("cli-directed", l)
		}
	}
	for _, l := range respCliBig() {
		add("cli-big", l)
	}
	for i := 0; i < 1200*scale; i++ {
		add("clilist", respCliListLine(rng))
	}
	for _, name := range respCalls {
		for i := 0; i < 70*scale; i++ {
			add("rt", respRTLine(rng, name, 0))
		}
	}
	// manifests on both sides of the client's in-memory threshold, with and without the digest header
	for _, n := range []int{131071, 131072, 131073} {
		for _, name := range []string{"getTag", "getManifest", "getBlob"} {
			for i := 0; i < 2; i++ {
				add("rt-big", respRTLine(rng, name, n))
			}
		}
	}
	for i := 0; i < 600*scale; i++ {
		add("rtlist", respRTListLine(rng))
	}
	for i := 0; i < 300*scale; i++ {
		add("clirefs", respCliRefsLine(rng))
		add("rtrefs", respRTRefsLine(rng))
	}
	for i := 0; i < 1500*scale; i++ {
		add("std", respStdLine(rng))
	}
	return cases
}
