package main

import (
	"time"
	"bytes"
	"context"
	"fmt"
	"io"
	"net/http"
	"net/http/httptest"
	"os"
	"path/filepath"
	"strconv"
	"strings"
	"sync"
	"sync/atomic"

	"cuelabs.dev/go/oci/ociregistry"
	"cuelabs.dev/go/oci/ociregistry/ocimem"
	"cuelabs.dev/go/oci/ociregistry/ociserver"
)

// C08: the in-memory registry is race-free and linearizable under concurrent use.
// The harness binary for this property is built with the race detector; the
// runtime writes its reports to $VERIF_RACE_LOG.* and the engine turns each into a failure.
//
//   conc tagswap <rounds> <readers>          a tag that always points at an existing manifest is never reported missing
//   conc session <rounds> <writers>          concurrent Write/Resume/Commit on one upload session: a committed blob matches its digest
//   conc mixed <goroutines> <ops> <seed> <server 0|1>   random operations over a small key space (race detection, no panics)
//   conc lin <seed> <clients> <ops each>     a small concurrent history checked for linearizability against the Lean model
//   conc immtags <rounds> <attackers> <readers> <seed>   immutable-tags mode (C14, "there also under concurrency"): a tag, its
//                                            manifest and its blobs under concurrent attempts to move / delete them
//
// Outputs are "ok" or a description of the failure; `conc lin` prints the recorded history
// (one event per op: invocation and response order, the op as a `mem` line, its result) and
// the model driver answers "linearizable" or "not-linearizable".

func init() { engines["C08"] = func() Engine { return &c08{} } }

type c08 struct{}

func (*c08) UsesModel() bool { return true }

func (*c08) Impl(c Case) []string {
	out := make([]string, len(c.Lines))
	for i, l := range c.Lines {
		out[i] = guard(func() string {
			t := strings.Split(l, " ")
			if len(t) < 2 || t[0] != "conc" {
				return "bad-op"
			}
			switch t[1] {
			case "tagswap":
				return c08TagSwap(atoi(t[2]), atoi(t[3]))
			case "tagswaphttp":
				return c08TagSwapHTTP(atoi(t[2]), atoi(t[3]), t[4] == "1")
			case "session":
				return c08Session(atoi(t[2]), atoi(t[3]))
			case "dupdelete":
				return c08DupDelete(atoi(t[2]), atoi(t[3]))
			case "recommit":
				return c08Recommit(atoi(t[2]), atoi(t[3]))
			case "newid":
				return c08NewID(atoi(t[2]), atoi(t[3]))
			case "dualcommit":
				return c08DualCommit(atoi(t[2]))
			case "selfcopy":
				return c08SelfCopy(atoi(t[2]))
			case "immtags":
				return c08ImmTags(atoi(t[2]), atoi(t[3]), atoi(t[4]), uint64(atoi(t[5])))
			case "mixed":
				return c08Mixed(atoi(t[2]), atoi(t[3]), uint64(atoi(t[4])), t[5] == "1")
			case "lin":
				return "skip"
			case "linhist":
				return "linearizable" // the recorded history is judged by the model (and cross-checked by the oracle)
			}
			return "bad-op"
		})
	}
	return out
}

func atoi(s string) int { n, _ := strconv.Atoi(s); return n }

func pushBlobOK(r ociregistry.Interface, repo string, data []byte) ociregistry.Descriptor {
	d := ociregistry.Descriptor{MediaType: "application/octet-stream", Digest: ociregistry.Digest(sha256Digest(data)), Size: int64(len(data))}
	if _, err := r.PushBlob(context.Background(), repo, d, bytes.NewReader(data)); err != nil {
		panic(err)
	}
	return d
}

// c08TagSwap: one goroutine moves a tag back and forth between two manifests, deleting the
// one the tag no longer points at only AFTER the tag has moved; at every instant the tag
// points at an existing manifest. Readers must never see MANIFEST_UNKNOWN.
func c08TagSwap(rounds, readers int) string {
	ctx := context.Background()
	r := ocimem.New()
	m := [2][]byte{[]byte("manifest one"), []byte("manifest two")}
	dig := [2]ociregistry.Digest{ociregistry.Digest(sha256Digest(m[0])), ociregistry.Digest(sha256Digest(m[1]))}
	if _, err := r.PushManifest(ctx, "a", "t", m[0], mtOpaque); err != nil {
		return "setup failed"
	}
	var stop atomic.Bool
	var missing atomic.Int64
	var firstErr atomic.Value
	var wg sync.WaitGroup
	for i := 0; i < readers; i++ {
		wg.Add(1)
		go func() {
			defer wg.Done()
			for !stop.Load() {
				rd, err := r.GetTag(ctx, "a", "t")
				if err != nil {
					missing.Add(1)
					firstErr.CompareAndSwap(nil, errClass(err))
					continue
				}
				data, _ := io.ReadAll(rd)
				rd.Close()
				if !bytes.Equal(data, m[0]) && !bytes.Equal(data, m[1]) {
					missing.Add(1)
					firstErr.CompareAndSwap(nil, "wrong-bytes")
				}
			}
		}()
	}
	for i := 0; i < rounds; i++ {
		k := (i + 1) % 2
		if _, err := r.PushManifest(ctx, "a", "t", m[k], mtOpaque); err != nil {
			stop.Store(true)
			wg.Wait()
			return "push failed: " + errClass(err)
		}
		if err := r.DeleteManifest(ctx, "a", dig[1-k]); err != nil {
			stop.Store(true)
			wg.Wait()
			return "delete failed: " + errClass(err)
		}
	}
	stop.Store(true)
	wg.Wait()
	if n := missing.Load(); n > 0 {
		return fmt.Sprintf("tag-reported-missing %v", firstErr.Load())
	}
	return "ok"
}

// c08TagSwapHTTP: the same through ociserver (in-process handler calls), under each server
// configuration that changes how a tag is read (external locations known to the server, but none
// for this manifest).
func c08TagSwapHTTP(rounds, readers int, locations bool) string {
	ctx := context.Background()
	r := ocimem.New()
	m := [2][]byte{[]byte("manifest one"), []byte("manifest two")}
	dig := [2]ociregistry.Digest{ociregistry.Digest(sha256Digest(m[0])), ociregistry.Digest(sha256Digest(m[1]))}
	if _, err := r.PushManifest(ctx, "a", "t", m[0], mtOpaque); err != nil {
		return "setup failed"
	}
	opts := &ociserver.Options{}
	if locations {
		opts.LocationsForDescriptor = func(isManifest bool, desc ociregistry.Descriptor) ([]string, error) { return nil, nil }
	}
	h := ociserver.New(r, opts)
	var stop atomic.Bool
	var missing atomic.Int64
	var firstErr atomic.Value
	var wg sync.WaitGroup
	for i := 0; i < readers; i++ {
		wg.Add(1)
		go func() {
			defer wg.Done()
			for !stop.Load() {
				for _, method := range []string{"GET", "HEAD"} {
					w := httptest.NewRecorder()
					h.ServeHTTP(w, httptest.NewRequest(method, "/v2/a/manifests/t", nil))
					if w.Code != 200 {
						missing.Add(1)
						firstErr.CompareAndSwap(nil, fmt.Sprintf("%s %d", method, w.Code))
					} else if b := w.Body.Bytes(); method == "GET" && !bytes.Equal(b, m[0]) && !bytes.Equal(b, m[1]) {
						missing.Add(1)
						firstErr.CompareAndSwap(nil, "wrong-bytes")
					}
				}
			}
		}()
	}
	for i := 0; i < rounds; i++ {
		k := (i + 1) % 2
		if _, err := r.PushManifest(ctx, "a", "t", m[k], mtOpaque); err != nil {
			stop.Store(true)
			wg.Wait()
			return "push failed: " + errClass(err)
		}
		if err := r.DeleteManifest(ctx, "a", dig[1-k]); err != nil {
			stop.Store(true)
			wg.Wait()
			return "delete failed: " + errClass(err)
		}
	}
	stop.Store(true)
	wg.Wait()
	if n := missing.Load(); n > 0 {
		return fmt.Sprintf("tag-reported-missing %v", firstErr.Load())
	}
	return "ok"
}

// c08Session: several goroutines share one upload session: one writes a known prefix and
// commits it, the others keep appending to the same session (through their own handles).
// Whatever the interleaving, a blob stored under a digest must hash to that digest.
func c08Session(rounds, writers int) string {
	ctx := context.Background()
	for round := 0; round < rounds; round++ {
		r := ocimem.New()
		w0, err := r.PushBlobChunked(ctx, "a", 0)
		if err != nil {
			return "start failed"
		}
		id := w0.ID()
		prefix := []byte("committed-content-" + strconv.Itoa(round))
		if _, err := w0.Write(prefix); err != nil {
			return "write failed"
		}
		dg := ociregistry.Digest(sha256Digest(prefix))
		var wg sync.WaitGroup
		start := make(chan struct{})
		for i := 0; i < writers; i++ {
			wg.Add(1)
			go func(i int) {
				defer wg.Done()
				<-start
				w, err := r.PushBlobChunkedResume(ctx, "a", id, -1, 0)
				if err != nil {
					return
				}
				for j := 0; j < 4; j++ {
					w.Write([]byte("extra"))
					_ = w.Size()
				}
			}(i)
		}
		wg.Add(1)
		var commitErr error
		go func() {
			defer wg.Done()
			<-start
			_, commitErr = w0.Commit(dg)
		}()
		close(start)
		wg.Wait()
		// every blob in the repository must match the digest it is stored under
		for _, d := range []ociregistry.Digest{dg} {
			rd, err := r.GetBlob(ctx, "a", d)
			if err != nil {
				if commitErr == nil {
					return "committed-blob-missing"
				}
				continue
			}
			data, _ := io.ReadAll(rd)
			desc := rd.Descriptor()
			rd.Close()
			if sha256Digest(data) != string(d) || desc.Digest != d || desc.Size != int64(len(data)) {
				return fmt.Sprintf("stored-content-differs-from-digest commit-ok=%v len=%d want=%d", commitErr == nil, len(data), len(prefix))
			}
		}
	}
	return "ok"
}

// selfReader is content that comes out of the registry it is being pushed to: every Read first
// makes a call on that registry (a streaming copy of a blob within one registry does this).
type selfReader struct {
	r    *ocimem.Registry
	dg   ociregistry.Digest
	data *bytes.Reader
}

func (s *selfReader) Read(p []byte) (int, error) {
	if _, err := s.r.ResolveBlob(context.Background(), "a", s.dg); err != nil {
		return 0, err
	}
	return s.data.Read(p)
}

// c08SelfCopy: pushes whose content reader calls the registry, while other goroutines use it too.
// Every operation completes: an operation that can never return has no place in any linearization.
func c08SelfCopy(rounds int) string {
	ctx := context.Background()
	for round := 0; round < rounds; round++ {
		r := ocimem.New()
		src := []byte("source-" + strconv.Itoa(round))
		sd := pushBlobOK(r, "a", src)
		content := bytes.Repeat([]byte("copy-"+strconv.Itoa(round)), 50)
		desc := ociregistry.Descriptor{MediaType: "application/octet-stream", Digest: ociregistry.Digest(sha256Digest(content)), Size: int64(len(content))}
		done := make(chan error, 2)
		go func() {
			_, err := r.PushBlob(ctx, "b", desc, &selfReader{r: r, dg: sd.Digest, data: bytes.NewReader(content)})
			done <- err
		}()
		go func() {
			_, err := r.PushManifest(ctx, "a", "t", []byte("manifest "+strconv.Itoa(round)), mtOpaque)
			done <- err
		}()
		for i := 0; i < 2; i++ {
			select {
			case err := <-done:
				if err != nil {
					return "selfcopy-failed: " + err.Error()
				}
			case <-time.After(3 * time.Second):
				return "not-linearizable: an operation never returned (PushBlob reading content that calls the registry, next to another operation)"
			}
		}
		if _, err := r.ResolveBlob(ctx, "b", desc.Digest); err != nil {
			return "selfcopy-blob-missing"
		}
	}
	return "ok"
}

// c08Recommit: several handles on one upload session commit it (with the right digest) at the same
// time, while a hasher-sized blob keeps the registry lock contended; then the blob is deleted and
// the session committed once more. Whenever a Commit reports success, the blob is there at that
// moment (nothing deletes it in the first phase; in the second the delete has already returned).
func c08Recommit(rounds, committers int) string {
	ctx := context.Background()
	for round := 0; round < rounds; round++ {
		r := ocimem.New()
		w0, err := r.PushBlobChunked(ctx, "a", 0)
		if err != nil {
			return "start failed"
		}
		id := w0.ID()
		content := bytes.Repeat([]byte("recommit-"+strconv.Itoa(round)), 200)
		if _, err := w0.Write(content); err != nil {
			return "write failed"
		}
		dg := ociregistry.Digest(sha256Digest(content))
		var wg sync.WaitGroup
		start := make(chan struct{})
		var missing atomic.Int64
		for i := 0; i < committers; i++ {
			wg.Add(1)
			go func() {
				defer wg.Done()
				w, err := r.PushBlobChunkedResume(ctx, "a", id, -1, 0)
				if err != nil {
					return
				}
				<-start
				if _, err := w.Commit(dg); err == nil {
					if _, err := r.ResolveBlob(ctx, "a", dg); err != nil {
						missing.Add(1)
					}
				}
			}()
		}
		close(start)
		wg.Wait()
		if missing.Load() > 0 {
			return fmt.Sprintf("not-linearizable: %d commits reported success while the blob could not be resolved", missing.Load())
		}
		// commit, delete, commit again on the same session
		if err := r.DeleteBlob(ctx, "a", dg); err != nil {
			continue // nobody managed to commit: nothing more to see in this round
		}
		w, err := r.PushBlobChunkedResume(ctx, "a", id, -1, 0)
		if err != nil {
			continue
		}
		if _, err := w.Commit(dg); err == nil {
			if _, err := r.ResolveBlob(ctx, "a", dg); err != nil {
				return "not-linearizable: a commit after the blob was deleted reported success but stored nothing"
			}
		}
	}
	return "ok"
}

// c08DupDelete: several goroutines delete the same blob at once while readers keep the registry
// lock contended; in any sequential order exactly one delete succeeds.
func c08DupDelete(rounds, deleters int) string {
	ctx := context.Background()
	r := ocimem.New()
	big := bytes.Repeat([]byte("x"), 1<<16)
	bigDesc := pushBlobOK(r, "a", big)
	var stop atomic.Bool
	var bg sync.WaitGroup
	for i := 0; i < 4; i++ {
		bg.Add(1)
		go func() {
			defer bg.Done()
			for !stop.Load() {
				if rd, err := r.GetBlob(ctx, "a", bigDesc.Digest); err == nil {
					rd.Close()
				}
				ociregistry.All(r.Repositories(ctx, ""))
			}
		}()
	}
	defer func() { stop.Store(true); bg.Wait() }()
	for round := 0; round < rounds; round++ {
		d := pushBlobOK(r, "a", []byte("victim-"+strconv.Itoa(round)))
		var ok atomic.Int64
		var wg sync.WaitGroup
		start := make(chan struct{})
		for i := 0; i < deleters; i++ {
			wg.Add(1)
			go func() {
				defer wg.Done()
				<-start
				if r.DeleteBlob(ctx, "a", d.Digest) == nil {
					ok.Add(1)
				}
			}()
		}
		close(start)
		wg.Wait()
		if n := ok.Load(); n != 1 {
			return fmt.Sprintf("not-linearizable: %d of %d concurrent deletes of one blob succeeded", n, deleters)
		}
	}
	return "ok"
}

// c08NewID: several goroutines open the same caller-chosen upload ID, which does not exist yet, at the same moment
// (a PATCH on an unknown ID creates the session), and each appends one byte. Every successful Write is part of THE
// upload: afterwards its size is the number of successful writes (seed C08-12: each goroutine got a session of its own).
func c08NewID(rounds, writers int) string {
	ctx := context.Background()
	r := ocimem.New()
	for round := 0; round < rounds; round++ {
		id := "new-" + strconv.Itoa(round)
		var ok atomic.Int64
		var wg sync.WaitGroup
		start := make(chan struct{})
		for i := 0; i < writers; i++ {
			wg.Add(1)
			go func(i int) {
				defer wg.Done()
				<-start
				w, err := r.PushBlobChunkedResume(ctx, "a", id, -1, 0)
				if err != nil {
					return
				}
				if _, err := w.Write([]byte{byte('a' + i)}); err == nil {
					ok.Add(1)
				}
				w.Close()
			}(i)
		}
		close(start)
		wg.Wait()
		w, err := r.PushBlobChunkedResume(ctx, "a", id, -1, 0)
		if err != nil {
			return "not-linearizable: the upload cannot be resumed: " + errClass(err)
		}
		if n := ok.Load(); w.Size() != n {
			return fmt.Sprintf("not-linearizable: %d one-byte writes to upload %q succeeded, the upload holds %d bytes", n, id, w.Size())
		}
		w.Close()
	}
	return "ok"
}

// c08DualCommit: two handles on one upload session. A commits the content "X…" under its digest; B appends "Y" and
// commits the longer content under ITS digest, in every relative timing the scheduler produces. Whatever the order,
// a Commit that reports success reports the digest it was asked to commit, and a blob with that digest and matching
// content is stored afterwards (nothing deletes it).
func c08DualCommit(rounds int) string {
	ctx := context.Background()
	for round := 0; round < rounds; round++ {
		r := ocimem.New()
		x := bytes.Repeat([]byte("X"), 1+round%4096)
		xy := append(append([]byte{}, x...), 'Y')
		d1, d2 := ociregistry.Digest(sha256Digest(x)), ociregistry.Digest(sha256Digest(xy))
		wa, err := r.PushBlobChunked(ctx, "a", 0)
		if err != nil {
			return "setup: " + err.Error()
		}
		if _, err := wa.Write(x); err != nil {
			return "setup: " + err.Error()
		}
		wb, err := r.PushBlobChunkedResume(ctx, "a", wa.ID(), -1, 0)
		if err != nil {
			return "setup: " + err.Error()
		}
		var wg sync.WaitGroup
		var descA, descB ociregistry.Descriptor
		var errA, errB error
		start := make(chan struct{})
		wg.Add(2)
		go func() { defer wg.Done(); <-start; descA, errA = wa.Commit(d1) }()
		go func() {
			defer wg.Done()
			<-start
			if _, errB = wb.Write([]byte("Y")); errB == nil {
				descB, errB = wb.Commit(d2)
			}
		}()
		close(start)
		wg.Wait()
		for _, c := range []struct {
			who  string
			asked ociregistry.Digest
			desc ociregistry.Descriptor
			err  error
		}{{"A", d1, descA, errA}, {"B", d2, descB, errB}} {
			if c.err != nil {
				continue
			}
			if c.desc.Digest != c.asked {
				return fmt.Sprintf("not-linearizable: Commit(%s) by %s succeeded but reports digest %s", c.asked[:15], c.who, c.desc.Digest)
			}
			rd, err := r.GetBlob(ctx, "a", c.asked)
			if err != nil {
				return fmt.Sprintf("not-linearizable: Commit(%s) by %s succeeded but the blob is not stored: %s", c.asked[:15], c.who, errClass(err))
			}
			data, _ := io.ReadAll(rd)
			rd.Close()
			if sha256Digest(data) != string(c.asked) {
				return fmt.Sprintf("stored-content-differs: blob %s holds %d bytes hashing to %s", c.asked[:15], len(data), sha256Digest(data)[:15])
			}
		}
	}
	return "ok"
}

// c08Mixed: random operations from many goroutines over a small key space, directly or
// through ociserver (in-process handler calls). Only panics and data races are failures here.
func c08Mixed(goroutines, ops int, seed uint64, server bool) string {
	ctx := context.Background()
	r := ocimem.New()
	var handler http.Handler
	if server {
		handler = ociserver.New(r, nil)
	}
	blobs := [][]byte{[]byte("a"), []byte("bb"), []byte("ccc")}
	for _, b := range blobs {
		pushBlobOK(r, "a", b)
		pushBlobOK(r, "b", b)
	}
	w0, _ := r.PushBlobChunked(ctx, "a", 0)
	sharedID := w0.ID()
	var panics atomic.Int64
	var wg sync.WaitGroup
	for g := 0; g < goroutines; g++ {
		wg.Add(1)
		go func(g int) {
			defer wg.Done()
			defer func() {
				if rec := recover(); rec != nil {
					panics.Add(1)
					lastPanic = fmt.Sprint(rec)
				}
			}()
			rng := NewRNG(seed*1000 + uint64(g))
			for i := 0; i < ops; i++ {
				repo := pick(rng, []string{"a", "b"})
				b := pick(rng, blobs)
				dg := ociregistry.Digest(sha256Digest(b))
				tag := pick(rng, []string{"t1", "t2"})
				if server && rng.Chance(1, 2) {
					var req *http.Request
					switch rng.Intn(5) {
					case 0:
						req = httptest.NewRequest("GET", "/v2/"+repo+"/blobs/"+string(dg), nil)
					case 1:
						req = httptest.NewRequest("GET", "/v2/"+repo+"/manifests/"+tag, nil)
					case 2:
						req = httptest.NewRequest("GET", "/v2/_catalog", nil)
					case 3:
						req = httptest.NewRequest("PUT", "/v2/"+repo+"/manifests/"+tag, bytes.NewReader(b))
						req.Header.Set("Content-Type", mtOpaque)
					default:
						req = httptest.NewRequest("GET", "/v2/"+repo+"/tags/list", nil)
					}
					handler.ServeHTTP(httptest.NewRecorder(), req)
					continue
				}
				switch rng.Intn(14) {
				case 0:
					if rd, err := r.GetBlob(ctx, repo, dg); err == nil {
						io.Copy(io.Discard, rd)
						rd.Close()
					}
				case 1:
					r.PushBlob(ctx, repo, ociregistry.Descriptor{MediaType: "application/octet-stream", Digest: dg, Size: int64(len(b))}, bytes.NewReader(b))
				case 2:
					r.PushManifest(ctx, repo, tag, b, mtOpaque)
				case 3:
					if rd, err := r.GetTag(ctx, repo, tag); err == nil {
						io.Copy(io.Discard, rd)
						rd.Close()
					}
				case 4:
					r.DeleteManifest(ctx, repo, dg)
				case 5:
					r.DeleteBlob(ctx, repo, dg)
				case 6:
					r.DeleteTag(ctx, repo, tag)
				case 7:
					ociregistry.All(r.Repositories(ctx, ""))
				case 8:
					ociregistry.All(r.Tags(ctx, repo, ""))
				case 9:
					r.MountBlob(ctx, "a", "b", dg)
				case 10, 11:
					if w, err := r.PushBlobChunkedResume(ctx, "a", sharedID, int64(rng.Intn(3))-1, 0); err == nil {
						w.Write(b)
						_ = w.Size()
						if rng.Chance(1, 3) {
							w.Commit(dg)
						}
					}
				case 12:
					ociregistry.All(r.Referrers(ctx, repo, dg, ""))
				default:
					r.ResolveTag(ctx, repo, tag)
				}
			}
		}(g)
	}
	wg.Wait()
	if panics.Load() > 0 {
		return "panic"
	}
	return "ok"
}

// c08ImmTags: immutable-tags mode under concurrency (C14's clause "there also under concurrency"; the theorems over every
// schedule are Props/C14.lean `tag_stable_arun`, `tagged_manifest_kept_arun`, `reachable_blob_kept_arun`).
// One client has pushed the image manifest A (config + two layers) with the tag v1. Then `attackers` goroutines, each in
// an order drawn from the seed, try to push another manifest B under v1, to delete A by digest, to delete the tag, to
// delete A's blobs, to push A again under v1 (allowed: same content), to push B untagged and under another tag, and
// to commit chunked uploads (the two-section Commit) of a layer's bytes and of fresh bytes, while `readers` goroutines
// ResolveTag / GetTag v1 and GetBlob the layers. Oracle:
//   * every read of v1 answers A's descriptor (and GetTag A's bytes): a tag once bound resolves to the same digest and bytes;
//   * every read of a blob of A, and of A by digest, succeeds with the right bytes: what the tag references stays retrievable;
//   * no attack on v1 / A / A's blobs is accepted; pushing A again under v1 answers A's descriptor (every state of the
//     execution has v1 -> A, and in each such state the sequential registry answers just that: a refusal has no linearization);
//   * at the end v1 still resolves to A and everything is still there.
func c08ImmTags(rounds, attackers, readers int, seed uint64) string {
	ctx := context.Background()
	img := "application/vnd.oci.image.manifest.v1+json"
	type bl struct {
		data []byte
		desc ociregistry.Descriptor
	}
	for round := 0; round < rounds; round++ {
		r := newMem(true)
		sfx := strconv.Itoa(round)
		var blobs []bl
		for _, name := range []string{"config-", "layer-one-", "layer-two-"} {
			data := []byte(name + sfx)
			blobs = append(blobs, bl{data, pushBlobOK(r, "a", data)})
		}
		other := []byte("layer-of-B-" + sfx)
		otherDesc := pushBlobOK(r, "a", other)
		bd := func(d ociregistry.Descriptor) ociregistry.Descriptor {
			return descJSON(d.MediaType, string(d.Digest), d.Size)
		}
		mA := mustJSON(map[string]any{"schemaVersion": 2, "mediaType": img, "config": bd(blobs[0].desc),
			"layers": []ociregistry.Descriptor{bd(blobs[1].desc), bd(blobs[2].desc)}})
		mB := mustJSON(map[string]any{"schemaVersion": 2, "mediaType": img, "config": bd(blobs[0].desc),
			"layers": []ociregistry.Descriptor{bd(otherDesc)}})
		descA, err := r.PushManifest(ctx, "a", "v1", mA, img)
		if err != nil {
			return "setup failed: " + errClass(err)
		}
		if string(descA.Digest) != sha256Digest(mA) || descA.MediaType != img || descA.Size != int64(len(mA)) {
			return "setup failed: descriptor of A"
		}
		digB := ociregistry.Digest(sha256Digest(mB))

		var first atomic.Value
		fail := func(format string, args ...any) { first.CompareAndSwap(nil, fmt.Sprintf(format, args...)) }
		// the reads the property is about; `who` says when they were made
		checkReads := func(who string) {
			d, err := r.ResolveTag(ctx, "a", "v1")
			if err != nil {
				fail("tag-moved: %s: ResolveTag v1 failed (%s)", who, errClass(err))
			} else if d.Digest != descA.Digest || d.MediaType != descA.MediaType || d.Size != descA.Size {
				fail("tag-moved: %s: ResolveTag v1 = %s %s %d, was bound to %s %s %d", who, d.Digest, d.MediaType, d.Size, descA.Digest, descA.MediaType, descA.Size)
			}
			rd, err := r.GetTag(ctx, "a", "v1")
			if err != nil {
				fail("tag-moved: %s: GetTag v1 failed (%s)", who, errClass(err))
			} else {
				d := rd.Descriptor()
				data, rerr := io.ReadAll(rd)
				rd.Close()
				if rerr != nil || d.Digest != descA.Digest || d.MediaType != descA.MediaType || !bytes.Equal(data, mA) {
					fail("tag-moved: %s: GetTag v1 = %s %s with %d bytes (same bytes: %v), was bound to %s %s", who, d.Digest, d.MediaType, len(data), bytes.Equal(data, mA), descA.Digest, descA.MediaType)
				}
			}
			rd, err = r.GetManifest(ctx, "a", descA.Digest)
			if err != nil {
				fail("tagged-content-lost: %s: GetManifest of the manifest v1 points at failed (%s)", who, errClass(err))
			} else {
				data, _ := io.ReadAll(rd)
				rd.Close()
				if !bytes.Equal(data, mA) {
					fail("tagged-content-lost: %s: the manifest v1 points at has other bytes", who)
				}
			}
			for i, b := range blobs {
				rd, err := r.GetBlob(ctx, "a", b.desc.Digest)
				if err != nil {
					fail("tagged-content-lost: %s: GetBlob of blob %d referenced by v1's manifest failed (%s)", who, i, errClass(err))
					continue
				}
				data, _ := io.ReadAll(rd)
				rd.Close()
				if !bytes.Equal(data, b.data) {
					fail("tagged-content-lost: %s: blob %d referenced by v1's manifest has other bytes", who, i)
				}
			}
		}

		var stop atomic.Bool
		var rwg, awg sync.WaitGroup
		start := make(chan struct{})
		for i := 0; i < readers; i++ {
			rwg.Add(1)
			go func() {
				defer rwg.Done()
				<-start
				for !stop.Load() {
					checkReads("reader")
				}
			}()
		}
		const nAttacks = 12
		for i := 0; i < attackers; i++ {
			awg.Add(1)
			go func(i int) {
				defer awg.Done()
				rng := NewRNG(seed + uint64(round)*1000003 + uint64(i)*7919)
				<-start
				for pass := 0; pass < 2; pass++ {
					for _, k := range rng.Perm(nAttacks) {
						switch k {
						case 0: // move the tag
							if _, err := r.PushManifest(ctx, "a", "v1", mB, img); err == nil {
								fail("tag-moved: PushManifest of other content under the bound tag v1 accepted")
							}
						case 1: // the same content again: allowed, answers the descriptor the tag is bound to
							d, err := r.PushManifest(ctx, "a", "v1", mA, img)
							if err != nil {
								fail("not-linearizable: PushManifest of the content v1 is bound to, under v1, refused (%s)", errClass(err))
							} else if d.Digest != descA.Digest || d.MediaType != descA.MediaType {
								fail("tag-moved: PushManifest of the same content under v1 answered %s %s", d.Digest, d.MediaType)
							}
						case 2:
							if err := r.DeleteTag(ctx, "a", "v1"); err == nil {
								fail("tag-moved: DeleteTag v1 accepted")
							}
						case 3:
							if err := r.DeleteManifest(ctx, "a", descA.Digest); err == nil {
								fail("tagged-content-lost: DeleteManifest of the manifest v1 points at accepted")
							}
						case 4, 5, 6:
							if err := r.DeleteBlob(ctx, "a", blobs[k-4].desc.Digest); err == nil {
								fail("tagged-content-lost: DeleteBlob of blob %d referenced by v1's manifest accepted", k-4)
							}
						case 7: // B untagged, and deleted again (nothing protects it unless another attacker has tagged it)
							r.PushManifest(ctx, "a", "", mB, img)
							r.DeleteManifest(ctx, "a", digB)
						case 8: // B under a tag of its own (whoever comes first binds it)
							r.PushManifest(ctx, "a", "v2-"+strconv.Itoa(rng.Intn(2)), mB, img)
						case 9: // the tagged bytes under another media type, untagged (F19): must not change what v1 means
							r.PushManifest(ctx, "a", "", mA, mtOpaque)
						case 10: // a chunked upload of a layer's own bytes: Commit is two critical sections
							b := blobs[1+rng.Intn(2)]
							if w, err := r.PushBlobChunked(ctx, "a", 0); err == nil {
								w.Write(b.data[:len(b.data)/2])
								w.Write(b.data[len(b.data)/2:])
								w.Commit(b.desc.Digest)
								w.Close()
							}
						case 11: // a chunked upload of fresh bytes, deleted again (unreferenced)
							data := []byte("fresh-" + sfx + "-" + strconv.Itoa(i) + "-" + strconv.Itoa(pass))
							dg := ociregistry.Digest(sha256Digest(data))
							if w, err := r.PushBlobChunked(ctx, "a", 0); err == nil {
								w.Write(data)
								w.Commit(dg)
								w.Close()
							}
							r.DeleteBlob(ctx, "a", dg)
							r.DeleteBlob(ctx, "a", otherDesc.Digest)
						}
					}
				}
			}(i)
		}
		close(start)
		awg.Wait()
		stop.Store(true)
		rwg.Wait()
		checkReads("at the end")
		if v := first.Load(); v != nil {
			return v.(string)
		}
	}
	return "ok"
}

// ---- generation ----

func (*c08) Gen(rng *RNG, tier string) []Case {
	var cases []Case
	rounds := 20000
	if tier == "thorough" {
		rounds = 400000
	}
	cases = append(cases, Case{Tag: "tagswap", Lines: []string{fmt.Sprintf("conc tagswap %d 4", rounds)}})
	cases = append(cases, Case{Tag: "tagswap", Lines: []string{fmt.Sprintf("conc tagswap %d 8", rounds/2)}})
	cases = append(cases, Case{Tag: "tagswap", Lines: []string{fmt.Sprintf("conc tagswaphttp %d 4 0", rounds/4)}})
	cases = append(cases, Case{Tag: "tagswap", Lines: []string{fmt.Sprintf("conc tagswaphttp %d 4 1", rounds/4)}})
	sr := 300
	if tier == "thorough" {
		sr = 5000
	}
	for _, w := range []int{1, 2, 4, 8} {
		cases = append(cases, Case{Tag: "session", Lines: []string{fmt.Sprintf("conc session %d %d", sr, w)}})
	}
	cases = append(cases, Case{Tag: "dupdelete", Lines: []string{fmt.Sprintf("conc dupdelete %d 4", sr*3)}})
	cases = append(cases, Case{Tag: "newid", Lines: []string{fmt.Sprintf("conc newid %d 4", sr*10)}})
	cases = append(cases, Case{Tag: "dualcommit", Lines: []string{fmt.Sprintf("conc dualcommit %d", sr*10)}})
	cases = append(cases, Case{Tag: "selfcopy", Lines: []string{"conc selfcopy 50"}})
	for _, g := range [][2]int{{2, 2}, {4, 3}, {8, 2}} {
		cases = append(cases, Case{Tag: "immtags", Lines: []string{fmt.Sprintf("conc immtags %d %d %d %d", sr/2, g[0], g[1], rng.Intn(1<<30))}})
	}
	for _, w := range []int{1, 2, 4} {
		cases = append(cases, Case{Tag: "recommit", Lines: []string{fmt.Sprintf("conc recommit %d %d", sr, w)}})
	}
	nm := 12
	if tier == "thorough" {
		nm = 100
	}
	for i := 0; i < nm; i++ {
		g := pick(rng, []int{2, 4, 8, 16})
		cases = append(cases, Case{Tag: "mixed", Lines: []string{fmt.Sprintf("conc mixed %d %d %d %d", g, 300, rng.Intn(1<<30), i%2)}})
	}
	// small concurrent histories for the linearizability search
	nl := 150
	if tier == "thorough" {
		nl = 3000
	}
	for i := 0; i < nl; i++ {
		if c, ok := c08LinCase(rng.Uint64(), 2+rng.Intn(3), 2+rng.Intn(3)); ok {
			cases = append(cases, c)
		}
	}
	return cases
}

// c08LinCase runs a small concurrent history NOW (generation time) and records it; the case
// carries the recorded history, which the model judges. Replays re-judge the same history.
func c08LinCase(seed uint64, clients, opsEach int) (Case, bool) {
	ctx := context.Background()
	_ = ctx
	r := ocimem.New()
	setup := newRegInterp(r)
	blobs := [][]byte{[]byte("x"), []byte("yy")}
	var pre []string
	for _, b := range blobs {
		l := linePushBlob("a", "application/octet-stream", sha256Digest(b), int64(len(b)), b)
		pre = append(pre, l)
		setup.do(l)
	}
	man := []byte("m-one")
	lm := linePushManifest("a", "t", man, mtOpaque)
	pre = append(pre, lm)
	setup.do(lm)
	type ev struct {
		inv, ret int64
		line     string
		out      string
	}
	var clock atomic.Int64
	evs := make([][]ev, clients)
	var wg sync.WaitGroup
	for cidx := 0; cidx < clients; cidx++ {
		wg.Add(1)
		go func(cidx int) {
			defer wg.Done()
			rng := NewRNG(seed + uint64(cidx)*7919)
			ri := newRegInterp(r)
			for i := 0; i < opsEach; i++ {
				b := pick(rng, blobs)
				dg := sha256Digest(b)
				var l string
				switch rng.Intn(9) {
				case 0:
					l = fmt.Sprintf("mem getblob %s %s", tok("a"), tok(dg))
				case 1:
					l = fmt.Sprintf("mem deleteblob %s %s", tok("a"), tok(dg))
				case 2:
					l = linePushBlob("a", "application/octet-stream", dg, int64(len(b)), b)
				case 3:
					l = fmt.Sprintf("mem gettag %s %s", tok("a"), tok("t"))
				case 4:
					l = linePushManifest("a", "t", []byte("m-"+strconv.Itoa(rng.Intn(2))), mtOpaque)
				case 5:
					l = fmt.Sprintf("mem deletemanifest %s %s", tok("a"), tok(sha256Digest([]byte("m-"+strconv.Itoa(rng.Intn(2))))))
				case 6:
					l = fmt.Sprintf("mem tags %s %s", tok("a"), tok(""))
				case 7:
					l = fmt.Sprintf("mem resolvetag %s %s", tok("a"), tok("t"))
				default:
					l = fmt.Sprintf("mem mount %s %s %s", tok("a"), tok("b"), tok(dg))
				}
				inv := clock.Add(1)
				out := ri.do(l)
				ret := clock.Add(1)
				evs[cidx] = append(evs[cidx], ev{inv, ret, l, out})
			}
		}(cidx)
	}
	wg.Wait()
	// one protocol line: conc linhist <npre> <pre lines…> <nops> (<inv> <ret> <out> <line>)…  (fields separated by '|')
	var sb strings.Builder
	sb.WriteString("conc linhist")
	for _, p := range pre {
		sb.WriteString(" |P| " + p)
	}
	for _, ce := range evs {
		for _, e := range ce {
			sb.WriteString(fmt.Sprintf(" |E| %d %d |O| %s |L| %s", e.inv, e.ret, e.out, e.line))
		}
	}
	return Case{Tag: "lin", Lines: []string{sb.String()}}, true
}

// ---- oracle ----

func (*c08) Oracle(c Case, impl []string) []Failure {
	var fs []Failure
	for i, l := range c.Lines {
		if i >= len(impl) {
			break
		}
		got := impl[i]
		t := strings.Split(l, " ")
		if got == "ok" || got == "skip" || got == "linearizable" {
			continue
		}
		class := "conc-" + t[1]
		switch {
		case strings.HasPrefix(got, "tag-reported-missing"):
			class = "conc-tag-reported-missing"
		case strings.HasPrefix(got, "stored-content-differs"):
			class = "conc-committed-blob-mismatch"
		case strings.HasPrefix(got, "not-linearizable"):
			class = "conc-not-linearizable:" + t[1]
		case strings.HasPrefix(got, "tag-moved"):
			class = "conc-tag-moved:" + t[1]
		case strings.HasPrefix(got, "tagged-content-lost"):
			class = "conc-tagged-content-lost:" + t[1]
		case got == "panic":
			class = "conc-panic:" + t[1]
		}
		fs = append(fs, Failure{Class: class, Oracle: "concurrent_" + t[1], Index: i, Expected: "ok", Observed: got, Detail: lastPanic})
	}
	// data races reported by the runtime during this process
	if len(c.Lines) > 0 && c.Tag == "mixed" || c.Tag == "session" || c.Tag == "tagswap" || c.Tag == "recommit" || c.Tag == "selfcopy" || c.Tag == "immtags" {
		fs = append(fs, c08RaceReports(c)...)
	}
	return fs
}

var c08SeenRaces = map[string]bool{}

func c08RaceReports(c Case) []Failure {
	prefix := os.Getenv("VERIF_RACE_LOG")
	if prefix == "" {
		return nil
	}
	files, _ := filepath.Glob(prefix + ".*")
	var fs []Failure
	for _, f := range files {
		data, err := os.ReadFile(f)
		if err != nil {
			continue
		}
		for _, rep := range strings.Split(string(data), "==================") {
			if !strings.Contains(rep, "DATA RACE") {
				continue
			}
			// signature: the first cuelabs.dev frame of each of the two accesses
			var frames []string
			for _, line := range strings.Split(rep, "\n") {
				line = strings.TrimSpace(line)
				if strings.HasPrefix(line, "cuelabs.dev/go/oci/ociregistry/") && strings.Contains(line, "(") {
					fn := line[:strings.LastIndex(line, "(")]
					fn = strings.TrimPrefix(fn, "cuelabs.dev/go/oci/ociregistry/")
					frames = append(frames, fn)
				}
			}
			sig := "data-race"
			if len(frames) >= 1 {
				sig += ":" + frames[0]
			}
			for _, fr := range frames[1:] {
				if fr != frames[0] {
					sig += "+" + fr
					break
				}
			}
			if c08SeenRaces[sig] {
				continue
			}
			c08SeenRaces[sig] = true
			if len(rep) > 3000 {
				rep = rep[:3000]
			}
			fs = append(fs, Failure{Class: sig, Oracle: "race_detector", Index: 0, Expected: "no data race", Observed: "DATA RACE", Detail: rep})
		}
	}
	return fs
}

func (*c08) NonTrivial(c Case, impl []string) (bool, string) { return true, c.Tag }
